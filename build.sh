#!/bin/bash
# Rebuild everything from /repo's working tree: gen/ (translator), Coq project (full .vo), extraction, OCaml driver.
# Usage: ./build.sh [make targets...]   (default: all)
set -u
cd "$(dirname "$0")"
export PYTHONPATH=/repo PYTHONHASHSEED=0
exec 9>coq/.lock
flock 9
timeout 120 /venv/bin/python harness/reflect.py coq/gen || { echo "BUILD: translator failed"; exit 3; }
cd coq
{ cat _CoqProject.base; ls gen/*.v model/*.v facts/*.v proofs/*.v props/*.v 2>/dev/null; } > _CoqProject
if [ ! -f Makefile ] || [ _CoqProject -nt Makefile ]; then
  coq_makefile -f _CoqProject -o Makefile >/dev/null 2>&1 || { echo "BUILD: coq_makefile failed"; exit 3; }
fi
targets="$*"
if [ -z "$targets" ]; then targets="all"; fi
timeout 1500 make -k -j16 $targets 2>&1 | grep -v "^make\|^COQDEP\|conda" 
rc=${PIPESTATUS[0]}
cd ..
# extraction + driver (only when the model objects exist)
if [ -f coq/model/Driver.vo ]; then
  mkdir -p ocaml/gen
  if [ ! -f ocaml/gen/model.ml ] || [ coq/model/Driver.vo -nt ocaml/gen/model.ml ] || [ coq/extract/Extract.v -nt ocaml/gen/model.ml ]; then
    ( cd ocaml/gen && timeout 300 coqc -Q ../../coq/gen Orq -Q ../../coq/model Orq ../../coq/extract/Extract.v >/dev/null ) || { echo "BUILD: extraction failed"; exit 4; }
  fi
  if [ ! -f ocaml/driver ] || [ ocaml/gen/model.ml -nt ocaml/driver ] || [ ocaml/driver.ml -nt ocaml/driver ]; then
    ( cd ocaml && timeout 300 ocamlfind ocamlopt -O2 -w -a -I gen gen/model.mli gen/model.ml driver.ml -o driver.new >/dev/null 2>&1 && mv -f driver.new driver ) || { echo "BUILD: driver build failed"; exit 4; }
  fi
else
  echo "BUILD: model did not compile"; exit 4
fi
exit $rc
