(* Extraction of the executable model to OCaml.  Directives in use: those of ExtrOcamlBasic
   (bool, option, unit, prod, list, sumbool, sumor as OCaml types) and ExtrOcamlNativeString
   (string, ascii as OCaml string/char).  nat and Z stay the extracted inductives. *)
From Coq Require Import ExtrOcamlBasic ExtrOcamlNativeString.
From Coq Require Import String List ZArith.
From Orq Require Import Base State Machines Codec Conductor Decode Driver.
Extraction Language OCaml.
Extraction "model.ml" run_op start restore Z_to_string Z_of_string enc_cstate json_eqb.
