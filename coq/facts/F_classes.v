(* F_classes.v -- how the generated status sets classify the statuses the task table can produce.
   vm_compute sweeps over the generated table (regenerated from /repo on every run). *)
From Coq Require Import String List Bool.
From Orq Require Import GenStatuses GenEvents GenTables Base State Machines F_tables.
Import ListNotations.
Open Scope string_scope.

(* every status a task record can be moved into is completed, active, or one of the three dormant ones *)
Lemma F_task_status_classes : forall s e t, tbl_step task_table s e = Some t ->
  In t COMPLETED_STATUSES \/ In t ACTIVE_STATUSES \/ In t [S_PAUSED; S_PENDING; S_RETRYING].
Proof.
  intros s e t H.
  assert (T : table_forall task_table
                (fun _ _ t => status_in t COMPLETED_STATUSES || status_in t ACTIVE_STATUSES
                              || status_in t [S_PAUSED; S_PENDING; S_RETRYING]) = true)
    by (vm_compute; reflexivity).
  pose proof (table_forall_step _ _ T _ _ _ H) as P; cbv beta in P.
  apply orb_prop in P; destruct P as [P|P]; [apply orb_prop in P; destruct P as [P|P]|].
  - left; apply status_in_In; exact P.
  - right; left; apply status_in_In; exact P.
  - right; right; apply status_in_In; exact P.
Qed.

(* a report saying that the action is in progress (it started, runs, resumes, or is being paused or
   canceled) never leaves the task in a status that is neither active nor completed: whenever the table
   accepts such an action event the task is counted as active afterwards (or was already finished) *)
Definition in_progress_statuses : list status :=
  [S_REQUESTED; S_SCHEDULED; S_DELAYED; S_RUNNING; S_RESUMING; S_PAUSING; S_CANCELING].

Lemma F_in_progress_report_is_active : forall s st t, In st in_progress_statuses ->
  tbl_step task_table s (ACTION_EVENT_PREFIX ++ status_name st) = Some t ->
  In t ACTIVE_STATUSES \/ In t COMPLETED_STATUSES.
Proof.
  intros s st t Hst H.
  assert (T : forallb (fun st =>
                table_forall task_table
                  (fun _ e t => negb (String.eqb e (ACTION_EVENT_PREFIX ++ status_name st))
                                || status_in t ACTIVE_STATUSES || status_in t COMPLETED_STATUSES))
                in_progress_statuses = true) by (vm_compute; reflexivity).
  rewrite forallb_forall in T. specialize (T _ Hst).
  pose proof (table_forall_step _ _ T _ _ _ H) as P; cbv beta in P.
  rewrite String.eqb_refl in P; cbn [negb orb] in P.
  apply orb_prop in P; destruct P as [P|P]; [left|right]; apply status_in_In; exact P.
Qed.
