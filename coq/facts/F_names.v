(* F_names.v -- finite facts about the contextualised task-event names and what the generated
   workflow table does with them.  The domain (16 statuses x 32 flag combinations) is swept
   completely by vm_compute. *)
From Coq Require Import String List Bool.
From Orq Require Import GenStatuses GenEvents GenTables Base State Machines F_tables.
Import ListNotations.
Open Scope string_scope.

Definition all_bools5 : list (bool * bool * bool * bool * bool) :=
  flat_map (fun a => flat_map (fun b => flat_map (fun c => flat_map (fun d => map (fun e => (a, b, c, d, e))
    [true; false]) [true; false]) [true; false]) [true; false]) [true; false].

Lemma all_bools5_complete : forall a b c d e, In (a, b, c, d, e) all_bools5.
Proof. intros [] [] [] [] []; vm_compute; tauto. Qed.

Definition names_forall (p : status -> bool -> bool -> bool -> bool -> bool -> bool) : bool :=
  forallb (fun st => forallb (fun '(a, b, c, d, e) => p st a b c d e) all_bools5) all_statuses.

Lemma names_forall_spec : forall p, names_forall p = true -> forall st a b c d e, p st a b c d e = true.
Proof.
  intros p H st a b c d e. unfold names_forall in H. rewrite forallb_forall in H.
  specialize (H st (all_statuses_complete st)). rewrite forallb_forall in H.
  exact (H _ (all_bools5_complete a b c d e)).
Qed.

(* the statuses a task event can carry once its action has stopped running: these are the events
   whose names are contextualised with _workflow_active / _workflow_dormant *)
Definition settled_statuses : list status := [S_PENDING; S_PAUSED; S_SUCCEEDED; S_FAILED; S_CANCELED; S_RETRYING].

(* every name built for a status a task can have is in the vocabulary (no InvalidEvent) *)
Definition task_statuses : list status :=
  [S_REQUESTED; S_SCHEDULED; S_DELAYED; S_RUNNING; S_PENDING; S_PAUSING; S_PAUSED; S_RESUMING;
   S_SUCCEEDED; S_FAILED; S_RETRYING; S_CANCELING; S_CANCELED].

Lemma F_task_event_names_valid : forall st r a c p m, In st task_statuses ->
  string_in (task_event_name_of st r a c p m) TASK_EXECUTION_EVENTS = true.
Proof.
  intros st r a c p m H.
  assert (T : names_forall (fun st r a c p m => negb (status_in st task_statuses)
                              || string_in (task_event_name_of st r a c p m) TASK_EXECUTION_EVENTS) = true)
    by (vm_compute; reflexivity).
  pose proof (names_forall_spec _ T st r a c p m) as P; cbv beta in P.
  apply status_in_In in H; rewrite H in P; exact P.
Qed.

(* a settled task event processed while no task is active never leaves the workflow pausing or
   canceling, and never puts it there: from every status in which tasks run, the table has an entry
   for the dormant name (or the workflow is already at rest) and that entry is a resting status *)
Lemma F_dormant_event_rests : forall s st r c p m t,
  In st settled_statuses -> tbl_step wf_table s (task_event_name_of st r false c p m) = Some t ->
  ~ In t [S_PAUSING; S_CANCELING; S_RESUMING].
Proof.
  intros s st r c p m t Hst H.
  assert (T : names_forall (fun st r a c p m =>
            negb (status_in st settled_statuses) || a
            || forallb (fun s => match tbl_step wf_table s (task_event_name_of st r a c p m) with
                                 | Some t => negb (status_in t [S_PAUSING; S_CANCELING; S_RESUMING])
                                 | None => true end) all_statuses) = true) by (vm_compute; reflexivity).
  pose proof (names_forall_spec _ T st r false c p m) as P; cbv beta in P.
  apply status_in_In in Hst; rewrite Hst in P; cbn [negb orb] in P.
  rewrite forallb_forall in P. specialize (P s (all_statuses_complete s)). rewrite H in P.
  intro Hin; apply status_in_In in Hin; rewrite Hin in P; discriminate.
Qed.

Lemma F_dormant_event_accepted : forall s st r c p m,
  In s [S_PAUSING; S_CANCELING] -> In st settled_statuses ->
  exists t, tbl_step wf_table s (task_event_name_of st r false c p m) = Some t.
Proof.
  intros s st r c p m Hs Hst.
  assert (T : names_forall (fun st r a c p m =>
            negb (status_in st settled_statuses) || a
            || forallb (fun s => match tbl_step wf_table s (task_event_name_of st r a c p m) with
                                 | Some _ => true | None => false end) [S_PAUSING; S_CANCELING]) = true)
    by (vm_compute; reflexivity).
  pose proof (names_forall_spec _ T st r false c p m) as P; cbv beta in P.
  apply status_in_In in Hst; rewrite Hst in P; cbn [negb orb] in P.
  rewrite forallb_forall in P. specialize (P s Hs).
  destruct (tbl_step wf_table s (task_event_name_of st r false c p m)) as [t|]; [exists t; reflexivity|discriminate].
Qed.

(* fail fast: an abended task event that is not remediable fails the workflow from every status in
   which tasks run, whatever else is going on; while canceling it stays in the cancel class *)
Lemma F_unremediated_failure_fails : forall s a c p m,
  In s [S_RUNNING; S_PAUSING; S_PAUSED; S_RESUMING] ->
  tbl_step wf_table s (task_event_name_of S_FAILED false a c p m) = Some S_FAILED.
Proof.
  intros s a c p m Hs.
  assert (T : names_forall (fun st r a c p m =>
            negb (status_eqb st S_FAILED) || r
            || forallb (fun s => match tbl_step wf_table s (task_event_name_of st r a c p m) with
                                 | Some t => status_eqb t S_FAILED | None => false end)
                       [S_RUNNING; S_PAUSING; S_PAUSED; S_RESUMING]) = true) by (vm_compute; reflexivity).
  pose proof (names_forall_spec _ T S_FAILED false a c p m) as P; cbv beta in P.
  rewrite status_eqb_refl in P; cbn [negb orb] in P.
  rewrite forallb_forall in P. specialize (P s Hs).
  destruct (tbl_step wf_table s (task_event_name_of S_FAILED false a c p m)) as [t|]; [|discriminate].
  apply status_eqb_eq in P; subst; reflexivity.
Qed.

Lemma F_failure_while_canceling : forall r a c p m t,
  tbl_step wf_table S_CANCELING (task_event_name_of S_FAILED r a c p m) = Some t -> In t [S_CANCELING; S_CANCELED].
Proof.
  intros r a c p m t H.
  assert (T : names_forall (fun st r a c p m =>
            negb (status_eqb st S_FAILED)
            || match tbl_step wf_table S_CANCELING (task_event_name_of st r a c p m) with
               | Some t => status_in t [S_CANCELING; S_CANCELED] | None => true end) = true) by (vm_compute; reflexivity).
  pose proof (names_forall_spec _ T S_FAILED r a c p m) as P; cbv beta in P.
  rewrite status_eqb_refl in P; cbn [negb orb] in P. rewrite H in P. apply status_in_In; exact P.
Qed.

(* the workflow succeeds through a task event only when that event says: nothing active, nothing
   canceled or paused, nothing staged or next *)
Lemma F_success_only_when_complete : forall s st r a c p m,
  tbl_step wf_table s (task_event_name_of st r a c p m) = Some S_SUCCEEDED ->
  a = false /\ c = false /\ p = false /\ m = false /\ (st = S_SUCCEEDED \/ (In st ABENDED_STATUSES /\ r = true)).
Proof.
  intros s st r a c p m H.
  assert (T : names_forall (fun st r a c p m =>
            forallb (fun s => match tbl_step wf_table s (task_event_name_of st r a c p m) with
                              | Some t => negb (status_eqb t S_SUCCEEDED)
                                          || (negb a && negb c && negb p && negb m
                                              && (status_eqb st S_SUCCEEDED || (status_in st ABENDED_STATUSES && r)))
                              | None => true end) all_statuses) = true) by (vm_compute; reflexivity).
  pose proof (names_forall_spec _ T st r a c p m) as P; cbv beta in P.
  rewrite forallb_forall in P. specialize (P s (all_statuses_complete s)). rewrite H in P.
  rewrite status_eqb_refl in P; cbn [negb orb] in P.
  apply andb_prop in P; destruct P as [P1 P5].
  apply andb_prop in P1; destruct P1 as [P1 P4].
  apply andb_prop in P1; destruct P1 as [P1 P3].
  apply andb_prop in P1; destruct P1 as [P1 P2].
  apply negb_true_iff in P1; apply negb_true_iff in P2; apply negb_true_iff in P3; apply negb_true_iff in P4.
  repeat split; auto.
  apply orb_prop in P5; destruct P5 as [P5|P5].
  - left; apply status_eqb_eq; assumption.
  - right. apply andb_prop in P5; destruct P5 as [Q1 Q2]. split; [apply status_in_In; exact Q1|exact Q2].
Qed.
