(* F_sys.v -- finite facts used by the provider-protocol proofs (proofs/SysProofs.v): what the generated
   task table does with the events the protocol delivers (acknowledgement, completion reports, engine
   commands, control requests on tasks without items) and what the generated workflow table does with
   the task events and control requests the protocol can cause.  Every fact is a boolean sweep over a
   finite domain decided by vm_compute (same pattern as F_tables.v / F_names.v). *)
From Coq Require Import String List Bool.
From Orq Require Import GenStatuses GenEvents GenTables Base State Machines F_tables F_names.
Import ListNotations.
Open Scope string_scope.

(* the statuses a task record of a workflow without with-items tasks can have under the protocol *)
Definition simple_statuses : list status := [S_RUNNING; S_SUCCEEDED; S_FAILED; S_CANCELED; S_RETRYING].

(* the workflow statuses the protocol can produce (requested / scheduled / delayed are never requested) *)
Definition sys_wf_statuses : list status :=
  [S_UNSET; S_RUNNING; S_PAUSING; S_PAUSED; S_RESUMING; S_CANCELING; S_CANCELED; S_SUCCEEDED; S_FAILED].

Definition action_event_name (st : status) : string := ACTION_EVENT_PREFIX ++ status_name st.
Definition workflow_event_name (st : status) : string := WORKFLOW_EVENT_PREFIX ++ status_name st.

(* ---------------------------------------------------------------- task table *)

(* the acknowledgement: a new record, a record waiting for its retry and a running record become
   (stay) running; a completed record is left alone (it is never addressed: a new record is made) *)
Lemma F_ack_step : forall s, In s [S_UNSET; S_RETRYING; S_RUNNING] ->
  tbl_step task_table s (action_event_name S_RUNNING) = Some S_RUNNING.
Proof. intros s [H|[H|[H|[]]]]; subst; vm_compute; reflexivity. Qed.

(* a completion report on a running record completes it *)
Lemma F_report_step : forall st, In st COMPLETED_STATUSES ->
  exists n, tbl_step task_table S_RUNNING (action_event_name st) = Some n /\ In n [S_SUCCEEDED; S_FAILED; S_CANCELED].
Proof.
  intros st H.
  assert (T : forallb (fun st => match tbl_step task_table S_RUNNING (action_event_name st) with
                                 | Some n => status_in n [S_SUCCEEDED; S_FAILED; S_CANCELED] | None => false end)
                      COMPLETED_STATUSES = true) by (vm_compute; reflexivity).
  rewrite forallb_forall in T. specialize (T _ H).
  destruct (tbl_step task_table S_RUNNING (action_event_name st)) as [n|]; [|discriminate].
  exists n; split; [reflexivity|apply status_in_In; exact T].
Qed.

(* a completion report on a record without status (a record just made for a key that had none) is not
   in the table: the record stays without status *)
Lemma F_report_on_unset : forall st, In st COMPLETED_STATUSES ->
  tbl_step task_table S_UNSET (action_event_name st) = None.
Proof. intros st [H|[H|[H|[H|[H|[]]]]]]; subst; vm_compute; reflexivity. Qed.

(* engine commands: the event of a command applied to a new record gives succeeded or failed, or is
   not in the table (retry) *)
Lemma F_engine_on_unset : forall cmd n st, aget String.eqb cmd ENGINE_EVENT_MAP = Some (n, st) ->
  tbl_step task_table S_UNSET n = None \/ tbl_step task_table S_UNSET n = Some S_SUCCEEDED \/
  tbl_step task_table S_UNSET n = Some S_FAILED.
Proof.
  intros cmd n st H. apply aget_In in H.
  assert (T : forallb (fun p => match tbl_step task_table S_UNSET (fst (snd p)) with
                                | None => true | Some x => status_in x [S_SUCCEEDED; S_FAILED] end)
                      ENGINE_EVENT_MAP = true) by (vm_compute; reflexivity).
  rewrite forallb_forall in T. specialize (T _ H). cbn [fst snd] in T.
  destruct (tbl_step task_table S_UNSET n) as [x|]; [|left; reflexivity].
  apply status_in_In in T. destruct T as [T|[T|[]]]; subst; auto.
Qed.

(* engine events never start anything: their statuses are not starting statuses *)
Lemma F_engine_not_starting : forall cmd n st, aget String.eqb cmd ENGINE_EVENT_MAP = Some (n, st) ->
  status_in st STARTING_STATUSES = false.
Proof.
  intros cmd n st H. apply aget_In in H.
  assert (T : forallb (fun p => negb (status_in (snd (snd p)) STARTING_STATUSES)) ENGINE_EVENT_MAP = true)
    by (vm_compute; reflexivity).
  rewrite forallb_forall in T. specialize (T _ H). cbn [snd] in T. apply negb_true_iff in T; exact T.
Qed.

(* a control request never moves a task without items that is running: the plain workflow event names are
   in no row of an active status *)
Lemma F_request_keeps_running : forall st,
  tbl_step task_table S_RUNNING (workflow_event_name st) = None.
Proof. intro st; destruct st; vm_compute; reflexivity. Qed.

(* "workflow_failed" is in no row at all *)
Lemma F_workflow_failed_nowhere : forall s, tbl_step task_table s (workflow_event_name S_FAILED) = None.
Proof. intro s; destruct s; vm_compute; reflexivity. Qed.

(* the statuses the task table can put a record in, starting from the simple ones, by the protocol's
   events, are simple *)
Lemma F_retry_from_completed : forall s n, In s simple_statuses ->
  tbl_step task_table s EV_TASK_RETRY_REQUESTED = Some n -> n = S_RETRYING /\ In s [S_SUCCEEDED; S_FAILED].
Proof.
  intros s n Hs H.
  destruct Hs as [Hs|[Hs|[Hs|[Hs|[Hs|[]]]]]]; subst s; vm_compute in H; inversion H; subst;
    split; try reflexivity; simpl; auto.
Qed.

(* ---------------------------------------------------------------- workflow table: task events *)

Definition step_or_stay (s : status) (e : string) : status :=
  match tbl_step wf_table s e with Some n => n | None => s end.

(* From a status in which tasks run.  st is the status of the reporting record, a = some task execution is
   active, m = something is staged ready or the reporting task has a next task.  Provided a record
   that reports running is itself counted active and a record that reports retrying is staged again, the
   status after the event is truthful about a and m. *)
Lemma F_sys_task_event_running : forall s st r a c p m,
  In s [S_RUNNING; S_RESUMING; S_PAUSING; S_CANCELING] -> In st simple_statuses ->
  (st = S_RUNNING -> a = true) -> (st = S_RETRYING -> m = true) ->
  let n := step_or_stay s (task_event_name_of st r a c p m) in
  In n sys_wf_statuses /\ n <> S_UNSET /\
  (In n [S_PAUSED; S_CANCELED; S_SUCCEEDED] -> a = false) /\
  (n = S_SUCCEEDED -> m = false) /\
  (In n [S_PAUSING; S_CANCELING] -> a = true) /\
  (In n [S_RUNNING; S_RESUMING] -> a = true \/ m = true).
Proof.
  intros s st r a c p m Hs Hst Hrun Hret.
  assert (T : names_forall (fun st r a c p m =>
     negb (status_in st simple_statuses) || (status_eqb st S_RUNNING && negb a) || (status_eqb st S_RETRYING && negb m)
     || forallb (fun s =>
          let n := step_or_stay s (task_event_name_of st r a c p m) in
          status_in n sys_wf_statuses && negb (status_eqb n S_UNSET)
          && (negb (status_in n [S_PAUSED; S_CANCELED; S_SUCCEEDED]) || negb a)
          && (negb (status_eqb n S_SUCCEEDED) || negb m)
          && (negb (status_in n [S_PAUSING; S_CANCELING]) || a)
          && (negb (status_in n [S_RUNNING; S_RESUMING]) || a || m))
        [S_RUNNING; S_RESUMING; S_PAUSING; S_CANCELING]) = true) by (vm_compute; reflexivity).
  pose proof (names_forall_spec _ T st r a c p m) as P; cbv beta in P.
  apply status_in_In in Hst; rewrite Hst in P; cbn [negb orb] in P.
  assert (E1 : status_eqb st S_RUNNING && negb a = false).
  { destruct (status_eqb st S_RUNNING) eqn:E; [|reflexivity]. apply status_eqb_eq in E. rewrite (Hrun E). reflexivity. }
  assert (E2 : status_eqb st S_RETRYING && negb m = false).
  { destruct (status_eqb st S_RETRYING) eqn:E; [|reflexivity]. apply status_eqb_eq in E. rewrite (Hret E). reflexivity. }
  rewrite E1, E2 in P; cbn [orb] in P.
  rewrite forallb_forall in P. specialize (P s Hs). cbv zeta in P. cbv zeta.
  set (n := step_or_stay s (task_event_name_of st r a c p m)) in *.
  repeat (apply andb_prop in P; destruct P as [P ?]).
  split; [apply status_in_In; exact P|].
  split; [intro E; rewrite E in *; discriminate|].
  split; [intro Hn; apply status_in_In in Hn; rewrite Hn in *; cbn [negb orb] in *; apply negb_true_iff; assumption|].
  split; [intro Hn; rewrite Hn in *; cbn [status_eqb S_SUCCEEDED negb orb] in *; apply negb_true_iff; assumption|].
  split; [intro Hn; apply status_in_In in Hn; rewrite Hn in *; cbn [negb orb] in *; assumption|].
  intro Hn; apply status_in_In in Hn; rewrite Hn in *; cbn [negb orb] in *.
  destruct a; [left; reflexivity|right]. cbn [orb] in *. assumption.
Qed.

(* From a resting status (paused, canceled, succeeded, failed) a task event of the protocol either leaves
   the status alone, or fails the workflow, or (from paused, by a task that reports running) makes it
   running. *)
Lemma F_sys_task_event_resting : forall s st r a c p m,
  In s [S_PAUSED; S_CANCELED; S_SUCCEEDED; S_FAILED] -> In st simple_statuses ->
  let n := step_or_stay s (task_event_name_of st r a c p m) in
  n = s \/ n = S_FAILED \/ (s = S_PAUSED /\ st = S_RUNNING /\ n = S_RUNNING).
Proof.
  intros s st r a c p m Hs Hst.
  assert (T : names_forall (fun st r a c p m =>
     negb (status_in st simple_statuses)
     || forallb (fun s =>
          let n := step_or_stay s (task_event_name_of st r a c p m) in
          status_eqb n s || status_eqb n S_FAILED
          || (status_eqb s S_PAUSED && status_eqb st S_RUNNING && status_eqb n S_RUNNING))
        [S_PAUSED; S_CANCELED; S_SUCCEEDED; S_FAILED]) = true) by (vm_compute; reflexivity).
  pose proof (names_forall_spec _ T st r a c p m) as P; cbv beta in P.
  apply status_in_In in Hst; rewrite Hst in P; cbn [negb orb] in P.
  rewrite forallb_forall in P. specialize (P s Hs). cbv zeta in P. cbv zeta.
  apply orb_prop in P; destruct P as [P|P]; [apply orb_prop in P; destruct P as [P|P]|].
  - left; apply status_eqb_eq; exact P.
  - right; left; apply status_eqb_eq; exact P.
  - right; right. apply andb_prop in P; destruct P as [P P3]. apply andb_prop in P; destruct P as [P1 P2].
    repeat split; apply status_eqb_eq; assumption.
Qed.

(* every name built for a simple status is in the vocabulary *)
Lemma F_simple_event_names_valid : forall st r a c p m, In st simple_statuses ->
  string_in (task_event_name_of st r a c p m) TASK_EXECUTION_EVENTS = true.
Proof.
  intros st r a c p m H. apply F_task_event_names_valid.
  destruct H as [H|[H|[H|[H|[H|[]]]]]]; subst; simpl; tauto.
Qed.

(* ---------------------------------------------------------------- workflow table: control requests *)

(* the name of a control request, as a function of what the state says: a = a task execution is active,
   d = paused, and nothing active, staged ready or paused (the request completes the workflow) *)
Definition request_event_name_of (st : status) (a d : bool) : string :=
  let e0 := WORKFLOW_EVENT_PREFIX ++ status_name st in
  let e1 := if status_in st (app PAUSE_STATUSES CANCEL_STATUSES)
            then e0 ++ (if a then "_workflow_active" else "_workflow_dormant") else e0 in
  if d then e1 ++ "_workflow_completed" else e1.

Definition request_statuses_f : list status :=
  [S_PAUSING; S_PAUSED; S_RESUMING; S_RUNNING; S_CANCELING; S_CANCELED; S_FAILED].

(* What a control request of the protocol does to the workflow status.  g = a task execution is active
   or a task is staged ready (the flag d is set only when that is false, only for running / resuming
   and only from paused).  The status after the request is truthful about a and g; from unset the only
   requests accepted are running and failed. *)
Lemma F_sys_request : forall s st a d,
  In s sys_wf_statuses -> In st request_statuses_f ->
  (d = true -> s = S_PAUSED /\ a = false /\ In st [S_RUNNING; S_RESUMING]) ->
  let n := step_or_stay s (request_event_name_of st a d) in
  In n sys_wf_statuses /\
  (n = S_UNSET -> s = S_UNSET) /\
  (In n [S_PAUSED; S_CANCELED] -> n = s \/ a = false) /\
  (In n [S_PAUSING; S_CANCELING] -> n = s \/ a = true) /\
  (n = S_SUCCEEDED -> n = s \/ d = true) /\
  (In n [S_RUNNING; S_RESUMING] -> n = s \/ s = S_UNSET \/ In s [S_PAUSING; S_RUNNING; S_RESUMING] \/
                                  (s = S_PAUSED /\ d = false /\ In st [S_RUNNING; S_RESUMING])).
Proof.
  intros s st a d Hs Hst Hd.
  assert (T : forallb (fun s => forallb (fun st => forallb (fun a => forallb (fun d =>
      (d && negb (status_eqb s S_PAUSED && negb a && status_in st [S_RUNNING; S_RESUMING]))
      || (let n := step_or_stay s (request_event_name_of st a d) in
          status_in n sys_wf_statuses
          && (negb (status_eqb n S_UNSET) || status_eqb s S_UNSET)
          && (negb (status_in n [S_PAUSED; S_CANCELED]) || status_eqb n s || negb a)
          && (negb (status_in n [S_PAUSING; S_CANCELING]) || status_eqb n s || a)
          && (negb (status_eqb n S_SUCCEEDED) || status_eqb n s || d)
          && (negb (status_in n [S_RUNNING; S_RESUMING]) || status_eqb n s || status_eqb s S_UNSET
              || status_in s [S_PAUSING; S_RUNNING; S_RESUMING]
              || (status_eqb s S_PAUSED && negb d && status_in st [S_RUNNING; S_RESUMING]))))
      [true; false]) [true; false]) request_statuses_f) sys_wf_statuses = true) by (vm_compute; reflexivity).
  rewrite forallb_forall in T. specialize (T s Hs).
  rewrite forallb_forall in T. specialize (T st Hst).
  rewrite forallb_forall in T. specialize (T a (ltac:(destruct a; simpl; auto))).
  rewrite forallb_forall in T. specialize (T d (ltac:(destruct d; simpl; auto))).
  cbv zeta in T. cbv zeta.
  set (n := step_or_stay s (request_event_name_of st a d)) in *.
  assert (E : d && negb (status_eqb s S_PAUSED && negb a && status_in st [S_RUNNING; S_RESUMING]) = false).
  { destruct d; [|reflexivity]. destruct (Hd eq_refl) as [H1 [H2 H3]]. subst s a.
    apply status_in_In in H3. rewrite H3. reflexivity. }
  rewrite E in T; cbn [orb] in T.
  apply andb_prop in T; destruct T as [T T6]. apply andb_prop in T; destruct T as [T T5].
  apply andb_prop in T; destruct T as [T T4]. apply andb_prop in T; destruct T as [T T3].
  apply andb_prop in T; destruct T as [T1 T2].
  split; [apply status_in_In; exact T1|].
  split.
  { intro Hn. assert (B : status_eqb n S_UNSET = true) by (apply status_eqb_eq; exact Hn).
    rewrite B in T2; cbn [negb orb] in T2. apply status_eqb_eq; exact T2. }
  split.
  { intro Hn. apply status_in_In in Hn. rewrite Hn in T3; cbn [negb orb] in T3.
    apply orb_prop in T3; destruct T3 as [T3|T3];
      [left; apply status_eqb_eq; exact T3|right; apply negb_true_iff; exact T3]. }
  split.
  { intro Hn. apply status_in_In in Hn. rewrite Hn in T4; cbn [negb orb] in T4.
    apply orb_prop in T4; destruct T4 as [T4|T4]; [left; apply status_eqb_eq; exact T4|right; exact T4]. }
  split.
  { intro Hn. assert (B : status_eqb n S_SUCCEEDED = true) by (apply status_eqb_eq; exact Hn).
    rewrite B in T5; cbn [negb orb] in T5.
    apply orb_prop in T5; destruct T5 as [T5|T5]; [left; apply status_eqb_eq; exact T5|right; exact T5]. }
  intro Hn. apply status_in_In in Hn. rewrite Hn in T6; cbn [negb orb] in T6.
  apply orb_prop in T6; destruct T6 as [T6|T6];
    [apply orb_prop in T6; destruct T6 as [T6|T6];
       [apply orb_prop in T6; destruct T6 as [T6|T6]|]|].
  - left; apply status_eqb_eq; exact T6.
  - right; left; apply status_eqb_eq; exact T6.
  - right; right; left; apply status_in_In; exact T6.
  - right; right; right. apply andb_prop in T6; destruct T6 as [T6 C]. apply andb_prop in T6; destruct T6 as [A B].
    split; [apply status_eqb_eq; exact A|split; [apply negb_true_iff; exact B|apply status_in_In; exact C]].
Qed.

(* ---------------------------------------------------------------- small facts *)

Lemma F_retry_on_unset : tbl_step task_table S_UNSET EV_TASK_RETRY_REQUESTED = None.
Proof. vm_compute; reflexivity. Qed.

(* the acknowledgement seen by the workflow machine: from the statuses in which something is offered the
   workflow stays in that class *)
Lemma F_ack_wf : forall s r a c p m, In s [S_RUNNING; S_RESUMING; S_FAILED] ->
  In (step_or_stay s (task_event_name_of S_RUNNING r a c p m)) [S_RUNNING; S_RESUMING; S_FAILED].
Proof.
  intros s r a c p m Hs.
  assert (T : names_forall (fun st r a c p m => negb (status_eqb st S_RUNNING)
     || forallb (fun s => status_in (step_or_stay s (task_event_name_of st r a c p m)) [S_RUNNING; S_RESUMING; S_FAILED])
                [S_RUNNING; S_RESUMING; S_FAILED]) = true) by (vm_compute; reflexivity).
  pose proof (names_forall_spec _ T S_RUNNING r a c p m) as P; cbv beta in P.
  rewrite status_eqb_refl in P; cbn [negb orb] in P. rewrite forallb_forall in P. specialize (P s Hs).
  apply status_in_In; exact P.
Qed.

(* ---------------------------------------------------------------- no pause without a pause request *)

(* with no task pausing, paused or pending (flag p = false), a task event of the protocol never makes the workflow
   pausing or paused, from any status that is not pausing or paused already *)
Lemma F_np_task_event : forall s st r a c m, In s sys_wf_statuses -> ~ In s [S_PAUSING; S_PAUSED] -> In st simple_statuses ->
  In (step_or_stay s (task_event_name_of st r a c false m)) sys_wf_statuses /\
  ~ In (step_or_stay s (task_event_name_of st r a c false m)) [S_PAUSING; S_PAUSED].
Proof.
  intros s st r a c m Hs Hnp Hst.
  assert (T : names_forall (fun st r a c p m => negb (status_in st simple_statuses) || p
     || forallb (fun s => status_in s [S_PAUSING; S_PAUSED]
                          || (status_in (step_or_stay s (task_event_name_of st r a c p m)) sys_wf_statuses
                              && negb (status_in (step_or_stay s (task_event_name_of st r a c p m)) [S_PAUSING; S_PAUSED])))
                sys_wf_statuses) = true) by (vm_compute; reflexivity).
  pose proof (names_forall_spec _ T st r a c false m) as P; cbv beta in P.
  apply status_in_In in Hst; rewrite Hst in P; cbn [negb orb] in P.
  rewrite forallb_forall in P. specialize (P s Hs).
  apply orb_prop in P. destruct P as [P|P]; [apply status_in_In in P; contradiction|].
  apply andb_prop in P. destruct P as [P1 P2]. split; [apply status_in_In; exact P1|].
  intro X. apply status_in_In in X. rewrite X in P2. discriminate P2.
Qed.

(* a control request other than pausing / paused never makes the workflow pausing or paused *)
Lemma F_np_request : forall s st a d, In s sys_wf_statuses -> ~ In s [S_PAUSING; S_PAUSED] ->
  In st [S_RESUMING; S_RUNNING; S_CANCELING; S_CANCELED; S_FAILED] ->
  ~ In (step_or_stay s (request_event_name_of st a d)) [S_PAUSING; S_PAUSED].
Proof.
  intros s st a d Hs Hnp Hst.
  assert (T : forallb (fun s => forallb (fun st => forallb (fun a => forallb (fun d =>
      status_in s [S_PAUSING; S_PAUSED]
      || negb (status_in (step_or_stay s (request_event_name_of st a d)) [S_PAUSING; S_PAUSED]))
      [true; false]) [true; false]) [S_RESUMING; S_RUNNING; S_CANCELING; S_CANCELED; S_FAILED]) sys_wf_statuses = true)
    by (vm_compute; reflexivity).
  rewrite forallb_forall in T. specialize (T s Hs).
  rewrite forallb_forall in T. specialize (T st Hst).
  rewrite forallb_forall in T. specialize (T a (ltac:(destruct a; simpl; auto))).
  rewrite forallb_forall in T. specialize (T d (ltac:(destruct d; simpl; auto))).
  apply orb_prop in T. destruct T as [T|T]; [apply status_in_In in T; contradiction|].
  intro X. apply status_in_In in X. rewrite X in T. discriminate T.
Qed.
