(* F_sysitems.v -- sweeps over the generated task table and the event vocabulary used by the record level of the
   with-items protocol (proofs/SysItemsRecProofs.v).  Every fact is closed by computation over the generated
   tables. *)
From Coq Require Import String List Bool Arith.
From Orq Require Import GenStatuses GenEvents GenTables Base State Machines F_tables.
Import ListNotations.
Open Scope string_scope.

(* an item report contextualised with another active item is named "..._task_active_..." *)
Lemma F_item_name_active : forall w t route i st s l n,
  get_staged_task w t route = Some s -> s_items s = Some l ->
  status_in st item_requirements = true ->
  existsb (fun x => status_in x ACTIVE_STATUSES) (list_del_nth i l) = true ->
  item_event_name w t route i st = Val n -> contains "_task_active_" n = true.
Proof.
  intros w t route i st s l n Hs Hl Hreq Hact H. unfold item_event_name in H. rewrite Hreq, Hs, Hl in H. cbn [negb] in H.
  destruct (negb (Nat.ltb i (length l))); [discriminate|]. cbv zeta in H. rewrite Hact in H. cbn [negb andb] in H.
  inversion H; subst n. clear H.
  match goal with |- context [if ?b then _ else _] => destruct b end;
    destruct st; try (vm_compute in Hreq; discriminate Hreq); vm_compute; reflexivity.
Qed.

(* a pause or cancel request seen by a task with an active item is named "..._task_active_..." *)
Lemma F_wf_name_active : forall w t route st s l,
  get_staged_task w t route = Some s -> s_items s = Some l ->
  status_in st (app PAUSE_STATUSES CANCEL_STATUSES) = true ->
  existsb (fun x => status_in x ACTIVE_STATUSES) l = true ->
  contains "_task_active_" (task_workflow_event_name w t route st) = true.
Proof.
  intros w t route st s l Hs Hl Hpc Hact. unfold task_workflow_event_name. rewrite Hpc, Hs, Hl, Hact.
  match goal with |- context [if ?b then _ else _] => destruct b end; destruct st; try (vm_compute in Hpc; discriminate Hpc); vm_compute; reflexivity.
Qed.

(* the other workflow events are not contextualised, and none of them completes a task *)
Lemma F_wf_name_plain : forall w t route st, status_in st (app PAUSE_STATUSES CANCEL_STATUSES) = false ->
  task_workflow_event_name w t route st = WORKFLOW_EVENT_PREFIX ++ status_name st.
Proof. intros w t route st H. unfold task_workflow_event_name. rewrite H. reflexivity. Qed.

Lemma F_wf_plain_open : forall st s t, status_in st (app PAUSE_STATUSES CANCEL_STATUSES) = false ->
  tbl_step task_table s (WORKFLOW_EVENT_PREFIX ++ status_name st) = Some t ->
  status_in s COMPLETED_STATUSES = false -> status_in t COMPLETED_STATUSES = false.
Proof.
  intros st s t Hpc H Hs.
  assert (T : forall nm, table_forall task_table
                (fun s e t => negb (String.eqb e nm) || status_in s COMPLETED_STATUSES || negb (status_in t COMPLETED_STATUSES)) = true ->
              tbl_step task_table s nm = Some t -> status_in t COMPLETED_STATUSES = false).
  { intros nm T X. pose proof (table_forall_step _ _ T _ _ _ X) as P. cbv beta in P.
    rewrite String.eqb_refl, Hs in P. cbn [negb orb] in P. apply negb_true_iff in P. exact P. }
  destruct st; try (vm_compute in Hpc; discriminate Hpc); (eapply T; [|exact H]; vm_compute; reflexivity).
Qed.

(* "_task_active_" events never complete a task (boolean form of F_task_item_active_open) *)
Lemma F_active_open : forall s e t, tbl_step task_table s e = Some t -> contains "_task_active_" e = true ->
  status_in t COMPLETED_STATUSES = false.
Proof.
  intros s e t H Hc. destruct (status_in t COMPLETED_STATUSES) eqn:E; [|reflexivity].
  exfalso. apply (F_task_item_active_open _ _ _ H Hc). apply status_in_In. exact E.
Qed.

(* ... and keep an active task active *)
Lemma F_active_keeps_active : forall s e t, tbl_step task_table s e = Some t -> contains "_task_active_" e = true ->
  status_in s ACTIVE_STATUSES = true -> status_in t ACTIVE_STATUSES = true.
Proof.
  intros s e t H Hc Hs.
  assert (T : table_forall task_table
                (fun s e t => negb (contains "_task_active_" e) || negb (status_in s ACTIVE_STATUSES) || status_in t ACTIVE_STATUSES) = true)
    by (vm_compute; reflexivity).
  pose proof (table_forall_step _ _ T _ _ _ H) as P. cbv beta in P. rewrite Hc, Hs in P. exact P.
Qed.

(* the acknowledgement "action_running" leads to running *)
Lemma F_running_target : forall s x, tbl_step task_table s "action_running" = Some x -> x = S_RUNNING.
Proof.
  intros s x H.
  assert (T : table_forall task_table (fun _ e t => negb (String.eqb e "action_running") || status_eqb t S_RUNNING) = true)
    by (vm_compute; reflexivity).
  pose proof (table_forall_step _ _ T _ _ _ H) as P; cbv beta in P. rewrite String.eqb_refl in P. apply status_eqb_eq; exact P.
Qed.

(* the statuses a task with an item in flight never has: completed, or waiting for a retry *)
Definition DEAD_STATUSES : list status := S_RETRYING :: COMPLETED_STATUSES.

Lemma F_active_live : forall s e t, tbl_step task_table s e = Some t -> contains "_task_active_" e = true ->
  status_in t DEAD_STATUSES = false.
Proof.
  intros s e t H Hc.
  assert (T : table_forall task_table
                (fun s e t => negb (contains "_task_active_" e) || negb (status_in t DEAD_STATUSES)) = true)
    by (vm_compute; reflexivity).
  pose proof (table_forall_step _ _ T _ _ _ H) as P. cbv beta in P. rewrite Hc in P. apply negb_true_iff in P. exact P.
Qed.

Lemma F_wf_plain_live : forall st s t, status_in st (app PAUSE_STATUSES CANCEL_STATUSES) = false ->
  tbl_step task_table s (WORKFLOW_EVENT_PREFIX ++ status_name st) = Some t ->
  status_in s DEAD_STATUSES = false -> status_in t DEAD_STATUSES = false.
Proof.
  intros st s t Hpc H Hs.
  assert (T : forall nm, table_forall task_table
                (fun s e t => negb (String.eqb e nm) || status_in s DEAD_STATUSES || negb (status_in t DEAD_STATUSES)) = true ->
              tbl_step task_table s nm = Some t -> status_in t DEAD_STATUSES = false).
  { intros nm T X. pose proof (table_forall_step _ _ T _ _ _ X) as P. cbv beta in P.
    rewrite String.eqb_refl, Hs in P. cbn [negb orb] in P. apply negb_true_iff in P. exact P. }
  destruct st; try (vm_compute in Hpc; discriminate Hpc); (eapply T; [|exact H]; vm_compute; reflexivity).
Qed.

Lemma F_running_row : forall s, status_in s [S_UNSET; S_REQUESTED; S_SCHEDULED; S_DELAYED; S_RUNNING; S_RESUMING; S_PAUSED; S_RETRYING] = true ->
  tbl_step task_table s "action_running" = Some S_RUNNING.
Proof. intros s H. destruct s; try (vm_compute in H; discriminate H); vm_compute; reflexivity. Qed.

(* the statuses of a task that has an item out: active, or pending (an action status the protocol never reports) *)
Definition GOOD_STATUSES : list status := app ACTIVE_STATUSES [S_PENDING].

Lemma F_good_split : forall x, status_in x GOOD_STATUSES = true -> status_in x DEAD_STATUSES = false.
Proof. intros x H. destruct x; try discriminate H; reflexivity. Qed.

Lemma F_active_busy : forall s e t, tbl_step task_table s e = Some t -> contains "_task_active_" e = true ->
  status_in s GOOD_STATUSES = true -> status_in t GOOD_STATUSES = true.
Proof.
  intros s e t H Hc Hs.
  assert (T : table_forall task_table
                (fun s e t => negb (contains "_task_active_" e) || negb (status_in s GOOD_STATUSES) || status_in t GOOD_STATUSES) = true)
    by (vm_compute; reflexivity).
  pose proof (table_forall_step _ _ T _ _ _ H) as P. cbv beta in P. rewrite Hc, Hs in P. exact P.
Qed.

Lemma F_wf_plain_busy : forall st s t, status_in st (app PAUSE_STATUSES CANCEL_STATUSES) = false ->
  tbl_step task_table s (WORKFLOW_EVENT_PREFIX ++ status_name st) = Some t ->
  status_in s GOOD_STATUSES = true -> status_in t GOOD_STATUSES = true.
Proof.
  intros st s t Hpc H Hs.
  assert (T : forall nm, table_forall task_table
                (fun s e t => negb (String.eqb e nm) || negb (status_in s GOOD_STATUSES) || status_in t GOOD_STATUSES) = true ->
              tbl_step task_table s nm = Some t -> status_in t GOOD_STATUSES = true).
  { intros nm T X. pose proof (table_forall_step _ _ T _ _ _ X) as P. cbv beta in P.
    rewrite String.eqb_refl, Hs in P. exact P. }
  destruct st; try (vm_compute in Hpc; discriminate Hpc); (eapply T; [|exact H]; vm_compute; reflexivity).
Qed.

Lemma F_norow_busy : forall s, tbl_step task_table s "action_running" = None ->
  status_in s COMPLETED_STATUSES = false -> status_in s GOOD_STATUSES = true.
Proof. intros s H Hc. destruct s; try discriminate Hc; try (vm_compute in H; discriminate H); reflexivity. Qed.

(* ---- "succeeded iff every item succeeded" ---- *)
Definition SUCC_NAMES : list string :=
  ["task_continue_requested"; "task_noop_requested"; "action_succeeded"; "action_succeeded_task_dormant_items_completed"].

Lemma F_succ_names : forall s e, tbl_step task_table s e = Some S_SUCCEEDED -> string_in e SUCC_NAMES = true.
Proof.
  intros s e H.
  assert (T : table_forall task_table (fun _ e t => negb (status_eqb t S_SUCCEEDED) || string_in e SUCC_NAMES) = true)
    by (vm_compute; reflexivity).
  pose proof (table_forall_step _ _ T _ _ _ H) as P. cbv beta in P. exact P.
Qed.

Lemma existsb_all_succ : forall (P : status -> bool) l, P S_SUCCEEDED = false -> Forall (fun x => x = S_SUCCEEDED) l -> existsb P l = false.
Proof. intros P l Hp H. induction H as [|x l Hx Hl IH]; [reflexivity|]. simpl. rewrite Hx, Hp, IH. reflexivity. Qed.

(* the last report, every other item succeeded: the event that completes the task with success *)
Lemma F_item_name_all_succ : forall w t route i s l,
  get_staged_task w t route = Some s -> s_items s = Some l -> i < length l ->
  Forall (fun x => x = S_SUCCEEDED) (list_del_nth i l) ->
  item_event_name w t route i S_SUCCEEDED = Val "action_succeeded_task_dormant_items_completed".
Proof.
  intros w t route i s l Hs Hl Hil Hall. unfold item_event_name. rewrite Hs, Hl.
  apply Nat.ltb_lt in Hil. rewrite Hil. cbn [negb status_in]. cbv zeta.
  rewrite !(existsb_all_succ _ _ eq_refl Hall). reflexivity.
Qed.

(* an item report that makes the task succeeded: the report is a success and every other item succeeded *)
Lemma F_item_name_succeeded : forall w t route i st s l n cur,
  get_staged_task w t route = Some s -> s_items s = Some l ->
  status_in st item_requirements = true ->
  item_event_name w t route i st = Val n -> tbl_step task_table cur n = Some S_SUCCEEDED ->
  st = S_SUCCEEDED /\ forall x, In x (list_del_nth i l) -> x = S_SUCCEEDED.
Proof.
  intros w t route i st s l n cur Hs Hl Hreq Hn Hstep. pose proof (F_succ_names _ _ Hstep) as Hin.
  unfold item_event_name in Hn. rewrite Hreq, Hs, Hl in Hn. cbn [negb] in Hn.
  destruct (negb (Nat.ltb i (length l))); [discriminate|]. cbv zeta in Hn.
  set (others := list_del_nth i l) in *.
  destruct (existsb (fun x => status_in x ACTIVE_STATUSES) others) eqn:Eact;
  destruct (existsb (fun x => status_in x [S_PENDING; S_PAUSED]) others) eqn:Epau;
  destruct (existsb (fun x => status_eqb x S_CANCELED) others) eqn:Ecan;
  destruct (existsb (fun x => status_in x ABENDED_STATUSES) others) eqn:Efail;
  destruct (existsb (fun x => negb (status_in x COMPLETED_STATUSES)) others) eqn:Einc;
  cbn [negb andb] in Hn; inversion Hn; subst n; clear Hn;
  destruct st; try (vm_compute in Hreq; discriminate Hreq); try (vm_compute in Hin; discriminate Hin).
  split; [reflexivity|]. intros x Hx.
  assert (A : status_in x COMPLETED_STATUSES = true).
  { destruct (status_in x COMPLETED_STATUSES) eqn:E; [reflexivity|].
    assert (X : existsb (fun x => negb (status_in x COMPLETED_STATUSES)) others = true) by (apply existsb_exists; exists x; rewrite E; auto). congruence. }
  assert (B : status_eqb x S_CANCELED = false).
  { destruct (status_eqb x S_CANCELED) eqn:E; [|reflexivity].
    assert (X : existsb (fun x => status_eqb x S_CANCELED) others = true) by (apply existsb_exists; exists x; auto). congruence. }
  assert (C : status_in x ABENDED_STATUSES = false).
  { destruct (status_in x ABENDED_STATUSES) eqn:E; [|reflexivity].
    assert (X : existsb (fun x => status_in x ABENDED_STATUSES) others = true) by (apply existsb_exists; exists x; auto). congruence. }
  destruct x; try discriminate A; try discriminate B; try discriminate C; reflexivity.
Qed.

Lemma F_all_succ_step : forall s, status_in s [S_RUNNING; S_PAUSING; S_CANCELING] = true ->
  tbl_step task_table s "action_succeeded_task_dormant_items_completed" = Some S_SUCCEEDED.
Proof. intros s H. destruct s; try (vm_compute in H; discriminate H); vm_compute; reflexivity. Qed.

(* ---- "pending" is produced by a pending report only ---- *)
Lemma F_pending_name : forall s e, tbl_step task_table s e = Some S_PENDING -> e = "action_pending".
Proof.
  intros s e H.
  assert (T : table_forall task_table (fun _ e t => negb (status_eqb t S_PENDING) || String.eqb e "action_pending") = true)
    by (vm_compute; reflexivity).
  pose proof (table_forall_step _ _ T _ _ _ H) as P. cbv beta in P. simpl in P. apply String.eqb_eq. exact P.
Qed.

Definition npend (e : event) : Prop :=
  match e with
  | EvAction st _ | EvItem _ st _ _ => st <> S_PENDING
  | EvEngine n _ => n <> "action_pending"
  | EvWorkflow _ => True
  end.

Lemma F_item_name_not_pending : forall w t route i st n, st <> S_PENDING ->
  item_event_name w t route i st = Val n -> n <> "action_pending".
Proof.
  intros w t route i st n Hst H. unfold item_event_name in H.
  destruct (negb (status_in st item_requirements)).
  { inversion H; subst n. destruct st; try (exfalso; apply Hst; reflexivity); vm_compute; discriminate. }
  destruct (get_staged_task w t route) as [s|].
  2: { inversion H; subst n. destruct st; try (exfalso; apply Hst; reflexivity); vm_compute; discriminate. }
  destruct (s_items s) as [l|].
  2: { inversion H; subst n. destruct st; try (exfalso; apply Hst; reflexivity); vm_compute; discriminate. }
  destruct (negb (Nat.ltb i (length l))); [discriminate|]. cbv zeta in H.
  repeat match type of H with context [if ?b then _ else _] => destruct b end;
    inversion H; subst n; destruct st; try (exfalso; apply Hst; reflexivity); vm_compute; discriminate.
Qed.

Lemma F_wf_name_not_pending : forall w t route st, task_workflow_event_name w t route st <> "action_pending".
Proof.
  intros w t route st. unfold task_workflow_event_name.
  repeat match goal with |- context [match ?x with _ => _ end] => destruct x end; destruct st; vm_compute; discriminate.
Qed.

Lemma F_tpe_npend : forall w r e ns, npend e -> task_process_event w r e = Val ns -> ns <> Some S_PENDING.
Proof.
  intros w r e ns Hn H Hp. subst ns. unfold task_process_event in H. destruct e as [st|st res|i st res acc|n st].
  - destruct (negb _); [discriminate|]. unfold task_table_step in H. destruct (tbl_row task_table (rstatus r)) eqn:E; [|discriminate].
    inversion H as [X]. assert (Y : tbl_step task_table (rstatus r) (task_workflow_event_name w (r_id r) (r_route r) st) = Some S_PENDING)
      by (unfold tbl_step; rewrite E; exact X).
    exact (F_wf_name_not_pending _ _ _ _ (F_pending_name _ _ Y)).
  - destruct (negb _); [discriminate|]. unfold task_table_step in H. destruct (tbl_row task_table (rstatus r)) eqn:E; [|discriminate].
    inversion H as [X]. assert (Y : tbl_step task_table (rstatus r) (ev_name (EvAction st res)) = Some S_PENDING)
      by (unfold tbl_step; rewrite E; exact X).
    apply F_pending_name in Y. simpl in Hn, Y. destruct st; try (exfalso; apply Hn; reflexivity); vm_compute in Y; discriminate Y.
  - destruct (negb _); [discriminate|]. destruct (item_event_name w (r_id r) (r_route r) i st) as [n|x] eqn:En; [|discriminate].
    unfold task_table_step in H. destruct (tbl_row task_table (rstatus r)) eqn:E; [|discriminate].
    inversion H as [X]. assert (Y : tbl_step task_table (rstatus r) n = Some S_PENDING) by (unfold tbl_step; rewrite E; exact X).
    exact (F_item_name_not_pending _ _ _ _ _ _ Hn En (F_pending_name _ _ Y)).
  - destruct (negb _); [discriminate|]. unfold task_table_step in H. destruct (tbl_row task_table (rstatus r)) eqn:E; [|discriminate].
    inversion H as [X]. assert (Y : tbl_step task_table (rstatus r) n = Some S_PENDING) by (unfold tbl_step; rewrite E; exact X).
    exact (Hn (F_pending_name _ _ Y)).
Qed.

Lemma F_engine_event_npend : forall n e, engine_event n = Some e -> npend e.
Proof.
  intros n e H. unfold engine_event in H. destruct (aget String.eqb n ENGINE_EVENT_MAP) as [[nm st]|] eqn:E; inversion H; subst e.
  simpl. apply aget_In in E. simpl in E. intuition; inversion H0; subst; discriminate.
Qed.

Lemma F_good_not_pending_active : forall x, status_in x GOOD_STATUSES = true -> x <> S_PENDING -> status_in x ACTIVE_STATUSES = true.
Proof. intros x H Hn. destruct x; try discriminate H; try reflexivity. exfalso; apply Hn; reflexivity. Qed.

(* the uncontextualised workflow events ("workflow_<status>") are in the task table from "retrying" only *)
Lemma F_wf_base_only_from_retrying : forall st s t, tbl_step task_table s (WORKFLOW_EVENT_PREFIX ++ status_name st) = Some t -> s = S_RETRYING.
Proof.
  intros st s t H.
  assert (T : forall nm, table_forall task_table (fun s e _ => negb (String.eqb e nm) || status_eqb s S_RETRYING) = true ->
              tbl_step task_table s nm = Some t -> s = S_RETRYING).
  { intros nm T X. pose proof (table_forall_step _ _ T _ _ _ X) as P. cbv beta in P. rewrite String.eqb_refl in P. apply status_eqb_eq. exact P. }
  destruct st; (eapply T; [|exact H]; vm_compute; reflexivity).
Qed.

(* ---- the workflow table: "paused" and "canceled" are entered only when no task is active ---- *)
From Orq Require Import F_names F_sys.

Lemma F_rest_needs_dormant_task : forall s st r a c p m,
  let n := step_or_stay s (task_event_name_of st r a c p m) in
  In n [S_PAUSED; S_CANCELED] -> a = false \/ n = s.
Proof.
  intros s st r a c p m.
  assert (T : names_forall (fun st r a c p m =>
     forallb (fun s => let n := step_or_stay s (task_event_name_of st r a c p m) in
                       negb (status_in n [S_PAUSED; S_CANCELED]) || negb a || status_eqb n s) all_statuses) = true)
    by (vm_compute; reflexivity).
  pose proof (names_forall_spec _ T st r a c p m) as P; cbv beta in P.
  rewrite forallb_forall in P. specialize (P s (all_statuses_complete s)). cbv zeta in P. cbv zeta.
  intro Hn. apply status_in_In in Hn. rewrite Hn in P. cbn [negb orb] in P.
  apply orb_prop in P. destruct P as [P|P]; [left; apply negb_true_iff; exact P|right; apply status_eqb_eq; exact P].
Qed.

Lemma F_rest_needs_dormant_request : forall s st a d,
  let n := step_or_stay s (request_event_name_of st a d) in
  In n [S_PAUSED; S_CANCELED] -> a = false \/ n = s.
Proof.
  intros s st a d.
  assert (T : forallb (fun s => forallb (fun st => forallb (fun a => forallb (fun d =>
      let n := step_or_stay s (request_event_name_of st a d) in
      negb (status_in n [S_PAUSED; S_CANCELED]) || negb a || status_eqb n s)
      [true; false]) [true; false]) all_statuses) all_statuses = true) by (vm_compute; reflexivity).
  rewrite forallb_forall in T. specialize (T s (all_statuses_complete s)).
  rewrite forallb_forall in T. specialize (T st (all_statuses_complete st)).
  rewrite forallb_forall in T. specialize (T a (ltac:(destruct a; simpl; auto))).
  rewrite forallb_forall in T. specialize (T d (ltac:(destruct d; simpl; auto))).
  cbv zeta in T. cbv zeta. intro Hn. apply status_in_In in Hn. rewrite Hn in T. cbn [negb orb] in T.
  apply orb_prop in T. destruct T as [T|T]; [left; apply negb_true_iff; exact T|right; apply status_eqb_eq; exact T].
Qed.

(* engine events (commands, the retry event) never make a task active *)
Lemma F_engine_not_active : forall s n t, string_in n ["task_continue_requested"; "task_fail_requested"; "task_noop_requested"; "task_retry_requested"] = true ->
  tbl_step task_table s n = Some t -> status_in t ACTIVE_STATUSES = false.
Proof.
  intros s n t Hn H.
  assert (T : table_forall task_table (fun _ e t => negb (string_in e ["task_continue_requested"; "task_fail_requested"; "task_noop_requested"; "task_retry_requested"])
                                                  || negb (status_in t ACTIVE_STATUSES)) = true) by (vm_compute; reflexivity).
  pose proof (table_forall_step _ _ T _ _ _ H) as P. cbv beta in P. rewrite Hn in P. apply negb_true_iff in P. exact P.
Qed.

(* ---- a completion report never makes an inactive task active ---- *)
Definition completion_prefixes : list string := map (fun st => ACTION_EVENT_PREFIX ++ status_name st) COMPLETED_STATUSES.
Definition completion_name (e : string) : bool := existsb (fun p => starts_with p e) completion_prefixes.

Lemma F_completion_no_activation : forall s e t, tbl_step task_table s e = Some t -> completion_name e = true ->
  status_in t ACTIVE_STATUSES = true -> status_in s ACTIVE_STATUSES = true.
Proof.
  intros s e t H Hc Ht.
  assert (T : table_forall task_table (fun s e t => negb (completion_name e) || negb (status_in t ACTIVE_STATUSES) || status_in s ACTIVE_STATUSES) = true)
    by (vm_compute; reflexivity).
  pose proof (table_forall_step _ _ T _ _ _ H) as P. cbv beta in P. rewrite Hc, Ht in P. exact P.
Qed.

Lemma F_item_name_completion : forall w t route i st n, status_in st COMPLETED_STATUSES = true ->
  item_event_name w t route i st = Val n -> completion_name n = true.
Proof.
  intros w t route i st n Hst H. unfold item_event_name in H.
  destruct (negb (status_in st item_requirements)).
  { inversion H; subst n. destruct st; try discriminate Hst; vm_compute; reflexivity. }
  destruct (get_staged_task w t route) as [s|].
  2: { inversion H; subst n. destruct st; try discriminate Hst; vm_compute; reflexivity. }
  destruct (s_items s) as [l|].
  2: { inversion H; subst n. destruct st; try discriminate Hst; vm_compute; reflexivity. }
  destruct (negb (Nat.ltb i (length l))); [discriminate|]. cbv zeta in H.
  repeat match type of H with context [if ?b then _ else _] => destruct b end;
    inversion H; subst n; destruct st; try discriminate Hst; vm_compute; reflexivity.
Qed.

Lemma F_action_name_completion : forall st, status_in st COMPLETED_STATUSES = true ->
  completion_name (ACTION_EVENT_PREFIX ++ status_name st) = true.
Proof. intros st H. destruct st; try discriminate H; vm_compute; reflexivity. Qed.

(* ---- the workflow table: "pausing" and "canceling" need an active task ---- *)
Definition ITEM_STATUSES : list status := [S_RUNNING; S_PAUSING; S_PAUSED; S_CANCELING; S_CANCELED; S_SUCCEEDED; S_FAILED; S_RETRYING].

(* after a task event: st = the status of the reporting record (one of the statuses a record has under the protocol),
   counted active when it is active *)
Lemma F_held_needs_active_task : forall s st r a c p m, status_in st ITEM_STATUSES = true ->
  (status_in st ACTIVE_STATUSES = true -> a = true) ->
  In (step_or_stay s (task_event_name_of st r a c p m)) [S_PAUSING; S_CANCELING] -> a = true.
Proof.
  intros s st r a c p m Hst Hact.
  assert (T : names_forall (fun st r a c p m =>
     negb (status_in st ITEM_STATUSES) || (status_in st ACTIVE_STATUSES && negb a)
     || forallb (fun s => negb (status_in (step_or_stay s (task_event_name_of st r a c p m)) [S_PAUSING; S_CANCELING]) || a) all_statuses) = true)
    by (vm_compute; reflexivity).
  pose proof (names_forall_spec _ T st r a c p m) as P; cbv beta in P. rewrite Hst in P. cbn [negb orb] in P.
  intro Hn. destruct a; [reflexivity|]. exfalso.
  destruct (status_in st ACTIVE_STATUSES) eqn:Ea; [specialize (Hact eq_refl); discriminate Hact|]. cbn [andb orb negb] in P.
  rewrite forallb_forall in P. specialize (P s (all_statuses_complete s)). apply status_in_In in Hn. rewrite Hn in P. discriminate P.
Qed.

(* after a status request (d = the "completed" suffix, only possible from paused): the status CHANGES to pausing /
   canceling only with an active task; and a request for the status the workflow has, or "paused" while pausing,
   "canceled" while canceling, keeps pausing / canceling only with an active task *)
Lemma F_held_needs_active_request : forall s st a d, status_in st request_statuses_f = true -> (d = true -> s = S_PAUSED) ->
  let n := step_or_stay s (request_event_name_of st a d) in
  In n [S_PAUSING; S_CANCELING] ->
  a = true \/ (n = s /\ st <> s /\ ~ (st = S_PAUSED /\ s = S_PAUSING) /\ ~ (st = S_CANCELED /\ s = S_CANCELING)).
Proof.
  intros s st a d Hst Hd.
  assert (T : forallb (fun s => forallb (fun st => forallb (fun a => forallb (fun d =>
      negb (status_in st request_statuses_f) || (d && negb (status_eqb s S_PAUSED))
      || (let n := step_or_stay s (request_event_name_of st a d) in
          negb (status_in n [S_PAUSING; S_CANCELING]) || a
          || (status_eqb n s && negb (status_eqb st s) && negb (status_eqb st S_PAUSED && status_eqb s S_PAUSING)
              && negb (status_eqb st S_CANCELED && status_eqb s S_CANCELING))))
      [true; false]) [true; false]) all_statuses) all_statuses = true) by (vm_compute; reflexivity).
  rewrite forallb_forall in T. specialize (T s (all_statuses_complete s)).
  rewrite forallb_forall in T. specialize (T st (all_statuses_complete st)).
  rewrite forallb_forall in T. specialize (T a (ltac:(destruct a; simpl; auto))).
  rewrite forallb_forall in T. specialize (T d (ltac:(destruct d; simpl; auto))).
  rewrite Hst in T. cbn [negb orb] in T.
  assert (E : d && negb (status_eqb s S_PAUSED) = false).
  { destruct d; [|reflexivity]. rewrite (Hd eq_refl). reflexivity. }
  rewrite E in T. cbn [orb] in T. cbv zeta in T. cbv zeta. intro Hn. apply status_in_In in Hn. rewrite Hn in T. cbn [negb orb] in T.
  apply orb_prop in T. destruct T as [T|T]; [left; exact T|right].
  apply andb_prop in T. destruct T as [T T4]. apply andb_prop in T. destruct T as [T T3]. apply andb_prop in T. destruct T as [T1 T2].
  split; [apply status_eqb_eq; exact T1|]. split.
  - intro X. subst st. rewrite status_eqb_refl in T2. discriminate T2.
  - split; intros [X Y]; subst; [rewrite !status_eqb_refl in T3; discriminate T3|rewrite !status_eqb_refl in T4; discriminate T4].
Qed.

(* ---- the statuses the protocol never gives a record ---- *)
Definition UNUSED_STATUSES : list status := [S_PENDING; S_REQUESTED; S_SCHEDULED; S_DELAYED; S_EXPIRED; S_ABANDONED; S_RESUMING].
Definition ENTER_NAMES : list string := ["action_requested"; "action_scheduled"; "action_delayed"; "action_pending"; "action_resuming"].

Lemma F_unused_entered_by : forall s e t, tbl_step task_table s e = Some t -> status_in s UNUSED_STATUSES = false ->
  status_in t UNUSED_STATUSES = true -> string_in e ENTER_NAMES = true.
Proof.
  intros s e t H Hs Ht.
  assert (T : table_forall task_table (fun s e t => status_in s UNUSED_STATUSES || negb (status_in t UNUSED_STATUSES) || string_in e ENTER_NAMES) = true)
    by (vm_compute; reflexivity).
  pose proof (table_forall_step _ _ T _ _ _ H) as P. cbv beta in P. rewrite Hs, Ht in P. exact P.
Qed.

Definition START_STATUSES : list status := [S_PENDING; S_REQUESTED; S_SCHEDULED; S_DELAYED; S_RESUMING].
Definition nbad (e : event) : Prop :=
  match e with
  | EvAction st _ | EvItem _ st _ _ => status_in st START_STATUSES = false
  | EvEngine n _ => string_in n ENTER_NAMES = false
  | EvWorkflow _ => True
  end.

Lemma F_item_name_not_enter : forall w t route i st n, status_in st START_STATUSES = false ->
  item_event_name w t route i st = Val n -> string_in n ENTER_NAMES = false.
Proof.
  intros w t route i st n Hst H. unfold item_event_name in H.
  destruct (negb (status_in st item_requirements)).
  { inversion H; subst n. destruct st; try discriminate Hst; vm_compute; reflexivity. }
  destruct (get_staged_task w t route) as [s|].
  2: { inversion H; subst n. destruct st; try discriminate Hst; vm_compute; reflexivity. }
  destruct (s_items s) as [l|].
  2: { inversion H; subst n. destruct st; try discriminate Hst; vm_compute; reflexivity. }
  destruct (negb (Nat.ltb i (length l))); [discriminate|]. cbv zeta in H.
  repeat match type of H with context [if ?b then _ else _] => destruct b end;
    inversion H; subst n; destruct st; try discriminate Hst; vm_compute; reflexivity.
Qed.

Lemma F_wf_name_not_enter : forall w t route st, string_in (task_workflow_event_name w t route st) ENTER_NAMES = false.
Proof.
  intros w t route st. unfold task_workflow_event_name.
  repeat match goal with |- context [match ?x with _ => _ end] => destruct x end; destruct st; vm_compute; reflexivity.
Qed.

Lemma F_sys_step_val : forall cur n ns, task_table_step cur n = Val ns -> tbl_step task_table cur n = ns.
Proof. intros cur n ns H; unfold task_table_step in H; unfold tbl_step. destruct (tbl_row task_table cur); inversion H; reflexivity. Qed.

Lemma F_tpe_nbad : forall w r e x, nbad e -> status_in (rstatus r) UNUSED_STATUSES = false ->
  task_process_event w r e = Val (Some x) -> status_in x UNUSED_STATUSES = false.
Proof.
  intros w r e x Hn Hs H. destruct (status_in x UNUSED_STATUSES) eqn:Ex; [|reflexivity]. exfalso.
  unfold task_process_event in H. destruct e as [st|st res|i st res acc|n st].
  - destruct (negb _); [discriminate|]. apply F_sys_step_val in H.
    pose proof (F_unused_entered_by _ _ _ H Hs Ex) as X. rewrite F_wf_name_not_enter in X. discriminate X.
  - destruct (negb _); [discriminate|]. apply F_sys_step_val in H.
    pose proof (F_unused_entered_by _ _ _ H Hs Ex) as X. simpl in Hn, X. destruct st; try discriminate Hn; vm_compute in X; discriminate X.
  - destruct (negb _); [discriminate|]. destruct (item_event_name w (r_id r) (r_route r) i st) as [n|y] eqn:En; [|discriminate].
    apply F_sys_step_val in H. pose proof (F_unused_entered_by _ _ _ H Hs Ex) as X.
    rewrite (F_item_name_not_enter _ _ _ _ _ _ Hn En) in X. discriminate X.
  - destruct (negb _); [discriminate|]. apply F_sys_step_val in H.
    pose proof (F_unused_entered_by _ _ _ H Hs Ex) as X. unfold nbad in Hn. change (string_in n ENTER_NAMES = true) in X. rewrite Hn in X. discriminate X.
Qed.

(* no row of the task table leads to "unset" *)
Lemma F_never_unset : forall s e t, tbl_step task_table s e = Some t -> t <> S_UNSET.
Proof.
  intros s e t H.
  assert (T : table_forall task_table (fun _ _ t => negb (status_eqb t S_UNSET)) = true) by (vm_compute; reflexivity).
  pose proof (table_forall_step _ _ T _ _ _ H) as P. cbv beta in P. intro X. subst t. discriminate P.
Qed.

Lemma F_tpe_not_unset : forall w r e x, task_process_event w r e = Val (Some x) -> x <> S_UNSET.
Proof.
  intros w r e x H. unfold task_process_event in H. destruct e as [st|st res|i st res acc|n st].
  - destruct (negb _); [discriminate|]. apply F_sys_step_val in H. exact (F_never_unset _ _ _ H).
  - destruct (negb _); [discriminate|]. apply F_sys_step_val in H. exact (F_never_unset _ _ _ H).
  - destruct (negb _); [discriminate|]. destruct (item_event_name w (r_id r) (r_route r) i st) as [n|y]; [|discriminate].
    apply F_sys_step_val in H. exact (F_never_unset _ _ _ H).
  - destruct (negb _); [discriminate|]. apply F_sys_step_val in H. exact (F_never_unset _ _ _ H).
Qed.

Lemma F_item_status : forall x, status_in x UNUSED_STATUSES = false -> x <> S_UNSET -> status_in x ITEM_STATUSES = true.
Proof. intros x H Hn. destruct x; try discriminate H; try reflexivity. exfalso; apply Hn; reflexivity. Qed.

(* ---- status requests do not raise where it matters ---- *)
Lemma F_req_name_valid : forall st, status_in st request_statuses_f = true ->
  string_in (WORKFLOW_EVENT_PREFIX ++ status_name st) WORKFLOW_EXECUTION_EVENTS = true.
Proof. intros st H. destruct st; try discriminate H; vm_compute; reflexivity. Qed.

Lemma F_task_row : forall s, status_in s UNUSED_STATUSES = false -> tbl_row task_table s <> None.
Proof. intros s H. destruct s; try discriminate H; vm_compute; discriminate. Qed.

Lemma F_wf_row_held : forall s, In s [S_PAUSING; S_CANCELING] -> tbl_row wf_table s <> None.
Proof. intros s [H|[H|[]]]; subst; vm_compute; discriminate. Qed.

Lemma F_req_event_valid : forall st a d, status_in st request_statuses_f = true -> (d = true -> status_in st [S_RUNNING; S_RESUMING] = true) ->
  string_in (request_event_name_of st a d) WORKFLOW_EXECUTION_EVENTS = true.
Proof.
  intros st a d H Hd. destruct d; [specialize (Hd eq_refl)|clear Hd]; destruct a; destruct st; try discriminate H; try discriminate Hd; vm_compute; reflexivity.
Qed.

(* ---- the backward link: how an active task record stops being busy ---- *)
(* a slot that was never offered: neither active nor completed *)
Definition open_slot (x : status) : bool := negb (status_in x ACTIVE_STATUSES) && negb (status_in x COMPLETED_STATUSES).
Definition has_open (l : list status) : bool := existsb open_slot l.

(* an item report with no other active item ("..._task_dormant_..."), on an active record: the record is active afterwards
   only if it was running, the report is a success and another item was never offered -- and then it is running *)
Lemma F_dormant_report : forall w t route i st s0 l n cur x,
  get_staged_task w t route = Some s0 -> s_items s0 = Some l -> status_in st COMPLETED_STATUSES = true ->
  existsb (fun y => status_in y ACTIVE_STATUSES) (list_del_nth i l) = false ->
  item_event_name w t route i st = Val n -> status_in cur [S_RUNNING; S_PAUSING; S_CANCELING] = true ->
  (tbl_step task_table cur n = None -> False) /\
  (tbl_step task_table cur n = Some x -> status_in x ACTIVE_STATUSES = true ->
     x = S_RUNNING /\ cur = S_RUNNING /\ existsb (fun y => negb (status_in y COMPLETED_STATUSES)) (list_del_nth i l) = true).
Proof.
  intros w t route i st s0 l n cur x Hs Hl Hst Hact Hn Hcur.
  assert (Hreq : status_in st item_requirements = true) by (destruct st; try discriminate Hst; reflexivity).
  unfold item_event_name in Hn. rewrite Hreq, Hs, Hl in Hn. cbn [negb] in Hn.
  destruct (negb (Nat.ltb i (length l))); [discriminate|]. cbv zeta in Hn. rewrite Hact in Hn. cbn [negb andb] in Hn.
  destruct (existsb (fun y => status_in y [S_PENDING; S_PAUSED]) (list_del_nth i l));
  destruct (existsb (fun y => status_eqb y S_CANCELED) (list_del_nth i l));
  destruct (existsb (fun y => status_in y ABENDED_STATUSES) (list_del_nth i l));
  destruct (existsb (fun y => negb (status_in y COMPLETED_STATUSES)) (list_del_nth i l));
  cbn [negb andb] in Hn; inversion Hn; subst n; clear Hn;
  destruct st; try discriminate Hst; destruct cur; try discriminate Hcur;
  (split; [vm_compute; discriminate|intros E Hx; vm_compute in E; inversion E; subst x; try discriminate Hx; repeat split; reflexivity]).
Qed.

(* a completion report on the single action of an active task completes it *)
Lemma F_plain_report : forall st cur, status_in st COMPLETED_STATUSES = true -> status_in cur [S_RUNNING; S_PAUSING; S_CANCELING] = true ->
  exists x, tbl_step task_table cur (ACTION_EVENT_PREFIX ++ status_name st) = Some x /\ status_in x ACTIVE_STATUSES = false.
Proof.
  intros st cur Hst Hcur. destruct st; try discriminate Hst; destruct cur; try discriminate Hcur; eexists; split; vm_compute; reflexivity.
Qed.

(* a pause / cancel request seen by an active task: with an active item the task ends pausing or canceling ("told");
   with no active item but an item never offered it ends inactive *)
Lemma F_told_active : forall w t route st s0 l cur, get_staged_task w t route = Some s0 -> s_items s0 = Some l ->
  status_in st (app PAUSE_STATUSES CANCEL_STATUSES) = true -> existsb (fun x => status_in x ACTIVE_STATUSES) l = true ->
  status_in cur [S_RUNNING; S_PAUSING; S_CANCELING] = true ->
  status_in (match tbl_step task_table cur (task_workflow_event_name w t route st) with Some x => x | None => cur end) [S_PAUSING; S_CANCELING] = true.
Proof.
  intros w t route st s0 l cur Hs Hl Hpc Hact Hcur. unfold task_workflow_event_name. rewrite Hpc, Hs, Hl, Hact.
  assert (Hinc : existsb (fun x => negb (status_in x COMPLETED_STATUSES)) l = true).
  { apply existsb_exists in Hact. destruct Hact as [x [Hin Hx]]. apply existsb_exists. exists x. split; [exact Hin|].
    destruct x; try discriminate Hx; reflexivity. }
  rewrite Hinc. destruct st; try (vm_compute in Hpc; discriminate Hpc); destruct cur; try discriminate Hcur; vm_compute; reflexivity.
Qed.

Lemma F_told_dormant : forall w t route st s0 l x, get_staged_task w t route = Some s0 -> s_items s0 = Some l ->
  status_in st (app PAUSE_STATUSES CANCEL_STATUSES) = true -> existsb (fun x => status_in x ACTIVE_STATUSES) l = false ->
  has_open l = true ->
  tbl_step task_table S_RUNNING (task_workflow_event_name w t route st) = x -> exists y, x = Some y /\ status_in y ACTIVE_STATUSES = false.
Proof.
  intros w t route st s0 l x Hs Hl Hpc Hact Hop H. unfold task_workflow_event_name in H. rewrite Hpc, Hs, Hl, Hact in H.
  assert (Hinc : existsb (fun x => negb (status_in x COMPLETED_STATUSES)) l = true).
  { unfold has_open in Hop. apply existsb_exists in Hop. destruct Hop as [y [Hin Hy]]. apply existsb_exists. exists y. split; [exact Hin|].
    unfold open_slot in Hy. apply andb_prop in Hy. apply Hy. }
  rewrite Hinc in H. subst x. destruct st; try (vm_compute in Hpc; discriminate Hpc); eexists; split; vm_compute; reflexivity.
Qed.

(* an item report with another item active leaves a told task told *)
Lemma F_told_stays : forall w t route i st s0 l n cur,
  get_staged_task w t route = Some s0 -> s_items s0 = Some l -> status_in st COMPLETED_STATUSES = true ->
  existsb (fun y => status_in y ACTIVE_STATUSES) (list_del_nth i l) = true ->
  item_event_name w t route i st = Val n -> status_in cur [S_PAUSING; S_CANCELING] = true ->
  match tbl_step task_table cur n with Some x => x | None => cur end = cur.
Proof.
  intros w t route i st s0 l n cur Hs Hl Hst Hact Hn Hcur.
  assert (Hreq : status_in st item_requirements = true) by (destruct st; try discriminate Hst; reflexivity).
  unfold item_event_name in Hn. rewrite Hreq, Hs, Hl in Hn. cbn [negb] in Hn.
  destruct (negb (Nat.ltb i (length l))); [discriminate|]. cbv zeta in Hn. rewrite Hact in Hn. cbn [negb andb] in Hn.
  match type of Hn with context [if ?b then _ else _] => destruct b end; inversion Hn; subst n;
    destruct st; try discriminate Hst; destruct cur; try discriminate Hcur; vm_compute; reflexivity.
Qed.

(* a completion report on the single action of a task leaves its record inactive, whatever it was *)
Lemma F_plain_any : forall st cur, status_in st COMPLETED_STATUSES = true -> status_in cur UNUSED_STATUSES = false ->
  match tbl_step task_table cur (ACTION_EVENT_PREFIX ++ status_name st) with
  | Some x => status_in x ACTIVE_STATUSES = false
  | None => status_in cur ACTIVE_STATUSES = false
  end.
Proof.
  intros st cur Hst Hcur. destruct st; try discriminate Hst; destruct cur; try discriminate Hcur; vm_compute; reflexivity.
Qed.

(* a request that is neither a pause nor a cancel, seen by a running task: it stays running or stops *)
Lemma F_running_base : forall st x, status_in st (app PAUSE_STATUSES CANCEL_STATUSES) = false ->
  tbl_step task_table S_RUNNING (WORKFLOW_EVENT_PREFIX ++ status_name st) = Some x -> status_in x ACTIVE_STATUSES = true -> x = S_RUNNING.
Proof.
  intros st x Hst H Hx. destruct st; try discriminate Hst; vm_compute in H; inversion H; subst x; try discriminate Hx; reflexivity.
Qed.
