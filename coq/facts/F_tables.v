(* F_tables.v -- finite facts about the two generated state-machine tables.  Every fact is a
   boolean sweep over the *whole* generated table (a finite domain), decided by vm_compute and
   lifted to a universally quantified statement.  A changed table entry falsifies the facts
   that mention it, and only those. *)
From Coq Require Import String List Bool.
From Orq Require Import GenStatuses GenEvents GenTables Base State Machines.
Import ListNotations.
Open Scope string_scope.

Lemma status_eqb_eq : forall a b, status_eqb a b = true <-> a = b.
Proof. intros a b; split; [destruct a, b; simpl; intro H; try reflexivity; discriminate | intros ->; destruct b; reflexivity]. Qed.

Lemma status_eqb_refl : forall a, status_eqb a a = true.
Proof. intro a; apply status_eqb_eq; reflexivity. Qed.

Lemma all_statuses_complete : forall s, In s all_statuses.
Proof. intro s; destruct s; simpl; tauto. Qed.

Lemma status_in_In : forall s l, status_in s l = true <-> In s l.
Proof.
  intros s l; unfold status_in; rewrite existsb_exists; split.
  - intros [x [Hin He]]; apply status_eqb_eq in He; subst; exact Hin.
  - intro H; exists s; split; [exact H | apply status_eqb_refl].
Qed.

(* generic lifting: a property of every (status, event, target) entry of a table *)
Definition table_forall (tbl : list (status * list (string * status)))
           (p : status -> string -> status -> bool) : bool :=
  forallb (fun '(s, row) => forallb (fun '(e, t) => p s e t) row) tbl.

Lemma aget_In : forall {V} (k : string) (d : list (string * V)) v,
  aget String.eqb k d = Some v -> In (k, v) d.
Proof.
  intros V k d; induction d as [|[k' v'] d IH]; simpl; intros v H; [discriminate|].
  destruct (String.eqb k k') eqn:E.
  - apply String.eqb_eq in E; subst; inversion H; subst; left; reflexivity.
  - right; apply IH; exact H.
Qed.

Lemma aget_status_In : forall {V} (k : status) (d : list (status * V)) v,
  aget status_eqb k d = Some v -> In (k, v) d.
Proof.
  intros V k d; induction d as [|[k' v'] d IH]; simpl; intros v H; [discriminate|].
  destruct (status_eqb k k') eqn:E.
  - apply status_eqb_eq in E; subst; inversion H; subst; left; reflexivity.
  - right; apply IH; exact H.
Qed.

Lemma table_forall_step : forall tbl p, table_forall tbl p = true ->
  forall s e t, tbl_step tbl s e = Some t -> p s e t = true.
Proof.
  intros tbl p H s e t Hs; unfold tbl_step, tbl_row in Hs.
  destruct (aget status_eqb s tbl) as [row|] eqn:Hr; [|discriminate].
  apply aget_status_In in Hr; apply aget_In in Hs.
  unfold table_forall in H; rewrite forallb_forall in H.
  specialize (H _ Hr); simpl in H; rewrite forallb_forall in H.
  exact (H _ Hs).
Qed.

(* ---- workflow table ---- *)

(* terminal rows: failed and canceled have no outgoing entry; succeeded only to failed *)
Lemma F_wf_failed_final : forall e, tbl_step wf_table S_FAILED e = None.
Proof. intro e; unfold tbl_step; replace (tbl_row wf_table S_FAILED) with (Some (@nil (string * status))) by (vm_compute; reflexivity); reflexivity. Qed.

Lemma F_wf_canceled_final : forall e, tbl_step wf_table S_CANCELED e = None.
Proof. intro e; unfold tbl_step; replace (tbl_row wf_table S_CANCELED) with (Some (@nil (string * status))) by (vm_compute; reflexivity); reflexivity. Qed.

Lemma F_wf_succeeded_only_failed : forall e t, tbl_step wf_table S_SUCCEEDED e = Some t -> t = S_FAILED.
Proof.
  intros e t H.
  assert (T : table_forall wf_table (fun s _ t => negb (status_eqb s S_SUCCEEDED) || status_eqb t S_FAILED) = true)
    by (vm_compute; reflexivity).
  pose proof (table_forall_step _ _ T _ _ _ H) as P; cbv beta in P.
  apply status_eqb_eq; exact P.
Qed.

(* every status that can hold a workflow has a row, so process_*_event never raises
   InvalidWorkflowStatusTransition for those *)
Definition wf_statuses : list status :=
  [S_UNSET; S_REQUESTED; S_SCHEDULED; S_DELAYED; S_RUNNING; S_PAUSING; S_PAUSED; S_RESUMING;
   S_CANCELING; S_CANCELED; S_SUCCEEDED; S_FAILED].

Lemma F_wf_rows_exist : forall s, In s wf_statuses -> exists row, tbl_row wf_table s = Some row.
Proof.
  intros s H.
  assert (T : forallb (fun s => match tbl_row wf_table s with Some _ => true | None => false end) wf_statuses = true)
    by (vm_compute; reflexivity).
  rewrite forallb_forall in T; specialize (T _ H).
  destruct (tbl_row wf_table s) as [row|]; [exists row; reflexivity | discriminate].
Qed.

(* the table never leaves the set of workflow statuses *)
Lemma F_wf_closed : forall s e t, tbl_step wf_table s e = Some t -> In t wf_statuses.
Proof.
  intros s e t H.
  assert (T : table_forall wf_table (fun _ _ t => status_in t wf_statuses) = true) by (vm_compute; reflexivity).
  pose proof (table_forall_step _ _ T _ _ _ H) as P; cbv beta in P.
  apply status_in_In; exact P.
Qed.

(* once canceling or canceled, only canceling / canceled / failed are reachable *)
Lemma F_wf_cancel_closed : forall s e t,
  In s [S_CANCELING; S_CANCELED] -> tbl_step wf_table s e = Some t -> In t [S_CANCELING; S_CANCELED; S_FAILED].
Proof.
  intros s e t Hs H.
  assert (T : table_forall wf_table
                (fun s _ t => negb (status_in s [S_CANCELING; S_CANCELED])
                              || status_in t [S_CANCELING; S_CANCELED; S_FAILED]) = true)
    by (vm_compute; reflexivity).
  pose proof (table_forall_step _ _ T _ _ _ H) as P; cbv beta in P.
  apply status_in_In in Hs. rewrite Hs in P; cbn [andb negb orb] in P. apply status_in_In; exact P.
Qed.

(* no entry of the workflow table leads to succeeded from canceling *)
Lemma F_wf_canceling_never_succeeds : forall e, tbl_step wf_table S_CANCELING e <> Some S_SUCCEEDED.
Proof.
  intros e H. pose proof (F_wf_cancel_closed S_CANCELING e S_SUCCEEDED (or_introl eq_refl) H) as P.
  simpl in P; intuition discriminate.
Qed.

(* a failed task event fails the workflow from every non-terminal, non-canceling status in which
   tasks can run; from canceling it stays canceling or becomes canceled *)
Lemma F_wf_failfast : forall s, In s [S_RUNNING; S_PAUSING; S_PAUSED; S_RESUMING] ->
  tbl_step wf_table s "task_failed_workflow_active" = Some S_FAILED /\
  tbl_step wf_table s "task_failed_workflow_dormant" = Some S_FAILED.
Proof.
  intros s H.
  assert (T : forallb (fun s => match tbl_step wf_table s "task_failed_workflow_active",
                                      tbl_step wf_table s "task_failed_workflow_dormant" with
                                | Some a, Some b => status_eqb a S_FAILED && status_eqb b S_FAILED
                                | _, _ => false end)
                      [S_RUNNING; S_PAUSING; S_PAUSED; S_RESUMING] = true) by (vm_compute; reflexivity).
  rewrite forallb_forall in T; specialize (T _ H).
  destruct (tbl_step wf_table s "task_failed_workflow_active") as [a|]; [|discriminate].
  destruct (tbl_step wf_table s "task_failed_workflow_dormant") as [b|]; [|discriminate].
  apply andb_prop in T; destruct T as [Ta Tb].
  apply status_eqb_eq in Ta; apply status_eqb_eq in Tb; subst; split; reflexivity.
Qed.

(* "dormant" task events never leave the workflow in a transitional status *)
Definition ends_with (suffix s : string) : bool :=
  let n := String.length s in let m := String.length suffix in
  Nat.leb m n && String.eqb (substring (n - m) m s) suffix.

Definition contains (sub s : string) : bool :=
  match index 0 sub s with Some _ => true | None => false end.

Lemma F_wf_dormant_rests : forall s e t, tbl_step wf_table s e = Some t ->
  starts_with "task_" e = true -> contains "_workflow_dormant" e = true ->
  ~ In t [S_PAUSING; S_CANCELING; S_RESUMING].
Proof.
  intros s e t H Hp Hc.
  assert (T : table_forall wf_table
                (fun _ e t => negb (starts_with "task_" e && contains "_workflow_dormant" e)
                              || negb (status_in t [S_PAUSING; S_CANCELING; S_RESUMING])) = true)
    by (vm_compute; reflexivity).
  pose proof (table_forall_step _ _ T _ _ _ H) as P; cbv beta in P.
  rewrite Hp, Hc in P; cbn [andb negb orb] in P. intro Hin. apply status_in_In in Hin.
  rewrite Hin in P; discriminate.
Qed.

(* "active" events never put the workflow to rest *)
Lemma F_wf_active_keeps : forall s e t, tbl_step wf_table s e = Some t ->
  contains "_workflow_active" e = true ->
  ~ In t [S_PAUSED; S_CANCELED; S_SUCCEEDED].
Proof.
  intros s e t H Hc.
  assert (T : table_forall wf_table
                (fun _ e t => negb (contains "_workflow_active" e)
                              || negb (status_in t [S_PAUSED; S_CANCELED; S_SUCCEEDED])) = true)
    by (vm_compute; reflexivity).
  pose proof (table_forall_step _ _ T _ _ _ H) as P; cbv beta in P.
  rewrite Hc in P; cbn [andb negb orb] in P. intro Hin. apply status_in_In in Hin. rewrite Hin in P; discriminate.
Qed.

(* ---- task table ---- *)

(* the retry event is accepted exactly from the statuses that may transition to retrying *)
Lemma F_task_retry_valid : forall s, tbl_transition_valid task_table s S_RETRYING = true ->
  s = S_RETRYING \/ tbl_step task_table s EV_TASK_RETRY_REQUESTED = Some S_RETRYING.
Proof.
  intros s H.
  assert (T : forallb (fun s => negb (tbl_transition_valid task_table s S_RETRYING)
                                || status_eqb s S_RETRYING
                                || match tbl_step task_table s EV_TASK_RETRY_REQUESTED with
                                   | Some t => status_eqb t S_RETRYING | None => false end)
                      all_statuses = true) by (vm_compute; reflexivity).
  rewrite forallb_forall in T; specialize (T s (all_statuses_complete s)).
  rewrite H in T; cbn [andb negb orb] in T.
  destruct (status_eqb s S_RETRYING) eqn:E; [left; apply status_eqb_eq; exact E|right].
  simpl in T. destruct (tbl_step task_table s EV_TASK_RETRY_REQUESTED) as [t|]; [|discriminate].
  apply status_eqb_eq in T; subst; reflexivity.
Qed.

(* retrying is entered only by the retry event, and only from a completed status *)
Lemma F_task_retrying_only_by_retry : forall s e, tbl_step task_table s e = Some S_RETRYING ->
  e = EV_TASK_RETRY_REQUESTED /\ In s COMPLETED_STATUSES.
Proof.
  intros s e H.
  assert (T : table_forall task_table
                (fun s e t => negb (status_eqb t S_RETRYING)
                              || (String.eqb e EV_TASK_RETRY_REQUESTED && status_in s COMPLETED_STATUSES)) = true)
    by (vm_compute; reflexivity).
  pose proof (table_forall_step _ _ T _ _ _ H) as P; cbv beta in P.
  apply andb_prop in P; destruct P as [Pe Ps].
  apply String.eqb_eq in Pe; apply status_in_In in Ps; split; assumption.
Qed.

(* a completed task status never changes again except into retrying *)
Lemma F_task_completed_final : forall s e t, In s COMPLETED_STATUSES ->
  tbl_step task_table s e = Some t -> t = S_RETRYING.
Proof.
  intros s e t Hs H.
  assert (T : table_forall task_table
                (fun s _ t => negb (status_in s COMPLETED_STATUSES) || status_eqb t S_RETRYING) = true)
    by (vm_compute; reflexivity).
  pose proof (table_forall_step _ _ T _ _ _ H) as P; cbv beta in P.
  apply status_in_In in Hs; rewrite Hs in P; cbn [andb negb orb] in P. apply status_eqb_eq; exact P.
Qed.

(* item events contextualised "_task_active_" never complete the task *)
Lemma F_task_item_active_open : forall s e t, tbl_step task_table s e = Some t ->
  contains "_task_active_" e = true -> ~ In t COMPLETED_STATUSES.
Proof.
  intros s e t H Hc.
  assert (T : table_forall task_table
                (fun _ e t => negb (contains "_task_active_" e) || negb (status_in t COMPLETED_STATUSES)) = true)
    by (vm_compute; reflexivity).
  pose proof (table_forall_step _ _ T _ _ _ H) as P; cbv beta in P.
  rewrite Hc in P; cbn [andb negb orb] in P. intro Hin; apply status_in_In in Hin; rewrite Hin in P; discriminate.
Qed.

(* every event name in the tables belongs to the vocabularies *)
Lemma F_tables_vocabulary :
  table_forall wf_table (fun _ e _ => string_in e (app WORKFLOW_EXECUTION_EVENTS TASK_EXECUTION_EVENTS)) = true /\
  table_forall task_table (fun _ e _ => string_in e (app WORKFLOW_EXECUTION_EVENTS
                                             (app ACTION_EXECUTION_EVENTS ENGINE_OPERATION_EVENTS))) = true.
Proof. split; vm_compute; reflexivity. Qed.

(* ---- pause rows ---- *)

(* while pausing, no task event takes the workflow back to an offering status *)
Lemma F_wf_pausing_task_closed : forall e t, starts_with "task_" e = true ->
  tbl_step wf_table S_PAUSING e = Some t -> In t [S_PAUSING; S_PAUSED; S_FAILED; S_CANCELING; S_CANCELED].
Proof.
  intros e t Hp H.
  assert (T : table_forall wf_table
                (fun s e t => negb (status_eqb s S_PAUSING && starts_with "task_" e)
                              || status_in t [S_PAUSING; S_PAUSED; S_FAILED; S_CANCELING; S_CANCELED]) = true)
    by (vm_compute; reflexivity).
  pose proof (table_forall_step _ _ T _ _ _ H) as P; cbv beta in P.
  rewrite status_eqb_refl, Hp in P; cbn [andb negb orb] in P. apply status_in_In; exact P.
Qed.

(* a pause request is accepted from every status in which tasks run: pausing while something is
   active, paused at once when nothing is *)
Lemma F_wf_pause_request : forall s, In s [S_RUNNING; S_RESUMING; S_PAUSING] ->
  tbl_step wf_table s "workflow_pausing_workflow_active" = Some S_PAUSING /\
  tbl_step wf_table s "workflow_pausing_workflow_dormant" = Some S_PAUSED /\
  tbl_step wf_table s "workflow_paused_workflow_active" = Some S_PAUSING /\
  tbl_step wf_table s "workflow_paused_workflow_dormant" = Some S_PAUSED.
Proof.
  intros s H.
  assert (T : forallb (fun s =>
      match tbl_step wf_table s "workflow_pausing_workflow_active", tbl_step wf_table s "workflow_pausing_workflow_dormant",
            tbl_step wf_table s "workflow_paused_workflow_active", tbl_step wf_table s "workflow_paused_workflow_dormant" with
      | Some a, Some b, Some c, Some d =>
          status_eqb a S_PAUSING && status_eqb b S_PAUSED && status_eqb c S_PAUSING && status_eqb d S_PAUSED
      | _, _, _, _ => false end) [S_RUNNING; S_RESUMING; S_PAUSING] = true) by (vm_compute; reflexivity).
  rewrite forallb_forall in T; specialize (T _ H).
  destruct (tbl_step wf_table s "workflow_pausing_workflow_active") as [a|]; [|discriminate].
  destruct (tbl_step wf_table s "workflow_pausing_workflow_dormant") as [b|]; [|discriminate].
  destruct (tbl_step wf_table s "workflow_paused_workflow_active") as [c|]; [|discriminate].
  destruct (tbl_step wf_table s "workflow_paused_workflow_dormant") as [d|]; [|discriminate].
  repeat (apply andb_prop in T; destruct T as [T ?]).
  repeat match goal with H : status_eqb _ _ = true |- _ => apply status_eqb_eq in H; subst end.
  repeat split; reflexivity.
Qed.

(* resume: from paused (and pausing) the resume requests lead to resuming / running, and a paused
   workflow that has nothing left completes *)
Lemma F_wf_resume_request :
  tbl_step wf_table S_PAUSED "workflow_resuming" = Some S_RESUMING /\
  tbl_step wf_table S_PAUSED "workflow_running" = Some S_RUNNING /\
  tbl_step wf_table S_PAUSED "workflow_resuming_workflow_completed" = Some S_SUCCEEDED /\
  tbl_step wf_table S_PAUSED "workflow_running_workflow_completed" = Some S_SUCCEEDED /\
  tbl_step wf_table S_PAUSING "workflow_resuming" = Some S_RESUMING /\
  tbl_step wf_table S_PAUSING "workflow_running" = Some S_RUNNING.
Proof. repeat split; vm_compute; reflexivity. Qed.

(* ---- the rows in which tasks run: task events never leave the expected classes ---- *)

(* from running/resuming a task event leads to running, a pause-class, a cancel-class status, succeeded or failed;
   never to resuming/requested/... *)
Lemma F_wf_running_task_targets : forall s e t, In s [S_RUNNING; S_RESUMING] -> starts_with "task_" e = true ->
  tbl_step wf_table s e = Some t ->
  In t [S_RUNNING; S_PAUSING; S_PAUSED; S_CANCELING; S_CANCELED; S_SUCCEEDED; S_FAILED].
Proof.
  intros s e t Hs Hp H.
  assert (T : table_forall wf_table
                (fun s e t => negb (status_in s [S_RUNNING; S_RESUMING] && starts_with "task_" e)
                              || status_in t [S_RUNNING; S_PAUSING; S_PAUSED; S_CANCELING; S_CANCELED; S_SUCCEEDED; S_FAILED]) = true)
    by (vm_compute; reflexivity).
  pose proof (table_forall_step _ _ T _ _ _ H) as P; cbv beta in P.
  apply status_in_In in Hs. rewrite Hs, Hp in P; cbn [andb negb orb] in P. apply status_in_In; exact P.
Qed.

(* succeeded is reached only by a completed-dormant task event or the completed-resume request *)
Lemma F_wf_succeeded_only_when_completed : forall s e, tbl_step wf_table s e = Some S_SUCCEEDED ->
  e = "workflow_succeeded" \/ contains "_workflow_dormant_completed" e = true \/ contains "_workflow_completed" e = true.
Proof.
  intros s e H.
  assert (T : table_forall wf_table
                (fun _ e t => negb (status_eqb t S_SUCCEEDED)
                              || String.eqb e "workflow_succeeded" || contains "_workflow_dormant_completed" e
                              || contains "_workflow_completed" e) = true) by (vm_compute; reflexivity).
  pose proof (table_forall_step _ _ T _ _ _ H) as P; cbv beta in P.
  rewrite status_eqb_refl in P; cbn [negb orb] in P.
  destruct (String.eqb e "workflow_succeeded") eqn:E1; [left; apply String.eqb_eq; exact E1|].
  destruct (contains "_workflow_dormant_completed" e) eqn:E2; [right; left; reflexivity|].
  cbn [orb] in P. right; right; exact P.
Qed.

(* a remediated or succeeded task event with other tasks still active ("_workflow_active") keeps the
   workflow in the same class: running stays running, pausing stays pausing (or cancels), canceling stays *)
Lemma F_wf_active_task_keeps_class : forall s e t, In s [S_RUNNING; S_PAUSING; S_CANCELING; S_RESUMING] ->
  contains "_workflow_active" e = true -> starts_with "task_" e = true -> tbl_step wf_table s e = Some t ->
  (s = S_RUNNING -> In t [S_RUNNING; S_PAUSING; S_CANCELING; S_FAILED]) /\
  (s = S_RESUMING -> In t [S_RUNNING; S_PAUSING; S_CANCELING; S_FAILED]) /\
  (s = S_PAUSING -> In t [S_PAUSING; S_CANCELING; S_FAILED]) /\
  (s = S_CANCELING -> In t [S_CANCELING]).
Proof.
  intros s e t Hs Hc Hp H.
  assert (T : table_forall wf_table
     (fun s e t => negb (contains "_workflow_active" e && starts_with "task_" e)
        || ((negb (status_in s [S_RUNNING; S_RESUMING]) || status_in t [S_RUNNING; S_PAUSING; S_CANCELING; S_FAILED])
            && (negb (status_eqb s S_PAUSING) || status_in t [S_PAUSING; S_CANCELING; S_FAILED])
            && (negb (status_eqb s S_CANCELING) || status_in t [S_CANCELING]))) = true)
    by (vm_compute; reflexivity).
  pose proof (table_forall_step _ _ T _ _ _ H) as P; cbv beta in P.
  rewrite Hc, Hp in P; cbn [andb negb orb] in P.
  apply andb_prop in P; destruct P as [P P3]. apply andb_prop in P; destruct P as [P1 P2].
  repeat split; intro E; subst s.
  - vm_compute status_in in P1 at 1. cbn [negb orb] in P1. apply status_in_In; exact P1.
  - vm_compute status_in in P1 at 1. cbn [negb orb] in P1. apply status_in_In; exact P1.
  - rewrite status_eqb_refl in P2; cbn [negb orb] in P2. apply status_in_In; exact P2.
  - rewrite status_eqb_refl in P3; cbn [negb orb] in P3. apply status_in_In; exact P3.
Qed.
