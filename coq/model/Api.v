(* Api.v -- the conductor's public API as one datatype of operations, and histories. *)
From Coq Require Import String List Bool ZArith Arith.
From Orq Require Import GenStatuses GenEvents GenSpecMeta Base State Machines Codec Conductor Decode.
Import ListNotations.
Open Scope string_scope.
Open Scope monad_scope.

Inductive api_op :=
  | OpSerialize                                   (* serialize(): first access creates the state *)
  | OpRequest (st : status)                       (* request_workflow_status *)
  | OpGetNext                                     (* get_next_tasks *)
  | OpEvent (t : string) (route : nat) (e : event)(* update_task_state *)
  | OpRender                                      (* render_workflow_output *)
  | OpRerun (reqs : list rerun_req)               (* request_workflow_rerun *)
  | OpPersist.                                    (* deserialize(serialize()) *)

Inductive api_result := RUnit | ROffers (l : list offer).

Definition is_rerun (op : api_op) : bool := match op with OpRerun _ => true | _ => false end.

(* events a provider can send: action and item events (engine events are internal) *)
Definition provider_event (e : event) : bool :=
  match e with EvAction _ _ | EvItem _ _ _ _ => true | _ => false end.

Section WithEval.
Variable ev : string -> dict -> evalres.

Definition persist : M unit :=
  ensure_ws ev ;;;
  fun c => match dec_cstate (c_spec c) (c_graph c) (enc_cstate c) with
           | Some c2 => (c2, Val tt)
           | None => (c, Exc (mkexn "PersistFailed" "decode (encode c) = None"))
           end.

Definition api_exec (op : api_op) : M api_result :=
  match op with
  | OpSerialize => ensure_ws ev ;;; ret RUnit
  | OpRequest st => request_workflow_status ev st ;;; ret RUnit
  | OpGetNext => l <- get_next_tasks ev ;; ret (ROffers l)
  | OpEvent t r e => update_task_state ev t r e ;;; ret RUnit
  | OpRender => render_workflow_output ev ;;; ret RUnit
  | OpRerun reqs => request_workflow_rerun ev reqs ;;; ret RUnit
  | OpPersist => persist ;;; ret RUnit
  end.

(* the state after a history (results and exceptions are observations, not state) *)
Definition run_ops (ops : list api_op) (c : cstate) : cstate :=
  fold_left (fun c op => fst (api_exec op c)) ops c.

End WithEval.
