(* Base.v -- json values, insertion-ordered dictionaries, merge_dicts, string utilities.
   Executable definitions only (no proofs here). *)
From Coq Require Import String Ascii List Bool ZArith Arith DecimalString.
Import ListNotations.
Open Scope string_scope.

(* ------------------------------------------------------------------ json *)

Inductive json :=
  | JNull
  | JBool (b : bool)
  | JInt (z : Z)
  | JFloat (hex : string)          (* float.hex() text; opaque to the model *)
  | JStr (s : string)
  | JList (l : list json)
  | JDict (kv : list (string * json)).

Definition dict := list (string * json).   (* insertion ordered, keys unique *)

Fixpoint json_eqb (a b : json) {struct a} : bool :=
  match a, b with
  | JNull, JNull => true
  | JBool x, JBool y => Bool.eqb x y
  | JInt x, JInt y => Z.eqb x y
  | JFloat x, JFloat y => String.eqb x y
  | JStr x, JStr y => String.eqb x y
  | JList xs, JList ys =>
      (fix go (xs ys : list json) {struct xs} : bool :=
         match xs, ys with
         | [], [] => true
         | x :: xs', y :: ys' => json_eqb x y && go xs' ys'
         | _, _ => false
         end) xs ys
  | JDict xs, JDict ys =>
      (fix go (xs ys : list (string * json)) {struct xs} : bool :=
         match xs, ys with
         | [], [] => true
         | (k, x) :: xs', (k', y) :: ys' => String.eqb k k' && json_eqb x y && go xs' ys'
         | _, _ => false
         end) xs ys
  | _, _ => false
  end.

(* Python's == on JSON values: bool is an int (False == 0, True == 1) and dict comparison ignores the
   insertion order.  (Floats are opaque here: 1.0 == 1 is not modelled.) *)
Fixpoint py_eqb (a b : json) {struct a} : bool :=
  match a, b with
  | JNull, JNull => true
  | JBool x, JBool y => Bool.eqb x y
  | JBool x, JInt y => Z.eqb y (if x then 1 else 0)%Z
  | JInt y, JBool x => Z.eqb y (if x then 1 else 0)%Z
  | JInt x, JInt y => Z.eqb x y
  | JFloat x, JFloat y => String.eqb x y
  | JStr x, JStr y => String.eqb x y
  | JList xs, JList ys =>
      (fix go (xs ys : list json) {struct xs} : bool :=
         match xs, ys with
         | [], [] => true
         | x :: xs', y :: ys' => py_eqb x y && go xs' ys'
         | _, _ => false
         end) xs ys
  | JDict xs, JDict ys =>
      Nat.eqb (length xs) (length ys) &&
      (fix go (xs : list (string * json)) {struct xs} : bool :=
         match xs with
         | [] => true
         | (k, x) :: xs' =>
             match (fix find (l : list (string * json)) : option json :=
                      match l with
                      | [] => None
                      | (k', y) :: l' => if String.eqb k k' then Some y else find l'
                      end) ys with
             | Some y => py_eqb x y
             | None => false
             end && go xs'
         end) xs
  | _, _ => false
  end.

(* Python truthiness of a JSON value (bool(v)). *)
Definition truthy (v : json) : bool :=
  match v with
  | JNull => false
  | JBool b => b
  | JInt z => negb (Z.eqb z 0)
  | JFloat h => negb (String.eqb h "0x0.0p+0" || String.eqb h "-0x0.0p+0")
  | JStr s => negb (String.eqb s "")
  | JList l => match l with [] => false | _ => true end
  | JDict d => match d with [] => false | _ => true end
  end.

(* isinstance(v, int) in Python: bool is a subclass of int. *)
Definition py_is_int (v : json) : bool :=
  match v with JInt _ | JBool _ => true | _ => false end.

Definition py_int_value (v : json) : Z :=
  match v with JInt z => z | JBool true => 1%Z | _ => 0%Z end.

Definition is_jstr (v : json) : bool := match v with JStr _ => true | _ => false end.
Definition is_jnull (v : json) : bool := match v with JNull => true | _ => false end.

(* ------------------------------------------------------------- dictionaries *)

Section Assoc.
  Context {K V : Type} (keqb : K -> K -> bool).

  Fixpoint aget (k : K) (d : list (K * V)) : option V :=
    match d with
    | [] => None
    | (k', v) :: d' => if keqb k k' then Some v else aget k d'
    end.

  Definition ahas (k : K) (d : list (K * V)) : bool :=
    match aget k d with Some _ => true | None => false end.

  (* d[k] = v : replaces in place when present (keeps position), appends otherwise *)
  Fixpoint aset (k : K) (v : V) (d : list (K * V)) : list (K * V) :=
    match d with
    | [] => [(k, v)]
    | (k', v') :: d' => if keqb k k' then (k', v) :: d' else (k', v') :: aset k v d'
    end.

  Fixpoint adel (k : K) (d : list (K * V)) : list (K * V) :=
    match d with
    | [] => []
    | (k', v') :: d' => if keqb k k' then d' else (k', v') :: adel k d'
    end.
End Assoc.

Definition dget (k : string) (d : dict) : option json := aget String.eqb k d.
Definition dhas (k : string) (d : dict) : bool := ahas String.eqb k d.
Definition dset (k : string) (v : json) (d : dict) : dict := aset String.eqb k v d.
Definition ddel (k : string) (d : dict) : dict := adel String.eqb k d.

(* utils.dictionary.merge_dicts(left, right, overwrite=True) on two dicts (both not None).
   For every (k, v) of right in order: absent -> appended; both dicts -> merged recursively;
   otherwise replaced in place. *)
Fixpoint merge_json (l r : json) {struct r} : json :=
  match r with
  | JDict rkv =>
      match l with
      | JDict lkv =>
          JDict ((fix go (acc : dict) (rs : list (string * json)) {struct rs} : dict :=
                    match rs with
                    | [] => acc
                    | (k, v) :: rs' =>
                        go (match dget k acc with
                            | None => app acc [(k, v)]
                            | Some lv => dset k (merge_json lv v) acc
                            end) rs'
                    end) lkv rkv)
      | _ => r
      end
  | _ => r
  end.

Definition merge_dicts (l r : dict) : dict :=
  match merge_json (JDict l) (JDict r) with
  | JDict d => d
  | _ => l
  end.

(* --------------------------------------------------------------- strings *)

Definition string_in (s : string) (l : list string) : bool := existsb (String.eqb s) l.

Definition Z_to_string (z : Z) : string := NilZero.string_of_int (Z.to_int z).
Definition nat_to_string (n : nat) : string := Z_to_string (Z.of_nat n).

Definition starts_with (p s : string) : bool := String.prefix p s.

(* list helpers *)
Fixpoint list_set_nth {A} (n : nat) (x : A) (l : list A) : list A :=
  match l, n with
  | [], _ => []
  | _ :: t, O => x :: t
  | h :: t, S n' => h :: list_set_nth n' x t
  end.

Fixpoint list_del_nth {A} (n : nat) (l : list A) : list A :=
  match l, n with
  | [], _ => []
  | _ :: t, O => t
  | h :: t, S n' => h :: list_del_nth n' t
  end.

Fixpoint nat_in (n : nat) (l : list nat) : bool :=
  match l with [] => false | m :: l' => Nat.eqb n m || nat_in n l' end.

(* list.remove(x): removes the first occurrence; None models ValueError *)
Fixpoint nat_remove_first (n : nat) (l : list nat) : option (list nat) :=
  match l with
  | [] => None
  | m :: l' => if Nat.eqb n m then Some l'
               else match nat_remove_first n l' with Some r => Some (m :: r) | None => None end
  end.

(* insertion sort, stable, by a boolean "less or equal" *)
Section Sort.
  Context {A : Type} (leb : A -> A -> bool).
  Fixpoint insert_sorted (x : A) (l : list A) : list A :=
    match l with
    | [] => [x]
    | y :: l' => if leb y x then y :: insert_sorted x l' else x :: l
    end.
  (* stable: equal elements keep their original order (like Python's sorted) *)
  Definition sort_by (l : list A) : list A := fold_left (fun acc x => insert_sorted x acc) l [].
End Sort.

Fixpoint enumerate_from {A} (n : nat) (l : list A) : list (nat * A) :=
  match l with [] => [] | x :: l' => (n, x) :: enumerate_from (S n) l' end.
Definition enumerate {A} (l : list A) : list (nat * A) := enumerate_from 0 l.

Definition dedup_by {A} (eqb : A -> A -> bool) (l : list A) : list A :=
  fold_left (fun acc x => if existsb (eqb x) acc then acc else app acc [x]) l [].
