(* Codec.v -- the JSON layout of WorkflowState.serialize() / WorkflowConductor.serialize().
   encode is part of the model proper: expressions are evaluated against a context that
   contains "__state" = the serialized workflow state. *)
From Coq Require Import String List Bool ZArith Arith.
From Orq Require Import GenStatuses GenEvents GenSpecMeta Base State.
Import ListNotations.
Open Scope string_scope.

Definition enc_nat (n : nat) : json := JInt (Z.of_nat n).
Definition enc_status (s : status) : json := JStr (status_name s).
Definition trid_str (t : trid) : string := fst t ++ TRANSITION_SEP ++ nat_to_string (snd t).
Definition tkey_str (t : tkey) : string := fst t ++ ROUTE_SEP ++ nat_to_string (snd t).

Definition opt_field {A} (k : string) (f : A -> json) (o : option A) : list (string * json) :=
  match o with Some a => [(k, f a)] | None => [] end.
Definition flag_field (k : string) (b : bool) : list (string * json) :=
  if b then [(k, JBool true)] else [].

Definition enc_retry (r : retry_rec) : json :=
  JDict (app [("when", rr_when r); ("count", rr_count r)]
        (app (opt_field "delay" (fun x => x) (rr_delay r))
             [("tally", enc_nat (rr_tally r))])).

Definition enc_prev (p : list (trid * nat)) : json :=
  JDict (map (fun '(t, i) => (trid_str t, enc_nat i)) p).

Definition enc_rec (r : trec) : json :=
  JDict (app [("id", JStr (r_id r)); ("route", enc_nat (r_route r));
              ("ctxs", JDict (app [("in", JList (map enc_nat (r_in r)))]
                                  (opt_field "out" (fun '(t, i) => JDict [(trid_str t, enc_nat i)]) (r_out r))));
              ("prev", enc_prev (r_prev r));
              ("next", JDict (map (fun '(t, b) => (trid_str t, JBool b)) (r_next r)))]
        (app (opt_field "retry" enc_retry (r_retry r))
        (app (opt_field "status" enc_status (r_status r))
             (flag_field "term" (r_term r))))).

Definition enc_stg (s : stg) : json :=
  JDict (app [("id", JStr (s_id s)); ("ctxs", JDict [("in", JList (map enc_nat (s_in s)))]);
              ("route", enc_nat (s_route s)); ("prev", enc_prev (s_prev s));
              ("ready", JBool (s_ready s))]
        (app (opt_field "retry" enc_retry (s_retry s))
        (app (opt_field "items" (fun l => JList (map (fun st => JDict [("status", enc_status st)]) l)) (s_items s))
        (app (flag_field "completed" (s_completed s))
             (flag_field "run_on_fail" (s_run_on_fail s)))))).

Definition enc_wstate (w : wstate) : json :=
  JDict (app [("contexts", JList (map JDict (contexts w)));
              ("routes", JList (map (fun r => JList (map (fun t => JStr (trid_str t)) r)) (routes w)));
              ("sequence", JList (map enc_rec (sequence w)));
              ("staged", JList (map enc_stg (staged w)));
              ("status", enc_status (wstatus w));
              ("tasks", JDict (map (fun '(k, i) => (tkey_str k, enc_nat i)) (tasks w)))]
             (match reruns w with
              | [] => []
              | l => [("reruns", JList (map (fun r => JList (map enc_nat r)) l))]
              end)).

Definition enc_errent (e : errent) : json :=
  JDict (app [("type", JStr (er_type e)); ("message", JStr (er_message e))]
        (app (opt_field "task_id" JStr (er_task e))
        (app (opt_field "route" enc_nat (er_route e))
        (app (opt_field "task_transition_id" (fun t => JStr (trid_str t)) (er_trans e))
             (opt_field "result" (fun x => x) (er_result e)))))).

(* the dynamic part of WorkflowConductor.serialize(): spec and graph are immutable inputs *)
Definition enc_cstate (c : cstate) : json :=
  JDict [("input", JDict (c_inputs c)); ("context", JDict (c_parent c));
         ("state", enc_wstate (c_ws c));
         ("log", JList (map enc_errent (c_log c)));
         ("errors", JList (map enc_errent (c_errors c)));
         ("output", match c_output c with Some o => JDict o | None => JNull end)].
