(* Composer.v -- executable model of orquesta.composers.native.WorkflowComposer._compose_wf_graph,
   of the spec queries it uses (get_next_tasks sorted by name, get_start_tasks, is_split_task,
   in_cycle) and of WorkflowGraph.serialize()/deserialize() on the typed graph.
   No proofs here (proofs/ComposerInv.v, proofs/C14Proofs.v).

   The normalised task_spec of State.v has no retry field.  The task retry specs are therefore
   an extra argument [rt : list (string * json)] keyed by task name: the value is the dictionary
   the composer builds from the TaskRetrySpec, {"when": .., "count": .., "delay": ..} (absent
   members are JNull), present exactly for the tasks whose has_retry() holds. *)
From Coq Require Import String List Bool ZArith Arith.
From Orq Require Import GenSpecMeta Base State.
Import ListNotations.
Open Scope string_scope.

(* ------------------------------------------------------------------ spec queries *)

Definition nt_name (x : string * json * nat) : string := fst (fst x).
Definition nt_leb (a b : string * json * nat) : bool := String.leb (nt_name a) (nt_name b).

(* tasks.get_next_tasks(name): sorted(next_tasks, key=name) -- stable, ties keep (transition, do) order *)
Definition spec_next_sorted (sp : wf_spec) (t : string) : list (string * json * nat) :=
  sort_by nt_leb (spec_next_tasks sp t).

(* tasks.get_start_tasks(): declared tasks nothing transitions into, sorted by name *)
Definition spec_start_tasks (sp : wf_spec) : list string :=
  sort_by String.leb
    (filter (fun t => Nat.eqb (spec_prev_count sp t) 0) (map fst (wf_tasks sp))).

(* number of (task, transition, do-item) triples of the whole definition *)
Definition spec_size (sp : wf_spec) : nat :=
  length (flat_map (fun '(n, _) => spec_next_tasks sp n) (wf_tasks sp)).

(* tasks.in_cycle(name): the breadth-first search of models.py.  One unit of fuel per dequeued
   name; None = out of fuel. *)
Fixpoint in_cycle_loop (sp : wf_spec) (t : string) (fuel : nat) (q trav : list string)
  : option bool :=
  match q with
  | [] => Some false
  | n :: q' =>
      match fuel with
      | O => None
      | S f =>
          if String.eqb n t then Some true
          else if string_in n trav then in_cycle_loop sp t f q' trav
          else in_cycle_loop sp t f (app q' (map nt_name (spec_next_sorted sp n))) (n :: trav)
      end
  end.

(* every name is expanded at most once, so spec_size dequeues suffice *)
Definition spec_in_cycle (sp : wf_spec) (t : string) : option bool :=
  in_cycle_loop sp t (S (spec_size sp)) (map nt_name (spec_next_sorted sp t)) [].

(* ---------------------------------------------------------------- graph building *)

Definition mk_node (t : string) : gnode :=
  {| n_id := t; n_barrier := JNull; n_splits := None; n_retry := JNull |}.
Definition n_set_barrier (b : json) (n : gnode) : gnode :=
  {| n_id := n_id n; n_barrier := b; n_splits := n_splits n; n_retry := n_retry n |}.
Definition n_set_splits (s : list string) (n : gnode) : gnode :=
  {| n_id := n_id n; n_barrier := n_barrier n; n_splits := Some s; n_retry := n_retry n |}.
Definition n_set_retry (r : json) (n : gnode) : gnode :=
  {| n_id := n_id n; n_barrier := n_barrier n; n_splits := n_splits n; n_retry := r |}.

Definition has_node (t : string) (ns : list gnode) : bool :=
  existsb (fun n => String.eqb (n_id n) t) ns.

(* WorkflowGraph.add_task(t) without attributes *)
Definition add_node (t : string) (ns : list gnode) : list gnode :=
  if has_node t ns then ns else app ns [mk_node t].

(* WorkflowGraph.update_task(t, attr=value) *)
Definition upd_node (t : string) (f : gnode -> gnode) (ns : list gnode) : list gnode :=
  map (fun n => if String.eqb (n_id n) t then f n else n) ns.

Definition criteria_eqb (a b : list json) : bool := json_eqb (JList a) (JList b).

Definition edge_between (s d : string) (e : gedge) : bool :=
  String.eqb (e_src e) s && String.eqb (e_dst e) d.

(* has_transition(s, d, criteria=c, ref=r) *)
Definition edge_matches (s d : string) (c : list json) (r : nat) (e : gedge) : bool :=
  edge_between s d e && criteria_eqb (e_criteria e) c && Nat.eqb (e_ref e) r.

(* crta = [condition] if condition else [] *)
Definition crta_of (cond : json) : list json := if truthy cond then [cond] else [].

(* barrier = "*" if task_spec.join == "all" else task_spec.join *)
Definition barrier_of (ts : task_spec) : json :=
  match ts_join ts with JStr "all" => JStr "*" | j => j end.

(* the retry command: {"when": condition or "<% completed() %>", "count": 3} *)
Definition retry_cmd (cond : json) : json :=
  JDict [("when", if truthy cond then cond else JStr "<% completed() %>"); ("count", JInt 3)].

(* python sets of names as duplicate-free lists *)
Definition set_subset (a b : list string) : bool := forallb (fun x => string_in x b) a.
Definition set_union (a b : list string) : list string :=
  fold_left (fun acc x => if string_in x acc then acc else app acc [x]) b a.

Definition qitem := (string * list string)%type.

Record cwork := {
  w_nodes : list gnode;                       (* networkx node insertion order *)
  w_edges : list gedge;                       (* edge insertion order *)
  w_track : list (string * list string);      (* track_splits *)
  w_queue : list qitem;                       (* q *)
  w_done : list string }.                     (* ghost: names dequeued so far, latest first *)

Definition w_set_nodes (w : cwork) (ns : list gnode) : cwork :=
  {| w_nodes := ns; w_edges := w_edges w; w_track := w_track w; w_queue := w_queue w;
     w_done := w_done w |}.

(* the split-tracking block: put (d, splits) on the queue unless a superset of splits is
   already recorded for d *)
Definition enqueue (w : cwork) (d : string) (splits : list string) : cwork :=
  let existing := match aget String.eqb d (w_track w) with Some s => s | None => [] end in
  match existing with
  | [] =>
      {| w_nodes := w_nodes w; w_edges := w_edges w;
         w_track := aset String.eqb d (set_union [] splits) (w_track w);
         w_queue := app (w_queue w) [(d, splits)]; w_done := w_done w |}
  | _ =>
      if set_subset splits existing then w
      else {| w_nodes := w_nodes w; w_edges := w_edges w;
              w_track := aset String.eqb d (set_union existing splits) (w_track w);
              w_queue := app (w_queue w) [(d, splits)]; w_done := w_done w |}
  end.

(* has_transition / update_transition (rewrites the same values) / add_transition.
   A new edge takes networkx's next key for the pair = number of edges already between s and d;
   add_transition also adds the destination node when it is missing. *)
Definition add_transition (w : cwork) (s d : string) (c : list json) (r : nat) : cwork :=
  match filter (edge_matches s d c r) (w_edges w) with
  | _ :: _ => w
  | [] =>
      {| w_nodes := add_node d (add_node s (w_nodes w));
         w_edges := app (w_edges w)
                        [{| e_src := s; e_dst := d;
                            e_key := length (filter (edge_between s d) (w_edges w));
                            e_ref := r; e_criteria := c |}];
         w_track := w_track w; w_queue := w_queue w; w_done := w_done w |}
  end.

Definition x_out_of_fuel : exn := mkexn "OutOfFuel" "".
Definition x_key_error (t : string) : exn := mkexn "KeyError" t.

Definition in_cycle_r (sp : wf_spec) (t : string) : result bool :=
  match spec_in_cycle sp t with Some b => Val b | None => Exc x_out_of_fuel end.

(* body of "for next_task_name, condition, idx in next_tasks" *)
Definition step_next (sp : wf_spec) (t : string) (splits : list string)
           (acc : result cwork) (nx : string * json * nat) : result cwork :=
  match acc with
  | Exc e => Exc e
  | Val w =>
      let d := nt_name nx in
      let cond := snd (fst nx) in
      let idx := snd nx in
      if String.eqb d "retry"
      then Val (w_set_nodes w (upd_node t (n_set_retry (retry_cmd cond)) (w_nodes w)))
      else
        (* not has_task(d) or not in_cycle(d): in_cycle only evaluated when d is in the graph *)
        match (if has_node d (w_nodes w) then in_cycle_r sp d else Val false) with
        | Exc e => Exc e
        | Val skip =>
            Val (add_transition (if skip then w else enqueue w d splits) t d (crta_of cond) idx)
        end
  end.

(* body of the while loop for the dequeued (t, splits); the queue of w is already popped *)
Definition process (sp : wf_spec) (rt : list (string * json)) (w : cwork)
           (t : string) (splits : list string) : result cwork :=
  match spec_get_task sp t with
  | None => Exc (x_key_error t)
  | Some ts =>
      let ns1 := add_node t (w_nodes w) in
      let ns2 := if spec_is_join_task sp t then upd_node t (n_set_barrier (barrier_of ts)) ns1 else ns1 in
      match (if spec_is_split_task sp t then in_cycle_r sp t else Val true) with
      | Exc e => Exc e
      | Val cyc =>
          let splits' := if cyc then splits else app splits [t] in
          let ns3 := match splits' with [] => ns2 | _ => upd_node t (n_set_splits splits') ns2 end in
          let ns4 := match aget String.eqb t rt with
                     | Some r => upd_node t (n_set_retry r) ns3
                     | None => ns3
                     end in
          match fold_left (step_next sp t splits') (spec_next_sorted sp t)
                          (Val {| w_nodes := ns4; w_edges := w_edges w; w_track := w_track w;
                                  w_queue := w_queue w; w_done := t :: w_done w |}) with
          | Exc e => Exc e
          | Val w' => Val w'
          end
      end
  end.

Fixpoint compose_loop (sp : wf_spec) (rt : list (string * json)) (fuel : nat) (w : cwork)
  : result cwork :=
  match w_queue w with
  | [] => Val w
  | (t, splits) :: q' =>
      match fuel with
      | O => Exc x_out_of_fuel
      | S f =>
          match process sp rt {| w_nodes := w_nodes w; w_edges := w_edges w; w_track := w_track w;
                                 w_queue := q'; w_done := w_done w |} t splits with
          | Exc e => Exc e
          | Val w' => compose_loop sp rt f w'
          end
      end
  end.

Definition compose_init (sp : wf_spec) : cwork :=
  {| w_nodes := []; w_edges := []; w_track := [];
     w_queue := map (fun t => (t, [])) (spec_start_tasks sp); w_done := [] |}.

Definition compose_work (sp : wf_spec) (rt : list (string * json)) (fuel : nat) : result cwork :=
  compose_loop sp rt fuel (compose_init sp).

(* networkx iterates edges by source node (insertion order), then by destination in the order
   the destinations were first linked from that source, then by key.  All edges of a source are
   created while that source is dequeued for the first time, with equal destinations adjacent,
   so grouping the insertion-ordered list by source node gives exactly that order. *)
Definition nx_edges (ns : list gnode) (es : list gedge) : list gedge :=
  flat_map (fun n => filter (fun e => String.eqb (e_src e) (n_id n)) es) ns.

Definition graph_of_work (w : cwork) : graph :=
  {| g_nodes := w_nodes w; g_edges := nx_edges (w_nodes w) (w_edges w) |}.

(* WorkflowComposer.compose(spec) *)
Definition compose (sp : wf_spec) (rt : list (string * json)) (fuel : nat) : result graph :=
  match compose_work sp rt fuel with
  | Val w => Val (graph_of_work w)
  | Exc e => Exc e
  end.

(* --------------------------------------------------- serialize() / deserialize() *)

(* one entry of data["adjacency"][i]: {"id": dst, "key": k, "ref": r, "criteria": c} *)
Record sadj := { a_id : string; a_key : nat; a_ref : nat; a_criteria : list json }.

(* json_graph.adjacency_data + the sort of every adjacency list by destination id *)
Record sgraph := { sg_nodes : list gnode; sg_adj : list (list sadj) }.

Definition adj_of_edge (e : gedge) : sadj :=
  {| a_id := e_dst e; a_key := e_key e; a_ref := e_ref e; a_criteria := e_criteria e |}.
Definition edge_of_adj (s : string) (a : sadj) : gedge :=
  {| e_src := s; e_dst := a_id a; e_key := a_key a; e_ref := a_ref a; e_criteria := a_criteria a |}.
Definition adj_leb (a b : sadj) : bool := String.leb (a_id a) (a_id b).

Definition g_out_edges (g : graph) (t : string) : list gedge :=
  filter (fun e => String.eqb (e_src e) t) (g_edges g).

Definition g_serialize (g : graph) : sgraph :=
  {| sg_nodes := g_nodes g;
     sg_adj := map (fun n => sort_by adj_leb (map adj_of_edge (g_out_edges g (n_id n)))) (g_nodes g) |}.

(* json_graph.adjacency_graph: nodes first, then the edges of data["adjacency"][i] from node i
   with their stored keys *)
Definition g_deserialize (s : sgraph) : graph :=
  {| g_nodes := sg_nodes s;
     g_edges := flat_map (fun '(n, adj) => map (edge_of_adj (n_id n)) adj)
                         (combine (sg_nodes s) (sg_adj s)) |}.

(* ------------------------------------------------------- comparison helpers *)

Definition opt_list_eqb (a b : option (list string)) : bool :=
  opt_eqb (fun x y => json_eqb (JList (map JStr x)) (JList (map JStr y))) a b.

Definition gnode_eqb (a b : gnode) : bool :=
  String.eqb (n_id a) (n_id b) && json_eqb (n_barrier a) (n_barrier b)
  && opt_list_eqb (n_splits a) (n_splits b) && json_eqb (n_retry a) (n_retry b).

Definition gedge_eqb (a b : gedge) : bool :=
  String.eqb (e_src a) (e_src b) && String.eqb (e_dst a) (e_dst b) && Nat.eqb (e_key a) (e_key b)
  && Nat.eqb (e_ref a) (e_ref b) && criteria_eqb (e_criteria a) (e_criteria b).

Fixpoint list_eqb {A} (eqb : A -> A -> bool) (a b : list A) : bool :=
  match a, b with
  | [], [] => true
  | x :: a', y :: b' => eqb x y && list_eqb eqb a' b'
  | _, _ => false
  end.

Definition graph_eqb (a b : graph) : bool :=
  list_eqb gnode_eqb (g_nodes a) (g_nodes b) && list_eqb gedge_eqb (g_edges a) (g_edges b).

(* what the harness compares for one generated definition: the composed graph, the derived
   queries for every node, and the round trip.  0 = agree; otherwise the first failing check. *)
Definition check_case (sp : wf_spec) (rt : list (string * json)) (fuel : nat) (expected : graph)
           (next_tr : list (string * list gedge)) (roots : list string)
           (cyc : list (string * bool)) (spec_cyc : list (string * bool * bool)) : nat :=
  match compose sp rt fuel with
  | Exc e => if String.eqb (x_cls e) "OutOfFuel" then 1 else 2
  | Val g =>
      if negb (list_eqb gnode_eqb (g_nodes g) (g_nodes expected)) then 3
      else if negb (list_eqb gedge_eqb (g_edges g) (g_edges expected)) then 4
      else if negb (forallb (fun '(t, l) => list_eqb gedge_eqb (g_next_transitions g t) l) next_tr) then 5
      else if negb (list_eqb String.eqb (g_roots g) roots) then 6
      else if negb (forallb (fun '(t, b) => Bool.eqb (g_in_cycle g t) b) cyc) then 7
      else if negb (forallb (fun '(t, c, s) =>
                               match spec_in_cycle sp t with Some b => Bool.eqb b c | None => false end
                               && Bool.eqb (spec_is_split_task sp t) s) spec_cyc) then 8
      else if negb (graph_eqb (g_deserialize (g_serialize g)) g) then 9
      else 0
  end.
