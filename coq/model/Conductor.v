(* Conductor.v -- model of orquesta/conducting.py at API-call granularity, mirroring the code
   statement by statement (post-fix tree).  Expression evaluation is a Section variable [ev]:
   the real YAQL/Jinja evaluators are plugged in by the extracted driver; every theorem holds
   for every [ev].  No proofs here. *)
From Coq Require Import String List Bool ZArith Arith.
From Orq Require Import GenStatuses GenEvents GenTables GenSpecMeta Base State Machines Codec.
Import ListNotations.
Open Scope string_scope.
Open Scope monad_scope.

Inductive evalres := EvOk (v : json) | EvErr (e : exn).

(* what get_next_tasks() returns for one task *)
Record action_spec := { a_action : json; a_input : json; a_item : option nat }.
Record offer := {
  o_id : string; o_route : nat; o_ctx : dict; o_actions : list action_spec;
  o_delay : option json; o_items_count : option nat; o_concurrency : option json }.

Record rerun_req := { rq_task : string; rq_route : nat; rq_reset_items : bool }.

Section WithEval.

(* expr_base.evaluate on a *string* statement against a context dict *)
Variable ev : string -> dict -> evalres.

Definition lift_eval (r : evalres) : M json :=
  match r with EvOk v => ret v | EvErr e => raise e end.

(* a key expression whose value is a list or a dict: an expression evaluation error (the callers contain it) *)
Definition exn_unhashable_key (ty k : string) : exn :=
  {| x_cls := "ExpressionEvaluationException";
     x_msg := "Unable to use the value of type '" ++ ty ++ "' evaluated from '" ++ k ++ "' as a dictionary key.";
     x_expr := true |}.

(* expr_base.evaluate(statement, data): recursion over containers, strings go to the evaluators *)
Fixpoint evaluate (stmt : json) (ctx : dict) {struct stmt} : M json :=
  match stmt with
  | JStr s => lift_eval (ev s ctx)
  | JList l =>
      bind ((fix go (l : list json) : M (list json) :=
               match l with
               | [] => ret []
               | x :: l' => y <- evaluate x ctx ;; ys <- go l' ;; ret (y :: ys)
               end) l)
           (fun r => ret (JList r))
  | JDict kv =>
      bind ((fix go (kv : list (string * json)) (acc : dict) : M dict :=
               match kv with
               | [] => ret acc
               | (k, v) :: kv' =>
                   k' <- lift_eval (ev k ctx) ;;
                   (match k' with
                    | JList _ => raise (exn_unhashable_key "list" k)
                    | JDict _ => raise (exn_unhashable_key "dict" k)
                    | _ => ret tt
                    end) ;;;
                   v' <- evaluate v ctx ;;
                   match k' with
                   | JStr ks => go kv' (dset ks v' acc)
                   | _ => raise (mkexn "TypeError" "unsupported dictionary key produced by expression")
                   end
               end) kv [])
           (fun r => ret (JDict r))
  | other => ret other
  end.

(* ---------------------------------------------------------------- logging *)

Definition mk_errent (ty msg : string) (task : option string) (route : option nat)
           (trans : option trid) (result : json) : errent :=
  {| er_type := ty; er_message := msg; er_task := task; er_route := route; er_trans := trans;
     er_result := match result with JNull => None | r => Some r end |}.

(* log_entry for entry_type "error" (the only type the conductor itself uses) *)
Definition log_entry_error (msg : string) (task : option string) (route : option nat)
           (trans : option trid) (result : json) : M unit :=
  modify (fun c =>
            let e := mk_errent "error" msg task route trans result in
            if existsb (errent_eqb e) (c_errors c) then c else set_errors c (app (c_errors c) [e])).

Definition log_error (e : exn) (task : option string) (route : option nat) (trans : option trid) : M unit :=
  log_entry_error (x_cls e ++ ": " ++ x_msg e) task route trans JNull.

Definition log_errors (es : list exn) (task : option string) (route : option nat) (trans : option trid) : M unit :=
  forM_ es (fun e => log_error e task route trans).

(* ------------------------------------------------------- request_workflow_status *)

Definition set_rec_status (i : nat) (s : option status) : M unit :=
  modws (fun w => ws_update_rec w i (fun r => r_set_status r s)).

Definition log_unreachable (l : list stg) : M unit :=
  forM_ l (fun s =>
    log_error (mkexn "UnreachableJoinError"
                 ("The join task|route """ ++ s_id s ++ "|" ++ nat_to_string (s_route s)
                  ++ """ is partially satisfied but unreachable."))
              (Some (s_id s)) (Some (s_route s)) None).

Definition lift_res {A} (r : result A) : M A :=
  match r with Val a => ret a | Exc e => raise e end.

(* WorkflowStateMachine.process_event as one atomic state update; returns the joins to log *)
Definition wf_workflow_event_M (st : status) : M (list stg) :=
  fun c => match wf_process_workflow_event (c_graph c) (c_ws c) st with
           | Exc e => (c, Exc e)
           | Val (new, unreachable) => (set_ws c (ws_set_status (c_ws c) new), Val unreachable)
           end.
Definition wf_task_event_M (t : string) (route : nat) (st : status) : M (list stg) :=
  fun c => match wf_process_task_event (c_graph c) (c_ws c) t route st with
           | Exc e => (c, Exc e)
           | Val (new, unreachable) => (set_ws c (ws_set_status (c_ws c) new), Val unreachable)
           end.

(* the body of request_workflow_status once the workflow state exists *)
Definition request_status_core (st : status) : M unit :=
  w0 <- getws ;;
  let current := wstatus w0 in
  let active := ws_tasks_by_status w0 ACTIVE_STATUSES in
  forM_ active (fun '(i, _) =>
    w <- getws ;;
    match nth_error (sequence w) i with
    | None => ret tt
    | Some r =>
        ns <- lift_res (task_process_event w r (EvWorkflow st)) ;;
        match ns with Some s => set_rec_status i (Some s) | None => ret tt end
    end) ;;;
  unreachable <- wf_workflow_event_M st ;;
  log_unreachable unreachable ;;;
  w1 <- getws ;;
  let updated := wstatus w1 in
  if status_eqb st S_PAUSED && status_eqb current S_PAUSING && status_eqb updated S_PAUSING then ret tt
  else if status_eqb st S_CANCELED && status_eqb current S_CANCELING && status_eqb updated S_CANCELING
  then ret tt
  else if negb (status_eqb st current) && status_eqb current updated then
    forM_ active (fun '(i, r) => set_rec_status i (r_status r)) ;;;
    raise (exn_invalid_wf_transition current (WORKFLOW_EVENT_PREFIX ++ status_name st))
  else ret tt.

(* ------------------------------------------------ lazy creation of the workflow state *)

(* render_input: (rolling ctx, errors); only ExpressionEvaluationException is collected *)
Fixpoint render_input (specs : list (string * json)) (runtime : dict) (rolling : dict) (errs : list exn)
  : M (dict * list exn) :=
  match specs with
  | [] => ret (rolling, errs)
  | (name, dflt) :: specs' =>
      let v := match dget name runtime with Some x => x | None => dflt end in
      r <- try_catch_expr (x <- evaluate v rolling ;; ret (inl x)) (fun e => ret (inr e)) ;;
      match r with
      | inl x => render_input specs' runtime (dset name x rolling) errs
      | inr e => render_input specs' runtime rolling (app errs [e])
      end
  end.

(* render_vars / render_output: (rolling ctx, rendered, errors) *)
Fixpoint render_vars (specs : list (string * json)) (rolling rendered : dict) (errs : list exn)
  : M (dict * list exn) :=
  match specs with
  | [] => ret (rendered, errs)
  | (name, expr) :: specs' =>
      r <- try_catch_expr (x <- evaluate expr rolling ;; ret (inl x)) (fun e => ret (inr e)) ;;
      match r with
      | inl x => render_vars specs' (dset name x rolling) (dset name x rendered) errs
      | inr e => render_vars specs' rolling rendered (app errs [e])
      end
  end.

Definition ensure_ws : M unit :=
  c <- get ;;
  if c_init c then ret tt
  else
    modify (fun c => set_init c true) ;;;
    let init_ctx := c_parent c in
    ri <- render_input (wf_input (c_spec c)) (c_inputs c) init_ctx [] ;;
    let '(rendered_inputs, input_errors) := ri in
    let init_ctx := merge_dicts init_ctx rendered_inputs in
    rv <- render_vars (wf_vars (c_spec c)) init_ctx [] [] ;;
    let '(rendered_vars, var_errors) := rv in
    let init_ctx := merge_dicts init_ctx rendered_vars in
    let errors := app input_errors var_errors in
    (match errors with
     | [] => ret tt
     | _ => log_errors errors None None None ;;; request_status_core S_FAILED
     end) ;;;
    w <- getws ;;
    if status_in (wstatus w) ABENDED_STATUSES then ret tt
    else
      modws (fun w => ws_set_routes (ws_set_contexts w (app (contexts w) [init_ctx])) (app (routes w) [[]])) ;;;
      forM_ (g_roots (c_graph c)) (fun t => modws (fun w => ws_add_staged w (mk_staged t 0 [0] [] true None))).

Definition request_workflow_status (st : status) : M unit :=
  ensure_ws ;;; request_status_core st.

(* ------------------------------------------------------------- task contexts *)

Definition exn_index : exn := mkexn "IndexError" "list index out of range".

(* get_task_context(ctx_idxs) *)
Fixpoint get_task_context_from (ctxs : list dict) (idxs : list nat) (acc : dict) : result dict :=
  match idxs with
  | [] => Val acc
  | i :: idxs' =>
      match nth_error ctxs i with
      | Some d => get_task_context_from ctxs idxs' (merge_dicts acc d)
      | None => Exc exn_index
      end
  end.
Definition get_task_context (idxs : list nat) : M dict :=
  w <- getws ;; lift_res (get_task_context_from (contexts w) idxs []).

Definition state_ctx (w : wstate) : dict := [("__state", enc_wstate w)].

Definition current_task_json (t : string) (route : nat) (result : option json) : json :=
  JDict (app [("id", JStr t); ("route", enc_nat route)]
             (match result with Some r => [("result", r)] | None => [] end)).

(* ------------------------------------------------------------- get_next_tasks *)

Definition exn_type (msg : string) : exn := mkexn "TypeError" msg.

Fixpoint zip_keys (ks : list string) (vs : list json) (acc : dict) : dict :=
  match ks, vs with
  | k :: ks', v :: vs' => zip_keys ks' vs' (dset k v acc)
  | _, _ => acc
  end.

(* TaskSpec.render *)
Definition render_task (ts : task_spec) (ctx : dict) : M (list action_spec) :=
  match ts_with ts with
  | None =>
      a <- evaluate (ts_action ts) ctx ;;
      i <- evaluate (ts_input ts) ctx ;;
      ret [{| a_action := a; a_input := i; a_item := None |}]
  | Some its =>
      items <- evaluate (JStr (it_expr its)) ctx ;;
      match items with
      | JList l =>
          mapM (fun '(idx, item) =>
                  let item' :=
                    match it_keys its with
                    | None => item
                    | Some ks =>
                        match item with
                        | JList vs => JDict (zip_keys ks vs [])
                        | _ => match ks with [k] => JDict [(k, item)] | _ => item end
                        end
                    end in
                  let ictx := dset "__current_item" item' ctx in
                  a <- evaluate (ts_action ts) ictx ;;
                  i <- evaluate (ts_input ts) ictx ;;
                  ret {| a_action := a; a_input := i; a_item := Some idx |})
               (enumerate l)
      | _ => raise (exn_type ("The value of """ ++ it_expr its ++ """ is not type of list."))
      end
  end.

Definition exn_key (k : string) : exn := mkexn "KeyError" ("'" ++ k ++ "'").

(* _evaluate_task_actions: trim the item actions per the concurrency policy.  Input: the rendered
   item actions zipped with the recorded item statuses; output: the actions to offer now and the
   effective concurrency value reported with the offer. *)
Definition items_notrun {A} (all_items : list (A * status)) : list (A * status) :=
  filter (fun '(_, st) => status_eqb st S_UNSET) all_items.
Definition items_nactive {A} (all_items : list (A * status)) : nat :=
  length (filter (fun '(_, st) => status_in st ACTIVE_STATUSES) all_items).
Definition effective_concurrency (conc : json) : Z :=
  let k := py_int_value conc in if Z.leb k 0 then 1%Z else k.

Definition choose_items {A} (conc : json) (all_items : list (A * status)) : result (list A * json) :=
  let notrun := items_notrun all_items in
  match conc with
  | JNull => Val (map fst notrun, conc)
  | JInt _ | JBool _ =>
      let k' := effective_concurrency conc in
      let avail := (k' - Z.of_nat (items_nactive all_items))%Z in
      Val (if Z.ltb 0 avail then map fst (firstn (Z.to_nat avail) notrun) else [],
           match conc with JInt _ => JInt k' | _ => if Z.leb (py_int_value conc) 0 then JInt 1 else conc end)
  | _ => Exc (exn_type "'<=' not supported between instances of concurrency value and 'int'")
  end.

(* get_task + _evaluate_task_actions + the retry delay override, for one staged entry.
   None: the task is not returned (no action to run now). *)
Definition next_task_for (s : stg) : M (option offer) :=
  c <- get ;;
  let t := s_id s in let route := s_route s in
  task_ctx0 <- (match get_staged_task (c_ws c) t route with
                | Some s' => get_task_context (s_in s')
                | None => match ws_task_entry (c_ws c) t route with
                          | Some r => get_task_context (r_in r)
                          | None => match nth_error (contexts (c_ws c)) 0 with
                                    | Some d => ret d
                                    | None => raise exn_index
                                    end
                          end
                end) ;;
  let task_ctx := merge_dicts (dset "__current_task" (current_task_json t route None) task_ctx0)
                              (state_ctx (c_ws c)) in
  ts <- (match spec_get_task (c_spec c) t with Some ts => ret ts | None => raise (exn_key t) end) ;;
  actions <- render_task ts task_ctx ;;
  delay <- (if truthy (ts_delay ts) then
              d <- (match ts_delay ts with JStr _ => evaluate (ts_delay ts) task_ctx | v => ret v end) ;;
              if py_is_int d then ret (Some d)
              else raise (exn_type "The value of task delay is not type of integer.")
            else ret None) ;;
  match ts_with ts with
  | None =>
      let delay' := match s_retry s with
                    | Some rr => Some (match rr_delay rr with
                                       | Some d => if truthy d then d else JInt 0
                                       | None => JInt 0 end)
                    | None => delay end in
      ret (match actions with
           | [] => None
           | _ => Some {| o_id := t; o_route := route; o_ctx := task_ctx; o_actions := actions;
                          o_delay := delay'; o_items_count := None; o_concurrency := None |}
           end)
  | Some its =>
      conc <- evaluate (it_concurrency its) task_ctx ;;
      let count := length actions in
      (* prepare the staged entry to track the items *)
      w <- getws ;;
      st_items <- (match get_staged_task w t route with
                   | None => raise (exn_type "argument of type 'NoneType' is not iterable")
                   | Some s' =>
                       match s_items s' with
                       | Some (x :: xs) => ret (x :: xs)
                       | _ =>
                           let fresh := repeat S_UNSET count in
                           modws (fun w => ws_set_staged w
                                    (staged_update (fun e => s_set_items e (Some fresh)) t route (staged w))) ;;;
                           ret fresh
                       end
                   end) ;;
      chosen <- lift_res (choose_items conc (combine actions st_items)) ;;
      let '(acts, conc') := chosen in
      let delay' := match s_retry s with
                    | Some rr => Some (match rr_delay rr with
                                       | Some d => if truthy d then d else JInt 0
                                       | None => JInt 0 end)
                    | None => delay end in
      ret (match acts, count with
           | [], S _ => None
           | _, _ => Some {| o_id := t; o_route := route; o_ctx := task_ctx; o_actions := acts;
                             o_delay := delay'; o_items_count := Some count;
                             o_concurrency := Some conc' |}
           end)
  end.

Definition offer_leb (a b : offer) : bool :=
  if String.eqb (o_id a) (o_id b) then Nat.leb (o_route a) (o_route b)
  else String.leb (o_id a) (o_id b).

Definition get_next_tasks : M (list offer) :=
  ensure_ws ;;;
  w <- getws ;;
  let staged_tasks := staged_filtered w in
  let remediation := if status_eqb (wstatus w) S_FAILED
                     then filter s_run_on_fail staged_tasks else [] in
  if negb (status_in (wstatus w) RUNNING_STATUSES) && match remediation with [] => true | _ => false end
  then ret []
  else
    let todo := match remediation with [] => staged_tasks | _ => remediation end in
    rs <- mapM (fun s =>
                  try_catch (o <- next_task_for s ;; ret (o, false))
                            (fun e => log_error e (Some (s_id s)) (Some (s_route s)) None ;;; ret (None, true)))
               todo ;;
    if existsb snd rs then request_status_core S_FAILED ;;; ret []
    else ret (sort_by offer_leb (flat_map (fun '(o, _) => match o with Some x => [x] | None => [] end) rs)).

(* ------------------------------------------------------------ update_task_state *)

Definition exn_invalid_task (t : string) : exn :=
  mkexn "InvalidTask" ("Task """ ++ t ++ """ does not exist.").

(* setup_retry_in_task_state: evaluates delay then count in the task's inbound context *)
Definition setup_retry (t : string) (in_idxs : list nat) : M retry_rec :=
  c <- get ;;
  match g_retry_spec (c_graph c) t with
  | JDict d =>
      in_ctx <- get_task_context in_idxs ;;
      let when := match dget "when" d with Some v => v | None => JNull end in
      delay <- (match dget "delay" d with
                | Some (JStr s) =>
                    v <- evaluate (JStr s) in_ctx ;;
                    if py_is_int v then ret (Some v)
                    else raise (mkexn "ValueError" ("The retry delay for task """ ++ t ++ """ is not an integer."))
                | other => ret other
                end) ;;
      count <- (match dget "count" d with
                | Some (JStr s) =>
                    v <- evaluate (JStr s) in_ctx ;;
                    if py_is_int v then ret v
                    else raise (mkexn "ValueError" ("The retry count for task """ ++ t ++ """ is not an integer."))
                | Some v => ret v
                | None => ret JNull
                end) ;;
      ret {| rr_when := when; rr_count := count; rr_delay := delay; rr_tally := 0 |}
  | _ => raise (exn_type "'NoneType' object does not support item assignment")
  end.

(* add_task_state: returns the index of the new record *)
Definition add_task_state (t : string) (route : nat) (in_idxs : list nat) (prev : list (trid * nat)) : M nat :=
  c <- get ;;
  if negb (g_has_task (c_graph c) t) then raise (exn_invalid_task t)
  else
    let in_idxs := match in_idxs with [] => [0] | _ => in_idxs end in
    retry <- (if g_task_has_retry (c_graph c) t then
                try_catch (r <- setup_retry t in_idxs ;; ret (Some r))
                          (fun e => log_error e (Some t) (Some route) None ;;;
                                    request_status_core S_FAILED ;;; ret None)
              else ret None) ;;
    let r := {| r_id := t; r_route := route; r_in := in_idxs; r_out := None; r_prev := prev;
                r_next := []; r_status := None; r_term := false; r_retry := retry |} in
    w <- getws ;;
    let idx := length (sequence w) in
    modws (fun w => ws_set_tasks (ws_set_sequence w (app (sequence w) [r])) (aset tkey_eqb (t, route) idx (tasks w))) ;;;
    ret idx.

(* _evaluate_route *)
Definition evaluate_route (e : gedge) (prev_route : nat) : M nat :=
  c <- get ;;
  let t := e_dst e in
  if negb (spec_is_split_task (c_spec c) t) || g_in_cycle (c_graph c) t then ret prev_route
  else
    match nth_error (routes (c_ws c)) prev_route with
    | None => raise exn_index
    | Some old =>
        let ptid := (e_src e, e_key e) in
        if existsb (trid_eqb ptid) old then ret prev_route
        else
          modws (fun w => ws_set_routes w (app (routes w) [app old [ptid]])) ;;;
          ret (length (routes (c_ws c)))
    end.

(* _evaluate_task_retry *)
Definition evaluate_task_retry (r : trec) (ctx : dict) : M bool :=
  match r_retry r with
  | None => ret false
  | Some rr =>
      if negb (py_is_int (rr_count rr))
      then raise (exn_type "'>=' not supported between instances of 'int' and retry count")
      else if Z.leb (py_int_value (rr_count rr)) (Z.of_nat (rr_tally rr)) then ret false
      else if status_in (rstatus r) ABENDED_STATUSES && is_jnull (rr_when rr) then ret true
      else v <- evaluate (rr_when rr) ctx ;; ret (truthy v)
  end.

(* TaskSpec.finalize_context: (new_ctx, errors) *)
Definition finalize_context (ts : task_spec) (e : gedge) (in_ctx : dict) : M (dict * list exn) :=
  match nth_error (ts_next ts) (e_ref e) with
  | None => raise exn_index
  | Some tr =>
      if string_in (e_dst e) (tr_do tr) then render_vars (tr_publish tr) in_ctx [] []
      else ret ([], [])
  end.

Definition get_rec (i : nat) : M trec :=
  w <- getws ;; match nth_error (sequence w) i with Some r => ret r | None => raise exn_index end.
Definition upd_rec (i : nat) (f : trec -> trec) : M unit := modws (fun w => ws_update_rec w i f).

(* the body of one iteration of the task transition loop; returns the engine command queued (if
   any) and the ready non-command task staged (if any) *)
Definition process_transition (t : string) (route : nat) (idx : nat) (ts : task_spec) (current_ctx : dict)
           (e : gedge) : M (option (string * nat) * option (string * nat)) :=
  let tid := (e_dst e, e_key e) in
  ok <- try_catch
          (vs <- mapM (fun cr => evaluate cr current_ctx) (e_criteria e) ;;
           let b := forallb truthy vs in
           upd_rec idx (fun r => r_set_next r (aset trid_eqb tid b (r_next r))) ;;;
           ret (Some b))
          (fun x => log_error x (Some t) (Some route) (Some tid) ;;;
                    request_status_core S_FAILED ;;; ret None) ;;
  match ok with
  | Some true =>
      fc <- finalize_context ts e current_ctx ;;
      let '(new_ctx, errors) := fc in
      match errors with
      | _ :: _ =>
          log_errors errors (Some t) (Some route) (Some tid) ;;;
          request_status_core S_FAILED ;;; ret (None, None)
      | [] =>
          r <- get_rec idx ;;
          w <- getws ;;
          out_idxs <- (match new_ctx with
                       | [] => ret (r_in r)
                       | _ =>
                           let ci := length (contexts w) in
                           modws (fun w => ws_set_contexts w (app (contexts w) [new_ctx])) ;;;
                           upd_rec idx (fun r => r_set_out r (Some (tid, ci))) ;;;
                           ret (app (r_in r) [ci])
                       end) ;;
          next_route <- evaluate_route e route ;;
          let nt := e_dst e in
          let backref := (t, e_key e) in
          w <- getws ;;
          (match get_staged_task w nt next_route with
           | Some _ =>
               match nat_remove_first 0 out_idxs with
               | None => raise (mkexn "ValueError" "list.remove(x): x not in list")
               | Some out' =>
                   modws (fun w => ws_set_staged w
                            (staged_update
                               (fun s => s_set_completed
                                           (s_set_items (s_set_in_prev s (app (s_in s) out')
                                                                       (aset trid_eqb backref idx (s_prev s)))
                                                        None) false)
                               nt next_route (staged w)))
               end
           | None =>
               modws (fun w => ws_add_staged w (mk_staged nt next_route out_idxs [(backref, idx)] false None))
           end) ;;;
          c <- get ;;
          let ready := inbound_eqb (get_inbound_criteria_status (c_graph c) (c_ws c) nt route) InbSatisfied in
          modws (fun w => ws_set_staged w (staged_update (fun s => s_set_ready s ready) nt next_route (staged w))) ;;;
          if is_engine_command nt then ret (Some (nt, next_route), None)
          else if ready then ret (None, Some (nt, next_route))
          else ret (None, None)
      end
  | _ => ret (None, None)
  end.

Definition exn_out_of_fuel : exn := mkexn "OutOfFuel" "model recursion bound reached".

Fixpoint update_task_state_fuel (fuel : nat) (t : string) (route : nat) (evt : event) : M unit :=
  match fuel with
  | O => raise exn_out_of_fuel
  | S fuel' =>
      ensure_ws ;;;
      c <- get ;;
      if negb (g_has_task (c_graph c) t) then raise (exn_invalid_task t)
      else
        let w := c_ws c in
        let staged0 := get_staged_task w t route in
        let entry0 := ws_task_idx w t route in
        ts <- (match spec_get_task (c_spec c) t with Some ts => ret ts | None => raise (exn_key t) end) ;;
        match staged0, entry0 with
        | None, None =>
            raise (mkexn "InvalidTaskStateEntry" ("Task """ ++ t ++ """ is not staged or has not started yet."))
        | _, _ =>
            let need_staged : M stg :=
              match staged0 with
              | Some s => ret s
              | None => raise (exn_type "'NoneType' object is not subscriptable")
              end in
            (* create a new task state entry if none exists or if it is an engine command *)
            idx1 <- (match entry0 with
                     | Some i => if is_engine_command t
                                 then s <- need_staged ;; add_task_state t (s_route s) (s_in s) (s_prev s)
                                 else ret i
                     | None => s <- need_staged ;; add_task_state t (s_route s) (s_in s) (s_prev s)
                     end) ;;
            r1 <- get_rec idx1 ;;
            (* a completed task that starts again is in a cycle: new entry *)
            idx <- (if ostatus_in (r_status r1) COMPLETED_STATUSES && status_in (ev_status evt) STARTING_STATUSES
                       && match staged0 with Some s0 => negb (s_completed s0) | None => false end
                    then s <- need_staged ;; add_task_state t (s_route s) (s_in s) (s_prev s)
                    else ret idx1) ;;
            (* remove task from staging if task is not with items *)
            (match staged0 with
             | Some s => match s_items s with
                         | None => match evt with
                                   | EvItem _ _ _ _ => ret tt   (* late item report for a re-staged retry *)
                                   | _ => modws (fun w => ws_remove_staged_task w t route)
                                   end
                         | Some _ => ret tt
                         end
             | None => ret tt
             end) ;;;
            (* record the execution status of the item *)
            (match staged0, evt with
             | Some s, EvItem item st _ _ =>
                 match s_items s with
                 | None => ret tt
                 | Some its =>
                     if Nat.ltb item (length its) then
                       modws (fun w => ws_set_staged w
                                (staged_update
                                   (fun e => s_set_items e (match s_items e with
                                                            | Some l => Some (list_set_nth item st l)
                                                            | None => None end))
                                   t route (staged w)))
                     else raise (mkexn "IndexError" "list assignment index out of range")
                 end
             | _, _ => ret tt
             end) ;;;
            (if status_eqb (ev_status evt) S_FAILED
             then log_entry_error "Execution failed. See result for details." (Some t) None None (ev_result evt)
             else ret tt) ;;;
            (* task state machine *)
            r <- get_rec idx ;;
            let old_status := rstatus r in
            w <- getws ;;
            ns <- lift_res (task_process_event w r evt) ;;
            (match ns with Some s => set_rec_status idx (Some s) | None => ret tt end) ;;;
            r <- get_rec idx ;;
            let new_status := rstatus r in
            (* retrying: stage the task again *)
            (if status_eqb new_status S_RETRYING then
               match r_retry r with
               | None => raise (exn_key "retry")
               | Some rr =>
                   let rr' := {| rr_when := rr_when rr; rr_count := rr_count rr; rr_delay := rr_delay rr;
                                 rr_tally := S (rr_tally rr) |} in
                   upd_rec idx (fun r => r_set_retry r (Some rr')) ;;;
                   modws (fun w => ws_remove_staged_task w t route) ;;;
                   modws (fun w => ws_add_staged w (mk_staged t route (r_in r) (r_prev r) true (Some rr')))
               end
             else ret tt) ;;;
            (* completion: result, context, retry decision *)
            completion <-
              (if status_in new_status COMPLETED_STATUSES then
                 (if negb (task_has_items ts && status_in new_status ABENDED_STATUSES)
                  then modws (fun w => ws_remove_staged_task w t route)
                  else
                    w <- getws ;;
                    match get_staged_task w t route with
                    | None => raise (exn_type "'NoneType' object does not support item assignment")
                    | Some _ => modws (fun w => ws_set_staged w
                                         (staged_update (fun s => s_set_completed s true) t route (staged w)))
                    end) ;;;
                 let task_result :=
                   if negb (task_has_items ts) then ev_result evt
                   else match evt with
                        | EvItem _ _ _ acc => if truthy acc then acc else JList []
                        | _ => if truthy (ev_result evt) then ev_result evt else JList []
                        end in
                 r <- get_rec idx ;;
                 in_ctx <- get_task_context (r_in r) ;;
                 w <- getws ;;
                 let current_ctx :=
                   merge_dicts (dset "__current_task" (current_task_json (r_id r) (r_route r) (Some task_result)) in_ctx)
                               (state_ctx w) in
                 retry_task <- try_catch
                                 (if negb (status_eqb new_status old_status)
                                     && status_in (wstatus w) ACTIVE_STATUSES
                                     && tbl_transition_valid task_table new_status S_RETRYING
                                  then evaluate_task_retry r current_ctx else ret false)
                                 (fun x => log_error x (Some t) (Some route) None ;;;
                                           request_status_core S_FAILED ;;; ret false) ;;
                 ret (Some (current_ctx, retry_task))
               else ret None) ;;
            match completion with
            | Some (_, true) =>
                update_task_state_fuel fuel' t route (EvEngine EV_TASK_RETRY_REQUESTED S_RETRYING)
            | _ =>
                (* task transitions *)
                queue <-
                  (match completion with
                   | Some (current_ctx, _) =>
                       if negb (status_eqb new_status old_status) then
                         c <- get ;;
                         let transitions := g_next_transitions (c_graph c) t in
                         (match transitions with
                          | [] => upd_rec idx (fun r => r_set_term r true)
                          | _ => ret tt
                          end) ;;;
                         rs <- mapM (process_transition t route idx ts current_ctx) transitions ;;
                         let cmds := flat_map (fun '(q, _) => match q with Some x => [x] | None => [] end) rs in
                         let readies := flat_map (fun '(_, q) => match q with Some x => [x] | None => [] end) rs in
                         (if existsb (fun '(n, _) => String.eqb n "fail") cmds then
                            forM_ readies (fun '(n, rt) =>
                              modws (fun w => ws_set_staged w
                                       (staged_update (fun s => s_set_run_on_fail s true) n rt (staged w))))
                          else ret tt) ;;;
                         (* terminal when none of the transitions is satisfied *)
                         r <- get_rec idx ;;
                         (match transitions with
                          | [] => ret tt
                          | _ => if existsb (fun '(_, b) => b) (r_next r) then ret tt
                                 else upd_rec idx (fun r => r_set_term r true)
                          end) ;;;
                         ret cmds
                       else ret []
                   | None => ret []
                   end) ;;
                (* workflow state machine *)
                r <- get_rec idx ;;
                st <- (match r_status r with Some s => ret s | None => raise (exn_key "status") end) ;;
                unreachable <- wf_task_event_M t route st ;;
                log_unreachable unreachable ;;;
                (* engine commands *)
                forM_ queue (fun '(n, rt) =>
                  match engine_event n with
                  | Some e => update_task_state_fuel fuel' n rt e
                  | None => raise (exn_key n)
                  end) ;;;
                w <- getws ;;
                if status_in (wstatus w) COMPLETED_STATUSES
                then upd_rec idx (fun r => r_set_term r true)
                else ret tt
            end
        end
  end.

Definition update_task_state (t : string) (route : nat) (evt : event) : M unit :=
  update_task_state_fuel 3 t route evt.

(* --------------------------------------------------------- render_workflow_output *)

Fixpoint merge_term_contexts (l : list (nat * trec)) (acc : dict) : M dict :=
  match l with
  | [] => ret acc
  | (_, r) :: l' =>
      match nat_remove_first 0 (r_in r) with
      | None => raise (mkexn "ValueError" "list.remove(x): x not in list")
      | Some idxs => d <- get_task_context idxs ;; merge_term_contexts l' (merge_dicts acc d)
      end
  end.

Definition get_workflow_terminal_context : M dict :=
  w <- getws ;;
  match get_terminal_tasks w with
  | [] => ret []
  | (_, first) :: others =>
      c0 <- get_task_context (r_in first) ;;
      merge_term_contexts others c0
  end.

Definition render_workflow_output : M unit :=
  ensure_ws ;;;
  c <- get ;;
  let st := wstatus (c_ws c) in
  if status_in st COMPLETED_STATUSES && match c_output c with None => true | Some _ => false end then
    tctx <- get_workflow_terminal_context ;;
    let wctx := merge_dicts tctx (state_ctx (c_ws c)) in
    ro <- render_vars (wf_output (c_spec c)) wctx [] [] ;;
    let '(outputs, errors) := ro in
    (match outputs with [] => ret tt | _ => modify (fun c => set_output c (Some outputs)) end) ;;;
    match errors with
    | [] => ret tt
    | _ =>
        log_errors errors None None None ;;;
        if status_in st [S_EXPIRED; S_ABANDONED; S_CANCELED] then ret tt
        else request_status_core S_FAILED
    end
  else ret tt.

(* ---------------------------------------------------------- request_workflow_rerun *)

(* get_task_sequence(task_id, route): indices, breadth first (fuel: one unit per dequeue) *)
Fixpoint task_sequence_bfs (w : wstate) (fuel : nat) (queue : list (string * nat)) (seq : list nat) : list nat :=
  match fuel with
  | O => seq
  | S f =>
      match queue with
      | [] => seq
      | (tid, rt) :: queue' =>
          let hits :=
            flat_map (fun '(i, r) =>
                        map (fun _ => i)
                            (filter (fun '(_, v) => match nth_error (sequence w) v with
                                                    | Some p => String.eqb (r_id p) tid && Nat.eqb (r_route p) rt
                                                    | None => false end)
                                    (r_prev r)))
                     (enumerate (sequence w)) in
          let step := fold_left (fun '(sq, qu) i =>
                                   if nat_in i sq then (sq, qu)
                                   else match nth_error (sequence w) i with
                                        | Some r => (app sq [i], app qu [(r_id r, r_route r)])
                                        | None => (sq, qu)
                                        end) hits (seq, queue') in
          task_sequence_bfs w f (snd step) (fst step)
      end
  end.

Definition get_task_sequence (w : wstate) (t : string) (route : nat) : result (list nat) :=
  match ws_task_idx w t route with
  | None => Exc (exn_key (tkey_str (t, route)))
  | Some idx => Val (task_sequence_bfs w (2 + length (sequence w)) [(t, route)] [idx])
  end.

Definition request_task_rerun (t : string) (route : nat) (reset_items : bool) : M unit :=
  c <- get ;;
  idx <- (match ws_task_idx (c_ws c) t route with Some i => ret i | None => raise (exn_key (tkey_str (t, route))) end) ;;
  r <- get_rec idx ;;
  ts <- (match spec_get_task (c_spec c) t with Some ts => ret ts | None => raise (exn_key t) end) ;;
  upd_rec idx (fun r => r_set_term r false) ;;;
  modws (fun w => ws_set_staged w (staged_update (fun s => s_set_completed s false) t route (staged w))) ;;;
  modify (fun c => set_errors c (filter (fun e => negb (opt_eqb String.eqb (er_task e) (Some t))) (c_errors c))) ;;;
  w <- getws ;;
  (if task_has_items ts && match get_staged_task w t route with Some _ => true | None => false end then
     modws (fun w => ws_set_staged w
              (staged_update
                 (fun s => s_set_items s
                             (match s_items s with
                              | Some l => Some (map (fun st => if reset_items || status_in st ABENDED_STATUSES
                                                               then S_UNSET else st) l)
                              | None => None end))
                 t route (staged w)))
   else
     add_task_state t route (r_in r) (r_prev r) ;;;
     modws (fun w => ws_add_staged w (mk_staged t route (r_in r) (r_prev r) true None))) ;;;
  w <- getws ;;
  sq <- lift_res (get_task_sequence w t route) ;;
  forM_ sq (fun i => upd_rec i (fun r => r_set_term r false)).

Definition nat_list_diff_nonempty (a b : list nat) : bool := existsb (fun x => negb (nat_in x b)) a.
(* set(a) < set(b): a request whose sequence is part of another request's sequence is collapsed *)
Definition nat_list_proper_subset (a b : list nat) : bool :=
  negb (nat_list_diff_nonempty a b) && nat_list_diff_nonempty b a.

Definition request_workflow_rerun (reqs : list rerun_req) : M unit :=
  ensure_ws ;;;
  w <- getws ;;
  if negb (status_in (wstatus w) COMPLETED_STATUSES)
  then raise (mkexn "WorkflowIsActiveAndNotRerunableError"
                    "Unable to rerun workflow because it is not in a completed state.")
  else
    (* tasks = {t.task_state_entry_id: t}: later duplicates replace the value, keep the position *)
    let tasks_d := fold_left (fun acc q => aset tkey_eqb (rq_task q, rq_route q) q acc) reqs [] in
    let invalid := filter (fun '(k, _) => negb (ahas tkey_eqb k (tasks w))) tasks_d in
    match invalid with
    | _ :: _ =>
        raise (mkexn "InvalidTaskRerunRequest"
                 ("Unable to rerun task|route(s) because it doesn't exist or isn't rerunnable: "
                  ++ String.concat ", " (map (fun '((t, r), _) => t ++ "|" ++ nat_to_string r) invalid)))
    | [] =>
        candidates <-
          (match tasks_d with
           | [] =>
               ret (fold_left (fun acc '(i, r) =>
                                 if ostatus_in (r_status r) ABENDED_STATUSES
                                 then aset tkey_eqb (r_id r, r_route r) (i, r) acc else acc)
                              (get_terminal_tasks w) [])
           | _ =>
               seqs <- mapM (fun '(k, q) => s <- lift_res (get_task_sequence w (rq_task q) (rq_route q)) ;; ret (k, s))
                            tasks_d ;;
               let collapsed :=
                 match tasks_d with
                 | [_] => seqs
                 | _ => filter (fun '(_, i) => negb (existsb (fun '(_, j) => nat_list_proper_subset i j) seqs)) seqs
                 end in
               ret (flat_map (fun '(k, q) =>
                                if ahas tkey_eqb k collapsed then
                                  match ws_task_idx w (rq_task q) (rq_route q) with
                                  | Some i => match nth_error (sequence w) i with
                                              | Some r => [(k, (i, r))]
                                              | None => []
                                              end
                                  | None => []
                                  end
                                else []) tasks_d)
           end) ;;
        modws (fun w => ws_set_reruns w (app (reruns w) [map (fun '(_, (i, _)) => i) candidates])) ;;;
        let sorted := sort_by (fun '(_, (_, a)) '(_, (_, b)) =>
                                 if String.eqb (r_id a) (r_id b) then Nat.leb (r_route a) (r_route b)
                                 else String.leb (r_id a) (r_id b)) candidates in
        forM_ sorted (fun '(_, (_, r)) =>
          let reset := match aget tkey_eqb (r_id r, r_route r) tasks_d with
                       | Some q => rq_reset_items q
                       | None => false end in
          request_task_rerun (r_id r) (r_route r) reset) ;;;
        (* automatically resume the terminal tasks that have a satisfied transition *)
        w <- getws ;;
        let continuable :=
          fold_left (fun acc '(i, r) =>
                       if existsb (fun '(_, b) => b) (r_next r)
                       then aset tkey_eqb (r_id r, r_route r) i acc else acc)
                    (get_terminal_tasks w) [] in
        forM_ continuable (fun '(_, i) => upd_rec i (fun r => r_set_term r false)) ;;;
        modify (fun c => set_output c None) ;;;
        modws (fun w => ws_set_status w S_RESUMING)
    end.

End WithEval.
