(* Decode.v -- readers from JSON: the normalised spec and graph handed over by the harness, events
   and rerun requests, and the persisted form of the conductor (inverse of the Codec encoders). *)
From Coq Require Import String Ascii List Bool ZArith Arith DecimalString.
From Orq Require Import GenStatuses GenEvents GenSpecMeta Base State Machines Codec.
Import ListNotations.
Open Scope string_scope.

Definition obind {A B} (o : option A) (f : A -> option B) : option B :=
  match o with Some a => f a | None => None end.
Notation "x <-? m ;; k" := (obind m (fun x => k)) (at level 61, m at next level, right associativity).

Fixpoint mapO {A B} (f : A -> option B) (l : list A) : option (list B) :=
  match l with
  | [] => Some []
  | x :: l' => y <-? f x ;; ys <-? mapO f l' ;; Some (y :: ys)
  end.

Definition jfield (k : string) (j : json) : option json :=
  match j with JDict d => dget k d | _ => None end.
Definition jfield_or_null (k : string) (j : json) : json :=
  match jfield k j with Some v => v | None => JNull end.
Definition as_str (j : json) : option string := match j with JStr s => Some s | _ => None end.
Definition as_nat (j : json) : option nat :=
  match j with JInt z => if Z.leb 0 z then Some (Z.to_nat z) else None | _ => None end.
Definition as_bool (j : json) : option bool := match j with JBool b => Some b | _ => None end.
Definition as_list (j : json) : option (list json) := match j with JList l => Some l | _ => None end.
Definition as_dict (j : json) : option dict := match j with JDict d => Some d | _ => None end.

Definition status_of_name (s : string) : option status :=
  find (fun st => String.eqb (status_name st) s) all_statuses.
Definition as_status (j : json) : option status := s <-? as_str j ;; status_of_name s.

Definition as_pair (j : json) : option (json * json) :=
  match j with JList [a; b] => Some (a, b) | _ => None end.
Definition as_named (j : json) : option (string * json) :=
  p <-? as_pair j ;; n <-? as_str (fst p) ;; Some (n, snd p).

(* ------------------------------------------------------------------- spec *)

Definition dec_transition (j : json) : option transition_spec :=
  pub <-? (l <-? as_list (jfield_or_null "publish" j) ;; mapO as_named l) ;;
  dos <-? (l <-? as_list (jfield_or_null "do" j) ;; mapO as_str l) ;;
  Some {| tr_when := jfield_or_null "when" j; tr_publish := pub; tr_do := dos |}.

Definition dec_items (j : json) : option (option items_spec) :=
  match j with
  | JNull => Some None
  | _ =>
      e <-? as_str (jfield_or_null "expr" j) ;;
      ks <-? (match jfield_or_null "keys" j with
              | JNull => Some None
              | JList l => l' <-? mapO as_str l ;; Some (Some l')
              | _ => None
              end) ;;
      Some (Some {| it_expr := e; it_keys := ks; it_concurrency := jfield_or_null "concurrency" j |})
  end.

Definition dec_task (j : json) : option task_spec :=
  w <-? dec_items (jfield_or_null "with" j) ;;
  nx <-? (l <-? as_list (jfield_or_null "next" j) ;; mapO dec_transition l) ;;
  Some {| ts_action := jfield_or_null "action" j; ts_input := jfield_or_null "input" j; ts_with := w;
          ts_delay := jfield_or_null "delay" j; ts_join := jfield_or_null "join" j; ts_next := nx |}.

Definition dec_spec (j : json) : option wf_spec :=
  i <-? (l <-? as_list (jfield_or_null "input" j) ;; mapO as_named l) ;;
  v <-? (l <-? as_list (jfield_or_null "vars" j) ;; mapO as_named l) ;;
  o <-? (l <-? as_list (jfield_or_null "output" j) ;; mapO as_named l) ;;
  t <-? (l <-? as_list (jfield_or_null "tasks" j) ;;
         mapO (fun x => p <-? as_named x ;; ts <-? dec_task (snd p) ;; Some (fst p, ts)) l) ;;
  Some {| wf_input := i; wf_vars := v; wf_output := o; wf_tasks := t |}.

(* ------------------------------------------------------------------ graph *)

Definition dec_node (j : json) : option gnode :=
  i <-? as_str (jfield_or_null "id" j) ;;
  sp <-? (match jfield_or_null "splits" j with
          | JNull => Some None
          | JList l => l' <-? mapO as_str l ;; Some (Some l')
          | _ => None
          end) ;;
  Some {| n_id := i; n_barrier := jfield_or_null "barrier" j; n_splits := sp;
          n_retry := jfield_or_null "retry" j |}.

Definition dec_edge (j : json) : option gedge :=
  s <-? as_str (jfield_or_null "src" j) ;;
  d <-? as_str (jfield_or_null "dst" j) ;;
  k <-? as_nat (jfield_or_null "key" j) ;;
  r <-? as_nat (jfield_or_null "ref" j) ;;
  c <-? as_list (jfield_or_null "criteria" j) ;;
  Some {| e_src := s; e_dst := d; e_key := k; e_ref := r; e_criteria := c |}.

Definition dec_graph (j : json) : option graph :=
  n <-? (l <-? as_list (jfield_or_null "nodes" j) ;; mapO dec_node l) ;;
  e <-? (l <-? as_list (jfield_or_null "edges" j) ;; mapO dec_edge l) ;;
  Some {| g_nodes := n; g_edges := e |}.

(* ------------------------------------------------------- events and requests *)

Definition dec_event (j : json) : option event :=
  match j with
  | JList [JStr "action"; st; res] => s <-? as_status st ;; Some (EvAction s res)
  | JList [JStr "item"; it; st; res; acc] =>
      i <-? as_nat it ;; s <-? as_status st ;; Some (EvItem i s res acc)
  | _ => None
  end.

Definition dec_rerun_req (j : json) : option (string * nat * bool) :=
  match j with
  | JList [JStr t; r; b] => r' <-? as_nat r ;; b' <-? as_bool b ;; Some (t, r', b')
  | _ => None
  end.

(* ---------------------------------------------------------- persisted state *)

(* last occurrence of sep in s: (before, after) *)
Fixpoint rsplit (sep s : string) : option (string * string) :=
  match s with
  | EmptyString => None
  | String c s' =>
      match rsplit sep s' with
      | Some (b, a) => Some (String c b, a)
      | None => if String.prefix sep s
                then Some ("", substring (String.length sep) (String.length s - String.length sep) s)
                else None
      end
  end.

Definition nat_of_string (s : string) : option nat :=
  match s with
  | EmptyString => None
  | _ => match NilZero.int_of_string s with
         | Some d => let z := Z.of_int d in
                     if Z.leb 0 z && String.eqb (Z_to_string z) s then Some (Z.to_nat z) else None
         | None => None
         end
  end.

Definition dec_trid (s : string) : option trid :=
  p <-? rsplit TRANSITION_SEP s ;; n <-? nat_of_string (snd p) ;; Some (fst p, n).
Definition dec_tkey (s : string) : option tkey :=
  p <-? rsplit ROUTE_SEP s ;; n <-? nat_of_string (snd p) ;; Some (fst p, n).

Definition dec_retry (j : json) : option retry_rec :=
  w <-? jfield "when" j ;; c <-? jfield "count" j ;; t <-? as_nat (jfield_or_null "tally" j) ;;
  Some {| rr_when := w; rr_count := c; rr_delay := jfield "delay" j; rr_tally := t |}.

Definition dec_opt {A} (f : json -> option A) (o : option json) : option (option A) :=
  match o with None => Some None | Some j => a <-? f j ;; Some (Some a) end.

Definition dec_prev (j : json) : option (list (trid * nat)) :=
  d <-? as_dict j ;; mapO (fun '(k, v) => t <-? dec_trid k ;; n <-? as_nat v ;; Some (t, n)) d.

Definition dec_flag (k : string) (j : json) : option bool :=
  match jfield k j with None => Some false | Some (JBool true) => Some true | _ => None end.

Definition dec_rec (j : json) : option trec :=
  i <-? as_str (jfield_or_null "id" j) ;;
  rt <-? as_nat (jfield_or_null "route" j) ;;
  ctxs <-? jfield "ctxs" j ;;
  cin <-? (l <-? as_list (jfield_or_null "in" ctxs) ;; mapO as_nat l) ;;
  cout <-? (match jfield "out" ctxs with
            | None => Some None
            | Some (JDict [(k, v)]) => t <-? dec_trid k ;; n <-? as_nat v ;; Some (Some (t, n))
            | _ => None
            end) ;;
  pv <-? dec_prev (jfield_or_null "prev" j) ;;
  nx <-? (d <-? as_dict (jfield_or_null "next" j) ;;
          mapO (fun '(k, v) => t <-? dec_trid k ;; b <-? as_bool v ;; Some (t, b)) d) ;;
  st <-? dec_opt as_status (jfield "status" j) ;;
  tm <-? dec_flag "term" j ;;
  ry <-? dec_opt dec_retry (jfield "retry" j) ;;
  Some {| r_id := i; r_route := rt; r_in := cin; r_out := cout; r_prev := pv; r_next := nx;
          r_status := st; r_term := tm; r_retry := ry |}.

Definition dec_stg (j : json) : option stg :=
  i <-? as_str (jfield_or_null "id" j) ;;
  rt <-? as_nat (jfield_or_null "route" j) ;;
  ctxs <-? jfield "ctxs" j ;;
  cin <-? (l <-? as_list (jfield_or_null "in" ctxs) ;; mapO as_nat l) ;;
  pv <-? dec_prev (jfield_or_null "prev" j) ;;
  rd <-? as_bool (jfield_or_null "ready" j) ;;
  ry <-? dec_opt dec_retry (jfield "retry" j) ;;
  its <-? dec_opt (fun x => l <-? as_list x ;; mapO (fun e => as_status (jfield_or_null "status" e)) l)
                  (jfield "items" j) ;;
  cp <-? dec_flag "completed" j ;;
  rf <-? dec_flag "run_on_fail" j ;;
  Some {| s_id := i; s_route := rt; s_in := cin; s_prev := pv; s_ready := rd; s_retry := ry;
          s_items := its; s_completed := cp; s_run_on_fail := rf |}.

Definition dec_wstate (j : json) : option wstate :=
  cx <-? (l <-? as_list (jfield_or_null "contexts" j) ;; mapO as_dict l) ;;
  rts <-? (l <-? as_list (jfield_or_null "routes" j) ;;
           mapO (fun r => l' <-? as_list r ;; mapO (fun x => s <-? as_str x ;; dec_trid s) l') l) ;;
  sq <-? (l <-? as_list (jfield_or_null "sequence" j) ;; mapO dec_rec l) ;;
  sg <-? (l <-? as_list (jfield_or_null "staged" j) ;; mapO dec_stg l) ;;
  st <-? as_status (jfield_or_null "status" j) ;;
  tk <-? (d <-? as_dict (jfield_or_null "tasks" j) ;;
          mapO (fun '(k, v) => t <-? dec_tkey k ;; n <-? as_nat v ;; Some (t, n)) d) ;;
  rr <-? (match jfield "reruns" j with
          | None => Some []
          | Some x => l <-? as_list x ;; mapO (fun r => l' <-? as_list r ;; mapO as_nat l') l
          end) ;;
  Some {| contexts := cx; routes := rts; sequence := sq; staged := sg; wstatus := st; tasks := tk;
          reruns := rr |}.

Definition dec_errent (j : json) : option errent :=
  ty <-? as_str (jfield_or_null "type" j) ;;
  m <-? as_str (jfield_or_null "message" j) ;;
  tk <-? dec_opt as_str (jfield "task_id" j) ;;
  rt <-? dec_opt as_nat (jfield "route" j) ;;
  tr <-? dec_opt (fun x => s <-? as_str x ;; dec_trid s) (jfield "task_transition_id" j) ;;
  Some {| er_type := ty; er_message := m; er_task := tk; er_route := rt; er_trans := tr;
          er_result := jfield "result" j |}.

(* the dynamic part of WorkflowConductor.deserialize; spec and graph are given *)
Definition dec_cstate (sp : wf_spec) (g : graph) (j : json) : option cstate :=
  i <-? as_dict (jfield_or_null "input" j) ;;
  p <-? as_dict (jfield_or_null "context" j) ;;
  w <-? dec_wstate (jfield_or_null "state" j) ;;
  lg <-? (l <-? as_list (jfield_or_null "log" j) ;; mapO dec_errent l) ;;
  er <-? (l <-? as_list (jfield_or_null "errors" j) ;; mapO dec_errent l) ;;
  o <-? (match jfield_or_null "output" j with
         | JNull => Some None
         | JDict d => Some (Some d)
         | _ => None
         end) ;;
  Some {| c_spec := sp; c_graph := g; c_inputs := i; c_parent := p; c_init := true; c_ws := w;
          c_errors := er; c_log := lg; c_output := o |}.

Definition Z_of_string (s : string) : option Z :=
  match NilZero.int_of_string s with Some d => Some (Z.of_int d) | None => None end.
