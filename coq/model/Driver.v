(* Driver.v -- one entry point per provider operation, JSON in / JSON out, used by the extracted
   driver (ocaml/driver.ml) and by in-Coq evaluation of cases. *)
From Coq Require Import String List Bool ZArith Arith.
From Orq Require Import GenStatuses GenEvents GenSpecMeta Base State Machines Codec Conductor Decode Api.
Import ListNotations.
Open Scope string_scope.

Definition init_cstate (sp : wf_spec) (g : graph) (inputs parent : dict) : cstate :=
  {| c_spec := sp; c_graph := g; c_inputs := inputs; c_parent := parent; c_init := false;
     c_ws := empty_ws; c_errors := []; c_log := []; c_output := None |}.

Definition enc_action (a : action_spec) : json :=
  JDict (app [("action", a_action a); ("input", a_input a)]
             (opt_field "item_id" enc_nat (a_item a))).

Definition enc_offer (o : offer) : json :=
  JDict (app [("id", JStr (o_id o)); ("route", enc_nat (o_route o)); ("ctx", JDict (o_ctx o));
              ("actions", JList (map enc_action (o_actions o)))]
        (app (opt_field "delay" (fun x => x) (o_delay o))
        (app (opt_field "items_count" enc_nat (o_items_count o))
             (opt_field "concurrency" (fun x => x) (o_concurrency o))))).

Definition enc_outcome {A} (f : A -> json) (r : cstate * result A) : cstate * json :=
  let '(c, res) := r in
  (c, JDict [("raised", match res with
                        | Val _ => JNull
                        | Exc e => JList [JStr (x_cls e); JStr (x_msg e)]
                        end);
             ("result", match res with Val a => f a | Exc _ => JNull end);
             ("state", enc_cstate c)]).

Definition bad_op (c : cstate) : cstate * json :=
  (c, JDict [("raised", JList [JStr "BadOperation"; JStr "operation not understood by the model driver"]);
             ("result", JNull); ("state", enc_cstate c)]).

Section WithEval.
Variable ev : string -> dict -> evalres.

Definition dec_op (op : json) : option api_op :=
  match op with
  | JList [JStr "serialize"] => Some OpSerialize
  | JList [JStr "request_status"; st] => s <-? as_status st ;; Some (OpRequest s)
  | JList [JStr "get_next"] => Some OpGetNext
  | JList [JStr "event"; JStr t; rt; e] => r <-? as_nat rt ;; evt <-? dec_event e ;; Some (OpEvent t r evt)
  | JList [JStr "render"] => Some OpRender
  | JList [JStr "rerun"; JList reqs] =>
      l <-? mapO dec_rerun_req reqs ;;
      Some (OpRerun (map (fun '(t, r, b) => {| rq_task := t; rq_route := r; rq_reset_items := b |}) l))
  | JList [JStr "persist"] => Some OpPersist
  | _ => None
  end.

Definition enc_result (r : api_result) : json :=
  match r with RUnit => JNull | ROffers l => JList (map enc_offer l) end.

Definition run_op (c : cstate) (op : json) : cstate * json :=
  match dec_op op with
  | Some o => enc_outcome enc_result (api_exec ev o c)
  | None => bad_op c
  end.

End WithEval.

Definition start (spec graph inputs parent : json) : option cstate :=
  match dec_spec spec, dec_graph graph, inputs, parent with
  | Some sp, Some g, JDict i, JDict p => Some (init_cstate sp g i p)
  | _, _, _, _ => None
  end.

Definition restore (spec graph dyn : json) : option cstate :=
  match dec_spec spec, dec_graph graph with
  | Some sp, Some g => dec_cstate sp g dyn
  | _, _ => None
  end.
