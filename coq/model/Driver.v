(* Driver.v -- one entry point per provider operation, JSON in / JSON out, used by the extracted
   driver (ocaml/driver.ml) and by in-Coq evaluation of cases. *)
From Coq Require Import String List Bool ZArith Arith.
From Orq Require Import GenStatuses GenEvents GenSpecMeta Base State Machines Codec Conductor Decode.
Import ListNotations.
Open Scope string_scope.

Definition init_cstate (sp : wf_spec) (g : graph) (inputs parent : dict) : cstate :=
  {| c_spec := sp; c_graph := g; c_inputs := inputs; c_parent := parent; c_init := false;
     c_ws := empty_ws; c_errors := []; c_log := []; c_output := None |}.

Definition enc_action (a : action_spec) : json :=
  JDict (app [("action", a_action a); ("input", a_input a)]
             (opt_field "item_id" enc_nat (a_item a))).

Definition enc_offer (o : offer) : json :=
  JDict (app [("id", JStr (o_id o)); ("route", enc_nat (o_route o)); ("ctx", JDict (o_ctx o));
              ("actions", JList (map enc_action (o_actions o)))]
        (app (opt_field "delay" (fun x => x) (o_delay o))
        (app (opt_field "items_count" enc_nat (o_items_count o))
             (opt_field "concurrency" (fun x => x) (o_concurrency o))))).

Definition enc_outcome {A} (f : A -> json) (r : cstate * result A) : cstate * json :=
  let '(c, res) := r in
  (c, JDict [("raised", match res with
                        | Val _ => JNull
                        | Exc e => JList [JStr (x_cls e); JStr (x_msg e)]
                        end);
             ("result", match res with Val a => f a | Exc _ => JNull end);
             ("state", enc_cstate c)]).

Definition bad_op (c : cstate) : cstate * json :=
  (c, JDict [("raised", JList [JStr "BadOperation"; JStr "operation not understood by the model driver"]);
             ("result", JNull); ("state", enc_cstate c)]).

Section WithEval.
Variable ev : string -> dict -> evalres.

Definition run_op (c : cstate) (op : json) : cstate * json :=
  match op with
  | JList [JStr "serialize"] => enc_outcome (fun _ => JNull) (ensure_ws ev c)
  | JList [JStr "request_status"; st] =>
      match as_status st with
      | Some s => enc_outcome (fun _ => JNull) (request_workflow_status ev s c)
      | None => bad_op c
      end
  | JList [JStr "get_next"] =>
      enc_outcome (fun l => JList (map enc_offer l)) (get_next_tasks ev c)
  | JList [JStr "event"; JStr t; rt; e] =>
      match as_nat rt, dec_event e with
      | Some r, Some evt => enc_outcome (fun _ => JNull) (update_task_state ev t r evt c)
      | _, _ => bad_op c
      end
  | JList [JStr "render"] => enc_outcome (fun _ => JNull) (render_workflow_output ev c)
  | JList [JStr "rerun"; JList reqs] =>
      match mapO dec_rerun_req reqs with
      | Some l =>
          enc_outcome (fun _ => JNull)
            (request_workflow_rerun ev
               (map (fun '(t, r, b) => {| rq_task := t; rq_route := r; rq_reset_items := b |}) l) c)
      | None => bad_op c
      end
  | JList [JStr "persist"] =>
      (* deserialize(serialize()): serialize first creates the workflow state *)
      match ensure_ws ev c with
      | (c1, Val _) =>
          match dec_cstate (c_spec c1) (c_graph c1) (enc_cstate c1) with
          | Some c2 => enc_outcome (fun _ => JNull) (c2, Val tt)
          | None => (c1, JDict [("raised", JList [JStr "PersistFailed"; JStr "decode (encode c) = None"]);
                                ("result", JNull); ("state", enc_cstate c1)])
          end
      | r => enc_outcome (fun _ => JNull) r
      end
  | _ => bad_op c
  end.

End WithEval.

Definition start (spec graph inputs parent : json) : option cstate :=
  match dec_spec spec, dec_graph graph, inputs, parent with
  | Some sp, Some g, JDict i, JDict p => Some (init_cstate sp g i p)
  | _, _, _, _ => None
  end.

Definition restore (spec graph dyn : json) : option cstate :=
  match dec_spec spec, dec_graph graph with
  | Some sp, Some g => dec_cstate sp g dyn
  | _, _ => None
  end.
