(* Inspect.v -- executable model of the semantic detectors of
   orquesta.specs.native.v1.models.TaskMappingSpec (detect_reserved_names, detect_start_tasks,
   detect_undefined_tasks, detect_unreachable_tasks, detect_actionless_with_items, inspect_semantics),
   of the order in which Spec.inspect() lists them, and of the context-variable tracking of
   Spec.inspect_context / TaskMappingSpec.inspect_context on the normalised spec of State.v.
   No proofs here (proofs/C15Proofs.v).

   Entries are message independent: a constructor (the kind), the task / transition index / name it
   is about, and the spec_path computed from them.

   Context tracking: the regex extraction of variable references (expr_base.extract_vars) and the
   reading of a property value into positions (a list gives one position per item, an inline
   "k=v ..." string is parsed first) are NOT modelled: the harness supplies, for every inspected
   property of every spec object, the positions with their spec_path, the variable names that the
   real extract_vars finds there (in its order) and the names get_ctx_inputs would add -- the type
   ctx_spec below.  The model decides which properties are visited in which order (the generated
   CTX_SEQ_* = _context_evaluation_sequence), which of them assign (CTX_INPUTS_* = _context_inputs),
   and runs the rolling-context worklist over the task graph on top of that. *)
From Coq Require Import String List Bool ZArith Arith.
From Orq Require Import GenSpecMeta Base State Composer.
Import ListNotations.
Open Scope string_scope.

(* ------------------------------------------------------------------ entries *)

Inductive sem_entry :=
  | SE_reserved (t : string)                        (* The task name "t" is reserved ... *)
  | SE_no_start                                     (* Unable to identify any tasks to start ... *)
  | SE_undefined (t : string) (i : nat) (d : string)(* The task "d" is not defined. *)
  | SE_unreachable (t : string)                     (* The join task "t" is unreachable ... *)
  | SE_actionless (t : string).                     (* The action property is required for with items *)

Definition task_path (t : string) : string := append "tasks." t.

Definition entry_path (e : sem_entry) : string :=
  match e with
  | SE_reserved t | SE_unreachable t | SE_actionless t => task_path t
  | SE_no_start => "tasks"
  | SE_undefined t i _ => append (task_path t) (append ".next[" (append (nat_to_string i) "].do"))
  end.

Definition entry_kind (e : sem_entry) : string :=
  match e with
  | SE_reserved _ => "reserved"
  | SE_no_start => "no_start"
  | SE_undefined _ _ _ => "undefined"
  | SE_unreachable _ => "unreachable"
  | SE_actionless _ => "actionless"
  end.

(* the name quoted in the message ("" when the message quotes none) *)
Definition entry_name (e : sem_entry) : string :=
  match e with
  | SE_reserved t | SE_unreachable t => t
  | SE_undefined _ _ d => d
  | SE_no_start | SE_actionless _ => ""
  end.

(* position of the entry's schema_path among the three schema paths the detectors use, which are
   ordered by prefix:  properties.tasks  <  properties.tasks.patternProperties.^\w+$
                                         <  ...^\w+$.properties.next.items.properties.do *)
Definition entry_schema_rank (e : sem_entry) : nat :=
  match e with
  | SE_no_start => 0
  | SE_reserved _ | SE_unreachable _ | SE_actionless _ => 1
  | SE_undefined _ _ _ => 2
  end.

Definition x_fuel : exn := x_out_of_fuel.

(* ------------------------------------------------------------- simple detectors *)

Definition task_names (sp : wf_spec) : list string := map fst (wf_tasks sp).

(* tasks.has_task(name) *)
Definition spec_has_task (sp : wf_spec) (d : string) : bool :=
  string_in d RESERVED_TASK_NAMES || ahas String.eqb d (wf_tasks sp).

Definition detect_reserved_names (sp : wf_spec) : list sem_entry :=
  map SE_reserved (filter (fun t => string_in t RESERVED_TASK_NAMES) (task_names sp)).

Definition detect_start_tasks (sp : wf_spec) : list sem_entry :=
  match wf_tasks sp with
  | [] => []
  | _ :: _ => match spec_start_tasks sp with [] => [SE_no_start] | _ :: _ => [] end
  end.

Definition detect_actionless_with_items (sp : wf_spec) : list sem_entry :=
  map (fun '(t, _) => SE_actionless t)
      (filter (fun '(_, ts) => task_has_items ts && negb (truthy (ts_action ts))) (wf_tasks sp)).

(* ------------------------------------------------------- detect_undefined_tasks *)

Record ustate := {
  u_queue : list string;         (* q *)
  u_trav : list string;          (* traversed *)
  u_queued : list string;        (* queued_task *)
  u_result : list sem_entry }.

(* body of "for next_task_name in next_task_names" for transition i of task t *)
Definition undef_target (sp : wf_spec) (t : string) (i : nat) (st : ustate) (d : string) : ustate :=
  if string_in d (u_trav st) then st
  else if spec_has_task sp d then
    if negb (string_in d (app RESERVED_TASK_NAMES (u_trav st))) && negb (string_in d (u_queued st))
    then {| u_queue := app (u_queue st) [d]; u_trav := u_trav st;
            u_queued := app (u_queued st) [d]; u_result := u_result st |}
    else st
  else {| u_queue := u_queue st; u_trav := u_trav st; u_queued := u_queued st;
          u_result := app (u_result st) [SE_undefined t i d] |}.

Definition undef_transition (sp : wf_spec) (t : string) (st : ustate) (itr : nat * transition_spec)
  : ustate :=
  fold_left (undef_target sp t (fst itr)) (tr_do (snd itr)) st.

(* body of the while loop for the dequeued t; st has the queue popped and t appended to traversed *)
Definition undef_task (sp : wf_spec) (t : string) (st : ustate) : result ustate :=
  match spec_get_task sp t with
  | None => Exc (x_key_error t)
  | Some ts => Val (fold_left (undef_transition sp t) (enumerate (ts_next ts)) st)
  end.

Fixpoint undef_loop (sp : wf_spec) (fuel : nat) (st : ustate) : result (list sem_entry) :=
  match u_queue st with
  | [] => Val (u_result st)
  | t :: q' =>
      match fuel with
      | O => Exc x_fuel
      | S f =>
          match undef_task sp t {| u_queue := q'; u_trav := app (u_trav st) [t];
                                   u_queued := u_queued st; u_result := u_result st |} with
          | Exc e => Exc e
          | Val st' => undef_loop sp f st'
          end
      end
  end.

Definition undef_init (sp : wf_spec) : ustate :=
  {| u_queue := spec_start_tasks sp; u_trav := []; u_queued := []; u_result := [] |}.

(* one unit of fuel per dequeued task *)
Definition detect_undefined_tasks (sp : wf_spec) (fuel : nat) : result (list sem_entry) :=
  undef_loop sp fuel (undef_init sp).

(* ----------------------------------------------------- detect_unreachable_tasks *)

Record rstage := { rs_join : bool; rs_splits : list string; rs_prev : list string }.

Definition ritem := (option string * string * list string)%type.   (* (prev, task, splits) *)

Record rstate := {
  r_queue : list ritem;
  r_staging : list (string * rstage);          (* insertion ordered *)
  r_track : list (string * list string) }.     (* track_splits keyed by task + "_" + next task *)

Definition split_id (t d : string) : string := append t (append "_" d).

Definition set_eqb (a b : list string) : bool := set_subset a b && set_subset b a.

(* body of "for next_task_name, condition, idx in next_tasks"; staging is not changed here *)
Definition unreach_next (sp : wf_spec) (t : string) (splits : list string)
           (acc : result rstate) (nx : string * json * nat) : result rstate :=
  match acc with
  | Exc e => Exc e
  | Val st =>
      let d := nt_name nx in
      match (if ahas String.eqb d (r_staging st) then in_cycle_r sp d else Val false) with
      | Exc e => Exc e
      | Val true => Val st
      | Val false =>
          let id := split_id t d in
          match aget String.eqb id (r_track st) with
          | Some (x :: ex) =>
              if set_subset splits (x :: ex) then Val st
              else Val {| r_queue := app (r_queue st) [(Some t, d, splits)];
                          r_staging := r_staging st;
                          r_track := aset String.eqb id (set_union (x :: ex) splits) (r_track st) |}
          | _ =>
              Val {| r_queue := app (r_queue st) [(Some t, d, splits)];
                     r_staging := r_staging st;
                     r_track := aset String.eqb id (set_union [] splits) (r_track st) |}
          end
      end
  end.

(* body of the while loop; st has the queue popped *)
Definition unreach_task (sp : wf_spec) (st : rstate) (it : ritem) : result rstate :=
  let '(prev, t, splits) := it in
  if negb (ahas String.eqb t (wf_tasks sp)) then Val st
  else
    match (if spec_is_split_task sp t then in_cycle_r sp t else Val true) with
    | Exc e => Exc e
    | Val cyc =>
        let splits' := if cyc then splits else app splits [t] in
        let old := match aget String.eqb t (r_staging st) with
                   | Some m => m
                   | None => {| rs_join := spec_is_join_task sp t; rs_splits := []; rs_prev := [] |}
                   end in
        let new := {| rs_join := rs_join old;
                      rs_splits := set_union (rs_splits old) splits';
                      rs_prev := match prev with
                                 | Some p => set_union (rs_prev old) [p]
                                 | None => rs_prev old
                                 end |} in
        fold_left (unreach_next sp t splits') (spec_next_sorted sp t)
                  (Val {| r_queue := r_queue st; r_staging := aset String.eqb t new (r_staging st);
                          r_track := r_track st |})
    end.

Fixpoint unreach_loop (sp : wf_spec) (fuel : nat) (st : rstate) : result rstate :=
  match r_queue st with
  | [] => Val st
  | it :: q' =>
      match fuel with
      | O => Exc x_fuel
      | S f =>
          match unreach_task sp {| r_queue := q'; r_staging := r_staging st; r_track := r_track st |} it with
          | Exc e => Exc e
          | Val st' => unreach_loop sp f st'
          end
      end
  end.

Definition staged_splits (stg : list (string * rstage)) (t : string) : list string :=
  match aget String.eqb t stg with Some m => rs_splits m | None => [] end.

(* the second pass: a join task is reported when some inbound task carries another set of splits *)
Definition unreach_report (stg : list (string * rstage)) : list sem_entry :=
  flat_map (fun '(t, m) =>
              if rs_join m && existsb (fun p => negb (set_eqb (rs_splits m) (staged_splits stg p))) (rs_prev m)
              then [SE_unreachable t] else [])
           stg.

Definition detect_unreachable_tasks (sp : wf_spec) (fuel : nat) : result (list sem_entry) :=
  match unreach_loop sp fuel {| r_queue := map (fun t => (None, t, [])) (spec_start_tasks sp);
                                r_staging := []; r_track := [] |} with
  | Exc e => Exc e
  | Val st => Val (unreach_report (r_staging st))
  end.

(* ------------------------------------------------------------- inspect_semantics *)

(* TaskMappingSpec.inspect_semantics = WorkflowSpec.inspect_semantics (the other spec classes
   contribute nothing) *)
Definition inspect_semantics (sp : wf_spec) (fuel : nat) : result (list sem_entry) :=
  match detect_undefined_tasks sp fuel with
  | Exc e => Exc e
  | Val und =>
      match detect_unreachable_tasks sp fuel with
      | Exc e => Exc e
      | Val unr =>
          Val (app (detect_reserved_names sp)
              (app (detect_start_tasks sp)
              (app und
              (app unr (detect_actionless_with_items sp)))))
      end
  end.

(* Spec.inspect(): sorted(errors, key=(schema_path, spec_path)), stable *)
Definition entry_leb (a b : sem_entry) : bool :=
  if Nat.eqb (entry_schema_rank a) (entry_schema_rank b)
  then String.leb (entry_path a) (entry_path b)
  else Nat.leb (entry_schema_rank a) (entry_schema_rank b).

Definition inspect_semantics_sorted (sp : wf_spec) (fuel : nat) : result (list sem_entry) :=
  match inspect_semantics sp fuel with
  | Exc e => Exc e
  | Val l => Val (sort_by entry_leb l)
  end.

(* ------------------------------------------------------------ context tracking *)

(* one inspected position *)
Record cpos := {
  cp_path : string;            (* spec_path of the position *)
  cp_refs : list string;       (* names extract_vars finds in the value, in its order *)
  cp_keys : list string }.     (* names get_ctx_inputs gives for the value *)

Definition cprops := list (string * list cpos).   (* property name -> its positions in order *)

Record ctx_task := {
  ct_props : cprops;             (* delay, action, input *)
  ct_with : cprops;              (* items, concurrency ([] without a with spec) *)
  ct_retry : cprops;             (* when, count, delay ([] without a retry spec) *)
  ct_next : list cprops }.       (* per transition: when, publish, do *)

Record ctx_spec := {
  cx_props : cprops;             (* input, vars, output of the workflow *)
  cx_tasks : list (string * ctx_task) }.

Definition empty_ctx_task : ctx_task := {| ct_props := []; ct_with := []; ct_retry := []; ct_next := [] |}.

Inductive ctx_entry :=
  | CE_private (path var : string)       (* Variable "v" that is prefixed with double underscores ... *)
  | CE_unassigned (path var : string).   (* Variable "v" is referenced before assignment. *)

Definition ce_path (e : ctx_entry) : string :=
  match e with CE_private p _ | CE_unassigned p _ => p end.
Definition ce_var (e : ctx_entry) : string :=
  match e with CE_private _ v | CE_unassigned _ v => v end.
Definition ce_kind (e : ctx_entry) : string :=
  match e with CE_private _ _ => "private" | CE_unassigned _ _ => "unassigned" end.

Definition cstate_t := (list string * list ctx_entry)%type.   (* rolling_ctx (a set), errors *)

(* the loop over ctx_vars in inspect_ctx for one referenced name *)
Definition inspect_ref (path : string) (ctx : list string) (es : list ctx_entry) (v : string)
  : list ctx_entry :=
  let es1 := if starts_with "__" v then app es [CE_private path v] else es in
  if string_in v ctx then es1 else app es1 [CE_unassigned path v].

(* inspect_ctx(prop_name, value, spec_path, ..): check the references, then assign *)
Definition inspect_pos (assigns : bool) (acc : cstate_t) (p : cpos) : cstate_t :=
  let '(ctx, es) := acc in
  (if assigns then set_union ctx (cp_keys p) else ctx,
   fold_left (inspect_ref (cp_path p) ctx) (cp_refs p) es).

Definition positions_of (props : cprops) (name : string) : list cpos :=
  match aget String.eqb name props with Some l => l | None => [] end.

Definition inspect_leaf (inputs : list string) (props : cprops) (acc : cstate_t) (name : string)
  : cstate_t :=
  fold_left (inspect_pos (string_in name inputs)) (positions_of props name) acc.

(* Spec.inspect_context of a spec object whose properties are all plain values *)
Definition inspect_props (seq inputs : list string) (props : cprops) (ctx : list string) : cstate_t :=
  fold_left (inspect_leaf inputs props) seq (ctx, []).

(* a property that is itself a spec: errors appended, rolling_ctx = set(rolling_ctx + result[1]) *)
Definition inspect_sub (seq inputs : list string) (props : cprops) (acc : cstate_t) : cstate_t :=
  let '(ctx, es) := acc in
  let '(ctx', es') := inspect_props seq inputs props ctx in
  (set_union ctx ctx', app es es').

(* TaskSpec.inspect_context: "with" and "retry" are specs, "next" is a sequence spec whose own
   evaluation sequence is empty (the transitions are inspected by the task mapping) *)
Definition inspect_task_ctx (ct : ctx_task) (ctx : list string) : cstate_t :=
  fold_left (fun acc name =>
               if String.eqb name "with"
               then inspect_sub CTX_SEQ_ItemizedSpec CTX_INPUTS_ItemizedSpec (ct_with ct) acc
               else if String.eqb name "retry"
               then inspect_sub CTX_SEQ_TaskRetrySpec CTX_INPUTS_TaskRetrySpec (ct_retry ct) acc
               else if String.eqb name "next" then acc
               else inspect_leaf CTX_INPUTS_TaskSpec (ct_props ct) acc name)
            CTX_SEQ_TaskSpec (ctx, []).

Definition inspect_transition_ctx (props : cprops) (ctx : list string) : cstate_t :=
  inspect_props CTX_SEQ_TaskTransitionSpec CTX_INPUTS_TaskTransitionSpec props ctx.

Record mstate := {
  m_queue : list (string * option (list string));   (* (task, task_ctx or None) *)
  m_trav : list string;
  m_ctxs : list (string * list string);             (* ctxs: merged inbound contexts of join tasks *)
  m_map : list (string * list string);              (* task_ctx_map *)
  m_rolling : list string;
  m_errors : list ctx_entry }.

Definition get_ctxs (t : string) (l : list (string * list string)) : list string :=
  match aget String.eqb t l with Some c => c | None => [] end.

(* the (next task or None, transition index) entries in the order the code builds them *)
Definition ctx_transitions (ts : task_spec) : list (option string * nat) :=
  flat_map (fun '(i, tr) =>
              match tr_do tr with
              | [] => [(None, i)]
              | ds => map (fun d => (Some d, i)) ds
              end)
           (enumerate (ts_next ts)).

(* body of "for entry in transitions" *)
Definition ctx_branch (sp : wf_spec) (ct : ctx_task) (task_ctx : list string)
           (acc : result mstate) (e : option string * nat) : result mstate :=
  match acc with
  | Exc x => Exc x
  | Val st =>
      let '(ctx', es) := inspect_transition_ctx (nth (snd e) (ct_next ct) []) task_ctx in
      let branch := set_union task_ctx ctx' in
      let st1 := {| m_queue := m_queue st; m_trav := m_trav st; m_ctxs := m_ctxs st; m_map := m_map st;
                    m_rolling := m_rolling st; m_errors := app (m_errors st) es |} in
      match fst e with
      | None => Val st1
      | Some d =>
          if string_in d (m_trav st1) || negb (spec_has_task sp d) then Val st1
          else
            match spec_get_task sp d with
            | None => Exc (x_key_error d)
            | Some nts =>
                if negb (truthy (ts_join nts)) then
                  match aget String.eqb d (m_map st1) with
                  | Some c =>
                      if set_eqb c branch then Val st1
                      else Val {| m_queue := app (m_queue st1) [(d, Some branch)]; m_trav := m_trav st1;
                                  m_ctxs := m_ctxs st1; m_map := aset String.eqb d branch (m_map st1);
                                  m_rolling := m_rolling st1; m_errors := m_errors st1 |}
                  | None =>
                      Val {| m_queue := app (m_queue st1) [(d, Some branch)]; m_trav := m_trav st1;
                             m_ctxs := m_ctxs st1; m_map := aset String.eqb d branch (m_map st1);
                             m_rolling := m_rolling st1; m_errors := m_errors st1 |}
                  end
                else
                  Val {| m_queue := app (m_queue st1) [(d, None)]; m_trav := m_trav st1;
                         m_ctxs := aset String.eqb d (set_union (get_ctxs d (m_ctxs st1)) branch) (m_ctxs st1);
                         m_map := m_map st1; m_rolling := m_rolling st1; m_errors := m_errors st1 |}
            end
      end
  end.

(* body of the while loop; st has the queue popped *)
Definition ctx_task_step (sp : wf_spec) (cx : ctx_spec) (st : mstate)
           (it : string * option (list string)) : result mstate :=
  let t := fst it in
  let ctx0 := match snd it with
              | Some (x :: l) => x :: l
              | _ => get_ctxs t (m_ctxs st)
              end in
  match spec_get_task sp t with
  | None => Exc (x_key_error t)
  | Some ts =>
      let ct := match aget String.eqb t (cx_tasks cx) with Some c => c | None => empty_ctx_task end in
      let '(ctx1, es) := inspect_task_ctx ct ctx0 in
      let task_ctx := set_union ctx0 ctx1 in
      fold_left (ctx_branch sp ct task_ctx) (ctx_transitions ts)
                (Val {| m_queue := m_queue st; m_trav := app (m_trav st) [t]; m_ctxs := m_ctxs st;
                        m_map := m_map st; m_rolling := set_union (m_rolling st) task_ctx;
                        m_errors := app (m_errors st) es |})
  end.

Fixpoint ctx_loop (sp : wf_spec) (cx : ctx_spec) (fuel : nat) (st : mstate) : result mstate :=
  match m_queue st with
  | [] => Val st
  | it :: q' =>
      match fuel with
      | O => Exc x_fuel
      | S f =>
          match ctx_task_step sp cx {| m_queue := q'; m_trav := m_trav st; m_ctxs := m_ctxs st;
                                       m_map := m_map st; m_rolling := m_rolling st;
                                       m_errors := m_errors st |} it with
          | Exc e => Exc e
          | Val st' => ctx_loop sp cx f st'
          end
      end
  end.

(* TaskMappingSpec.inspect_context(parent ctx) = (errors, rolling_ctx) *)
Definition inspect_tasks_ctx (sp : wf_spec) (cx : ctx_spec) (fuel : nat) (ctx : list string)
  : result cstate_t :=
  match ctx_loop sp cx fuel {| m_queue := map (fun t => (t, Some ctx)) (spec_start_tasks sp);
                               m_trav := []; m_ctxs := []; m_map := []; m_rolling := ctx;
                               m_errors := [] |} with
  | Exc e => Exc e
  | Val st => Val (m_rolling st, m_errors st)
  end.

Definition ce_leb (a b : ctx_entry) : bool := String.leb (ce_path a) (ce_path b).

(* WorkflowSpec.inspect_context(parent=None)[0]: errors sorted (stably) by spec_path *)
Definition inspect_context (sp : wf_spec) (cx : ctx_spec) (fuel : nat) : result (list ctx_entry) :=
  match
    fold_left (fun acc name =>
                 match acc with
                 | Exc e => Exc e
                 | Val (ctx, es) =>
                     if String.eqb name "tasks" then
                       match inspect_tasks_ctx sp cx fuel ctx with
                       | Exc e => Exc e
                       | Val (ctx', es') => Val (set_union ctx ctx', app es es')
                       end
                     else Val (inspect_leaf CTX_INPUTS_WorkflowSpec (cx_props cx) (ctx, es) name)
                 end)
              CTX_SEQ_WorkflowSpec (Val ([], []))
  with
  | Exc e => Exc e
  | Val (_, es) => Val (sort_by ce_leb es)
  end.

(* ------------------------------------------------------- comparison helpers *)

Definition sem_triple (e : sem_entry) : string * string * string :=
  (entry_path e, entry_kind e, entry_name e).
Definition ctx_triple (e : ctx_entry) : string * string * string := (ce_path e, ce_kind e, ce_var e).

Definition triple_eqb (a b : string * string * string) : bool :=
  String.eqb (fst (fst a)) (fst (fst b)) && String.eqb (snd (fst a)) (snd (fst b))
  && String.eqb (snd a) (snd b).

(* what the harness compares for one definition: the entries of inspect_semantics() in detector
   order, the sorted list of inspect()["semantics"], and the context errors.
   0 = agree; otherwise the first failing check. *)
Definition check_inspect (sp : wf_spec) (cx : ctx_spec) (fuel : nat)
           (raw sorted ctxe : list (string * string * string)) : nat :=
  match inspect_semantics sp fuel with
  | Exc e => if String.eqb (x_cls e) "OutOfFuel" then 1 else 2
  | Val l =>
      if negb (list_eqb triple_eqb (map sem_triple l) raw) then 3
      else if negb (list_eqb triple_eqb (map sem_triple (sort_by entry_leb l)) sorted) then 4
      else
        match inspect_context sp cx fuel with
        | Exc e => if String.eqb (x_cls e) "OutOfFuel" then 5 else 6
        | Val es => if negb (list_eqb triple_eqb (map ctx_triple es) ctxe) then 7 else 0
        end
  end.
