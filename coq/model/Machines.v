(* Machines.v -- model of orquesta/machines.py (event contextualisation, table steps) and of the
   pure conductor queries the contextualisation calls back into (inbound criteria, has-next).
   The two tables, status sets and event vocabularies come from gen/ (regenerated from /repo).
   Pure functions only; no proofs here. *)
From Coq Require Import String List Bool ZArith Arith.
From Orq Require Import GenStatuses GenEvents GenTables GenSpecMeta Base State.
Import ListNotations.
Open Scope string_scope.

(* ------------------------------------------------------------------ events *)

Inductive event :=
  | EvWorkflow (st : status)
  | EvAction (st : status) (result : json)
  | EvItem (item : nat) (st : status) (result : json) (accumulated : json)
  | EvEngine (name : string) (st : status).

Definition ev_status (e : event) : status :=
  match e with
  | EvWorkflow st | EvAction st _ | EvItem _ st _ _ | EvEngine _ st => st
  end.
Definition ev_name (e : event) : string :=
  match e with
  | EvWorkflow st => WORKFLOW_EVENT_PREFIX ++ status_name st
  | EvAction st _ | EvItem _ st _ _ => ACTION_EVENT_PREFIX ++ status_name st
  | EvEngine n _ => n
  end.
Definition ev_result (e : event) : json :=
  match e with
  | EvAction _ r | EvItem _ _ r _ => r
  | _ => JNull
  end.

Definition engine_event (cmd : string) : option event :=
  match aget String.eqb cmd ENGINE_EVENT_MAP with
  | Some (n, st) => Some (EvEngine n st)
  | None => None
  end.
Definition is_engine_command (t : string) : bool := ahas String.eqb t ENGINE_EVENT_MAP.

(* ------------------------------------------------------------------ tables *)

Definition tbl_row (tbl : list (status * list (string * status))) (cur : status)
  : option (list (string * status)) := aget status_eqb cur tbl.
Definition tbl_step (tbl : list (status * list (string * status))) (cur : status) (ev : string)
  : option status :=
  match tbl_row tbl cur with
  | Some row => aget String.eqb ev row
  | None => None
  end.

(* is_transition_valid(old, new) *)
Definition tbl_transition_valid (tbl : list (status * list (string * status))) (old new : status) : bool :=
  match tbl_row tbl old with
  | None => false
  | Some row => status_eqb old new || existsb (fun '(_, t) => status_eqb t new) row
  end.

(* ------------------------------------------- conductor queries used by the machines *)

Inductive inbound := InbSatisfied | InbWip | InbNotSatisfied.

Definition inbound_eqb (a b : inbound) : bool :=
  match a, b with
  | InbSatisfied, InbSatisfied | InbWip, InbWip | InbNotSatisfied, InbNotSatisfied => true
  | _, _ => false
  end.

(* per inbound source task: None (no record on the route) | Some satisfied? *)
Definition inbound_evaluation (g : graph) (w : wstate) (t : string) (route : nat)
  : list (string * option bool) :=
  let inb := g_prev_transitions g t in
  let srcs := dedup_by String.eqb (map e_src inb) in
  map (fun src =>
         (src,
          match ws_task_entry w src route with
          | None => None
          | Some r =>
              Some (existsb (fun e => String.eqb (e_src e) src &&
                                      match aget trid_eqb (t, e_key e) (r_next r) with
                                      | Some true => true
                                      | _ => false
                                      end) inb)
          end)) srcs.

Definition inbound_requirement (g : graph) (t : string) (nsrcs : nat) : Z :=
  match g_barrier g t with
  | JStr "*" => Z.of_nat nsrcs
  | JInt n => if Z.eqb n 0 then 1%Z else n
  | _ => 1%Z
  end.

Definition get_inbound_criteria_status (g : graph) (w : wstate) (t : string) (route : nat) : inbound :=
  let ev := inbound_evaluation g w t route in
  let ntrue := length (filter (fun '(_, v) => match v with Some true => true | _ => false end) ev) in
  if Z.leb (inbound_requirement g t (length ev)) (Z.of_nat ntrue) then InbSatisfied
  else if existsb (fun '(_, v) => match v with None => true | _ => false end) ev
          && (has_active_tasks w || has_staged_tasks w) then InbWip
  else InbNotSatisfied.

Definition has_next (g : graph) (w : wstate) (t : string) (route : nat) (eval_join_ready : bool) : bool :=
  match ws_task_entry w t route with
  | None => false
  | Some r =>
      if negb (ostatus_in (r_status r) COMPLETED_STATUSES) then false
      else
        existsb (fun e =>
                   if String.eqb (e_dst e) "continue" then false
                   else match aget trid_eqb (e_dst e, e_key e) (r_next r) with
                        | Some true =>
                            if g_has_barrier g (e_dst e) then
                              if negb eval_join_ready then true
                              else negb (inbound_eqb (get_inbound_criteria_status g w (e_dst e) route)
                                                     InbNotSatisfied)
                            else true
                        | _ => false
                        end)
                (g_next_transitions g t)
  end.

Definition has_barrier_next (g : graph) (w : wstate) (t : string) (route : nat) : bool :=
  has_next g w t route false.
Definition has_next_tasks (g : graph) (w : wstate) (t : string) (route : nat) : bool :=
  has_next g w t route true.

Definition get_unreachable_barriers (g : graph) (w : wstate) : list stg :=
  filter (fun s => g_is_barrier_node g (s_id s) && negb (s_ready s)
                   && inbound_eqb (get_inbound_criteria_status g w (s_id s) (s_route s)) InbNotSatisfied)
         (staged w).

(* ------------------------------------------------------------ task state machine *)

Definition exn_invalid_event (n : string) : exn :=
  mkexn "InvalidEvent" ("Event """ ++ n ++ """ is not valid.").
Definition exn_invalid_task_transition (st : status) (evn : string) : exn :=
  mkexn "InvalidTaskStatusTransition"
        ("Unable to process event """ ++ evn ++ """ for task in """ ++ status_name st ++ """ status.").
Definition exn_invalid_wf_transition (st : status) (evn : string) : exn :=
  mkexn "InvalidWorkflowStatusTransition"
        ("Unable to process event """ ++ evn ++ """ for workflow in """ ++ status_name st ++ """ status.").

Definition item_requirements : list status :=
  [S_RESUMING; S_PENDING; S_PAUSED; S_SUCCEEDED; S_FAILED; S_EXPIRED; S_ABANDONED; S_CANCELED].

(* add_context_to_task_item_event; the staged entry and its items must exist *)
Definition item_event_name (w : wstate) (t : string) (route : nat) (item : nat) (st : status)
  : result string :=
  let base := ACTION_EVENT_PREFIX ++ status_name st in
  if negb (status_in st item_requirements) then Val base
  else
    match get_staged_task w t route with
    | None => Val base        (* the task already completed: a late item report is passed on as is *)
    | Some s =>
        match s_items s with
        | None => Val base    (* staged again for a retry, not offered yet: a late report of the previous attempt *)
        | Some items =>
            if negb (Nat.ltb item (length items))
            then Exc (mkexn "IndexError" "list assignment index out of range")
            else
              let others := list_del_nth item items in
              let active := existsb (fun x => status_in x ACTIVE_STATUSES) others in
              let incomplete := existsb (fun x => negb (status_in x COMPLETED_STATUSES)) others in
              let paused := existsb (fun x => status_in x [S_PENDING; S_PAUSED]) others in
              let canceled := existsb (fun x => status_eqb x S_CANCELED) others in
              let failed := existsb (fun x => status_in x ABENDED_STATUSES) others in
              let e1 := base ++ (if active then "_task_active" else "_task_dormant") in
              if negb active && paused then Val (e1 ++ "_items_paused")
              else if negb active && canceled then Val (e1 ++ "_items_canceled")
              else if negb active && failed then Val (e1 ++ "_items_failed")
              else Val (e1 ++ (if incomplete then "_items_incomplete" else "_items_completed"))
        end
    end.

(* TaskStateMachine.add_context_to_workflow_event *)
Definition task_workflow_event_name (w : wstate) (t : string) (route : nat) (st : status) : string :=
  let base := WORKFLOW_EVENT_PREFIX ++ status_name st in
  if status_in st (app PAUSE_STATUSES CANCEL_STATUSES) then
    match get_staged_task w t route with
    | Some s =>
        match s_items s with
        | Some items =>
            let active := existsb (fun x => status_in x ACTIVE_STATUSES) items in
            let incomplete := existsb (fun x => negb (status_in x COMPLETED_STATUSES)) items in
            base ++ (if active then "_task_active" else "_task_dormant")
                 ++ (if incomplete then "_items_incomplete" else "_items_completed")
        | None => base
        end
    | None => base
    end
  else base.

(* the common tail of the three process_*_event methods: None = status unchanged *)
Definition task_table_step (cur : status) (evn : string) : result (option status) :=
  match tbl_row task_table cur with
  | None => Exc (exn_invalid_task_transition cur evn)
  | Some row => Val (aget String.eqb evn row)
  end.

(* TaskStateMachine.process_event: the record's new status (None = unchanged) *)
Definition task_process_event (w : wstate) (r : trec) (e : event) : result (option status) :=
  let cur := rstatus r in
  match e with
  | EvWorkflow st =>
      if negb (string_in (ev_name e) WORKFLOW_EXECUTION_EVENTS) then Exc (exn_invalid_event (ev_name e))
      else task_table_step cur (task_workflow_event_name w (r_id r) (r_route r) st)
  | EvItem item st _ _ =>
      if negb (string_in (ev_name e) (app ACTION_EXECUTION_EVENTS ENGINE_OPERATION_EVENTS))
      then Exc (exn_invalid_event (ev_name e))
      else match item_event_name w (r_id r) (r_route r) item st with
           | Exc x => Exc x
           | Val n => task_table_step cur n
           end
  | EvAction _ _ | EvEngine _ _ =>
      if negb (string_in (ev_name e) (app ACTION_EXECUTION_EVENTS ENGINE_OPERATION_EVENTS))
      then Exc (exn_invalid_event (ev_name e))
      else task_table_step cur (ev_name e)
  end.

(* -------------------------------------------------------- workflow state machine *)

(* WorkflowStateMachine.add_context_to_task_event, as a function of the facts it reads from the state:
   remediable = has_next_tasks or has_barrier_next; more = has_staged_tasks or has_next_tasks *)
Definition task_event_name_of (st : status) (remediable active canceling pausing more : bool) : string :=
  let e0 := TASK_EVENT_PREFIX ++ status_name st in
  let e1 := if status_in st ABENDED_STATUSES && remediable then EV_TASK_REMEDIATED else e0 in
  let e2 := if string_in e1 TASK_CONDITIONAL_EVENTS
            then e1 ++ (if active then "_workflow_active" else "_workflow_dormant")
            else e1 in
  if negb (starts_with EV_TASK_SUCCEEDED e2) && negb (starts_with EV_TASK_REMEDIATED e2) then e2
  else if canceling then e2 ++ "_canceled"
  else if pausing then e2 ++ "_paused"
  else if more then e2 ++ "_incomplete"
  else e2 ++ "_completed".

Definition wf_task_event_name (g : graph) (w : wstate) (t : string) (route : nat) (st : status) : string :=
  let hbn := has_barrier_next g w t route in
  let hnt := has_next_tasks g w t route in
  task_event_name_of st (hnt || hbn) (has_active_tasks w)
                     (has_canceling_tasks w || has_canceled_tasks w)
                     (has_pausing_tasks w || has_paused_tasks w)
                     (has_staged_tasks w || hnt).

(* fail_on_unreachable_barriers: (status, barriers to log) *)
Definition fail_on_unreachable (g : graph) (w : wstate) : status * list stg :=
  match get_unreachable_barriers g w with
  | [] => (wstatus w, [])
  | l => (S_FAILED, l)
  end.

(* WorkflowStateMachine.process_task_event: new workflow status and the unreachable joins to log *)
Definition wf_process_task_event (g : graph) (w : wstate) (t : string) (route : nat) (st : status)
  : result (status * list stg) :=
  let evn := wf_task_event_name g w t route st in
  if negb (string_in evn TASK_EXECUTION_EVENTS) then Exc (exn_invalid_event evn)
  else
    match tbl_row wf_table (wstatus w) with
    | None => Exc (exn_invalid_wf_transition (wstatus w) evn)
    | Some row =>
        match aget String.eqb evn row with
        | None => Val (wstatus w, [])
        | Some new =>
            let w' := ws_set_status w new in
            if status_in new COMPLETED_STATUSES && negb (status_eqb new S_CANCELED)
            then Val (fail_on_unreachable g w')
            else Val (new, [])
        end
    end.

(* WorkflowStateMachine.add_context_to_workflow_event *)
Definition wf_workflow_event_name (w : wstate) (st : status) : string :=
  let e0 := WORKFLOW_EVENT_PREFIX ++ status_name st in
  let e1 := if status_in st (app PAUSE_STATUSES CANCEL_STATUSES)
            then e0 ++ (if has_active_tasks w then "_workflow_active" else "_workflow_dormant")
            else e0 in
  if status_eqb (wstatus w) S_PAUSED && status_in st [S_RUNNING; S_RESUMING]
     && negb (has_active_tasks w) && negb (has_staged_tasks w) && negb (has_paused_tasks w)
  then e1 ++ "_workflow_completed"
  else e1.

(* WorkflowStateMachine.process_workflow_event *)
Definition wf_process_workflow_event (g : graph) (w : wstate) (st : status)
  : result (status * list stg) :=
  let evn := wf_workflow_event_name w st in
  if negb (string_in evn WORKFLOW_EXECUTION_EVENTS) then Exc (exn_invalid_event evn)
  else
    match tbl_row wf_table (wstatus w) with
    | None => Exc (exn_invalid_wf_transition (wstatus w) evn)
    | Some row =>
        match aget String.eqb evn row with
        | None => Val (wstatus w, [])
        | Some new =>
            if negb (status_eqb new (wstatus w)) && status_eqb new S_SUCCEEDED
            then Val (fail_on_unreachable g (ws_set_status w new))
            else Val (new, [])
        end
    end.
