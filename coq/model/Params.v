(* Params.v -- executable model of the documented shorthands of the native workflow language:
     * orquesta/utils/parameters.py  parse_inline_params(s, preserve_order)
         (re.findall(REGEX_INLINE_PARAMS, s) as a scanner over ASCII strings, the post-processing of
          every matched value, and the part of json.loads that the post-processing relies on);
     * TaskTransitionSpec.__init__ / TaskMappingSpec.get_next_tasks : string / list / absent `do`;
     * WorkflowSpec.__init__ : string `with`;  TaskSpec.render : "k1, k2 in <expr>" items;
     * TaskSpec.__init__ : action string split into action + input.
   Executable definitions only (no proofs here).  The ORDER in which the value alternatives are
   tried is not written here: it is GenParams.PARAM_ALTERNATIVES, regenerated from /repo. *)
From Coq Require Import String Ascii List Bool ZArith Arith DecimalString.
From Orq Require Import GenParams Base State.
Import ListNotations.
Open Scope string_scope.

(* ------------------------------------------------------------ character classes (ASCII) *)

Definition code (c : ascii) : nat := nat_of_ascii c.
Definition in_range (lo hi : nat) (c : ascii) : bool := Nat.leb lo (code c) && Nat.leb (code c) hi.
Definition is_digit (c : ascii) : bool := in_range 48 57 c.
Definition is_upper (c : ascii) : bool := in_range 65 90 c.
Definition is_lower (c : ascii) : bool := in_range 97 122 c.
(* \w *)
Definition is_word (c : ascii) : bool := is_digit c || is_upper c || is_lower c || Nat.eqb (code c) 95.
(* \s of a str pattern and str.strip(): \t \n \v \f \r, FS GS RS US, space *)
Definition is_space (c : ascii) : bool := in_range 9 13 c || in_range 28 32 c.
Definition ch_nl : ascii := ascii_of_nat 10.
Definition ch_dq : ascii := ascii_of_nat 34.
Definition ch_sq : ascii := ascii_of_nat 39.
Definition ch_bs : ascii := ascii_of_nat 92.
Definition is_ch (n : nat) (c : ascii) : bool := Nat.eqb (code c) n.
Definition lower_char (c : ascii) : ascii := if is_upper c then ascii_of_nat (code c + 32) else c.

(* ------------------------------------------------------------------- string helpers *)

Definition str1 (c : ascii) : string := String c "".

Fixpoint span (p : ascii -> bool) (s : string) : string * string :=
  match s with
  | "" => ("", "")
  | String c s' => if p c then let (a, b) := span p s' in (String c a, b) else ("", s)
  end.

Fixpoint lstrip (s : string) : string :=
  match s with
  | "" => ""
  | String c s' => if is_space c then lstrip s' else s
  end.

Fixpoint rstrip (s : string) : string :=
  match s with
  | "" => ""
  | String c s' =>
      match rstrip s' with
      | "" => if is_space c then "" else str1 c
      | r => String c r
      end
  end.

Definition strip (s : string) : string := rstrip (lstrip s).

Fixpoint lower (s : string) : string :=
  match s with "" => "" | String c s' => String (lower_char c) (lower s') end.

Fixpoint count_char (q : ascii) (s : string) : nat :=
  match s with
  | "" => 0
  | String c s' => (if Ascii.eqb c q then 1 else 0) + count_char q s'
  end.

(* re.sub('^q', '', s) *)
Definition rm_first (q : ascii) (s : string) : string :=
  match s with
  | String c s' => if Ascii.eqb c q then s' else s
  | "" => ""
  end.

(* re.sub('q$', '', s) for a string that does not end in a newline: only the very last character *)
Fixpoint rm_last (q : ascii) (s : string) : string :=
  match s with
  | "" => ""
  | String c s' =>
      match s' with
      | "" => if Ascii.eqb c q then "" else s
      | _ => String c (rm_last q s')
      end
  end.

(* re.sub('q$', '', s) in general: `$` also matches just before a final newline *)
Fixpoint rm_last_dollar (q : ascii) (s : string) : string :=
  match s with
  | "" => ""
  | String c s' =>
      if Ascii.eqb c q && (String.eqb s' "" || String.eqb s' (str1 ch_nl)) then s'
      else String c (rm_last_dollar q s')
  end.

Definition first_is (q : ascii) (s : string) : bool :=
  match s with String c _ => Ascii.eqb c q | "" => false end.

Fixpoint last_is (q : ascii) (s : string) : bool :=
  match s with
  | "" => false
  | String c s' => match s' with "" => Ascii.eqb c q | _ => last_is q s' end
  end.

Fixpoint drop (n : nat) (s : string) : string :=
  match n, s with
  | S n', String _ s' => drop n' s'
  | _, _ => s
  end.

(* s.startswith(p) *)
Fixpoint prefixb (p s : string) : bool :=
  match p with
  | "" => true
  | String a p' => match s with "" => false | String b s' => Ascii.eqb a b && prefixb p' s' end
  end.

(* first occurrence of p in s: (text before, text after) *)
Fixpoint find_sub (p : string) (s : string) : option (string * string) :=
  if prefixb p s then Some ("", drop (String.length p) s)
  else match s with
       | "" => None
       | String c s' =>
           match find_sub p s' with
           | Some (a, b) => Some (String c a, b)
           | None => None
           end
       end.

(* s.split(q) *)
Fixpoint split_on (q : ascii) (s : string) : list string :=
  match s with
  | "" => [""]
  | String c s' =>
      if Ascii.eqb c q then "" :: split_on q s'
      else match split_on q s' with
           | h :: t => String c h :: t
           | [] => [str1 c]
           end
  end.

(* s.replace(q, "") *)
Fixpoint remove_char (q : ascii) (s : string) : string :=
  match s with
  | "" => ""
  | String c s' => if Ascii.eqb c q then remove_char q s' else String c (remove_char q s')
  end.

Fixpoint join (sep : string) (l : list string) : string :=
  match l with
  | [] => ""
  | [x] => x
  | x :: l' => x ++ sep ++ join sep l'
  end.

(* ------------------------------------------------ the value alternatives of the regex *)
(* Every matcher works at the beginning of s and returns (matched text, rest of s). *)

Definition omap {A B} (f : A -> B) (o : option A) : option B :=
  match o with Some a => Some (f a) | None => None end.

(* `\s*` appended to a match *)
Definition with_ws (m rest : string) : option (string * string) :=
  let (w, r) := span is_space rest in Some (m ++ w, r).

(* [^q]*q : text before the first q, text after it *)
Fixpoint until_char (q : ascii) (s : string) : option (string * string) :=
  match s with
  | "" => None
  | String c s' =>
      if Ascii.eqb c q then Some ("", s')
      else match until_char q s' with
           | Some (a, b) => Some (String c a, b)
           | None => None
           end
  end.

(* q[^q]*q\s* *)
Definition m_quoted (q : ascii) (s : string) : option (string * string) :=
  match s with
  | "" => None
  | String c s' =>
      if Ascii.eqb c q then
        match until_char q s' with
        | Some (body, r) => with_ws (String q (body ++ str1 q)) r
        | None => None
        end
      else None
  end.

(* greedy `.*q` : split at the LAST q before the first newline *)
Fixpoint last_on_line (q : ascii) (s : string) : option (string * string) :=
  match s with
  | "" => None
  | String c s' =>
      if Ascii.eqb c ch_nl then None
      else match last_on_line q s' with
           | Some (a, b) => Some (String c a, b)
           | None => if Ascii.eqb c q then Some ("", s') else None
           end
  end.

(* \[.*\]\s* *)
Definition m_brackets (s : string) : option (string * string) :=
  match s with
  | "" => None
  | String c s' =>
      if is_ch 91 c then
        match last_on_line (ascii_of_nat 93) s' with
        | Some (body, r) => with_ws (String c (body ++ str1 (ascii_of_nat 93))) r
        | None => None
        end
      else None
  end.

Definition opt_minus (s : string) : string * string :=
  match s with
  | String c s' => if is_ch 45 c then (str1 c, s') else ("", s)
  | "" => ("", "")
  end.

(* [-]?\d*\.\d+ *)
Definition m_float (s : string) : option (string * string) :=
  let (sg, s1) := opt_minus s in
  let (d1, s2) := span is_digit s1 in
  match s2 with
  | "" => None
  | String c s3 =>
      if is_ch 46 c then
        let (d2, s4) := span is_digit s3 in
        match d2 with
        | "" => None
        | _ => Some (sg ++ d1 ++ String c d2, s4)
        end
      else None
  end.

(* [-]?\d+ *)
Definition m_int (s : string) : option (string * string) :=
  let (sg, s1) := opt_minus s in
  let (d, s2) := span is_digit s1 in
  match d with
  | "" => None
  | _ => Some (sg ++ d, s2)
  end.

(* (?i:lit) for a lower-case ASCII literal *)
Fixpoint m_ci (lit s : string) : option (string * string) :=
  match lit with
  | "" => Some ("", s)
  | String l lit' =>
      match s with
      | "" => None
      | String c s' =>
          if Ascii.eqb (lower_char c) l then
            match m_ci lit' s' with
            | Some (a, b) => Some (String c a, b)
            | None => None
            end
          else None
      end
  end.

Definition m_lit (lit s : string) : option (string * string) :=
  if prefixb lit s then Some (lit, drop (String.length lit) s) else None.

(* non-greedy `.*?c1c2` : text before the first c1c2 with no newline before it, text after *)
Fixpoint until_close (c1 c2 : ascii) (s : string) : option (string * string) :=
  match s with
  | "" => None
  | String a s' =>
      match s' with
      | "" => None
      | String b s'' =>
          if Ascii.eqb a c1 && Ascii.eqb b c2 then Some ("", s'')
          else if Ascii.eqb a ch_nl then None
          else match until_close c1 c2 s' with
               | Some (x, y) => Some (String a x, y)
               | None => None
               end
      end
  end.

(* o1o2.*?c1c2 *)
Definition m_delim (o1 o2 c1 c2 : ascii) (s : string) : option (string * string) :=
  match s with
  | String a (String b s') =>
      if Ascii.eqb a o1 && Ascii.eqb b o2 then
        match until_close c1 c2 s' with
        | Some (body, r) => Some (String o1 (String o2 (body ++ String c1 (str1 c2))), r)
        | None => None
        end
      else None
  | _ => None
  end.

Definition m_alt (a : param_alt) (s : string) : option (string * string) :=
  match a with
  | AltBrackets => m_brackets s
  | AltDQuoted => m_quoted ch_dq s
  | AltSQuoted => m_quoted ch_sq s
  | AltFloat => m_float s
  | AltInt => m_int s
  | AltTrue => m_ci "true" s
  | AltFalse => m_ci "false" s
  | AltNull => m_lit "null" s
  | AltYaql => m_delim "<" "%" "%" ">" s
  | AltJinja => m_delim "{" "{" "}" "}" s
  end.

(* (alt1|alt2|...) : the first alternative that matches wins (nothing follows the group) *)
Fixpoint first_match (alts : list param_alt) (s : string) : option (string * string) :=
  match alts with
  | [] => None
  | a :: r => match m_alt a s with Some x => Some x | None => first_match r s end
  end.

Definition m_value (s : string) : option (string * string) := first_match PARAM_ALTERNATIVES s.

(* re.findall(r"([\w]+)=(alts)", s).  [key] is the run of word characters read so far since the
   search position; [skip] counts characters still covered by the previous match.  At `=` after a
   non-empty run the value alternatives are tried; a failed attempt restarts the search after the
   `=` (every shorter key of the same run fails for the same reason). *)
Fixpoint scan (skip : nat) (key : string) (s : string) : list (string * string) :=
  match s with
  | "" => []
  | String c s' =>
      match skip with
      | S n => scan n "" s'
      | O =>
          if is_word c then scan 0 (key ++ str1 c) s'
          else if is_ch 61 c && negb (String.eqb key "") then
            match m_value s' with
            | Some (v, _) => (key, v) :: scan (String.length v) "" s'
            | None => scan 0 "" s'
            end
          else scan 0 "" s'
      end
  end.

Definition findall (s : string) : list (string * string) := scan 0 "" s.

(* --------------------------------------------------------------- json.loads (str input) *)

Definition is_jws (c : ascii) : bool := is_ch 32 c || is_ch 9 c || is_ch 10 c || is_ch 13 c.

Fixpoint skip_ws (s : string) : string :=
  match s with
  | "" => ""
  | String c s' => if is_jws c then skip_ws s' else s
  end.

Definition hex_val (c : ascii) : option nat :=
  if is_digit c then Some (code c - 48)
  else if in_range 97 102 c then Some (code c - 87)
  else if in_range 65 70 c then Some (code c - 55)
  else None.

Definition hex4 (a b c d : ascii) : option N :=
  match hex_val a, hex_val b, hex_val c, hex_val d with
  | Some x, Some y, Some z, Some w =>
      Some (((N.of_nat x * 16 + N.of_nat y) * 16 + N.of_nat z) * 16 + N.of_nat w)%N
  | _, _, _, _ => None
  end.

(* UTF-8 bytes of a BMP code point; surrogates are not modelled (None) *)
Definition utf8 (n : N) : option string :=
  (if n <? 128 then Some (str1 (ascii_of_N n))
   else if n <? 2048 then
     Some (String (ascii_of_N (192 + n / 64)) (str1 (ascii_of_N (128 + n mod 64))))
   else if (55296 <=? n) && (n <=? 57343) then None
   else Some (String (ascii_of_N (224 + n / 4096))
                (String (ascii_of_N (128 + (n / 64) mod 64)) (str1 (ascii_of_N (128 + n mod 64))))))%N.

Definition simple_escape (e : ascii) : option ascii :=
  if is_ch 34 e then Some e else if is_ch 92 e then Some e else if is_ch 47 e then Some e
  else if is_ch 98 e then Some (ascii_of_nat 8) else if is_ch 102 e then Some (ascii_of_nat 12)
  else if is_ch 110 e then Some (ascii_of_nat 10) else if is_ch 114 e then Some (ascii_of_nat 13)
  else if is_ch 116 e then Some (ascii_of_nat 9) else None.

(* py_scanstring(strict=True) after the opening quote: (decoded text, rest after the closing quote) *)
Fixpoint jstring (s : string) : option (string * string) :=
  match s with
  | "" => None
  | String c s' =>
      if is_ch 34 c then Some ("", s')
      else if Nat.ltb (code c) 32 then None
      else if is_ch 92 c then
        match s' with
        | "" => None
        | String e s'' =>
            if is_ch 117 e then
              match s'' with
              | String h1 (String h2 (String h3 (String h4 s5))) =>
                  match hex4 h1 h2 h3 h4 with
                  | Some n =>
                      match utf8 n, jstring s5 with
                      | Some u, Some (a, b) => Some (u ++ a, b)
                      | _, _ => None
                      end
                  | None => None
                  end
              | _ => None
              end
            else
              match simple_escape e with
              | Some x => match jstring s'' with Some (a, b) => Some (String x a, b) | None => None end
              | None => None
              end
        end
      else match jstring s' with Some (a, b) => Some (String c a, b) | None => None end
  end.

Definition z_of_numeral (t : string) : Z :=
  match NilZero.int_of_string t with Some d => Z.of_int d | None => 0%Z end.

(* JSON numeral: optional minus, 0 or a digit run without leading zero, optional fraction, optional
   exponent.  A numeral that stops early (01, 1., 1e) leaves text that no JSON context accepts after
   a value, so those give None here just as the whole load fails. *)
Definition jfrac (s2 : string) : string * string :=
  match s2 with
  | "" => ("", s2)
  | String c t =>
      if is_ch 46 c then let (f, r) := span is_digit t in (String c f, r) else ("", s2)
  end.

Definition jsign (t : string) : string * string :=
  match t with
  | "" => ("", t)
  | String g t' => if is_ch 45 g || is_ch 43 g then (str1 g, t') else ("", t)
  end.

Definition jexp (s3 : string) : option (string * string) :=
  match s3 with
  | "" => Some ("", s3)
  | String e t =>
      if is_ch 101 e || is_ch 69 e then
        let (esg, t1) := jsign t in
        let (ed, t2) := span is_digit t1 in
        match ed with
        | "" => None
        | _ => Some (String e (esg ++ ed), t2)
        end
      else Some ("", s3)
  end.

Definition leading_zero (ip : string) : bool :=
  match ip with
  | "" => false
  | String d0 ip' => is_ch 48 d0 && negb (String.eqb ip' "")
  end.

Definition jnumber (s : string) : option (json * string) :=
  let (sg, s1) := opt_minus s in
  let (ip, s2) := span is_digit s1 in
  if String.eqb ip "" || leading_zero ip then None
  else
    let (ftxt, s3) := jfrac s2 in
    if String.eqb ftxt "." then None
    else
      match jexp s3 with
      | None => None
      | Some (etxt, s4) =>
          if String.eqb ftxt "" && String.eqb etxt "" then Some (JInt (z_of_numeral (sg ++ ip)), s4)
          else Some (JFloat (sg ++ ip ++ ftxt ++ etxt), s4)
      end.

Definition jliteral (s : string) : option (json * string) :=
  if prefixb "null" s then Some (JNull, drop 4 s)
  else if prefixb "true" s then Some (JBool true, drop 4 s)
  else if prefixb "false" s then Some (JBool false, drop 5 s)
  else if prefixb "NaN" s then Some (JFloat "NaN", drop 3 s)
  else if prefixb "Infinity" s then Some (JFloat "Infinity", drop 8 s)
  else if prefixb "-Infinity" s then Some (JFloat "-Infinity", drop 9 s)
  else None.

(* scan_once.  Floats keep their source text (JFloat <text>); an object keeps the position of the
   first occurrence of a repeated key and the value of the last one (Python dict). *)
Fixpoint jvalue (fuel : nat) (s : string) : option (json * string) :=
  match fuel with
  | O => None
  | S f =>
      match s with
      | "" => None
      | String c s' =>
          if is_ch 34 c then omap (fun '(t, r) => (JStr t, r)) (jstring s')
          else if is_ch 91 c then
            match skip_ws s' with
            | "" => None
            | String c1 r1 as s1 => if is_ch 93 c1 then Some (JList [], r1) else jarr f [] s1
            end
          else if is_ch 123 c then
            match skip_ws s' with
            | "" => None
            | String c1 r1 as s1 => if is_ch 125 c1 then Some (JDict [], r1) else jobj f [] s1
            end
          else match jliteral s with
               | Some x => Some x
               | None => jnumber s
               end
      end
  end
with jarr (fuel : nat) (acc : list json) (s : string) : option (json * string) :=
  match fuel with
  | O => None
  | S f =>
      match jvalue f s with
      | None => None
      | Some (v, r) =>
          match skip_ws r with
          | "" => None
          | String c r1 =>
              if is_ch 93 c then Some (JList (rev (v :: acc)), r1)
              else if is_ch 44 c then jarr f (v :: acc) (skip_ws r1)
              else None
          end
      end
  end
with jobj (fuel : nat) (acc : list (string * json)) (s : string) : option (json * string) :=
  match fuel with
  | O => None
  | S f =>
      match s with
      | "" => None
      | String q s' =>
          if is_ch 34 q then
            match jstring s' with
            | None => None
            | Some (k, r) =>
                match skip_ws r with
                | "" => None
                | String c r1 =>
                    if is_ch 58 c then
                      match jvalue f (skip_ws r1) with
                      | None => None
                      | Some (v, r2) =>
                          match skip_ws r2 with
                          | "" => None
                          | String c2 r3 =>
                              if is_ch 125 c2 then Some (JDict (dset k v acc), r3)
                              else if is_ch 44 c2 then jobj f (dset k v acc) (skip_ws r3)
                              else None
                          end
                      end
                    else None
                end
            end
          else None
      end
  end.

Definition json_loads (s : string) : option json :=
  match jvalue (2 * String.length s + 4) (skip_ws s) with
  | Some (v, r) => match skip_ws r with "" => Some v | _ => None end
  | None => None
  end.

(* ----------------------------------------------- the body of the loop of parse_inline_params *)

(* the four re.sub calls *)
Definition unquote (v1 : string) : string :=
  rm_last_dollar ch_sq (rm_first ch_sq (rm_last_dollar ch_dq (rm_first ch_dq v1))).

(* bool(re.findall(REGEX_VALUE_IN_QUOTES, v) or re.findall(REGEX_VALUE_IN_APOSTROPHES, v)) *)
Definition quotes_in (v1 : string) : bool :=
  Nat.leb 2 (count_char ch_dq v1) || Nat.leb 2 (count_char ch_sq v1).

Definition curly (v : string) : bool := first_is "{" v && last_is "}" v.

(* lower-case a boolean, try json.loads, keep the string when it raises *)
Definition load_or_str (v : string) : json :=
  let lv := lower v in
  let v' := if String.eqb lv "true" || String.eqb lv "false" then lv else v in
  match json_loads v' with
  | Some j => j
  | None => JStr v'
  end.

Definition post_stripped (v1 : string) : json :=
  let v := unquote v1 in
  let quotes_in_string := negb (String.eqb v "") && quotes_in v1 && negb (curly v) in
  if quotes_in_string then JStr v else load_or_str v.

Definition post_value (v0 : string) : json := post_stripped (strip v0).

(* parse_inline_params(s, preserve_order=True): the list of one-key dicts as (key, value) pairs *)
Definition parse_inline_params (s : string) : list (string * json) :=
  map (fun '(k, v) => (k, post_value v)) (findall s).

(* parse_inline_params(s, preserve_order=False): a dict, later duplicates overwrite in place *)
Definition dict_of_pairs (l : list (string * json)) : dict :=
  fold_left (fun d '(k, v) => dset k v d) l [].
Definition parse_inline_dict (s : string) : dict := dict_of_pairs (parse_inline_params s).

(* ----------------------------------------------------------------------- `do` *)

Definition DEFAULT_DO : string := "continue".

(* TaskMappingSpec.get_next_tasks: [x.strip() for x in do.split(",")] *)
Definition split_do (s : string) : list string := map strip (split_on "," s).

Inductive do_form := DoAbsent | DoStr (s : string) | DoList (l : list string).

(* TaskTransitionSpec.__init__ (`if not do_spec: self.do = "continue"`) then get_next_tasks *)
Definition norm_do (d : do_form) : list string :=
  match d with
  | DoAbsent => split_do DEFAULT_DO
  | DoStr "" => split_do DEFAULT_DO
  | DoStr s => split_do s
  | DoList [] => split_do DEFAULT_DO
  | DoList l => l
  end.

(* --------------------------------------------------------------------- publish *)

Inductive publish_form := PubAbsent | PubStr (s : string) | PubList (l : list (string * json)).

Definition norm_publish (p : publish_form) : list (string * json) :=
  match p with
  | PubAbsent => []
  | PubStr "" => []
  | PubStr s => parse_inline_params s
  | PubList l => l
  end.

(* ------------------------------------------------------------------------ `with` *)

Inductive with_form := WithStr (s : string) | WithMap (items : string) (concurrency : json).

(* WorkflowSpec.__init__: a string `with` becomes {"items": <string>} *)
Definition norm_with (w : with_form) : string * json :=
  match w with
  | WithStr s => (s, JNull)
  | WithMap i c => (i, c)
  end.

(* TaskSpec.render: the expression and the item keys of an items string *)
Definition parse_items (s : string) : string * option (list string) :=
  match find_sub " in " s with
  | None => (strip s, None)
  | Some (before, after) => (strip after, Some (split_on "," (remove_char " " before)))
  end.

Definition items_of_with (w : with_form) : items_spec :=
  let (i, c) := norm_with w in
  let (e, ks) := parse_items i in
  {| it_expr := e; it_keys := ks; it_concurrency := c |}.

(* ---------------------------------------------------------------------- action *)

(* TaskSpec.__init__.  ActValueError: inline parameters were found but the string has no blank
   (action_spec.index(" ") raises). *)
Inductive action_res :=
  | ActPlain (a : string)
  | ActInline (a : string) (input : dict)
  | ActValueError.

Definition split_action_res (s : string) : action_res :=
  match parse_inline_dict s with
  | [] => ActPlain s
  | d => match find_sub " " s with
         | Some (a, _) => ActInline a d
         | None => ActValueError
         end
  end.

Definition split_action (s : string) : string * list (string * json) :=
  match split_action_res s with
  | ActPlain a => (a, [])
  | ActInline a d => (a, d)
  | ActValueError => (s, [])
  end.

(* ------------------------------------------------ printable form read by the harness *)

Definition hex_digit (n : nat) : ascii := ascii_of_nat (if Nat.ltb n 10 then 48 + n else 87 + n).

Fixpoint esc (s : string) : string :=
  match s with
  | "" => ""
  | String c s' =>
      if in_range 32 126 c && negb (is_ch 34 c) && negb (is_ch 37 c) then String c (esc s')
      else String "%" (String (hex_digit (code c / 16)) (String (hex_digit (code c mod 16)) (esc s')))
  end.

Definition show_str (s : string) : string := "s" ++ nat_to_string (String.length s) ++ ":" ++ esc s.

Fixpoint show_json (j : json) : string :=
  match j with
  | JNull => "n"
  | JBool true => "t"
  | JBool false => "f"
  | JInt z => "i" ++ Z_to_string z ++ ";"
  | JFloat t => "r" ++ esc t ++ ";"
  | JStr s => show_str s
  | JList l => "l" ++ nat_to_string (List.length l) ++ ":" ++ String.concat "" (map show_json l)
  | JDict kv =>
      "d" ++ nat_to_string (List.length kv) ++ ":"
      ++ String.concat "" (map (fun '(k, v) => show_str k ++ show_json v) kv)
  end.

Definition show_pairs (l : list (string * json)) : string := show_json (JDict l).
Definition show_strs (l : list string) : string := show_json (JList (map JStr l)).
