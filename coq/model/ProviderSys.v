(* ProviderSys.v -- the provider protocol as a transition system on top of the conductor model.
   Executable definitions only (no proofs here).

   This is the protocol of harness/provider.py (Session.boot / poll+ack / report / request / render /
   persist) restricted to
     - workflows without with-items tasks ([no_items]),
     - completion reports only (no intermediate action statuses pending/pausing/paused/resuming/canceling),
     - no reruns.

   A system state is the conductor state, the provider's set of in-flight actions (task id, route) and
   a fault flag.  Every protocol step is a sequence of conductor API calls ([Api.api_exec]); the
   conductor component of the next state is exactly the state those calls leave behind -- also when
   a call raises (Python exceptions keep partial mutations; so does the model's monad).

   Decisions (documented here because the theorems of proofs/SysProofs.v are read against them):

   * In flight is a SET keyed by (task id, route), like the dict of harness/provider.py: acknowledging
     an offer whose key is already in flight does not add a second copy; a report removes the key.
   * Poll is atomic: get_next_tasks, then for every offer, in the order returned, the key is put in
     flight and the acknowledgement event action_running is delivered (provider.py does the same:
     the key is entered before the call, whether or not the call raises).
   * Report t route st result is enabled iff (t, route) is in flight and st is a completed action
     status (succeeded, failed, timeout, abandoned, canceled = GenStatuses.COMPLETED_STATUSES).  A
     report that is not enabled is IGNORED: the system state is returned unchanged.  An enabled report
     removes the key first and then calls update_task_state (provider.py: pop, then call).
   * Request st is enabled iff st is one of pausing, paused, resuming, running, canceling, canceled,
     failed; otherwise ignored.  Boot is Request running.
   * Faults.  [s_fault] becomes (and stays) true when a conductor call made by a step raises, with one
     exception: a status request that the conductor REJECTS (request_status_core raises; by
     C04b_rejected_status_request_is_inert the state is then exactly what it was) is normal protocol
     traffic and is not a fault.  For a Request the fault bit is therefore "the lazy creation of the
     workflow state (ensure_ws) raised".  In-flight bookkeeping is done as described above whether or
     not the call raised; the link theorems are stated for fault-free runs, which is the weakest
     reading under which they can hold: a call that raises half-way (which C11 shows is never an
     expression error, so it is an internal error of the engine or of the evaluator) leaves, e.g., the
     record of the reporting task completed but its transitions unprocessed and the workflow status not
     updated -- running, nothing in flight, nothing on offer (props/C03b.v, C03b_refuted_after_a_fault). *)
From Coq Require Import String List Bool ZArith Arith.
From Orq Require Import GenStatuses GenEvents GenSpecMeta Base State Machines Codec Conductor Decode Api Driver.
Import ListNotations.
Open Scope string_scope.

(* ---------------------------------------------------------------- the class of definitions *)

Definition no_items (sp : wf_spec) : bool :=
  forallb (fun p => negb (task_has_items (snd p))) (wf_tasks sp).

(* ---------------------------------------------------------------- system states and steps *)

Definition akey := (string * nat)%type.        (* (task id, route) *)

Definition akey_eqb (a b : akey) : bool := String.eqb (fst a) (fst b) && Nat.eqb (snd a) (snd b).
Definition akey_in (k : akey) (l : list akey) : bool := existsb (akey_eqb k) l.
Definition akey_add (k : akey) (l : list akey) : list akey := if akey_in k l then l else app l [k].
Definition akey_remove (k : akey) (l : list akey) : list akey := filter (fun x => negb (akey_eqb k x)) l.

Record sys := { s_c : cstate; s_inflight : list akey; s_fault : bool }.

Inductive sys_op :=
  | Boot                                                         (* request running *)
  | Poll                                                         (* get_next_tasks + acknowledge every offer *)
  | Report (t : string) (route : nat) (st : status) (result : json)
  | Request (st : status)
  | Render
  | Persist.

(* the action statuses a report may carry *)
Definition report_statuses : list status := COMPLETED_STATUSES.
(* the statuses a control request may carry *)
Definition request_statuses : list status :=
  [S_PAUSING; S_PAUSED; S_RESUMING; S_RUNNING; S_CANCELING; S_CANCELED; S_FAILED].

Definition is_exc {A} (r : result A) : bool := match r with Exc _ => true | Val _ => false end.

Definition sys_init (sp : wf_spec) (g : graph) (inputs parent : dict) : sys :=
  {| s_c := init_cstate sp g inputs parent; s_inflight := []; s_fault := false |}.

Section WithEval.
Variable ev : string -> dict -> evalres.

(* the acknowledgement of one offer *)
Definition ack_event : event := EvAction S_RUNNING JNull.

Definition sys_ack (s : sys) (k : akey) : sys :=
  let '(c', r) := api_exec ev (OpEvent (fst k) (snd k) ack_event) (s_c s) in
  {| s_c := c'; s_inflight := akey_add k (s_inflight s); s_fault := s_fault s || is_exc r |}.

Definition offer_key (o : offer) : akey := (o_id o, o_route o).

Definition sys_poll (s : sys) : sys :=
  match get_next_tasks ev (s_c s) with
  | (c1, Exc _) => {| s_c := c1; s_inflight := s_inflight s; s_fault := true |}
  | (c1, Val offers) =>
      fold_left sys_ack (map offer_key offers)
                {| s_c := c1; s_inflight := s_inflight s; s_fault := s_fault s |}
  end.

Definition sys_report (s : sys) (t : string) (route : nat) (st : status) (result : json) : sys :=
  if akey_in (t, route) (s_inflight s) && status_in st report_statuses then
    let '(c', r) := api_exec ev (OpEvent t route (EvAction st result)) (s_c s) in
    {| s_c := c'; s_inflight := akey_remove (t, route) (s_inflight s); s_fault := s_fault s || is_exc r |}
  else s.

Definition sys_request (s : sys) (st : status) : sys :=
  if status_in st request_statuses then
    let '(c', _) := api_exec ev (OpRequest st) (s_c s) in
    {| s_c := c'; s_inflight := s_inflight s;
       s_fault := s_fault s || is_exc (snd (ensure_ws ev (s_c s))) |}
  else s.

Definition sys_call (s : sys) (op : api_op) : sys :=
  let '(c', r) := api_exec ev op (s_c s) in
  {| s_c := c'; s_inflight := s_inflight s; s_fault := s_fault s || is_exc r |}.

Definition sys_step (s : sys) (op : sys_op) : sys :=
  match op with
  | Boot => sys_request s S_RUNNING
  | Poll => sys_poll s
  | Report t route st result => sys_report s t route st result
  | Request st => sys_request s st
  | Render => sys_call s OpRender
  | Persist => sys_call s OpPersist
  end.

Definition sys_run (ops : list sys_op) (s : sys) : sys := fold_left sys_step ops s.

(* the conductor API calls a protocol history amounts to (for replay on the real engine): the
   acknowledgements depend on what was offered, so the list is computed along the run *)
Definition sys_api_ops_step (s : sys) (op : sys_op) : list api_op :=
  match op with
  | Boot => [OpRequest S_RUNNING]
  | Poll =>
      OpGetNext ::
      match get_next_tasks ev (s_c s) with
      | (_, Val offers) => map (fun o => OpEvent (o_id o) (o_route o) ack_event) offers
      | (_, Exc _) => []
      end
  | Report t route st result =>
      if akey_in (t, route) (s_inflight s) && status_in st report_statuses
      then [OpEvent t route (EvAction st result)] else []
  | Request st => if status_in st request_statuses then [OpRequest st] else []
  | Render => [OpRender]
  | Persist => [OpPersist]
  end.

Fixpoint sys_api_ops (ops : list sys_op) (s : sys) : list api_op :=
  match ops with
  | [] => []
  | op :: ops' => app (sys_api_ops_step s op) (sys_api_ops ops' (sys_step s op))
  end.

End WithEval.

(* ---------------------------------------------------------------- decidable graph hypotheses *)

(* what the link theorems need of the composed graph (checked, not assumed, in the examples):
   - engine commands have no outgoing transition and no retry policy (every composed graph);
   - no root is an engine command, and there is a root (a workflow without a start task is stuck in
     running the moment it is booted; inspection rejects it);
   - the edges out of one task have distinct (destination, key) pairs (every composed graph: the key
     numbers the parallel edges between two tasks). *)
Definition cmds_inert_b (g : graph) : bool :=
  forallb (fun p => match g_next_transitions g (fst p) with [] => true | _ => false end
                    && negb (g_task_has_retry g (fst p))) ENGINE_EVENT_MAP.

Definition roots_not_cmds_b (g : graph) : bool :=
  forallb (fun t => negb (is_engine_command t)) (g_roots g).

Definition has_root_b (g : graph) : bool := match g_roots g with [] => false | _ => true end.

Fixpoint trid_nodup_b (l : list trid) : bool :=
  match l with
  | [] => true
  | x :: l' => negb (existsb (trid_eqb x) l') && trid_nodup_b l'
  end.

Definition edge_keys_unique_b (g : graph) : bool :=
  forallb (fun e => trid_nodup_b (map (fun x => (e_dst x, e_key x)) (g_next_transitions g (e_src e)))) (g_edges g).

Definition sys_graph_ok (g : graph) : bool :=
  cmds_inert_b g && roots_not_cmds_b g && has_root_b g && edge_keys_unique_b g.
