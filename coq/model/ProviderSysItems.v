(* ProviderSysItems.v -- the provider protocol of model/ProviderSys.v extended to WITH-ITEMS tasks.
   Executable definitions only (no proofs here).

   This is harness/provider.py (Session.poll / report / request / render / persist) with completion
   reports only and no reruns:
   - an in-flight key is (task id, route, item): item = None for the single action of a plain task,
     Some i for the action of item i of a with-items task;
   - Poll = get_next_tasks, then for every offer, in the order returned:
       * items_count = Some 0 (empty list): EvAction running, then EvAction succeeded with result []
         (nothing is put in flight);
       * otherwise for every offered action, in order: the key goes in flight and the acknowledgement is
         delivered -- EvAction running for a plain action, EvItem i running null null for item i;
   - Report t route item st result (st a completed status, key in flight): the key leaves the set, the
     provider records the result in its accumulator for (t, route) and delivers
       * EvAction st result for a plain action,
       * EvItem i st result accumulated for an item, accumulated = the list, indexed by item, of the
         results recorded so far (null for items not reported yet), as long as the highest index reported;
   - Request / Boot / Render / Persist as in ProviderSys.v.
   A report or request that is not enabled is ignored.  [si_fault] is set when a conductor call raises
   (a rejected status request excepted), exactly as in ProviderSys.v.
   [si_wiped] is set when a task event leaves the staged entry of another task that had an item table -- or its
   own entry while an item of it is in progress -- without one (the engine re-staged an entry whose items were
   being tracked: this is how finding D1 shows in the bookkeeping), or when one poll returns two offers for the
   same (task, route); the link theorems assume it is not set. *)
From Coq Require Import String List Bool ZArith Arith.
From Orq Require Import GenStatuses GenEvents GenSpecMeta Base State Machines Codec Conductor Decode Api Driver ProviderSys.
Import ListNotations.
Open Scope string_scope.

Definition ikey := (string * nat * option nat)%type.

Definition onat_eqb (a b : option nat) : bool :=
  match a, b with Some x, Some y => Nat.eqb x y | None, None => true | _, _ => false end.
Definition ikey_eqb (a b : ikey) : bool :=
  String.eqb (fst (fst a)) (fst (fst b)) && Nat.eqb (snd (fst a)) (snd (fst b)) && onat_eqb (snd a) (snd b).
Definition ikey_in (k : ikey) (l : list ikey) : bool := existsb (ikey_eqb k) l.
Definition ikey_add (k : ikey) (l : list ikey) : list ikey := if ikey_in k l then l else app l [k].
Definition ikey_remove (k : ikey) (l : list ikey) : list ikey := filter (fun x => negb (ikey_eqb k x)) l.

(* the provider's accumulator of item results: per (task, route), item index -> result *)
Definition acc_t := list (akey * list (nat * json)).

Definition acc_get (a : acc_t) (k : akey) : list (nat * json) :=
  match aget akey_eqb k a with Some l => l | None => [] end.
Definition acc_set (a : acc_t) (k : akey) (i : nat) (r : json) : acc_t :=
  aset akey_eqb k (aset Nat.eqb i r (acc_get a k)) a.
(* [acc.get(i) for i in range(max(acc) + 1)] *)
Definition acc_list (l : list (nat * json)) : json :=
  match l with
  | [] => JList []
  | _ => let n := S (fold_left Nat.max (map fst l) 0) in
         JList (map (fun i => match aget Nat.eqb i l with Some r => r | None => JNull end) (seq 0 n))
  end.

Record isys := { si_c : cstate; si_inflight : list ikey; si_acc : acc_t; si_fault : bool; si_wiped : bool }.

Inductive isys_op :=
  | IBoot
  | IPoll
  | IReport (t : string) (route : nat) (item : option nat) (st : status) (result : json)
  | IRequest (st : status)
  | IRender
  | IPersist.

Definition isys_init (sp : wf_spec) (g : graph) (inputs parent : dict) : isys :=
  {| si_c := init_cstate sp g inputs parent; si_inflight := []; si_acc := []; si_fault := false; si_wiped := false |}.

(* the item table of the first staged entry for (t, r), if any *)
Definition items_of (c : cstate) (t : string) (r : nat) : option (list status) :=
  match get_staged_task (c_ws c) t r with Some s => s_items s | None => None end.

(* an item is in progress in a staged entry *)
Definition any_active (l : list status) : bool := existsb (fun st => status_in st ACTIVE_STATUSES) l.

(* the anomaly the link theorems exclude: a staged entry of cE that had an item table has none for its key in c' --
   counted for the entry of the event's own key (t, route) only when an item was in progress in it (completing or
   retrying the task legitimately unstages it otherwise; the engine refuses to unstage an entry with an active item) *)
Definition items_wiped (t : string) (route : nat) (cE c' : cstate) : bool :=
  existsb (fun s => match s_items s with
                    | Some l => (negb (stg_matches t route s) || any_active l) &&
                                match items_of c' (s_id s) (s_route s) with None => true | Some _ => false end
                    | None => false
                    end) (staged (c_ws cE)).

(* the pre-state with the status the event carries for its item written into the item table of (t, route): what
   the staging must look like right after the engine recorded the item status *)
Definition record_item (i : nat) (st : status) (e : stg) : stg :=
  s_set_items e (match s_items e with Some l => Some (list_set_nth i st l) | None => None end).
Definition expect_item (c : cstate) (t : string) (route : nat) (e : event) : cstate :=
  match e with
  | EvItem i st _ _ =>
      match get_staged_task (c_ws c) t route with
      | Some s => match s_items s with
                  | Some l => if Nat.ltb i (length l)
                              then set_ws c (ws_set_staged (c_ws c) (staged_update (record_item i st) t route (staged (c_ws c))))
                              else c
                  | None => c
                  end
      | None => c
      end
  | _ => c
  end.

(* two offers of one poll for the same (task, route): never produced by a conductor whose staged keys are distinct;
   counted with the anomalies *)
Fixpoint offers_dup (l : list offer) : bool :=
  match l with
  | [] => false
  | o :: l' => existsb (fun o' => String.eqb (o_id o') (o_id o) && Nat.eqb (o_route o') (o_route o)) l' || offers_dup l'
  end.

Section WithEval.
Variable ev : string -> dict -> evalres.

Definition isys_event (s : isys) (t : string) (route : nat) (e : event) : isys :=
  let '(c', r) := api_exec ev (OpEvent t route e) (si_c s) in
  {| si_c := c'; si_inflight := si_inflight s; si_acc := si_acc s; si_fault := si_fault s || is_exc r;
     si_wiped := si_wiped s || items_wiped t route (expect_item (si_c s) t route e) c' |}.

Definition with_inflight (s : isys) (l : list ikey) : isys :=
  {| si_c := si_c s; si_inflight := l; si_acc := si_acc s; si_fault := si_fault s; si_wiped := si_wiped s |}.

(* the acknowledgement of one offered action *)
Definition isys_ack (t : string) (route : nat) (s : isys) (a : action_spec) : isys :=
  let s1 := with_inflight s (ikey_add (t, route, a_item a) (si_inflight s)) in
  match a_item a with
  | None => isys_event s1 t route (EvAction S_RUNNING JNull)
  | Some i => isys_event s1 t route (EvItem i S_RUNNING JNull JNull)
  end.

Definition isys_ack_offer (s : isys) (o : offer) : isys :=
  match o_items_count o with
  | Some O =>
      let s1 := isys_event s (o_id o) (o_route o) (EvAction S_RUNNING JNull) in
      isys_event s1 (o_id o) (o_route o) (EvAction S_SUCCEEDED (JList []))
  | _ => fold_left (isys_ack (o_id o) (o_route o)) (o_actions o) s
  end.

Definition isys_poll (s : isys) : isys :=
  match get_next_tasks ev (si_c s) with
  | (c1, Exc _) => {| si_c := c1; si_inflight := si_inflight s; si_acc := si_acc s; si_fault := true; si_wiped := si_wiped s |}
  | (c1, Val offers) =>
      fold_left isys_ack_offer offers
                {| si_c := c1; si_inflight := si_inflight s; si_acc := si_acc s; si_fault := si_fault s;
                   si_wiped := si_wiped s || offers_dup offers |}
  end.

Definition isys_report (s : isys) (t : string) (route : nat) (item : option nat) (st : status) (result : json) : isys :=
  if ikey_in (t, route, item) (si_inflight s) && status_in st report_statuses then
    let s1 := with_inflight s (ikey_remove (t, route, item) (si_inflight s)) in
    match item with
    | None => isys_event s1 t route (EvAction st result)
    | Some i =>
        let acc' := acc_set (si_acc s) (t, route) i result in
        let s2 := {| si_c := si_c s1; si_inflight := si_inflight s1; si_acc := acc'; si_fault := si_fault s1;
                     si_wiped := si_wiped s1 |} in
        isys_event s2 t route (EvItem i st result (acc_list (acc_get acc' (t, route))))
    end
  else s.

Definition isys_request (s : isys) (st : status) : isys :=
  if status_in st request_statuses then
    let '(c', _) := api_exec ev (OpRequest st) (si_c s) in
    {| si_c := c'; si_inflight := si_inflight s; si_acc := si_acc s;
       si_fault := si_fault s || is_exc (snd (ensure_ws ev (si_c s))); si_wiped := si_wiped s |}
  else s.

Definition isys_call (s : isys) (op : api_op) : isys :=
  let '(c', r) := api_exec ev op (si_c s) in
  {| si_c := c'; si_inflight := si_inflight s; si_acc := si_acc s; si_fault := si_fault s || is_exc r;
     si_wiped := si_wiped s |}.

Definition isys_step (s : isys) (op : isys_op) : isys :=
  match op with
  | IBoot => isys_request s S_RUNNING
  | IPoll => isys_poll s
  | IReport t route item st result => isys_report s t route item st result
  | IRequest st => isys_request s st
  | IRender => isys_call s OpRender
  | IPersist => isys_call s OpPersist
  end.

Definition isys_run (ops : list isys_op) (s : isys) : isys := fold_left isys_step ops s.

End WithEval.
