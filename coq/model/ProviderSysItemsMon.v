(* ProviderSysItemsMon.v -- a monitor on the histories of the with-items provider protocol (model/ProviderSysItems.v).
   Executable definitions only.  [run_odd ev ops s] is raised when, somewhere along the history [ops] from [s],
   a poll returns an offer that does not fit the staged entry it is made for:
     - RESIZED: the staged entry of the offer's (task, route) already has a non-empty item table and the offer's
       items_count is not the length of that table (the items expression was evaluated again and gave a different
       number of items -- in particular zero, which completes the task on the spot -- or the offer is not an offer of
       items at all);
     - an offer of items for a (task, route) whose single action is in flight (a task is with-items or it is not:
       never raised for a fixed definition);
     - an offer for an engine command (reserved names: never raised for a definition that passes inspection);
   or when an item is acknowledged while the task record it lands on is completed and its staged entry is marked
   completed (a completed entry is not offered: never raised when staged keys are distinct).
   The record-level theorems (props/C12c.v) assume it is not raised. *)
From Coq Require Import String List Bool ZArith Arith.
From Orq Require Import GenStatuses GenEvents GenSpecMeta Base State Machines Codec Conductor Decode Api Driver ProviderSys ProviderSysItems.
Import ListNotations.
Open Scope string_scope.

Definition offer_resized (c1 : cstate) (o : offer) : bool :=
  match items_of c1 (o_id o) (o_route o) with
  | Some (x :: xs) => negb (onat_eqb (o_items_count o) (Some (length (x :: xs))))
  | _ => false
  end.

Definition offer_odd (F : list ikey) (c1 : cstate) (o : offer) : bool :=
  offer_resized c1 o
  || match o_items_count o with Some (S _) => ikey_in (o_id o, o_route o, None) F | _ => false end
  || is_engine_command (o_id o).

(* the record (t, r) points to is completed and the staged entry of (t, r) is marked completed *)
Definition stale (c : cstate) (t : string) (r : nat) : bool :=
  match ws_task_entry (c_ws c) t r, get_staged_task (c_ws c) t r with
  | Some rec, Some s0 => ostatus_in (r_status rec) COMPLETED_STATUSES && s_completed s0
  | _, _ => false
  end.

Section WithEval.
Variable ev : string -> dict -> evalres.

Fixpoint acks_stale (t : string) (r : nat) (acts : list action_spec) (s : isys) : bool :=
  match acts with
  | [] => false
  | a :: acts' => (match a_item a with Some _ => stale (si_c s) t r | None => false end)
                  || acks_stale t r acts' (isys_ack ev t r s a)
  end.

Fixpoint offers_stale (offers : list offer) (s : isys) : bool :=
  match offers with
  | [] => false
  | o :: os => (match o_items_count o with
                | Some O => false
                | _ => acks_stale (o_id o) (o_route o) (o_actions o) s
                end) || offers_stale os (isys_ack_offer ev s o)
  end.

Definition poll_odd (s : isys) : bool :=
  match get_next_tasks ev (si_c s) with
  | (c1, Val offers) =>
      existsb (offer_odd (si_inflight s) c1) offers
      || offers_stale offers {| si_c := c1; si_inflight := si_inflight s; si_acc := si_acc s; si_fault := si_fault s;
                                si_wiped := si_wiped s || offers_dup offers |}
  | _ => false
  end.

Fixpoint run_odd (ops : list isys_op) (s : isys) : bool :=
  match ops with
  | [] => false
  | op :: ops' => (match op with IPoll => poll_odd s | _ => false end) || run_odd ops' (isys_step ev s op)
  end.

End WithEval.
