(* ProviderSysItemsMon2.v -- second monitor on the histories of the with-items provider protocol, for the tasks WITHOUT
   items of a system that also has with-items tasks (the plain keys (task, route, None)).  Executable definitions only.
   [run_odd2 ev ops s] is raised when, somewhere along the history,
     - a poll finds an item table on the staged entry of a (task, route) whose single action is in flight, or returns an
       offer without items (or of an empty list) for an entry that has an item table, or an offer of an empty list for a
       (task, route) whose single action is in flight (a task is with-items or it is not: never raised for a fixed
       definition);
     - the single action of a task is acknowledged while the task record it lands on is completed and the staged entry
       is marked completed or gone (completed entries are not offered, an offered entry is staged: never raised when
       staged keys are distinct).
     - an offer is acknowledged while the workflow is paused or canceled: a poll offers nothing in these statuses, but
       the acknowledgement of an EMPTY list completes its task on the spot and that completion, in the middle of the
       poll, can take the workflow to paused when another task is still paused after a resume (the next
       acknowledgement of the poll takes it back to running).
   The theorems about plain keys and about paused / canceled in props/C02e.v assume it is not raised. *)
From Coq Require Import String List Bool ZArith Arith.
From Orq Require Import GenStatuses GenEvents GenSpecMeta Base State Machines Codec Conductor Decode Api Driver ProviderSys ProviderSysItems.
Import ListNotations.
Open Scope string_scope.

Definition has_tbl (c : cstate) (t : string) (r : nat) : bool :=
  match items_of c t r with Some _ => true | None => false end.

Definition offer_odd2 (F : list ikey) (c1 : cstate) (o : offer) : bool :=
  match o_items_count o with
  | Some O => ikey_in (o_id o, o_route o, None) F
  | Some (S _) => false
  | None => has_tbl c1 (o_id o) (o_route o)
  end.

Definition inflight_tbl (F : list ikey) (c1 : cstate) : bool :=
  existsb (fun k => match k with (t, r, None) => has_tbl c1 t r | _ => false end) F.

Definition stale_plain (c : cstate) (t : string) (r : nat) : bool :=
  match ws_task_entry (c_ws c) t r with
  | Some rec => ostatus_in (r_status rec) COMPLETED_STATUSES &&
                match get_staged_task (c_ws c) t r with Some s0 => s_completed s0 | None => true end
  | None => false
  end.

(* the workflow is paused or canceled *)
Definition at_rest (s : isys) : bool := status_in (wstatus (c_ws (si_c s))) [S_PAUSED; S_CANCELED].

Section WithEval.
Variable ev : string -> dict -> evalres.

Fixpoint acks_stale2 (t : string) (r : nat) (acts : list action_spec) (s : isys) : bool :=
  match acts with
  | [] => false
  | a :: acts' => (at_rest s || match a_item a with None => stale_plain (si_c s) t r | Some _ => false end)
                  || acks_stale2 t r acts' (isys_ack ev t r s a)
  end.

Fixpoint offers_stale2 (offers : list offer) (s : isys) : bool :=
  match offers with
  | [] => false
  | o :: os => (match o_items_count o with
                | Some O => at_rest s
                | _ => acks_stale2 (o_id o) (o_route o) (o_actions o) s
                end) || offers_stale2 os (isys_ack_offer ev s o)
  end.

Definition poll_odd2 (s : isys) : bool :=
  match get_next_tasks ev (si_c s) with
  | (c1, Val offers) =>
      inflight_tbl (si_inflight s) c1 || existsb (offer_odd2 (si_inflight s) c1) offers
      || offers_stale2 offers {| si_c := c1; si_inflight := si_inflight s; si_acc := si_acc s; si_fault := si_fault s;
                                 si_wiped := si_wiped s || offers_dup offers |}
  | _ => false
  end.

Fixpoint run_odd2 (ops : list isys_op) (s : isys) : bool :=
  match ops with
  | [] => false
  | op :: ops' => (match op with IPoll => poll_odd2 s | _ => false end) || run_odd2 ops' (isys_step ev s op)
  end.

End WithEval.
