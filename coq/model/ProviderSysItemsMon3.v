(* ProviderSysItemsMon3.v -- third monitor on the histories of the with-items provider protocol: the situation in which
   a with-items task is left running with nothing in flight while the workflow reports pausing or canceling.
   Executable definitions only.
   [run_d24 ev ops s] is raised when, somewhere along the history, a step that is NOT a status request (a poll, a
   report, a render, a persist -- i.e. a task event) takes the workflow from a status other than pausing / canceling
   to pausing or canceling while some staged with-items entry has an item that was never offered (its slot is neither
   active nor completed) and the task record of that entry is running.  Such a task was not told to pause or cancel
   (only a status request tells the active tasks); when its items in flight complete it stays running, its remaining
   items are never offered (nothing is offered while pausing / canceling), and the workflow stays pausing / canceling
   with nothing in flight.  The theorems of props/C03f.v: while the flag is down, pausing / canceling always has an
   action in flight. *)
From Coq Require Import String List Bool ZArith Arith.
From Orq Require Import GenStatuses GenEvents GenSpecMeta Base State Machines Codec Conductor Decode Api Driver ProviderSys ProviderSysItems.
Import ListNotations.
Open Scope string_scope.

(* an item that was never offered: its slot is neither active nor completed *)
Definition slot_open (x : status) : bool := negb (status_in x ACTIVE_STATUSES) && negb (status_in x COMPLETED_STATUSES).
Definition tbl_open (l : list status) : bool := existsb slot_open l.

Definition held_wf (c : cstate) : bool := status_in (wstatus (c_ws c)) [S_PAUSING; S_CANCELING].

(* some staged with-items entry has an item never offered and its task record is running *)
Definition stuck_prone (c : cstate) : bool :=
  existsb (fun e => match s_items e with
                    | Some l => tbl_open l &&
                                match ws_task_entry (c_ws c) (s_id e) (s_route e) with
                                | Some rec => match r_status rec with Some x => status_eqb x S_RUNNING | None => false end
                                | None => false
                                end
                    | None => false
                    end) (staged (c_ws c)).

Definition is_request (op : isys_op) : bool := match op with IBoot | IRequest _ => true | _ => false end.

Section WithEval.
Variable ev : string -> dict -> evalres.

Definition d24_step (s : isys) (op : isys_op) : bool :=
  negb (is_request op) && negb (held_wf (si_c s)) && held_wf (si_c (isys_step ev s op)) && stuck_prone (si_c (isys_step ev s op)).

Fixpoint run_d24 (ops : list isys_op) (s : isys) : bool :=
  match ops with
  | [] => false
  | op :: ops' => d24_step s op || run_d24 ops' (isys_step ev s op)
  end.

End WithEval.
