(* State.v -- normalised spec, graph, workflow state, conductor state, the state+exception
   monad the model is written in, and elementary accessors.  No proofs here. *)
From Coq Require Import String List Bool ZArith Arith.
From Orq Require Import GenStatuses GenEvents GenSpecMeta Base.
Import ListNotations.
Open Scope string_scope.

(* ------------------------------------------------------------ spec (normalised) *)

Record transition_spec := {
  tr_when : json;                          (* JNull when absent *)
  tr_publish : list (string * json);
  tr_do : list string }.

Record items_spec := {
  it_expr : string;                        (* the expression part of "k1, k2 in <expr>" *)
  it_keys : option (list string);          (* the item keys when given *)
  it_concurrency : json }.                 (* JNull when absent *)

Record task_spec := {
  ts_action : json;                        (* JNull when absent *)
  ts_input : json;                         (* {} when absent *)
  ts_with : option items_spec;
  ts_delay : json;                         (* JNull when absent *)
  ts_join : json;                          (* JNull | "all" | n *)
  ts_next : list transition_spec }.

Record wf_spec := {
  wf_input : list (string * json);         (* (name, default) ; JNull default when none *)
  wf_vars : list (string * json);
  wf_output : list (string * json);
  wf_tasks : list (string * task_spec) }.  (* declaration order *)

Definition empty_task_spec : task_spec :=
  {| ts_action := JNull; ts_input := JNull; ts_with := None; ts_delay := JNull;
     ts_join := JNull; ts_next := [] |}.

(* spec.tasks.get_task(name): reserved names give an empty TaskSpec *)
Definition spec_get_task (sp : wf_spec) (name : string) : option task_spec :=
  if string_in name RESERVED_TASK_NAMES then Some empty_task_spec
  else aget String.eqb name (wf_tasks sp).

(* get_next_tasks(name) without the sort: (next task, condition, transition index) *)
Definition spec_next_tasks (sp : wf_spec) (name : string) : list (string * json * nat) :=
  match spec_get_task sp name with
  | None => []
  | Some ts =>
      flat_map (fun '(i, tr) => map (fun d => (d, tr_when tr, i)) (tr_do tr)) (enumerate (ts_next ts))
  end.

(* get_prev_tasks(name): one entry per (task, transition, do-item) that names it *)
Definition spec_prev_count (sp : wf_spec) (name : string) : nat :=
  length (flat_map (fun '(n, _) => filter (fun '(d, _, _) => String.eqb d name) (spec_next_tasks sp n))
                   (wf_tasks sp)).

Definition spec_is_join_task (sp : wf_spec) (name : string) : bool :=
  match spec_get_task sp name with
  | Some ts => negb (is_jnull (ts_join ts))
  | None => false
  end.

Definition spec_is_split_task (sp : wf_spec) (name : string) : bool :=
  negb (spec_is_join_task sp name) && Nat.ltb 1 (spec_prev_count sp name).

Definition task_has_items (ts : task_spec) : bool :=
  match ts_with ts with Some _ => true | None => false end.

(* ------------------------------------------------------------------- graph *)

Record gnode := {
  n_id : string;
  n_barrier : json;                        (* JNull | JStr "*" | JInt n *)
  n_splits : option (list string);
  n_retry : json }.                        (* JNull | JDict [when;count;delay?] *)

Record gedge := {
  e_src : string; e_dst : string; e_key : nat; e_ref : nat; e_criteria : list json }.

Record graph := { g_nodes : list gnode; g_edges : list gedge }.

Definition g_get_node (g : graph) (t : string) : option gnode :=
  find (fun n => String.eqb (n_id n) t) (g_nodes g).

Definition g_has_task (g : graph) (t : string) : bool :=
  match g_get_node g t with Some _ => true | None => false end.

Definition edge_leb (a b : gedge) : bool :=
  if String.eqb (e_dst a) (e_dst b) then Nat.leb (e_key a) (e_key b)
  else String.leb (e_dst a) (e_dst b).

(* sorted(out_edges([t]), key=dst): networkx yields a node's parallel edges contiguously in key
   order, so the stable sort by destination is the sort by (destination, key). *)
Definition g_next_transitions (g : graph) (t : string) : list gedge :=
  sort_by edge_leb (filter (fun e => String.eqb (e_src e) t) (g_edges g)).

Definition g_prev_transitions (g : graph) (t : string) : list gedge :=
  filter (fun e => String.eqb (e_dst e) t) (g_edges g).

Definition g_barrier (g : graph) (t : string) : json :=
  match g_get_node g t with Some n => n_barrier n | None => JNull end.

(* has_barrier: b is not None and b != "" *)
Definition g_has_barrier (g : graph) (t : string) : bool :=
  match g_barrier g t with JNull => false | JStr "" => false | _ => true end.

(* get_barriers(): nodes whose barrier attribute is truthy *)
Definition g_is_barrier_node (g : graph) (t : string) : bool := truthy (g_barrier g t).

Definition g_retry_spec (g : graph) (t : string) : json :=
  match g_get_node g t with Some n => n_retry n | None => JNull end.

Definition g_task_has_retry (g : graph) (t : string) : bool :=
  match g_retry_spec g t with JDict d => dhas "count" d | _ => false end.

Definition g_roots (g : graph) : list string :=
  sort_by String.leb
    (map n_id (filter (fun n => negb (existsb (fun e => String.eqb (e_dst e) (n_id n)) (g_edges g)))
                      (g_nodes g))).

(* in_cycle(t): t lies on some simple cycle <-> t is reachable from one of its successors.
   Breadth-first with fuel = number of nodes + 1 rounds. *)
Definition g_succs (g : graph) (t : string) : list string :=
  map e_dst (filter (fun e => String.eqb (e_src e) t) (g_edges g)).

Fixpoint g_reach (g : graph) (fuel : nat) (seen frontier : list string) : list string :=
  match fuel with
  | O => seen
  | S f =>
      let new := dedup_by String.eqb
                   (filter (fun s => negb (string_in s seen)) (flat_map (g_succs g) frontier)) in
      match new with
      | [] => seen
      | _ => g_reach g f (app seen new) new
      end
  end.

Definition g_in_cycle (g : graph) (t : string) : bool :=
  let first := dedup_by String.eqb (g_succs g t) in
  string_in t (g_reach g (S (length (g_nodes g))) first first).

(* ----------------------------------------------------------- workflow state *)

Definition trid := (string * nat)%type.      (* "<task>__t<key>" *)
Definition trid_eqb (a b : trid) : bool := String.eqb (fst a) (fst b) && Nat.eqb (snd a) (snd b).
Definition tkey := (string * nat)%type.      (* "<task>__r<route>" *)
Definition tkey_eqb (a b : tkey) : bool := String.eqb (fst a) (fst b) && Nat.eqb (snd a) (snd b).

Record retry_rec := {
  rr_when : json; rr_count : json; rr_delay : option json; rr_tally : nat }.

Record trec := {
  r_id : string; r_route : nat;
  r_in : list nat;
  r_out : option (trid * nat);
  r_prev : list (trid * nat);
  r_next : list (trid * bool);
  r_status : option status;                  (* None: key absent (record made by rerun) *)
  r_term : bool;
  r_retry : option retry_rec }.

Record stg := {
  s_id : string; s_route : nat;
  s_in : list nat;
  s_prev : list (trid * nat);
  s_ready : bool;
  s_retry : option retry_rec;
  s_items : option (list status);
  s_completed : bool;
  s_run_on_fail : bool }.

Record wstate := {
  contexts : list dict;
  routes : list (list trid);
  sequence : list trec;
  staged : list stg;
  wstatus : status;
  tasks : list (tkey * nat);
  reruns : list (list nat) }.

Definition empty_ws : wstate :=
  {| contexts := []; routes := []; sequence := []; staged := []; wstatus := S_UNSET;
     tasks := []; reruns := [] |}.

Record errent := {
  er_type : string; er_message : string;
  er_task : option string; er_route : option nat; er_trans : option trid;
  er_result : option json }.

Definition opt_eqb {A} (eqb : A -> A -> bool) (a b : option A) : bool :=
  match a, b with
  | None, None => true
  | Some x, Some y => eqb x y
  | _, _ => false
  end.

Definition errent_eqb (a b : errent) : bool :=
  String.eqb (er_type a) (er_type b) && String.eqb (er_message a) (er_message b)
  && opt_eqb String.eqb (er_task a) (er_task b) && opt_eqb Nat.eqb (er_route a) (er_route b)
  && opt_eqb trid_eqb (er_trans a) (er_trans b) && opt_eqb py_eqb (er_result a) (er_result b).   (* log_entry drops duplicates by Python == *)

Record cstate := {
  c_spec : wf_spec; c_graph : graph; c_inputs : dict; c_parent : dict;
  c_init : bool;                             (* the lazy workflow_state has been created *)
  c_ws : wstate;
  c_errors : list errent; c_log : list errent;
  c_output : option dict }.

Definition set_ws (c : cstate) (w : wstate) : cstate :=
  {| c_spec := c_spec c; c_graph := c_graph c; c_inputs := c_inputs c; c_parent := c_parent c;
     c_init := c_init c; c_ws := w; c_errors := c_errors c; c_log := c_log c;
     c_output := c_output c |}.
Definition set_init (c : cstate) (b : bool) : cstate :=
  {| c_spec := c_spec c; c_graph := c_graph c; c_inputs := c_inputs c; c_parent := c_parent c;
     c_init := b; c_ws := c_ws c; c_errors := c_errors c; c_log := c_log c;
     c_output := c_output c |}.
Definition set_errors (c : cstate) (e : list errent) : cstate :=
  {| c_spec := c_spec c; c_graph := c_graph c; c_inputs := c_inputs c; c_parent := c_parent c;
     c_init := c_init c; c_ws := c_ws c; c_errors := e; c_log := c_log c;
     c_output := c_output c |}.
Definition set_output (c : cstate) (o : option dict) : cstate :=
  {| c_spec := c_spec c; c_graph := c_graph c; c_inputs := c_inputs c; c_parent := c_parent c;
     c_init := c_init c; c_ws := c_ws c; c_errors := c_errors c; c_log := c_log c;
     c_output := o |}.

Definition ws_set_status (w : wstate) (s : status) : wstate :=
  {| contexts := contexts w; routes := routes w; sequence := sequence w; staged := staged w;
     wstatus := s; tasks := tasks w; reruns := reruns w |}.
Definition ws_set_staged (w : wstate) (l : list stg) : wstate :=
  {| contexts := contexts w; routes := routes w; sequence := sequence w; staged := l;
     wstatus := wstatus w; tasks := tasks w; reruns := reruns w |}.
Definition ws_set_sequence (w : wstate) (l : list trec) : wstate :=
  {| contexts := contexts w; routes := routes w; sequence := l; staged := staged w;
     wstatus := wstatus w; tasks := tasks w; reruns := reruns w |}.
Definition ws_set_tasks (w : wstate) (l : list (tkey * nat)) : wstate :=
  {| contexts := contexts w; routes := routes w; sequence := sequence w; staged := staged w;
     wstatus := wstatus w; tasks := l; reruns := reruns w |}.
Definition ws_set_contexts (w : wstate) (l : list dict) : wstate :=
  {| contexts := l; routes := routes w; sequence := sequence w; staged := staged w;
     wstatus := wstatus w; tasks := tasks w; reruns := reruns w |}.
Definition ws_set_routes (w : wstate) (l : list (list trid)) : wstate :=
  {| contexts := contexts w; routes := l; sequence := sequence w; staged := staged w;
     wstatus := wstatus w; tasks := tasks w; reruns := reruns w |}.
Definition ws_set_reruns (w : wstate) (l : list (list nat)) : wstate :=
  {| contexts := contexts w; routes := routes w; sequence := sequence w; staged := staged w;
     wstatus := wstatus w; tasks := tasks w; reruns := l |}.

(* record / staged field updates *)
Definition r_set_status (r : trec) (s : option status) : trec :=
  {| r_id := r_id r; r_route := r_route r; r_in := r_in r; r_out := r_out r; r_prev := r_prev r;
     r_next := r_next r; r_status := s; r_term := r_term r; r_retry := r_retry r |}.
Definition r_set_term (r : trec) (b : bool) : trec :=
  {| r_id := r_id r; r_route := r_route r; r_in := r_in r; r_out := r_out r; r_prev := r_prev r;
     r_next := r_next r; r_status := r_status r; r_term := b; r_retry := r_retry r |}.
Definition r_set_next (r : trec) (n : list (trid * bool)) : trec :=
  {| r_id := r_id r; r_route := r_route r; r_in := r_in r; r_out := r_out r; r_prev := r_prev r;
     r_next := n; r_status := r_status r; r_term := r_term r; r_retry := r_retry r |}.
Definition r_set_out (r : trec) (o : option (trid * nat)) : trec :=
  {| r_id := r_id r; r_route := r_route r; r_in := r_in r; r_out := o; r_prev := r_prev r;
     r_next := r_next r; r_status := r_status r; r_term := r_term r; r_retry := r_retry r |}.
Definition r_set_retry (r : trec) (o : option retry_rec) : trec :=
  {| r_id := r_id r; r_route := r_route r; r_in := r_in r; r_out := r_out r; r_prev := r_prev r;
     r_next := r_next r; r_status := r_status r; r_term := r_term r; r_retry := o |}.

Definition s_set_items (s : stg) (i : option (list status)) : stg :=
  {| s_id := s_id s; s_route := s_route s; s_in := s_in s; s_prev := s_prev s; s_ready := s_ready s;
     s_retry := s_retry s; s_items := i; s_completed := s_completed s;
     s_run_on_fail := s_run_on_fail s |}.
Definition s_set_completed (s : stg) (b : bool) : stg :=
  {| s_id := s_id s; s_route := s_route s; s_in := s_in s; s_prev := s_prev s; s_ready := s_ready s;
     s_retry := s_retry s; s_items := s_items s; s_completed := b;
     s_run_on_fail := s_run_on_fail s |}.
Definition s_set_ready (s : stg) (b : bool) : stg :=
  {| s_id := s_id s; s_route := s_route s; s_in := s_in s; s_prev := s_prev s; s_ready := b;
     s_retry := s_retry s; s_items := s_items s; s_completed := s_completed s;
     s_run_on_fail := s_run_on_fail s |}.
Definition s_set_run_on_fail (s : stg) (b : bool) : stg :=
  {| s_id := s_id s; s_route := s_route s; s_in := s_in s; s_prev := s_prev s; s_ready := s_ready s;
     s_retry := s_retry s; s_items := s_items s; s_completed := s_completed s;
     s_run_on_fail := b |}.
Definition s_set_in_prev (s : stg) (i : list nat) (p : list (trid * nat)) : stg :=
  {| s_id := s_id s; s_route := s_route s; s_in := i; s_prev := p; s_ready := s_ready s;
     s_retry := s_retry s; s_items := s_items s; s_completed := s_completed s;
     s_run_on_fail := s_run_on_fail s |}.

(* ------------------------------------------------------------ status helpers *)

Definition status_in (s : status) (l : list status) : bool := existsb (status_eqb s) l.
Definition ostatus_in (s : option status) (l : list status) : bool :=
  match s with Some x => status_in x l | None => false end.
(* task_state.get("status", UNSET) *)
Definition rstatus (r : trec) : status := match r_status r with Some s => s | None => S_UNSET end.

(* ------------------------------------------------------- workflow state queries *)

Definition ws_pointed (w : wstate) (i : nat) : bool := existsb (fun '(_, j) => Nat.eqb i j) (tasks w).

(* get_tasks_by_status(statuses) with last_occurrence=True: (index, record) pairs *)
Definition ws_tasks_by_status (w : wstate) (l : list status) : list (nat * trec) :=
  filter (fun '(i, r) => ostatus_in (r_status r) l && ws_pointed w i) (enumerate (sequence w)).

Definition has_active_tasks (w : wstate) : bool :=
  match ws_tasks_by_status w ACTIVE_STATUSES with [] => false | _ => true end.
Definition has_pausing_tasks (w : wstate) : bool :=
  match ws_tasks_by_status w [S_PAUSING] with [] => false | _ => true end.
Definition has_paused_tasks (w : wstate) : bool :=
  match ws_tasks_by_status w [S_PAUSED; S_PENDING] with [] => false | _ => true end.
Definition has_canceling_tasks (w : wstate) : bool :=
  match ws_tasks_by_status w [S_CANCELING] with [] => false | _ => true end.
Definition has_canceled_tasks (w : wstate) : bool :=
  match ws_tasks_by_status w [S_CANCELED] with [] => false | _ => true end.

(* get_staged_tasks(filtered=True) *)
Definition staged_filtered (w : wstate) : list stg :=
  filter (fun s => s_ready s && negb (s_completed s)) (staged w).
Definition has_staged_tasks (w : wstate) : bool :=
  match staged_filtered w with [] => false | _ => true end.

Definition stg_matches (t : string) (r : nat) (s : stg) : bool :=
  String.eqb (s_id s) t && Nat.eqb (s_route s) r.
Definition get_staged_task (w : wstate) (t : string) (r : nat) : option stg :=
  find (stg_matches t r) (staged w).

(* replace the first staged entry for (t, r) *)
Fixpoint staged_update (f : stg -> stg) (t : string) (r : nat) (l : list stg) : list stg :=
  match l with
  | [] => []
  | s :: l' => if stg_matches t r s then f s :: l' else s :: staged_update f t r l'
  end.
Fixpoint staged_remove_first (t : string) (r : nat) (l : list stg) : list stg :=
  match l with
  | [] => []
  | s :: l' => if stg_matches t r s then l' else s :: staged_remove_first t r l'
  end.

Definition items_any_active (s : stg) : bool :=
  match s_items s with
  | Some its => existsb (fun st => status_in st ACTIVE_STATUSES) its
  | None => false
  end.

(* remove_staged_task: removed unless some item is still active *)
Definition ws_remove_staged_task (w : wstate) (t : string) (r : nat) : wstate :=
  match get_staged_task w t r with
  | Some s => if items_any_active s then w else ws_set_staged w (staged_remove_first t r (staged w))
  | None => w
  end.

Definition mk_staged (t : string) (r : nat) (ctxs : list nat) (prev : list (trid * nat))
           (ready : bool) (retry : option retry_rec) : stg :=
  {| s_id := t; s_route := r; s_in := match ctxs with [] => [0] | _ => ctxs end; s_prev := prev;
     s_ready := ready; s_retry := retry; s_items := None; s_completed := false;
     s_run_on_fail := false |}.

Definition ws_add_staged (w : wstate) (s : stg) : wstate := ws_set_staged w (app (staged w) [s]).

Definition ws_task_idx (w : wstate) (t : string) (r : nat) : option nat := aget tkey_eqb (t, r) (tasks w).
Definition ws_task_entry (w : wstate) (t : string) (r : nat) : option trec :=
  match ws_task_idx w t r with Some i => nth_error (sequence w) i | None => None end.

Definition ws_update_rec (w : wstate) (i : nat) (f : trec -> trec) : wstate :=
  match nth_error (sequence w) i with
  | Some r => ws_set_sequence w (list_set_nth i (f r) (sequence w))
  | None => w
  end.

Definition get_terminal_tasks (w : wstate) : list (nat * trec) :=
  filter (fun '(_, r) => r_term r) (enumerate (sequence w)).

(* ------------------------------------------------------------------ the monad *)

Record exn := { x_cls : string; x_msg : string; x_expr : bool }.
  (* x_expr: the Python exception is an ExpressionEvaluationException *)

Inductive result (A : Type) := Val (a : A) | Exc (e : exn).
Arguments Val {A} a.
Arguments Exc {A} e.

Definition M (A : Type) := cstate -> cstate * result A.

Definition ret {A} (a : A) : M A := fun c => (c, Val a).
Definition bind {A B} (m : M A) (f : A -> M B) : M B :=
  fun c => match m c with
           | (c', Val a) => f a c'
           | (c', Exc e) => (c', Exc e)
           end.
Definition raise {A} (e : exn) : M A := fun c => (c, Exc e).
Definition get : M cstate := fun c => (c, Val c).
Definition put (c : cstate) : M unit := fun _ => (c, Val tt).
Definition modify (f : cstate -> cstate) : M unit := fun c => (f c, Val tt).
Definition getws : M wstate := fun c => (c, Val (c_ws c)).
Definition modws (f : wstate -> wstate) : M unit := fun c => (set_ws c (f (c_ws c)), Val tt).
(* try: ... except Exception as e: handler(e)   -- state changes made before the raise persist *)
Definition try_catch {A} (m : M A) (h : exn -> M A) : M A :=
  fun c => match m c with
           | (c', Exc e) => h e c'
           | r => r
           end.
(* except ExpressionEvaluationException only *)
Definition try_catch_expr {A} (m : M A) (h : exn -> M A) : M A :=
  fun c => match m c with
           | (c', Exc e) => if x_expr e then h e c' else (c', Exc e)
           | r => r
           end.

Declare Scope monad_scope.
Delimit Scope monad_scope with monad.
Notation "x <- m ;; k" := (bind m (fun x => k)) (at level 61, m at next level, right associativity) : monad_scope.
Notation "m ;;; k" := (bind m (fun _ => k)) (at level 61, right associativity) : monad_scope.
Open Scope monad_scope.

Fixpoint mapM {A B} (f : A -> M B) (l : list A) : M (list B) :=
  match l with
  | [] => ret []
  | x :: l' => y <- f x ;; ys <- mapM f l' ;; ret (y :: ys)
  end.
Fixpoint forM_ {A} (l : list A) (f : A -> M unit) : M unit :=
  match l with
  | [] => ret tt
  | x :: l' => f x ;;; forM_ l' f
  end.
Definition when_ (b : bool) (m : M unit) : M unit := if b then m else ret tt.

Definition mkexn (cls msg : string) : exn := {| x_cls := cls; x_msg := msg; x_expr := false |}.
