(* C02C03Proofs.v -- the workflow-machine step of a task event, characterised by what the state says
   at that moment: an unremediated failure fails the workflow; a settled task event processed while
   no task is active never leaves the workflow pausing/canceling (it rests); the workflow succeeds
   only when nothing is active, paused, canceled, staged or next. *)
From Coq Require Import String List Bool ZArith Arith Lia.
From Orq Require Import GenStatuses GenEvents GenTables GenSpecMeta Base State Machines Codec Conductor Decode Api.
From Orq Require Import F_tables F_names Hoare StatusReach.
Import ListNotations.
Open Scope string_scope.
Open Scope monad_scope.

(* what wf_task_event_M does, spelled out *)
Lemma wf_task_event_M_spec : forall t route st c c' r,
  wf_task_event_M t route st c = (c', r) ->
  (exists e, r = Exc e /\ c' = c) \/
  (exists unr, r = Val unr /\
     let evn := wf_task_event_name (c_graph c) (c_ws c) t route st in
     match tbl_step wf_table (wstatus (c_ws c)) evn with
     | None => wstatus (c_ws c') = wstatus (c_ws c)
     | Some n => wstatus (c_ws c') = n \/ (wstatus (c_ws c') = S_FAILED /\ unr <> [])
     end).
Proof.
  intros t route st c c' r H. unfold wf_task_event_M in H.
  destruct (wf_process_task_event (c_graph c) (c_ws c) t route st) as [[new unr]|e] eqn:E;
    inversion H; subst; clear H; [right|left; eauto].
  exists unr; split; [reflexivity|]. cbv zeta. simpl.
  unfold wf_process_task_event in E.
  destruct (negb (string_in (wf_task_event_name (c_graph c) (c_ws c) t route st) TASK_EXECUTION_EVENTS)); [discriminate|].
  unfold tbl_step.
  destruct (tbl_row wf_table (wstatus (c_ws c))) as [row|]; [|discriminate].
  destruct (aget String.eqb (wf_task_event_name (c_graph c) (c_ws c) t route st) row) as [n|].
  - destruct (status_in n COMPLETED_STATUSES && negb (status_eqb n S_CANCELED)).
    + unfold fail_on_unreachable in E. destruct (get_unreachable_barriers _ _) eqn:Eu; inversion E; subst.
      * left; reflexivity.
      * right; split; [reflexivity|discriminate].
    + inversion E; subst; left; reflexivity.
  - inversion E; subst; reflexivity.
Qed.

(* C02: a task failure with no matching transition fails the workflow (unless it is canceling) *)
Theorem unremediated_failure_fails_workflow : forall t route c c' unr,
  In (wstatus (c_ws c)) [S_RUNNING; S_PAUSING; S_PAUSED; S_RESUMING] ->
  has_next_tasks (c_graph c) (c_ws c) t route = false ->
  has_barrier_next (c_graph c) (c_ws c) t route = false ->
  wf_task_event_M t route S_FAILED c = (c', Val unr) ->
  wstatus (c_ws c') = S_FAILED.
Proof.
  intros t route c c' unr Hs Hn Hb H.
  destruct (wf_task_event_M_spec _ _ _ _ _ _ H) as [[e [He _]]|[u [Hu Hspec]]]; [discriminate|].
  cbv zeta in Hspec. unfold wf_task_event_name in Hspec. rewrite Hn, Hb in Hspec. cbn [orb] in Hspec.
  rewrite (F_unremediated_failure_fails _ _ _ _ _ Hs) in Hspec. destruct Hspec as [E|[E _]]; exact E.
Qed.

Theorem failure_while_canceling_stays_cancel_class : forall t route c c' unr,
  wstatus (c_ws c) = S_CANCELING ->
  wf_task_event_M t route S_FAILED c = (c', Val unr) ->
  In (wstatus (c_ws c')) [S_CANCELING; S_CANCELED; S_FAILED].
Proof.
  intros t route c c' unr Hs H.
  destruct (wf_task_event_M_spec _ _ _ _ _ _ H) as [[e [He _]]|[u [Hu Hspec]]]; [discriminate|].
  cbv zeta in Hspec. unfold wf_task_event_name in Hspec. rewrite Hs in Hspec.
  match type of Hspec with match ?x with _ => _ end => destruct x as [n|] eqn:En end.
  - pose proof (F_failure_while_canceling _ _ _ _ _ _ En) as Hn.
    destruct Hspec as [E|[E _]]; rewrite E; simpl in *; tauto.
  - rewrite Hspec; simpl; auto.
Qed.

(* C02/C03: pausing and canceling are held only while a task is active.  When the event of a task that
   has stopped running (pending, paused, succeeded, failed, canceled, retrying) is processed and no task
   execution is active, the workflow does not stay (or become) pausing, canceling or resuming *)
Theorem settled_event_with_nothing_active_rests : forall t route st c c' unr,
  In st settled_statuses ->
  has_active_tasks (c_ws c) = false ->
  In (wstatus (c_ws c)) [S_PAUSING; S_CANCELING] ->
  wf_task_event_M t route st c = (c', Val unr) ->
  ~ In (wstatus (c_ws c')) [S_PAUSING; S_CANCELING; S_RESUMING].
Proof.
  intros t route st c c' unr Hst Ha Hs H.
  destruct (wf_task_event_M_spec _ _ _ _ _ _ H) as [[e [He _]]|[u [Hu Hspec]]]; [discriminate|].
  cbv zeta in Hspec. unfold wf_task_event_name in Hspec. rewrite Ha in Hspec.
  destruct (F_dormant_event_accepted (wstatus (c_ws c)) st
              (has_next_tasks (c_graph c) (c_ws c) t route || has_barrier_next (c_graph c) (c_ws c) t route)
              (has_canceling_tasks (c_ws c) || has_canceled_tasks (c_ws c))
              (has_pausing_tasks (c_ws c) || has_paused_tasks (c_ws c))
              (has_staged_tasks (c_ws c) || has_next_tasks (c_graph c) (c_ws c) t route) Hs Hst) as [n En].
  rewrite En in Hspec.
  pose proof (F_dormant_event_rests _ _ _ _ _ _ _ Hst En) as Hn.
  destruct Hspec as [E|[E _]]; rewrite E; [exact Hn|]. simpl; intuition discriminate.
Qed.

(* C02: the workflow reports succeeded through a task event only if, at that moment, no task
   execution is active, none is paused/pending or pausing, none canceled or canceling, nothing is staged
   ready and the reporting task has no satisfiable next -- and the reporting task succeeded or its failure
   was remediated *)
Theorem succeeded_only_when_all_done : forall t route st c c' unr,
  wstatus (c_ws c) <> S_SUCCEEDED ->
  wf_task_event_M t route st c = (c', Val unr) ->
  wstatus (c_ws c') = S_SUCCEEDED ->
  has_active_tasks (c_ws c) = false /\
  has_canceling_tasks (c_ws c) = false /\ has_canceled_tasks (c_ws c) = false /\
  has_pausing_tasks (c_ws c) = false /\ has_paused_tasks (c_ws c) = false /\
  has_staged_tasks (c_ws c) = false /\ has_next_tasks (c_graph c) (c_ws c) t route = false /\
  (st = S_SUCCEEDED \/ In st ABENDED_STATUSES).
Proof.
  intros t route st c c' unr Hns H Hsucc.
  destruct (wf_task_event_M_spec _ _ _ _ _ _ H) as [[e [He _]]|[u [Hu Hspec]]]; [discriminate|].
  cbv zeta in Hspec. unfold wf_task_event_name in Hspec.
  match type of Hspec with match ?x with _ => _ end => destruct x as [n|] eqn:En end.
  - destruct Hspec as [E|[E _]]; [|rewrite E in Hsucc; discriminate].
    rewrite E in Hsucc; subst n.
    destruct (F_success_only_when_complete _ _ _ _ _ _ _ En) as [Ha [Hc [Hp [Hm Hst]]]].
    apply orb_false_elim in Hc; destruct Hc. apply orb_false_elim in Hp; destruct Hp.
    apply orb_false_elim in Hm; destruct Hm.
    repeat split; auto. destruct Hst as [Hst|[Hst _]]; auto.
  - rewrite Hspec in Hsucc. contradiction.
Qed.
