(* C04Proofs.v -- terminal statuses are final; nothing is offered after them. *)
From Coq Require Import String List Bool ZArith Arith Lia.
From Orq Require Import GenStatuses GenEvents GenTables GenSpecMeta Base State Machines Codec Conductor Decode Api.
From Orq Require Import F_tables Hoare StatusReach PersistStatus.
Import ListNotations.
Open Scope monad_scope.

Section WithEval.
Variable ev : string -> dict -> evalres.

Lemma pres_persist : preserves Rst (persist ev).
Proof.
  unfold persist. apply (preserves_bind _ Rst_trans); [apply pres_ensure_ws|intros _].
  intros c c' r H.
  destruct (dec_cstate (c_spec c) (c_graph c) (enc_cstate c)) as [c2|] eqn:E; inversion H; subst.
  - unfold Rst. rewrite (dec_cstate_status _ _ _ _ E). apply wr_refl.
  - apply Rst_refl.
Qed.

(* every API call other than rerun moves the workflow status only along the generated table *)
Lemma api_exec_reach : forall op, is_rerun op = false -> preserves Rst (api_exec ev op).
Proof.
  intros op Hop; destruct op; simpl in Hop; try discriminate; simpl;
    (apply (preserves_bind _ Rst_trans); [|intro; apply (preserves_ret _ Rst_refl)]).
  - apply pres_ensure_ws.
  - apply pres_request_workflow_status.
  - apply pres_get_next_tasks.
  - apply pres_update_task_state.
  - apply pres_render_workflow_output.
  - apply pres_persist.
Qed.

Lemma run_ops_reach : forall ops c, forallb (fun op => negb (is_rerun op)) ops = true ->
  wf_reach (wstatus (c_ws c)) (wstatus (c_ws (run_ops ev ops c))).
Proof.
  induction ops as [|op ops IH]; intros c H; simpl; [apply wr_refl|].
  simpl in H; apply andb_prop in H; destruct H as [Hop Hops].
  eapply wf_reach_trans; [|apply IH; exact Hops].
  destruct (api_exec ev op c) as [c1 r] eqn:E; simpl.
  eapply (api_exec_reach op); [destruct (is_rerun op); [discriminate|reflexivity]|exact E].
Qed.

Theorem failed_is_final : forall ops c, forallb (fun op => negb (is_rerun op)) ops = true ->
  wstatus (c_ws c) = S_FAILED -> wstatus (c_ws (run_ops ev ops c)) = S_FAILED.
Proof. intros ops c H Hs. pose proof (run_ops_reach ops c H) as R. rewrite Hs in R. apply reach_from_failed; exact R. Qed.

Theorem canceled_is_final : forall ops c, forallb (fun op => negb (is_rerun op)) ops = true ->
  wstatus (c_ws c) = S_CANCELED -> wstatus (c_ws (run_ops ev ops c)) = S_CANCELED.
Proof. intros ops c H Hs. pose proof (run_ops_reach ops c H) as R. rewrite Hs in R. apply reach_from_canceled; exact R. Qed.

Theorem succeeded_only_to_failed : forall ops c, forallb (fun op => negb (is_rerun op)) ops = true ->
  wstatus (c_ws c) = S_SUCCEEDED ->
  wstatus (c_ws (run_ops ev ops c)) = S_SUCCEEDED \/ wstatus (c_ws (run_ops ev ops c)) = S_FAILED.
Proof. intros ops c H Hs. pose proof (run_ops_reach ops c H) as R. rewrite Hs in R. apply reach_from_succeeded; exact R. Qed.

(* nothing is offered in succeeded / canceled; in failed only entries flagged run_on_fail *)
Lemma ensure_ws_inited : forall c, c_init c = true -> ensure_ws ev c = (c, Val tt).
Proof. intros c H; unfold ensure_ws, bind, get; simpl; rewrite H; reflexivity. Qed.

Theorem no_offers_when_done : forall c, c_init c = true ->
  In (wstatus (c_ws c)) [S_SUCCEEDED; S_CANCELED] -> get_next_tasks ev c = (c, Val []).
Proof.
  intros c Hi Hs. unfold get_next_tasks, bind. rewrite (ensure_ws_inited c Hi).
  unfold getws. cbv beta iota.
  destruct Hs as [Hs|[Hs|[]]]; rewrite <- Hs; vm_compute status_eqb; simpl; reflexivity.
Qed.

Theorem failed_offers_only_cleanup : forall c, c_init c = true -> wstatus (c_ws c) = S_FAILED ->
  filter s_run_on_fail (staged_filtered (c_ws c)) = [] -> get_next_tasks ev c = (c, Val []).
Proof.
  intros c Hi Hs Hf. unfold get_next_tasks, bind. rewrite (ensure_ws_inited c Hi).
  unfold getws. cbv beta iota. rewrite Hs. rewrite status_eqb_refl. rewrite Hf.
  vm_compute status_in. reflexivity.
Qed.

End WithEval.
