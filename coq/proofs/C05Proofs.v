(* C05Proofs.v -- serialisation round trip: decoding the persisted form of a conductor gives the
   conductor back (for every state whatsoever: the codec needs no side condition beyond "the lazy
   workflow state has been created"), hence the persist round trip is the identity on initialised
   conductors, equals serialize() on every conductor, and inserting it at any points of a history
   changes neither the states reached nor anything a provider observes. *)
From Coq Require Import String Ascii List Bool ZArith Arith Lia DecimalString DecimalZ DecimalPos.
From Orq Require Import GenStatuses GenEvents GenTables GenSpecMeta Base State Machines Codec Conductor Decode Api.
From Orq Require Import Hoare PersistStatus.
Import ListNotations.
Open Scope string_scope.

(* ---------- strings ---------- *)
Definition US : ascii := "_"%char.

Fixpoint no_us (s : string) : Prop :=
  match s with EmptyString => True | String c s' => c <> US /\ no_us s' end.

Lemma prefix_sep_head : forall x c s, String.prefix (String US (String US (String x ""))) (String c s) = true -> c = US.
Proof.
  intros x c s H. cbn [String.prefix] in H. destruct (ascii_dec US c) as [E|E]; [symmetry; exact E|discriminate H].
Qed.

Lemma rsplit_no_us : forall x s, no_us s -> rsplit (String US (String US (String x ""))) s = None.
Proof.
  intros x s; induction s as [|c s IH]; intro H; [reflexivity|].
  destruct H as [Hc Hs]. cbn [rsplit]. rewrite (IH Hs).
  destruct (String.prefix _ (String c s)) eqn:E; [|reflexivity].
  apply prefix_sep_head in E. contradiction.
Qed.

Lemma substring_all : forall s, substring 0 (String.length s) s = s.
Proof. induction s as [|c s IH]; [reflexivity|]. simpl. rewrite IH. reflexivity. Qed.

Lemma prefix_refl_app : forall p s, String.prefix p (p ++ s) = true.
Proof.
  induction p as [|a p IH]; intro s; [destruct s; reflexivity|].
  simpl. destruct (ascii_dec a a) as [_|N]; [apply IH|contradiction].
Qed.

Lemma rsplit_sep_digits : forall x d, x <> US -> no_us d ->
  rsplit (String US (String US (String x ""))) (String US (String US (String x d))) = Some ("", d).
Proof.
  intros x d Hx Hd.
  set (sep := String US (String US (String x ""))).
  assert (R0 : rsplit sep d = None) by (apply rsplit_no_us; exact Hd).
  assert (R1 : rsplit sep (String x d) = None).
  { cbn [rsplit]. rewrite R0. destruct (String.prefix sep (String x d)) eqn:E; [|reflexivity].
    apply prefix_sep_head in E. contradiction. }
  assert (R2 : rsplit sep (String US (String x d)) = None).
  { cbn [rsplit] in *. rewrite R1.
    destruct (String.prefix sep (String US (String x d))) eqn:E; [|reflexivity].
    unfold sep in E. cbn [String.prefix] in E. destruct (ascii_dec US US); [|discriminate E].
    destruct (ascii_dec US x) as [E2|E2]; [symmetry in E2; contradiction|discriminate E]. }
  change (rsplit sep (String US (String US (String x d)))) with
    (match rsplit sep (String US (String x d)) with
     | Some (b, a) => Some (String US b, a)
     | None => if String.prefix sep (String US (String US (String x d)))
               then Some ("", substring (String.length sep)
                               (String.length (String US (String US (String x d))) - String.length sep)
                               (String US (String US (String x d))))
               else None
     end).
  rewrite R2.
  change (String US (String US (String x d))) with (sep ++ d).
  rewrite prefix_refl_app.
  unfold sep. cbn [String.length append Nat.sub substring]. rewrite Nat.sub_0_r, substring_all. reflexivity.
Qed.

Lemma rsplit_app : forall x t d, x <> US -> no_us d ->
  rsplit (String US (String US (String x ""))) (t ++ String US (String US (String x "")) ++ d) = Some (t, d).
Proof.
  intros x t d Hx Hd; induction t as [|c t IH].
  - cbn [append]. apply rsplit_sep_digits; assumption.
  - change (String c t ++ String US (String US (String x "")) ++ d)
      with (String c (t ++ String US (String US (String x "")) ++ d)).
    cbn [rsplit]. rewrite IH. reflexivity.
Qed.

(* ---------- decimal numerals ---------- *)
Lemma no_us_uint : forall d, no_us (NilEmpty.string_of_uint d).
Proof. induction d; simpl; (try exact I); (split; [discriminate|assumption]). Qed.

Lemma no_us_nat : forall n, no_us (nat_to_string n).
Proof.
  intro n. unfold nat_to_string, Z_to_string.
  destruct (Z.of_nat n) eqn:E; cbn [Z.to_int NilZero.string_of_int].
  - simpl. split; [discriminate|exact I].
  - unfold NilZero.string_of_uint. destruct (Pos.to_uint p) eqn:Ep; try (rewrite <- Ep; apply no_us_uint).
    simpl; split; [discriminate|exact I].
  - pose proof (Nat2Z.is_nonneg n). lia.
Qed.

Lemma Z_string_roundtrip : forall z, NilZero.int_of_string (Z_to_string z) = Some (Z.to_int z).
Proof.
  intro z. unfold Z_to_string. apply NilZero.isi; destruct z; cbn [Z.to_int]; try discriminate;
    intro H; inversion H as [H1]; exact (Unsigned.to_uint_nonnil _ H1).
Qed.

Lemma Z_to_string_nonempty : forall z, Z_to_string z <> "".
Proof.
  intros z H. pose proof (Z_string_roundtrip z) as R. rewrite H in R. discriminate.
Qed.

Lemma nat_string_roundtrip : forall n, nat_of_string (nat_to_string n) = Some n.
Proof.
  intro n. unfold nat_of_string, nat_to_string.
  destruct (Z_to_string (Z.of_nat n)) eqn:E; [exfalso; exact (Z_to_string_nonempty _ E)|].
  rewrite <- E. rewrite Z_string_roundtrip. cbv zeta. rewrite DecimalZ.of_to.
  rewrite String.eqb_refl.
  destruct (Z.leb_spec 0 (Z.of_nat n)) as [_|L]; [|pose proof (Nat2Z.is_nonneg n); lia].
  cbn [andb]. rewrite Nat2Z.id. reflexivity.
Qed.

Lemma dec_trid_roundtrip : forall t, dec_trid (trid_str t) = Some t.
Proof.
  intros [t k]. unfold dec_trid, trid_str. cbn [fst snd].
  change TRANSITION_SEP with (String US (String US (String "t"%char ""))).
  rewrite rsplit_app; [|discriminate|apply no_us_nat].
  cbn [obind fst snd]. rewrite nat_string_roundtrip. reflexivity.
Qed.

Lemma dec_tkey_roundtrip : forall t, dec_tkey (tkey_str t) = Some t.
Proof.
  intros [t k]. unfold dec_tkey, tkey_str. cbn [fst snd].
  change ROUTE_SEP with (String US (String US (String "r"%char ""))).
  rewrite rsplit_app; [|discriminate|apply no_us_nat].
  cbn [obind fst snd]. rewrite nat_string_roundtrip. reflexivity.
Qed.

(* ---------- field by field ---------- *)
Lemma mapO_map : forall A B (f : B -> option A) (g : A -> B) l,
  (forall x, f (g x) = Some x) -> mapO f (map g l) = Some l.
Proof.
  intros A B f g l H; induction l as [|x l IH]; [reflexivity|].
  cbn [map mapO]. rewrite H. cbn [obind]. rewrite IH. reflexivity.
Qed.

Lemma as_nat_enc : forall n, as_nat (enc_nat n) = Some n.
Proof.
  intro n. unfold as_nat, enc_nat.
  destruct (Z.leb_spec 0 (Z.of_nat n)) as [_|L]; [|pose proof (Nat2Z.is_nonneg n); lia].
  rewrite Nat2Z.id. reflexivity.
Qed.

Lemma as_status_enc : forall s, as_status (enc_status s) = Some s.
Proof. intro s. unfold as_status, enc_status. cbn [as_str obind]. apply status_name_roundtrip. Qed.

Lemma dec_prev_enc : forall p, dec_prev (enc_prev p) = Some p.
Proof.
  intro p. unfold dec_prev, enc_prev. cbn [as_dict obind]. apply mapO_map.
  intros [t i]. rewrite dec_trid_roundtrip. cbn [obind]. rewrite as_nat_enc. reflexivity.
Qed.

Ltac look := cbn [jfield jfield_or_null dget aget String.eqb Ascii.eqb Bool.eqb andb app opt_field flag_field].

Lemma dec_retry_enc : forall r, dec_retry (enc_retry r) = Some r.
Proof.
  intros [w c d t]. unfold dec_retry, enc_retry. cbn [rr_when rr_count rr_delay rr_tally].
  destruct d as [d|]; look; cbn [obind]; rewrite as_nat_enc; reflexivity.
Qed.

Lemma dec_opt_enc : forall A (f : json -> option A) (g : A -> json) o,
  (forall a, f (g a) = Some a) -> dec_opt f (option_map g o) = Some o.
Proof. intros A f g [a|] H; cbn; [rewrite H|]; reflexivity. Qed.


Lemma mapO_as_nat : forall l, mapO as_nat (map enc_nat l) = Some l.
Proof. intro l; apply mapO_map; exact as_nat_enc. Qed.

Lemma mapO_next : forall nx,
  mapO (fun '(k, v) => t <-? dec_trid k;; b <-? as_bool v;; Some (t, b))
    (map (fun '(t, b) => (trid_str t, JBool b)) nx) = Some nx.
Proof. intro nx; apply mapO_map. intros [t b]. rewrite dec_trid_roundtrip. reflexivity. Qed.

Ltac red1 := cbn [jfield jfield_or_null dget aget String.eqb Ascii.eqb Bool.eqb andb app opt_field flag_field
                  obind as_str as_list as_dict as_bool dec_opt dec_flag].
Ltac rw1 := first [ rewrite as_nat_enc | rewrite mapO_as_nat | rewrite dec_prev_enc | rewrite mapO_next
                  | rewrite as_status_enc | rewrite dec_retry_enc | rewrite dec_trid_roundtrip ].
Ltac crunch := repeat (first [progress red1 | rw1]); try reflexivity.

Lemma dec_rec_enc : forall r, dec_rec (enc_rec r) = Some r.
Proof.
  intros [i rt cin cout pv nx st tm ry]. unfold dec_rec, enc_rec.
  cbn [r_id r_route r_in r_out r_prev r_next r_status r_term r_retry].
  destruct ry as [ry|], st as [st|], tm, cout as [[ot oi]|]; crunch.
Qed.

Lemma mapO_items : forall l,
  mapO (fun e => as_status (jfield_or_null "status" e)) (map (fun st => JDict [("status", enc_status st)]) l) = Some l.
Proof. intro l; apply mapO_map. intro s. red1. apply as_status_enc. Qed.

Lemma dec_stg_enc : forall s, dec_stg (enc_stg s) = Some s.
Proof.
  intros [i rt cin pv rd ry its cp rf]. unfold dec_stg, enc_stg.
  cbn [s_id s_route s_in s_prev s_ready s_retry s_items s_completed s_run_on_fail].
  destruct ry as [ry|], its as [its|], cp, rf; crunch; rewrite mapO_items; crunch.
Qed.

Lemma mapO_routes : forall l,
  mapO (fun r => l' <-? as_list r ;; mapO (fun x => s <-? as_str x ;; dec_trid s) l')
       (map (fun r => JList (map (fun t => JStr (trid_str t)) r)) l) = Some l.
Proof.
  intro l; apply mapO_map. intro r. cbn [as_list obind]. apply mapO_map.
  intro t. cbn [as_str obind]. apply dec_trid_roundtrip.
Qed.

Lemma mapO_tasks : forall l,
  mapO (fun '(k, v) => t <-? dec_tkey k ;; n <-? as_nat v ;; Some (t, n))
       (map (fun '(k, i) => (tkey_str k, enc_nat i)) l) = Some l.
Proof.
  intro l; apply mapO_map. intros [k i]. rewrite dec_tkey_roundtrip. cbn [obind]. rewrite as_nat_enc. reflexivity.
Qed.

Lemma mapO_reruns : forall l,
  mapO (fun r => l' <-? as_list r ;; mapO as_nat l') (map (fun r => JList (map enc_nat r)) l) = Some l.
Proof. intro l; apply mapO_map. intro r. cbn [as_list obind]. apply mapO_as_nat. Qed.

Lemma mapO_contexts : forall l, mapO as_dict (map JDict l) = Some l.
Proof. intro l; apply mapO_map. reflexivity. Qed.

Lemma mapO_recs : forall l, mapO dec_rec (map enc_rec l) = Some l.
Proof. intro l; apply mapO_map; exact dec_rec_enc. Qed.
Lemma mapO_stgs : forall l, mapO dec_stg (map enc_stg l) = Some l.
Proof. intro l; apply mapO_map; exact dec_stg_enc. Qed.

Ltac rw2 := first [ rewrite mapO_contexts | rewrite mapO_routes | rewrite mapO_recs | rewrite mapO_stgs
                  | rewrite mapO_tasks | rewrite mapO_reruns | rewrite as_status_enc ].

Lemma dec_wstate_enc : forall w, dec_wstate (enc_wstate w) = Some w.
Proof.
  intros [cx rts sq sg st tk rr]. unfold dec_wstate, enc_wstate.
  cbn [contexts routes sequence staged wstatus tasks reruns].
  destruct rr as [|r rr]; repeat (first [progress red1 | rw2]); try reflexivity.
Qed.

Lemma dec_errent_enc : forall e, dec_errent (enc_errent e) = Some e.
Proof.
  intros [ty m tk rt tr rs]. unfold dec_errent, enc_errent.
  cbn [er_type er_message er_task er_route er_trans er_result].
  destruct tk as [tk|], rt as [rt|], tr as [tr|], rs as [rs|]; crunch.
Qed.

Lemma mapO_errents : forall l, mapO dec_errent (map enc_errent l) = Some l.
Proof. intro l; apply mapO_map; exact dec_errent_enc. Qed.

Theorem dec_cstate_enc_total : forall c,
  dec_cstate (c_spec c) (c_graph c) (enc_cstate c) = Some (set_init c true).
Proof.
  intros [sp g inp par ini w ers lg out]. unfold dec_cstate, enc_cstate, set_init.
  cbn [c_spec c_graph c_inputs c_parent c_init c_ws c_errors c_log c_output].
  red1. rewrite dec_wstate_enc. red1. rewrite !mapO_errents. red1.
  destruct out as [o|]; reflexivity.
Qed.

Theorem dec_cstate_enc : forall c, c_init c = true ->
  dec_cstate (c_spec c) (c_graph c) (enc_cstate c) = Some c.
Proof.
  intros c H. rewrite dec_cstate_enc_total. destruct c; cbn in *; subst; reflexivity.
Qed.

(* ---------- histories with persist round trips ---------- *)
Lemma set_init_id : forall c, c_init c = true -> set_init c true = c.
Proof. intros c H; destruct c; cbn in *; subst; reflexivity. Qed.

Lemma enc_cstate_set_init : forall c b, enc_cstate (set_init c b) = enc_cstate c.
Proof. intros; reflexivity. Qed.

Definition is_persist (op : api_op) : bool := match op with OpPersist => true | _ => false end.

(* l' is l with OpPersist operations inserted at arbitrary points (any number at each point) *)
Inductive ins_persist : list api_op -> list api_op -> Prop :=
  | ip_nil : ins_persist [] []
  | ip_keep : forall op l l', ins_persist l l' -> ins_persist (op :: l) (op :: l')
  | ip_ins : forall l l', ins_persist l l' -> ins_persist l (OpPersist :: l').

(* one OpPersist before the i-th call when the i-th bit of the mask is set (and one after the
   last call when the bit after the last call is set): every subset of the points between calls *)
Fixpoint weave (mask : list bool) (ops : list api_op) : list api_op :=
  match ops with
  | [] => match mask with true :: _ => [OpPersist] | _ => [] end
  | op :: ops' =>
      match mask with
      | true :: m => OpPersist :: op :: weave m ops'
      | false :: m => op :: weave m ops'
      | [] => op :: ops'
      end
  end.

Lemma ins_persist_refl : forall l, ins_persist l l.
Proof. induction l; constructor; assumption. Qed.

Lemma weave_ins : forall ops mask, ins_persist ops (weave mask ops).
Proof.
  induction ops as [|op ops IH]; intros [|[|] m]; cbn [weave]; repeat constructor; try apply IH.
  apply ins_persist_refl.
Qed.


Open Scope monad_scope.

(* ---------- the lazy workflow state, once created, stays created ---------- *)
Definition Rinit (c c' : cstate) : Prop := c_init c = true -> c_init c' = true.
Lemma Rinit_refl : forall c, Rinit c c.
Proof. intros c H; exact H. Qed.
Lemma Rinit_trans : forall a b c, Rinit a b -> Rinit b c -> Rinit a c.
Proof. unfold Rinit; intros; auto. Qed.

Create HintDb presi.

Section WithEval.
Variable ev : string -> dict -> evalres.

Ltac leaf :=
  first
    [ apply (preserves_modws Rinit); intro; unfold Rinit; simpl; intro; first [assumption|reflexivity]
    | apply (preserves_modify Rinit); intro; unfold Rinit; simpl; intro; first [assumption|reflexivity]
    | assumption
    | match goal with IH : forall _ _ _, preserves _ _ |- _ => apply IH end
    | match goal with IH : forall _ _, preserves _ _ |- _ => apply IH end
    | eauto 3 with presi ].

Ltac walk := pw Rinit_refl Rinit_trans leaf.

Lemma presi_wf_workflow_event : forall st, preserves Rinit (wf_workflow_event_M st).
Proof.
  intros st c c' r H. unfold wf_workflow_event_M in H.
  destruct (wf_process_workflow_event (c_graph c) (c_ws c) st) as [[new unr]|e];
    inversion H; subst; intro Hi; exact Hi.
Qed.
Hint Resolve presi_wf_workflow_event : presi.

Lemma presi_wf_task_event : forall t route st, preserves Rinit (wf_task_event_M t route st).
Proof.
  intros t route st c c' r H. unfold wf_task_event_M in H.
  destruct (wf_process_task_event (c_graph c) (c_ws c) t route st) as [[new unr]|e];
    inversion H; subst; intro Hi; exact Hi.
Qed.
Hint Resolve presi_wf_task_event : presi.

Lemma presi_log_entry_error : forall m t r tr res, preserves Rinit (log_entry_error m t r tr res).
Proof.
  intros; unfold log_entry_error. apply (preserves_modify Rinit); intro c; unfold Rinit.
  destruct (existsb _ _); simpl; intro Hi; exact Hi.
Qed.
Hint Resolve presi_log_entry_error : presi.

Lemma presi_log_error : forall e t r tr, preserves Rinit (log_error e t r tr).
Proof. intros; unfold log_error; auto with presi. Qed.
Hint Resolve presi_log_error : presi.
Lemma presi_log_errors : forall es t r tr, preserves Rinit (log_errors es t r tr).
Proof. intros; unfold log_errors; walk. Qed.
Hint Resolve presi_log_errors : presi.
Lemma presi_log_unreachable : forall l, preserves Rinit (log_unreachable l).
Proof. intros; unfold log_unreachable; walk. Qed.
Hint Resolve presi_log_unreachable : presi.
Lemma presi_upd_rec : forall i f, preserves Rinit (upd_rec i f).
Proof. intros; unfold upd_rec; walk. Qed.
Hint Resolve presi_upd_rec : presi.
Lemma presi_set_rec_status : forall i s, preserves Rinit (set_rec_status i s).
Proof. intros; unfold set_rec_status; walk. Qed.
Hint Resolve presi_set_rec_status : presi.
Lemma presi_request_status_core : forall st, preserves Rinit (request_status_core st).
Proof. intros; unfold request_status_core; walk. Qed.
Hint Resolve presi_request_status_core : presi.
Lemma presi_render_input : forall specs rt rolling errs, preserves Rinit (render_input ev specs rt rolling errs).
Proof. induction specs as [|[n d] specs IH]; intros; simpl; walk. Qed.
Hint Resolve presi_render_input : presi.
Lemma presi_render_vars : forall specs rolling rendered errs, preserves Rinit (render_vars ev specs rolling rendered errs).
Proof. induction specs as [|[n d] specs IH]; intros; simpl; walk. Qed.
Hint Resolve presi_render_vars : presi.
Lemma presi_ensure_ws : preserves Rinit (ensure_ws ev).
Proof. unfold ensure_ws; walk. Qed.
Hint Resolve presi_ensure_ws : presi.
Theorem presi_request_workflow_status : forall st, preserves Rinit (request_workflow_status ev st).
Proof. intros; unfold request_workflow_status; walk. Qed.
Lemma presi_get_task_context : forall idxs, preserves Rinit (get_task_context idxs).
Proof. intros; unfold get_task_context; walk. Qed.
Hint Resolve presi_get_task_context : presi.
Lemma presi_render_task : forall ts ctx, preserves Rinit (render_task ev ts ctx).
Proof. intros; unfold render_task; walk. Qed.
Hint Resolve presi_render_task : presi.
Lemma presi_next_task_for : forall s, preserves Rinit (next_task_for ev s).
Proof. intros; unfold next_task_for; walk. Qed.
Hint Resolve presi_next_task_for : presi.
Theorem presi_get_next_tasks : preserves Rinit (get_next_tasks ev).
Proof. unfold get_next_tasks; walk. Qed.
Lemma presi_setup_retry : forall t idxs, preserves Rinit (setup_retry ev t idxs).
Proof. intros; unfold setup_retry; walk. Qed.
Hint Resolve presi_setup_retry : presi.
Lemma presi_add_task_state : forall t r i p, preserves Rinit (add_task_state ev t r i p).
Proof. intros; unfold add_task_state; walk. Qed.
Hint Resolve presi_add_task_state : presi.
Lemma presi_evaluate_route : forall e r, preserves Rinit (evaluate_route e r).
Proof. intros; unfold evaluate_route; walk. Qed.
Hint Resolve presi_evaluate_route : presi.
Lemma presi_evaluate_task_retry : forall r ctx, preserves Rinit (evaluate_task_retry ev r ctx).
Proof. intros; unfold evaluate_task_retry; walk. Qed.
Hint Resolve presi_evaluate_task_retry : presi.
Lemma presi_finalize_context : forall ts e ctx, preserves Rinit (finalize_context ev ts e ctx).
Proof. intros; unfold finalize_context; walk. Qed.
Hint Resolve presi_finalize_context : presi.
Lemma presi_get_rec : forall i, preserves Rinit (get_rec i).
Proof. intros; unfold get_rec; walk. Qed.
Hint Resolve presi_get_rec : presi.
Lemma presi_process_transition : forall t route idx ts ctx e,
  preserves Rinit (process_transition ev t route idx ts ctx e).
Proof. intros; unfold process_transition; walk. Qed.
Hint Resolve presi_process_transition : presi.
Lemma presi_update_task_state_fuel : forall fuel t route evt,
  preserves Rinit (update_task_state_fuel ev fuel t route evt).
Proof.
  induction fuel as [|fuel IH]; intros t route evt; simpl; [apply (preserves_raise _ Rinit_refl)|].
  walk.
Qed.
Theorem presi_update_task_state : forall t route evt, preserves Rinit (update_task_state ev t route evt).
Proof. intros; unfold update_task_state; apply presi_update_task_state_fuel. Qed.
Lemma presi_merge_term_contexts : forall l acc, preserves Rinit (merge_term_contexts l acc).
Proof. induction l as [|[i r] l IH]; intros; simpl; walk. Qed.
Hint Resolve presi_merge_term_contexts : presi.
Theorem presi_render_workflow_output : preserves Rinit (render_workflow_output ev).
Proof. unfold render_workflow_output, get_workflow_terminal_context; walk. Qed.
Lemma presi_request_task_rerun : forall t r b, preserves Rinit (request_task_rerun ev t r b).
Proof. intros; unfold request_task_rerun; walk. Qed.
Hint Resolve presi_request_task_rerun : presi.
Theorem presi_request_workflow_rerun : forall reqs, preserves Rinit (request_workflow_rerun ev reqs).
Proof. intros; unfold request_workflow_rerun; walk. Qed.



(* what a provider sees: the outcome of every call other than the persist round trips *)
Fixpoint run_obs (ops : list api_op) (c : cstate) : list (result api_result) :=
  match ops with
  | [] => []
  | op :: ops' =>
      let cr := api_exec ev op c in
      app (if is_persist op then [] else [snd cr]) (run_obs ops' (fst cr))
  end.

Lemma ensure_ws_inited : forall c, c_init c = true -> ensure_ws ev c = (c, Val tt).
Proof. intros c H; unfold ensure_ws, bind, get; simpl; rewrite H; reflexivity. Qed.

Lemma ensure_ws_init_after : forall c c' r, ensure_ws ev c = (c', r) -> c_init c' = true.
Proof.
  intros c c' r H. destruct (c_init c) eqn:Hi.
  - rewrite (ensure_ws_inited c Hi) in H. inversion H; subst; exact Hi.
  - unfold ensure_ws in H. unfold bind at 1 in H. unfold get in H. cbv beta iota in H. rewrite Hi in H.
    match type of H with
    | bind (modify ?f) ?k c = _ => assert (P : preserves Rinit (k tt)) by walk
    end.
    unfold bind at 1 in H. unfold modify at 1 in H. cbv beta iota in H.
    exact (P _ _ _ H eq_refl).
Qed.

Theorem persist_identity : forall c, c_init c = true -> persist ev c = (c, Val tt).
Proof.
  intros c H. unfold persist, bind. rewrite (ensure_ws_inited c H).
  rewrite dec_cstate_enc; [reflexivity|exact H].
Qed.

(* on every state, initialised or not, the persist round trip is the same as serialize() *)
Theorem persist_is_serialize : forall c, api_exec ev OpPersist c = api_exec ev OpSerialize c.
Proof.
  intro c. cbn [api_exec]. unfold persist, bind.
  destruct (ensure_ws ev c) as [c1 [[]|e]] eqn:E; [|reflexivity].
  rewrite dec_cstate_enc_total. rewrite set_init_id; [reflexivity|].
  eapply ensure_ws_init_after; exact E.
Qed.

Theorem persist_reproduces_form : forall c c2,
  dec_cstate (c_spec c) (c_graph c) (enc_cstate c) = Some c2 -> enc_cstate c2 = enc_cstate c.
Proof.
  intros c c2 H. rewrite dec_cstate_enc_total in H. inversion H; subst. apply enc_cstate_set_init.
Qed.

Lemma presi_persist : preserves Rinit (persist ev).
Proof.
  intros c c' r H Hi. rewrite (persist_identity c Hi) in H. inversion H; subst; exact Hi.
Qed.

Lemma api_exec_presi : forall op, preserves Rinit (api_exec ev op).
Proof.
  intro op; destruct op; cbn [api_exec];
    (apply (preserves_bind _ Rinit_trans); [|intro; apply (preserves_ret _ Rinit_refl)]).
  - apply presi_ensure_ws.
  - apply presi_request_workflow_status.
  - apply presi_get_next_tasks.
  - apply presi_update_task_state.
  - apply presi_render_workflow_output.
  - apply presi_request_workflow_rerun.
  - apply presi_persist.
Qed.

Lemma api_exec_keeps_init : forall op c, c_init c = true -> c_init (fst (api_exec ev op c)) = true.
Proof.
  intros op c H. destruct (api_exec ev op c) as [c1 r] eqn:E. exact (api_exec_presi op _ _ _ E H).
Qed.

Lemma run_ops_keeps_init : forall ops c, c_init c = true -> c_init (run_ops ev ops c) = true.
Proof.
  induction ops as [|op ops IH]; intros c H; [exact H|].
  cbn [run_ops fold_left]. apply IH. apply api_exec_keeps_init; exact H.
Qed.

Theorem persist_unobservable_rel : forall ops ops', ins_persist ops ops' -> forall c, c_init c = true ->
  run_ops ev ops' c = run_ops ev ops c /\ run_obs ops' c = run_obs ops c.
Proof.
  intros ops ops' I; induction I as [|op l l' I IH|l l' I IH]; intros c H.
  - split; reflexivity.
  - specialize (IH (fst (api_exec ev op c)) (api_exec_keeps_init op c H)). destruct IH as [IH1 IH2].
    split.
    + unfold run_ops in *. cbn [fold_left]. exact IH1.
    + cbn [run_obs]. rewrite IH2. reflexivity.
  - destruct (IH c H) as [IH1 IH2].
    assert (E : api_exec ev OpPersist c = (c, Val RUnit)).
    { cbn [api_exec]. unfold bind. rewrite (persist_identity c H). reflexivity. }
    split.
    + unfold run_ops in *. cbn [fold_left]. rewrite E. exact IH1.
    + cbn [run_obs]. rewrite E. cbn [is_persist fst app]. exact IH2.
Qed.

Theorem persist_unobservable : forall mask ops c, c_init c = true ->
  run_ops ev (weave mask ops) c = run_ops ev ops c /\ run_obs (weave mask ops) c = run_obs ops c.
Proof. intros mask ops c H. apply persist_unobservable_rel; [apply weave_ins|exact H]. Qed.

(* every API call starts by creating the workflow state: after the first call of any history the
   conductor is initialised, so the hypothesis c_init is only about the very first point *)
Lemma bind_assoc : forall A B C (m : M A) (f : A -> M B) (g : B -> M C) c,
  bind (bind m f) g c = bind m (fun a => bind (f a) g) c.
Proof. intros. unfold bind. destruct (m c) as [c1 [a|e]]; reflexivity. Qed.

Lemma bind_ensure_inits : forall A (k : unit -> M A), (forall a, preserves Rinit (k a)) ->
  forall c, c_init (fst (bind (ensure_ws ev) k c)) = true.
Proof.
  intros A k Hk c. unfold bind. destruct (ensure_ws ev c) as [c1 [a|e]] eqn:E.
  - destruct (k a c1) as [c2 r] eqn:E2. cbn [fst].
    exact (Hk a _ _ _ E2 (ensure_ws_init_after _ _ _ E)).
  - cbn [fst]. exact (ensure_ws_init_after _ _ _ E).
Qed.

Theorem api_exec_inits : forall op c, c_init (fst (api_exec ev op c)) = true.
Proof.
  intros op c; destruct op; cbn [api_exec].
  - apply bind_ensure_inits; intro; walk.
  - unfold request_workflow_status. rewrite bind_assoc. apply bind_ensure_inits; intro; walk.
  - unfold get_next_tasks. rewrite bind_assoc. apply bind_ensure_inits; intro; walk.
  - unfold update_task_state. change 3 with (S 2). generalize 2; intro fuel.
    cbn [update_task_state_fuel]. rewrite bind_assoc.
    apply bind_ensure_inits; intro.
    apply (preserves_bind _ Rinit_trans); [|intro; apply (preserves_ret _ Rinit_refl)].
    pose proof presi_update_task_state_fuel as IH. walk.
  - unfold render_workflow_output. rewrite bind_assoc. apply bind_ensure_inits; intro; walk.
  - unfold request_workflow_rerun. rewrite bind_assoc. apply bind_ensure_inits; intro; walk.
  - unfold persist. rewrite bind_assoc. apply bind_ensure_inits; intros a c1 c2 r H Hi.
    unfold bind in H. rewrite dec_cstate_enc_total in H. inversion H; subst. reflexivity.
Qed.

(* a fresh (or any) conductor: persist round trips anywhere after the first call are unobservable *)
Theorem persist_unobservable_after_first_call : forall mask op ops c,
  run_ops ev (op :: weave mask ops) c = run_ops ev (op :: ops) c /\
  run_obs (op :: weave mask ops) c = run_obs (op :: ops) c.
Proof.
  intros mask op ops c.
  destruct (persist_unobservable mask ops (fst (api_exec ev op c)) (api_exec_inits op c)) as [H1 H2].
  split; [exact H1|]. cbn [run_obs]. rewrite H2. reflexivity.
Qed.

End WithEval.

(* ---------- concrete witnesses used by the Examples in props/C05.v ---------- *)
Open Scope string_scope.

Definition ex_ev (s : string) (ctx : dict) : evalres :=
  if String.eqb s "<% ctx(xs) %>" then EvOk (JList [JInt 1; JInt 2]) else
  if String.eqb s "<% boom %>" then EvErr {| x_cls := "YaqlEvaluationException"; x_msg := "boom"; x_expr := true |}
  else EvOk (JStr s).

Definition tr (w : json) (pub : list (string*json)) (d : list string) := {| tr_when := w; tr_publish := pub; tr_do := d |}.
Definition ex_spec : wf_spec :=
  {| wf_input := [("xs", JNull)]; wf_vars := [("v", JStr "<% 1 %>")]; wf_output := [("o", JStr "<% ctx(y) %>")];
     wf_tasks := [("a", {| ts_action := JStr "core.noop"; ts_input := JDict []; ts_with := None; ts_delay := JNull;
                           ts_join := JNull; ts_next := [tr JNull [("y", JStr "<% result() %>")] ["b"; "c"]] |});
                  ("b", {| ts_action := JStr "core.echo"; ts_input := JDict [];
                           ts_with := Some {| it_expr := "<% ctx(xs) %>"; it_keys := None; it_concurrency := JNull |};
                           ts_delay := JNull; ts_join := JNull; ts_next := [tr JNull [] ["d"]] |});
                  ("c", {| ts_action := JStr "core.noop"; ts_input := JDict []; ts_with := None; ts_delay := JNull;
                           ts_join := JNull; ts_next := [tr JNull [] ["d"]] |});
                  ("d", {| ts_action := JStr "core.noop"; ts_input := JDict []; ts_with := None; ts_delay := JNull;
                           ts_join := JStr "all"; ts_next := [] |})] |}.
Definition nd i b := {| n_id := i; n_barrier := b; n_splits := None; n_retry := JNull |}.
Definition ed s d k := {| e_src := s; e_dst := d; e_key := k; e_ref := 0; e_criteria := [] |}.
Definition ex_graph : graph :=
  {| g_nodes := [nd "a" JNull; nd "b" JNull; nd "c" JNull; nd "d" (JStr "*")];
     g_edges := [ed "a" "b" 0; ed "a" "c" 0; ed "b" "d" 0; ed "c" "d" 0] |}.
Definition ex_c0 : cstate :=
  {| c_spec := ex_spec; c_graph := ex_graph; c_inputs := [("xs", JList [JInt 1; JInt 2])]; c_parent := [];
     c_init := false; c_ws := empty_ws; c_errors := []; c_log := []; c_output := None |}.
Definition ex_ops : list api_op :=
  [OpSerialize; OpRequest S_RUNNING; OpGetNext; OpEvent "a" 0 (EvAction S_RUNNING JNull);
   OpEvent "a" 0 (EvAction S_SUCCEEDED (JStr "r")); OpGetNext;
   OpEvent "b" 0 (EvItem 0 S_RUNNING JNull JNull); OpEvent "c" 0 (EvAction S_RUNNING JNull);
   OpEvent "b" 0 (EvItem 0 S_SUCCEEDED (JStr "x") JNull);  OpGetNext].

Definition ex_mask : list bool := [false; true; true; false; true; true; true; false; true; true; true].

(* a hand-made persisted state exercising every optional field of the layout *)
Definition ex_retry : retry_rec :=
  {| rr_when := JStr "<% failed() %>"; rr_count := JInt 3; rr_delay := Some (JInt 1); rr_tally := 2 |}.
Definition ex_state : cstate :=
  {| c_spec := ex_spec; c_graph := ex_graph; c_inputs := [("xs", JList [JInt 1; JInt 2])];
     c_parent := [("parent", JDict [("id", JStr "p")])]; c_init := true;
     c_ws := {| contexts := [[("xs", JList [JInt 1; JInt 2])]; [("y", JStr "r")]];
                routes := [[]; [("a__t", 0); ("b", 12)]];
                sequence :=
                  [{| r_id := "a"; r_route := 0; r_in := [0]; r_out := Some (("c", 0), 1); r_prev := [];
                      r_next := [(("b", 0), true); (("c", 0), false)]; r_status := Some S_SUCCEEDED;
                      r_term := false; r_retry := None |};
                   {| r_id := "b__t7"; r_route := 1; r_in := [0; 1]; r_out := None;
                      r_prev := [(("a", 0), 0); (("a__t", 10), 0)]; r_next := [];
                      r_status := Some S_RETRYING; r_term := true; r_retry := Some ex_retry |};
                   {| r_id := "c"; r_route := 0; r_in := [0]; r_out := None; r_prev := [(("a", 0), 0)];
                      r_next := []; r_status := None; r_term := false; r_retry := None |}];
                staged :=
                  [{| s_id := "b__t7"; s_route := 1; s_in := [0; 1]; s_prev := [(("a", 0), 0)]; s_ready := true;
                      s_retry := Some ex_retry; s_items := Some [S_SUCCEEDED; S_RUNNING; S_UNSET];
                      s_completed := false; s_run_on_fail := true |};
                   {| s_id := "d"; s_route := 0; s_in := [0]; s_prev := []; s_ready := false; s_retry := None;
                      s_items := None; s_completed := true; s_run_on_fail := false |}];
                wstatus := S_RUNNING;
                tasks := [(("a", 0), 0); (("b__t7", 1), 1); (("c__r", 100), 2)];
                reruns := [[0; 2]; []] |};
     c_errors := [{| er_type := "error"; er_message := "YaqlEvaluationException: boom"; er_task := Some "b__t7";
                     er_route := Some 1; er_trans := Some ("b__t7", 3); er_result := Some (JDict [("k", JNull)]) |};
                  {| er_type := "error"; er_message := "m"; er_task := None; er_route := None; er_trans := None;
                     er_result := Some JNull |}];
     c_log := [{| er_type := "info"; er_message := "l"; er_task := Some "a"; er_route := None; er_trans := None;
                  er_result := None |}];
     c_output := Some [("o", JStr "r")] |}.
