(* C06Proofs.v -- contexts: a publish creates a new snapshot and hands it only to the target of its
   transition; what other staged tasks will see is untouched; earlier snapshots never change. *)
From Coq Require Import String List Bool ZArith Arith Lia.
From Orq Require Import GenStatuses GenEvents GenTables GenSpecMeta Base State Machines Codec Conductor Decode Api.
From Orq Require Import F_tables Hoare C18Proofs.
Import ListNotations.
Open Scope string_scope.
Open Scope monad_scope.

(* every staged entry of a task other than nt is still there, unchanged *)
Definition Rstg (nt : string) (c c' : cstate) : Prop :=
  forall s, In s (staged (c_ws c)) -> s_id s <> nt -> In s (staged (c_ws c')).

Lemma Rstg_refl : forall nt c, Rstg nt c c.
Proof. intros nt c s H _; exact H. Qed.
Lemma Rstg_trans : forall nt a b c, Rstg nt a b -> Rstg nt b c -> Rstg nt a c.
Proof. intros nt a b c H1 H2 s Hs Hn; apply H2; [apply H1; assumption|assumption]. Qed.

Lemma staged_update_other : forall f nt r l s, In s l -> s_id s <> nt -> In s (staged_update f nt r l).
Proof.
  intros f nt r l s; induction l as [|x l IH]; simpl; intros H Hn; [contradiction|].
  destruct (stg_matches nt r x) eqn:E.
  - destruct H as [H|H]; [|right; exact H]. subst x. unfold stg_matches in E.
    apply andb_prop in E; destruct E as [E _]. apply String.eqb_eq in E. contradiction.
  - destruct H as [H|H]; [left; exact H|right; apply IH; assumption].
Qed.

Section WithEval.
Variable ev : string -> dict -> evalres.
Variable nt : string.

Ltac leaf :=
  first
    [ apply (preserves_modws (Rstg nt)); intros cc ss HHs HHn; simpl; exact HHs
    | apply (preserves_modws (Rstg nt)); intros cc ss HHs HHn; simpl;
      unfold ws_update_rec; destruct (nth_error _ _); simpl; exact HHs
    | apply (preserves_modws (Rstg nt)); intros cc ss HHs HHn; simpl; apply staged_update_other; assumption
    | apply (preserves_modws (Rstg nt)); intros cc ss HHs HHn; simpl; apply in_or_app; left; exact HHs
    | apply (preserves_modify (Rstg nt)); intros cc ss HHs HHn; simpl;
      try match goal with |- context [if ?b then _ else _] => destruct b end; simpl; exact HHs
    | eauto 3 with pres6 ].
Ltac walk := pw (Rstg_refl nt) (Rstg_trans nt) leaf.

Lemma p6_wf_workflow_event : forall st, preserves (Rstg nt) (wf_workflow_event_M st).
Proof.
  intros st c c' r H. unfold wf_workflow_event_M in H.
  destruct (wf_process_workflow_event (c_graph c) (c_ws c) st) as [[new unr]|e]; inversion H; subst;
    intros s Hs Hn; simpl; exact Hs.
Qed.
Hint Resolve p6_wf_workflow_event : pres6.
Lemma p6_log_entry_error : forall m t r tr res, preserves (Rstg nt) (log_entry_error m t r tr res).
Proof. intros; unfold log_entry_error; walk. Qed.
Hint Resolve p6_log_entry_error : pres6.
Lemma p6_log_error : forall e t r tr, preserves (Rstg nt) (log_error e t r tr).
Proof. intros; unfold log_error; auto with pres6. Qed.
Hint Resolve p6_log_error : pres6.
Lemma p6_log_errors : forall es t r tr, preserves (Rstg nt) (log_errors es t r tr).
Proof. intros; unfold log_errors; walk. Qed.
Hint Resolve p6_log_errors : pres6.
Lemma p6_log_unreachable : forall l, preserves (Rstg nt) (log_unreachable l).
Proof. intros; unfold log_unreachable; walk. Qed.
Hint Resolve p6_log_unreachable : pres6.
Lemma p6_set_rec_status : forall i s, preserves (Rstg nt) (set_rec_status i s).
Proof. intros; unfold set_rec_status; walk. Qed.
Hint Resolve p6_set_rec_status : pres6.
Lemma p6_request_status_core : forall st, preserves (Rstg nt) (request_status_core st).
Proof. intros; unfold request_status_core; walk. Qed.
Hint Resolve p6_request_status_core : pres6.
Lemma p6_render_vars : forall specs rolling rendered errs, preserves (Rstg nt) (render_vars ev specs rolling rendered errs).
Proof. induction specs as [|[n d] specs IH]; intros; simpl; walk. Qed.
Hint Resolve p6_render_vars : pres6.
Lemma p6_finalize_context : forall ts e ctx, preserves (Rstg nt) (finalize_context ev ts e ctx).
Proof. intros; unfold finalize_context; walk. Qed.
Hint Resolve p6_finalize_context : pres6.
Lemma p6_get_rec : forall i, preserves (Rstg nt) (get_rec i).
Proof. intros; unfold get_rec; walk. Qed.
Hint Resolve p6_get_rec : pres6.
Lemma p6_upd_rec : forall i f, preserves (Rstg nt) (upd_rec i f).
Proof. intros; unfold upd_rec; walk. Qed.
Hint Resolve p6_upd_rec : pres6.
Lemma p6_evaluate_route : forall e r, preserves (Rstg nt) (evaluate_route e r).
Proof. intros; unfold evaluate_route; walk. Qed.
Hint Resolve p6_evaluate_route : pres6.

(* processing the transition e (criteria, publish, staging of its target) leaves every staged entry of
   every task other than the target of e exactly as it was: the published snapshot goes to the target only *)
Theorem transition_touches_only_its_target : forall t route idx ts ctx e,
  e_dst e = nt -> preserves (Rstg nt) (process_transition ev t route idx ts ctx e).
Proof. intros t route idx ts ctx e He; unfold process_transition; rewrite He; walk. Qed.

End WithEval.

(* a context snapshot, once published, is never changed by any later API call (C18's relation) *)
Theorem snapshots_never_change : forall ev ops c i d,
  forallb (fun op => negb (is_persist op)) ops = true ->
  nth_error (contexts (c_ws c)) i = Some d -> nth_error (contexts (c_ws (run_ops ev ops c))) i = Some d.
Proof.
  intros ev ops c i d H Hn. destruct (history_append_only ev ops c H) as [[t Ht] _].
  rewrite Ht. rewrite nth_error_app1; [exact Hn|]. apply nth_error_Some; congruence.
Qed.
