(* C07Proofs.v -- joins: what "barrier satisfied" means (distinct inbound tasks with a satisfied transition
   into the join on the same route, all of them or the given count), that only ready entries are offered,
   and that completing with a partially satisfied, unsatisfiable join fails the workflow. *)
From Coq Require Import String List Bool ZArith Arith Lia.
From Orq Require Import GenStatuses GenEvents GenTables GenSpecMeta Base State Machines Codec Conductor Decode Api.
From Orq Require Import F_tables Hoare C02C03Proofs.
Import ListNotations.
Open Scope string_scope.

Lemma filter_length_le : forall A (f : A -> bool) l, length (filter f l) <= length l.
Proof. intros A f l; induction l as [|x l IH]; simpl; [lia|]. destruct (f x); simpl; lia. Qed.

(* number of distinct inbound tasks whose record on the route has a satisfied transition into t *)
Definition satisfied_sources (g : graph) (w : wstate) (t : string) (route : nat) : nat :=
  length (filter (fun '(_, v) => match v with Some true => true | _ => false end) (inbound_evaluation g w t route)).

Lemma NoDup_snoc : forall (acc : list string) x, NoDup acc -> ~ In x acc -> NoDup (app acc [x]).
Proof.
  induction acc as [|a acc IH]; intros x H Hn; simpl.
  - constructor; [intros []|constructor].
  - inversion H; subst. constructor.
    + intro Hin. apply in_app_or in Hin. destruct Hin as [Hin|[Hin|[]]]; [contradiction|].
      subst; apply Hn; left; reflexivity.
    + apply IH; [assumption|]. intro Hin; apply Hn; right; exact Hin.
Qed.

Lemma dedup_by_NoDup : forall l : list string, NoDup (dedup_by String.eqb l).
Proof.
  intro l. unfold dedup_by.
  assert (G : forall acc, NoDup acc ->
              NoDup (fold_left (fun acc x => if existsb (String.eqb x) acc then acc else app acc [x]) l acc)).
  { induction l as [|x l IH]; intros acc H; simpl; [exact H|].
    apply IH. destruct (existsb (String.eqb x) acc) eqn:E; [exact H|].
    apply NoDup_snoc; [exact H|]. intro Hin.
    assert (existsb (String.eqb x) acc = true) as T; [|congruence].
    apply existsb_exists; exists x; split; [exact Hin|apply String.eqb_refl]. }
  apply G; constructor.
Qed.

(* each inbound task is counted once, however many transitions it has into the join *)
Theorem inbound_sources_distinct : forall g w t route, NoDup (map fst (inbound_evaluation g w t route)).
Proof.
  intros. unfold inbound_evaluation. rewrite map_map. simpl. rewrite map_id. apply dedup_by_NoDup.
Qed.

(* a source counts as satisfied exactly when its record on this route has a satisfied transition into t *)
Theorem inbound_source_satisfied : forall g w t route src,
  In (src, Some true) (inbound_evaluation g w t route) ->
  exists r e, ws_task_entry w src route = Some r /\ In e (g_prev_transitions g t) /\ e_src e = src /\
              aget trid_eqb (t, e_key e) (r_next r) = Some true.
Proof.
  intros g w t route src H. unfold inbound_evaluation in H. apply in_map_iff in H.
  destruct H as [s [E Hin]].
  assert (Es : s = src) by congruence. subst s.
  destruct (ws_task_entry w src route) as [r|] eqn:Er; [|congruence].
  assert (Hb : existsb (fun e => String.eqb (e_src e) src &&
                                 match aget trid_eqb (t, e_key e) (r_next r) with Some true => true | _ => false end)
                       (g_prev_transitions g t) = true) by congruence.
  apply existsb_exists in Hb. destruct Hb as [e [He Hc]].
  apply andb_prop in Hc; destruct Hc as [Hs Hn]. apply String.eqb_eq in Hs.
  exists r, e. split; [reflexivity|]. split; [exact He|]. split; [exact Hs|].
  destruct (aget trid_eqb (t, e_key e) (r_next r)) as [[|]|]; try discriminate; reflexivity.
Qed.

(* the barrier: satisfied iff the number of satisfied distinct sources reaches the requirement, which is
   the number of distinct inbound tasks for "join: all" and the given count for "join: n" *)
Theorem barrier_satisfied_iff : forall g w t route,
  get_inbound_criteria_status g w t route = InbSatisfied <->
  (inbound_requirement g t (length (inbound_evaluation g w t route)) <= Z.of_nat (satisfied_sources g w t route))%Z.
Proof.
  intros. unfold get_inbound_criteria_status, satisfied_sources.
  destruct (Z.leb _ _) eqn:E.
  - apply Z.leb_le in E. split; auto.
  - apply Z.leb_gt in E. split; [|lia].
    destruct (existsb _ _ && _); discriminate.
Qed.

Theorem requirement_all : forall g t n, g_barrier g t = JStr "*" -> inbound_requirement g t n = Z.of_nat n.
Proof. intros g t n H; unfold inbound_requirement; rewrite H; reflexivity. Qed.

Theorem requirement_count : forall g t n k, g_barrier g t = JInt k -> (0 < k)%Z -> inbound_requirement g t n = k.
Proof.
  intros g t n k H Hk; unfold inbound_requirement; rewrite H.
  destruct (Z.eqb k 0) eqn:E; [apply Z.eqb_eq in E; lia|reflexivity].
Qed.

(* join: all is satisfied only when every distinct inbound task has a satisfied transition into it *)
Corollary barrier_all_needs_every_source : forall g w t route, g_barrier g t = JStr "*" ->
  get_inbound_criteria_status g w t route = InbSatisfied ->
  forall src v, In (src, v) (inbound_evaluation g w t route) -> v = Some true.
Proof.
  intros g w t route Hb Hs src v Hin.
  apply barrier_satisfied_iff in Hs. rewrite (requirement_all _ _ _ Hb) in Hs.
  unfold satisfied_sources in Hs.
  set (l := inbound_evaluation g w t route) in *.
  set (f := fun '((_, v) : string * option bool) => match v with Some true => true | _ => false end) in *.
  assert (Hlen : length (filter f l) = length l).
  { pose proof (filter_length_le _ f l). lia. }
  assert (Hall : forall x, In x l -> f x = true).
  { clear -Hlen. induction l as [|y l IH]; intros x Hx; [destruct Hx|].
    simpl in Hlen. destruct (f y) eqn:Ey.
    - simpl in Hlen. destruct Hx as [Hx|Hx]; [subst; exact Ey|]. apply IH; [lia|exact Hx].
    - pose proof (filter_length_le _ f l). lia. }
  specialize (Hall _ Hin). unfold f in Hall. destruct v as [[|]|]; try discriminate; reflexivity.
Qed.

(* unreachable joins: exactly the staged joins that are not ready and can no longer be satisfied *)
Theorem unreachable_barriers_spec : forall g w s,
  In s (get_unreachable_barriers g w) <->
  In s (staged w) /\ g_is_barrier_node g (s_id s) = true /\ s_ready s = false /\
  get_inbound_criteria_status g w (s_id s) (s_route s) = InbNotSatisfied.
Proof.
  intros g w s. unfold get_unreachable_barriers. rewrite filter_In. split.
  - intros [Hin Hb]. apply andb_prop in Hb; destruct Hb as [Hb Hi]. apply andb_prop in Hb; destruct Hb as [Hb Hr].
    apply negb_true_iff in Hr. repeat split; auto.
    destruct (get_inbound_criteria_status g w (s_id s) (s_route s)); simpl in Hi; try discriminate; reflexivity.
  - intros [Hin [Hb [Hr Hi]]]. split; [exact Hin|]. rewrite Hb, Hr, Hi. reflexivity.
Qed.

(* when a task event would complete the workflow (not by cancelation) while such a join exists, the workflow
   is failed and the joins are handed over to be logged as unreachable-join errors *)
Theorem completion_with_unreachable_join_fails : forall t route st c c' unr n,
  tbl_step wf_table (wstatus (c_ws c)) (wf_task_event_name (c_graph c) (c_ws c) t route st) = Some n ->
  In n COMPLETED_STATUSES -> n <> S_CANCELED ->
  get_unreachable_barriers (c_graph c) (ws_set_status (c_ws c) n) <> [] ->
  wf_task_event_M t route st c = (c', Val unr) ->
  wstatus (c_ws c') = S_FAILED /\ unr = get_unreachable_barriers (c_graph c) (ws_set_status (c_ws c) n).
Proof.
  intros t route st c c' unr n Hstep Hc Hn Hu H. unfold wf_task_event_M in H.
  destruct (wf_process_task_event (c_graph c) (c_ws c) t route st) as [[new u]|e] eqn:E; inversion H; subst; clear H.
  unfold wf_process_task_event in E.
  destruct (negb (string_in _ TASK_EXECUTION_EVENTS)); [discriminate|].
  unfold tbl_step in Hstep. destruct (tbl_row wf_table (wstatus (c_ws c))) as [row|]; [|discriminate].
  rewrite Hstep in E.
  assert (Hb : status_in n COMPLETED_STATUSES && negb (status_eqb n S_CANCELED) = true).
  { apply andb_true_intro; split; [apply status_in_In; exact Hc|].
    apply negb_true_iff. destruct (status_eqb n S_CANCELED) eqn:Es; [apply status_eqb_eq in Es; contradiction|reflexivity]. }
  rewrite Hb in E. unfold fail_on_unreachable in E.
  destruct (get_unreachable_barriers (c_graph c) (ws_set_status (c_ws c) n)) eqn:Eu; [contradiction|].
  inversion E; subst. simpl. split; reflexivity.
Qed.
