(* C09C10Proofs.v -- nothing is offered while pausing/paused/canceling/canceled; a cancel is never
   followed by succeeded; control requests change statuses only. *)
From Coq Require Import String List Bool ZArith Arith Lia.
From Orq Require Import GenStatuses GenEvents GenTables GenSpecMeta Base State Machines Codec Conductor Decode Api.
From Orq Require Import F_tables Hoare StatusReach PersistStatus C04Proofs.
Import ListNotations.
Open Scope string_scope.
Open Scope monad_scope.

Section WithEval.
Variable ev : string -> dict -> evalres.

(* the statuses in which get_next_tasks answers at once with nothing *)
Theorem no_offers_when_held : forall c, c_init c = true ->
  In (wstatus (c_ws c)) [S_PAUSING; S_PAUSED; S_CANCELING; S_CANCELED] -> get_next_tasks ev c = (c, Val []).
Proof.
  intros c Hi Hs. unfold get_next_tasks, bind. rewrite (ensure_ws_inited ev c Hi).
  unfold getws. cbv beta iota.
  destruct Hs as [Hs|[Hs|[Hs|[Hs|[]]]]]; rewrite <- Hs; vm_compute status_eqb; simpl; reflexivity.
Qed.

(* after canceling/canceled, whatever happens next (no rerun), the status stays in the cancel class
   or becomes failed; in particular it is never succeeded, running, pausing, paused or resuming *)
Theorem cancel_is_closed : forall ops c, forallb (fun op => negb (is_rerun op)) ops = true ->
  In (wstatus (c_ws c)) [S_CANCELING; S_CANCELED] ->
  In (wstatus (c_ws (run_ops ev ops c))) [S_CANCELING; S_CANCELED; S_FAILED].
Proof.
  intros ops c H Hs. pose proof (run_ops_reach ev ops c H) as R.
  eapply reach_cancel_closed; [|exact R]. simpl in *; tauto.
Qed.

Corollary cancel_never_succeeds : forall ops c, forallb (fun op => negb (is_rerun op)) ops = true ->
  In (wstatus (c_ws c)) [S_CANCELING; S_CANCELED] -> wstatus (c_ws (run_ops ev ops c)) <> S_SUCCEEDED.
Proof.
  intros ops c H Hs E. pose proof (cancel_is_closed ops c H Hs) as P. rewrite E in P.
  simpl in P; intuition discriminate.
Qed.

(* so nothing is offered after a cancel unless the workflow has meanwhile become failed with
   clean-up tasks listed beside a fail command *)
Corollary no_offers_after_cancel : forall ops c, forallb (fun op => negb (is_rerun op)) ops = true ->
  c_init (run_ops ev ops c) = true ->
  In (wstatus (c_ws c)) [S_CANCELING; S_CANCELED] ->
  wstatus (c_ws (run_ops ev ops c)) <> S_FAILED ->
  get_next_tasks ev (run_ops ev ops c) = (run_ops ev ops c, Val []).
Proof.
  intros ops c H Hi Hs Hnf. apply no_offers_when_held; [exact Hi|].
  pose proof (cancel_is_closed ops c H Hs) as P. simpl in *. intuition congruence.
Qed.

(* ---- control requests are a frame: they change the workflow status and task statuses only ---- *)

Definition rec_same_but_status (r r' : trec) : Prop :=
  r_id r' = r_id r /\ r_route r' = r_route r /\ r_in r' = r_in r /\ r_out r' = r_out r /\
  r_prev r' = r_prev r /\ r_next r' = r_next r /\ r_term r' = r_term r /\ r_retry r' = r_retry r.

Definition Rctl (c c' : cstate) : Prop :=
  contexts (c_ws c') = contexts (c_ws c) /\ routes (c_ws c') = routes (c_ws c) /\
  staged (c_ws c') = staged (c_ws c) /\ tasks (c_ws c') = tasks (c_ws c) /\
  reruns (c_ws c') = reruns (c_ws c) /\ c_output c' = c_output c /\
  Forall2 rec_same_but_status (sequence (c_ws c)) (sequence (c_ws c')).

Lemma rsbs_refl : forall r, rec_same_but_status r r.
Proof. intro; repeat split. Qed.
Lemma rsbs_trans : forall a b c, rec_same_but_status a b -> rec_same_but_status b c -> rec_same_but_status a c.
Proof. intros a b c H1 H2; unfold rec_same_but_status in *; intuition congruence. Qed.

Lemma Forall2_refl : forall A (R : A -> A -> Prop), (forall x, R x x) -> forall l, Forall2 R l l.
Proof. intros A R H l; induction l; constructor; auto. Qed.
Lemma Forall2_trans : forall A (R : A -> A -> Prop), (forall x y z, R x y -> R y z -> R x z) ->
  forall a b c, Forall2 R a b -> Forall2 R b c -> Forall2 R a c.
Proof.
  intros A R Ht a b c H; revert c; induction H as [|x y l l' Hxy Hl IH]; intros c Hc; inversion Hc; subst; constructor; eauto.
Qed.

Lemma Rctl_refl : forall c, Rctl c c.
Proof. intro; unfold Rctl; repeat split; auto. apply Forall2_refl; apply rsbs_refl. Qed.
Lemma Rctl_trans : forall a b c, Rctl a b -> Rctl b c -> Rctl a c.
Proof.
  unfold Rctl; intros a b c [A1 [A2 [A3 [A4 [A5 [A6 A7]]]]]] [B1 [B2 [B3 [B4 [B5 [B6 B7]]]]]].
  repeat split; try congruence. eapply Forall2_trans; [apply rsbs_trans|eauto|eauto].
Qed.

Lemma Forall2_set_nth : forall l i r f, nth_error l i = Some r -> rec_same_but_status r (f r) ->
  Forall2 rec_same_but_status l (list_set_nth i (f r) l).
Proof.
  induction l as [|a l IH]; intros [|i] r f H Hf; simpl in *; try discriminate.
  - inversion H; subst. constructor; [exact Hf|apply Forall2_refl; apply rsbs_refl].
  - constructor; [apply rsbs_refl|apply IH; assumption].
Qed.

Lemma Rctl_set_rec_status : forall c i s, Rctl c (set_ws c (ws_update_rec (c_ws c) i (fun r => r_set_status r s))).
Proof.
  intros c i s; unfold Rctl, ws_update_rec.
  destruct (nth_error (sequence (c_ws c)) i) as [r|] eqn:E; simpl; repeat split; auto.
  - apply (Forall2_set_nth _ _ r (fun r => r_set_status r s)); [exact E|repeat split].
  - apply Forall2_refl; apply rsbs_refl.
Qed.

Ltac leaf :=
  first
    [ apply (preserves_modws Rctl); intro; apply Rctl_set_rec_status
    | apply (preserves_modify Rctl); intro; unfold Rctl; simpl;
      match goal with |- context [if ?b then _ else _] => destruct b end; simpl;
      repeat split; auto; apply Forall2_refl; apply rsbs_refl
    | eauto 3 with presctl ].
Ltac walk := pw Rctl_refl Rctl_trans leaf.

Lemma pctl_wf_workflow_event : forall st, preserves Rctl (wf_workflow_event_M st).
Proof.
  intros st c c' r H. unfold wf_workflow_event_M in H.
  destruct (wf_process_workflow_event (c_graph c) (c_ws c) st) as [[new unr]|e]; inversion H; subst;
    [|apply Rctl_refl].
  unfold Rctl; simpl; repeat split; auto. apply Forall2_refl; apply rsbs_refl.
Qed.
Hint Resolve pctl_wf_workflow_event : presctl.
Lemma pctl_log_entry_error : forall m t r tr res, preserves Rctl (log_entry_error m t r tr res).
Proof. intros; unfold log_entry_error; walk. Qed.
Hint Resolve pctl_log_entry_error : presctl.
Lemma pctl_log_error : forall e t r tr, preserves Rctl (log_error e t r tr).
Proof. intros; unfold log_error; auto with presctl. Qed.
Hint Resolve pctl_log_error : presctl.
Lemma pctl_log_unreachable : forall l, preserves Rctl (log_unreachable l).
Proof. intros; unfold log_unreachable; walk. Qed.
Hint Resolve pctl_log_unreachable : presctl.
Lemma pctl_set_rec_status : forall i s, preserves Rctl (set_rec_status i s).
Proof. intros; unfold set_rec_status; walk. Qed.
Hint Resolve pctl_set_rec_status : presctl.

Lemma pctl_request_status_core : forall st, preserves Rctl (request_status_core st).
Proof. intros; unfold request_status_core; walk. Qed.

(* a status request on an initialised conductor: contexts, routes, staged entries, the pointer map,
   reruns, output and every field of every record except its status are untouched -- also when
   the request is rejected *)
Theorem control_request_frame : forall st c c' r, c_init c = true ->
  request_workflow_status ev st c = (c', r) -> Rctl c c'.
Proof.
  intros st c c' r Hi H. unfold request_workflow_status, bind in H.
  rewrite (ensure_ws_inited ev c Hi) in H. eapply pctl_request_status_core; exact H.
Qed.

(* ---- while pausing, a task event never takes the workflow back to an offering status ---- *)

Lemma prefix_empty : forall s, String.prefix "" s = true.
Proof. destruct s; reflexivity. Qed.

Lemma prefix_append : forall p s, String.prefix p (p ++ s) = true.
Proof.
  induction p as [|a p IH]; intro s; simpl; [apply prefix_empty|].
  destruct (Ascii.ascii_dec a a) as [_|N]; [apply IH|congruence].
Qed.

Lemma append_assoc_l : forall a b c : string, ((a ++ b) ++ c = a ++ (b ++ c))%string.
Proof. induction a as [|x a IH]; intros; simpl; [reflexivity|rewrite IH; reflexivity]. Qed.

Lemma wf_task_event_name_is_task_event : forall g w t route st,
  starts_with "task_" (wf_task_event_name g w t route st) = true.
Proof.
  intros. unfold wf_task_event_name, task_event_name_of, starts_with, TASK_EVENT_PREFIX, EV_TASK_REMEDIATED.
  change "task_remediated" with ("task_" ++ "remediated")%string.
  repeat match goal with |- context [if ?b then _ else _] => destruct b end;
    repeat rewrite append_assoc_l; apply prefix_append.
Qed.

Theorem task_event_while_pausing : forall t route st c c' r,
  wstatus (c_ws c) = S_PAUSING -> wf_task_event_M t route st c = (c', r) ->
  In (wstatus (c_ws c')) [S_PAUSING; S_PAUSED; S_FAILED; S_CANCELING; S_CANCELED].
Proof.
  intros t route st c c' r Hs H. unfold wf_task_event_M in H.
  destruct (wf_process_task_event (c_graph c) (c_ws c) t route st) as [[new unr]|e] eqn:E;
    inversion H; subst; clear H; [|rewrite Hs; simpl; auto].
  simpl. unfold wf_process_task_event in E.
  destruct (negb (string_in (wf_task_event_name (c_graph c) (c_ws c) t route st) TASK_EXECUTION_EVENTS)); [discriminate|].
  destruct (tbl_row wf_table (wstatus (c_ws c))) as [row|] eqn:Er; [|discriminate].
  destruct (aget String.eqb (wf_task_event_name (c_graph c) (c_ws c) t route st) row) as [n|] eqn:Ea.
  - assert (St : tbl_step wf_table S_PAUSING (wf_task_event_name (c_graph c) (c_ws c) t route st) = Some n)
      by (unfold tbl_step; rewrite <- Hs, Er; exact Ea).
    pose proof (F_wf_pausing_task_closed _ _ (wf_task_event_name_is_task_event _ _ _ _ _) St) as Hn.
    destruct (status_in n COMPLETED_STATUSES && negb (status_eqb n S_CANCELED)) eqn:Eb.
    + unfold fail_on_unreachable in E. destruct (get_unreachable_barriers _ _); inversion E; subst.
      * exact Hn.
      * simpl; auto.
    + inversion E; subst. exact Hn.
  - inversion E; subst. rewrite Hs; simpl; auto.
Qed.

End WithEval.
