(* C11Proofs.v -- run-time expression errors are contained: if the evaluator fails only with
   expression-evaluation exceptions, no such exception ever escapes a conductor API call; every
   exception that does escape is one the engine itself raised (status-transition errors, invalid
   task, ...).  Holds for failures at every expression-bearing position and every point of a history,
   because it is proved structurally over the whole model. *)
From Coq Require Import String List Bool ZArith Arith Lia.
From Orq Require Import GenStatuses GenEvents GenTables GenSpecMeta Base State Machines Codec Conductor Decode Api.
From Orq Require Import F_tables Hoare.
Import ListNotations.
Open Scope monad_scope.

(* an exception escaping m is never an expression-evaluation exception *)
Definition contained {A} (m : M A) : Prop := forall c c' e, m c = (c', Exc e) -> x_expr e = false.

Lemma contained_ret : forall A (a : A), contained (ret a).
Proof. intros A a c c' e H; inversion H. Qed.
Lemma contained_raise : forall A e, x_expr e = false -> contained (@raise A e).
Proof. intros A e He c c' e' H; inversion H; subst; exact He. Qed.
Lemma contained_get : contained get.
Proof. intros c c' e H; inversion H. Qed.
Lemma contained_getws : contained getws.
Proof. intros c c' e H; inversion H. Qed.
Lemma contained_modify : forall f, contained (modify f).
Proof. intros f c c' e H; inversion H. Qed.
Lemma contained_modws : forall f, contained (modws f).
Proof. intros f c c' e H; inversion H. Qed.
Lemma contained_bind : forall A B (m : M A) (f : A -> M B),
  contained m -> (forall a, contained (f a)) -> contained (bind m f).
Proof.
  intros A B m f Hm Hf c c' e H. unfold bind in H.
  destruct (m c) as [c1 [a|e1]] eqn:E.
  - eapply Hf; exact H.
  - inversion H; subst. eapply Hm; exact E.
Qed.
(* except Exception: whatever the body raises is handled *)
Lemma contained_try_catch : forall A (m : M A) h, (forall e, contained (h e)) -> contained (try_catch m h).
Proof.
  intros A m h Hh c c' e H. unfold try_catch in H.
  destruct (m c) as [c1 [a|e1]] eqn:E; [inversion H|]. eapply Hh; exact H.
Qed.
(* except ExpressionEvaluationException: expression errors are handled, the others pass through *)
Lemma contained_try_catch_expr : forall A (m : M A) h, (forall e, contained (h e)) -> contained (try_catch_expr m h).
Proof.
  intros A m h Hh c c' e H. unfold try_catch_expr in H.
  destruct (m c) as [c1 [a|e1]] eqn:E; [inversion H|].
  destruct (x_expr e1) eqn:Ex; [eapply Hh; exact H|inversion H; subst; exact Ex].
Qed.
Lemma contained_mapM : forall A B (f : A -> M B) l, (forall a, contained (f a)) -> contained (mapM f l).
Proof.
  intros A B f l Hf; induction l as [|x l IH]; simpl; [apply contained_ret|].
  apply contained_bind; [apply Hf|intro y]. apply contained_bind; [exact IH|intro; apply contained_ret].
Qed.
Lemma contained_forM : forall A (l : list A) f, (forall a, contained (f a)) -> contained (forM_ l f).
Proof.
  intros A l f Hf; induction l as [|x l IH]; simpl; [apply contained_ret|].
  apply contained_bind; [apply Hf|intro; exact IH].
Qed.

(* results of the pure machine functions only carry engine exceptions *)
Definition engine_result {A} (r : result A) : Prop := match r with Exc e => x_expr e = false | Val _ => True end.
Lemma contained_lift_res : forall A (r : result A), engine_result r -> contained (lift_res r).
Proof. intros A [a|e] H; simpl; [apply contained_ret|apply contained_raise; exact H]. Qed.

Ltac engine_res :=
  repeat match goal with
         | |- engine_result (match ?x with _ => _ end) => destruct x
         | |- engine_result (if ?x then _ else _) => destruct x
         | |- engine_result (let _ := _ in _) => cbv zeta
         end; simpl; auto.

Lemma er_item_event_name : forall w t r i st, engine_result (item_event_name w t r i st).
Proof. intros; unfold item_event_name; engine_res. Qed.
Lemma er_task_table_step : forall cur evn, engine_result (task_table_step cur evn).
Proof. intros; unfold task_table_step; engine_res. Qed.
Lemma er_task_process_event : forall w r e, engine_result (task_process_event w r e).
Proof.
  intros w r e; unfold task_process_event. destruct e; cbv zeta.
  - destruct (negb _); simpl; auto. apply er_task_table_step.
  - destruct (negb _); simpl; auto. apply er_task_table_step.
  - destruct (negb _); simpl; auto.
    pose proof (er_item_event_name w (r_id r) (r_route r) item st) as Hn.
    destruct (item_event_name w (r_id r) (r_route r) item st); simpl in *; auto. apply er_task_table_step.
  - destruct (negb _); simpl; auto. apply er_task_table_step.
Qed.
Lemma er_wf_process_task_event : forall g w t r st, engine_result (wf_process_task_event g w t r st).
Proof. intros; unfold wf_process_task_event; engine_res. Qed.
Lemma er_wf_process_workflow_event : forall g w st, engine_result (wf_process_workflow_event g w st).
Proof. intros; unfold wf_process_workflow_event; engine_res. Qed.
Lemma er_get_task_context_from : forall ctxs idxs acc, engine_result (get_task_context_from ctxs idxs acc).
Proof. intros ctxs idxs; induction idxs as [|i idxs IH]; intro acc; simpl; auto. destruct (nth_error ctxs i); simpl; auto. Qed.
Lemma er_get_task_sequence : forall w t r, engine_result (get_task_sequence w t r).
Proof. intros; unfold get_task_sequence; engine_res. Qed.

Section WithEval.
Variable ev : string -> dict -> evalres.

Ltac cw leaf :=
  lazymatch goal with
  | |- contained (ret _) => apply contained_ret
  | |- contained (raise _) => apply contained_raise; reflexivity
  | |- contained get => apply contained_get
  | |- contained getws => apply contained_getws
  | |- contained (modify _) => apply contained_modify
  | |- contained (modws _) => apply contained_modws
  | |- contained (bind _ _) => apply contained_bind; [ cw leaf | intro; cw leaf ]
  | |- contained (try_catch _ _) => apply contained_try_catch; intro; cw leaf
  | |- contained (try_catch_expr _ _) => apply contained_try_catch_expr; intro; cw leaf
  | |- contained (mapM _ _) => apply contained_mapM; intro; cw leaf
  | |- contained (forM_ _ _) => apply contained_forM; intro; cw leaf
  | |- contained (when_ ?b _) => destruct b; simpl; cw leaf
  | |- contained (lift_res _) =>
      apply contained_lift_res;
      first [ apply er_task_process_event | apply er_wf_process_task_event | apply er_wf_process_workflow_event
            | apply er_get_task_context_from | apply er_get_task_sequence ]
  | |- contained (match ?x with _ => _ end) => destruct x; cw leaf
  | |- contained ?m =>
      first [ solve [leaf]
            | let h := head_of m in progress (unfold h); cw leaf
            | progress (cbv beta); cw leaf
            | idtac ]
  end.

Ltac leaf :=
  first [ assumption
        | match goal with IH : forall _ _ _, contained _ |- _ => apply IH end
        | match goal with IH : forall _ _, contained _ |- _ => apply IH end
        | match goal with IH : forall _ _ _ _, contained _ |- _ => apply IH end
        | eauto 3 with cont ].
Ltac walk := cw leaf.

Lemma ct_wf_workflow_event : forall st, contained (wf_workflow_event_M st).
Proof.
  intros st c c' e H. unfold wf_workflow_event_M in H.
  pose proof (er_wf_process_workflow_event (c_graph c) (c_ws c) st) as R.
  destruct (wf_process_workflow_event (c_graph c) (c_ws c) st) as [[n u]|e1]; inversion H; subst; exact R.
Qed.
Hint Resolve ct_wf_workflow_event : cont.
Lemma ct_wf_task_event : forall t r st, contained (wf_task_event_M t r st).
Proof.
  intros t r st c c' e H. unfold wf_task_event_M in H.
  pose proof (er_wf_process_task_event (c_graph c) (c_ws c) t r st) as R.
  destruct (wf_process_task_event (c_graph c) (c_ws c) t r st) as [[n u]|e1]; inversion H; subst; exact R.
Qed.
Hint Resolve ct_wf_task_event : cont.

Lemma ct_log_entry_error : forall m t r tr res, contained (log_entry_error m t r tr res).
Proof. intros; unfold log_entry_error; walk. Qed.
Hint Resolve ct_log_entry_error : cont.
Lemma ct_log_error : forall e t r tr, contained (log_error e t r tr).
Proof. intros; unfold log_error; auto with cont. Qed.
Hint Resolve ct_log_error : cont.
Lemma ct_log_errors : forall es t r tr, contained (log_errors es t r tr).
Proof. intros; unfold log_errors; walk. Qed.
Hint Resolve ct_log_errors : cont.
Lemma ct_log_unreachable : forall l, contained (log_unreachable l).
Proof. intros; unfold log_unreachable; walk. Qed.
Hint Resolve ct_log_unreachable : cont.
Lemma ct_request_status_core : forall st, contained (request_status_core st).
Proof. intros; unfold request_status_core, set_rec_status; walk. Qed.
Hint Resolve ct_request_status_core : cont.
Lemma ct_render_input : forall specs rt rolling errs, contained (render_input ev specs rt rolling errs).
Proof. induction specs as [|[n d] specs IH]; intros; simpl; walk. Qed.
Hint Resolve ct_render_input : cont.
Lemma ct_render_vars : forall specs rolling rendered errs, contained (render_vars ev specs rolling rendered errs).
Proof. induction specs as [|[n d] specs IH]; intros; simpl; walk. Qed.
Hint Resolve ct_render_vars : cont.
Lemma ct_ensure_ws : contained (ensure_ws ev).
Proof. unfold ensure_ws; walk. Qed.
Hint Resolve ct_ensure_ws : cont.
Theorem ct_request_workflow_status : forall st, contained (request_workflow_status ev st).
Proof. intros; unfold request_workflow_status; walk. Qed.
Lemma ct_get_task_context : forall idxs, contained (get_task_context idxs).
Proof. intros; unfold get_task_context; walk. Qed.
Hint Resolve ct_get_task_context : cont.
Theorem ct_get_next_tasks : contained (get_next_tasks ev).
Proof. unfold get_next_tasks; walk. Qed.
Lemma ct_add_task_state : forall t r i p, contained (add_task_state ev t r i p).
Proof. intros; unfold add_task_state; walk. Qed.
Hint Resolve ct_add_task_state : cont.
Lemma ct_evaluate_route : forall e r, contained (evaluate_route e r).
Proof. intros; unfold evaluate_route; walk. Qed.
Hint Resolve ct_evaluate_route : cont.
Lemma ct_finalize_context : forall ts e ctx, contained (finalize_context ev ts e ctx).
Proof. intros; unfold finalize_context; walk. Qed.
Hint Resolve ct_finalize_context : cont.
Lemma ct_get_rec : forall i, contained (get_rec i).
Proof. intros; unfold get_rec; walk. Qed.
Hint Resolve ct_get_rec : cont.
Lemma ct_upd_rec : forall i f, contained (upd_rec i f).
Proof. intros; unfold upd_rec; walk. Qed.
Hint Resolve ct_upd_rec : cont.
Lemma ct_process_transition : forall t route idx ts ctx e, contained (process_transition ev t route idx ts ctx e).
Proof. intros; unfold process_transition; walk. Qed.
Hint Resolve ct_process_transition : cont.
Lemma ct_update_task_state_fuel : forall fuel t route evt, contained (update_task_state_fuel ev fuel t route evt).
Proof.
  induction fuel as [|fuel IH]; intros t route evt; simpl; [apply contained_raise; reflexivity|].
  walk.
Qed.
Theorem ct_update_task_state : forall t route evt, contained (update_task_state ev t route evt).
Proof. intros; unfold update_task_state; apply ct_update_task_state_fuel. Qed.
Lemma ct_merge_term_contexts : forall l acc, contained (merge_term_contexts l acc).
Proof. induction l as [|[i r] l IH]; intros; simpl; walk. Qed.
Hint Resolve ct_merge_term_contexts : cont.
Theorem ct_render_workflow_output : contained (render_workflow_output ev).
Proof. unfold render_workflow_output, get_workflow_terminal_context; walk. Qed.
Lemma ct_request_task_rerun : forall t r b, contained (request_task_rerun ev t r b).
Proof. intros; unfold request_task_rerun; walk. Qed.
Hint Resolve ct_request_task_rerun : cont.
Theorem ct_request_workflow_rerun : forall reqs, contained (request_workflow_rerun ev reqs).
Proof. intros; unfold request_workflow_rerun; walk. Qed.
Lemma ct_persist : contained (persist ev).
Proof.
  unfold persist. apply contained_bind; [apply ct_ensure_ws|intros _].
  intros c c' e H. destruct (dec_cstate _ _ _); inversion H; subst; reflexivity.
Qed.

Theorem api_contained : forall op, contained (api_exec ev op).
Proof.
  intro op; destruct op; simpl; (apply contained_bind; [|intro; apply contained_ret]).
  - apply ct_ensure_ws.
  - apply ct_request_workflow_status.
  - apply ct_get_next_tasks.
  - apply ct_update_task_state.
  - apply ct_render_workflow_output.
  - apply ct_request_workflow_rerun.
  - apply ct_persist.
Qed.

End WithEval.
