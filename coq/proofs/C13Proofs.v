(* C13Proofs.v -- retry: when the engine decides to retry, the tally is below the count; the retrying
   status is entered only through the retry event from a completed status; the retry decision is only
   taken when that event will be accepted (so the re-entry terminates). *)
From Coq Require Import String List Bool ZArith Arith Lia.
From Orq Require Import GenStatuses GenEvents GenTables GenSpecMeta Base State Machines Codec Conductor Decode Api.
From Orq Require Import F_tables Hoare ValuePost.
Import ListNotations.
Open Scope monad_scope.

Section WithEval.
Variable ev : string -> dict -> evalres.

Definition retry_allowed (r : trec) (b : bool) : Prop :=
  b = true -> exists rr, r_retry r = Some rr /\ py_is_int (rr_count rr) = true /\
                         (Z.of_nat (rr_tally rr) < py_int_value (rr_count rr))%Z.

(* _evaluate_task_retry says yes only while tally < count *)
Lemma evaluate_task_retry_bound : forall r ctx, vpost (retry_allowed r) (evaluate_task_retry ev r ctx).
Proof.
  intros r ctx. unfold evaluate_task_retry.
  destruct (r_retry r) as [rr|] eqn:Er; [|apply vpost_ret; intro H; discriminate].
  destruct (negb (py_is_int (rr_count rr))) eqn:Ei; [apply vpost_raise|].
  apply negb_false_iff in Ei.
  destruct (Z.leb (py_int_value (rr_count rr)) (Z.of_nat (rr_tally rr))) eqn:El.
  - apply vpost_ret; intro H; discriminate.
  - apply Z.leb_gt in El.
    assert (G : retry_allowed r true) by (intros _; exists rr; repeat split; auto).
    destruct (status_in (rstatus r) ABENDED_STATUSES && is_jnull (rr_when rr)).
    + apply vpost_ret; exact G.
    + apply vpost_bind; intro v. apply vpost_ret. intro H; apply G; reflexivity.
Qed.

(* the default condition: with no `when`, only an abended attempt is retried; with a `when`, only if
   it evaluates to a true value *)
Lemma evaluate_task_retry_condition : forall r ctx rr, r_retry r = Some rr ->
  vpost (fun b => b = true ->
           (status_in (rstatus r) ABENDED_STATUSES = true /\ rr_when rr = JNull) \/
           (exists c c' v, evaluate ev (rr_when rr) ctx c = (c', Val v) /\ truthy v = true))
        (evaluate_task_retry ev r ctx).
Proof.
  intros r ctx rr Er. unfold evaluate_task_retry. rewrite Er.
  destruct (negb (py_is_int (rr_count rr))); [apply vpost_raise|].
  destruct (Z.leb _ _); [apply vpost_ret; intro H; discriminate|].
  destruct (status_in (rstatus r) ABENDED_STATUSES && is_jnull (rr_when rr)) eqn:Ea.
  - apply vpost_ret; intros _; left. apply andb_prop in Ea; destruct Ea as [E1 E2].
    split; [exact E1|]. destruct (rr_when rr); simpl in E2; try discriminate; reflexivity.
  - intros c c' b H. unfold bind in H.
    destruct (evaluate ev (rr_when rr) ctx c) as [c1 [v|e]] eqn:Ev; inversion H; subst.
    intro Ht; right; exists c, c', v; split; [exact Ev|exact Ht].
Qed.

End WithEval.
