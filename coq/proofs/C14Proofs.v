(* C14Proofs.v -- the composed graph is exactly the definition's tasks and transitions.
   Invariants of the worklist of model/Composer.v:
     Core    node ids unique; every edge is a (task, transition index, target) triple between nodes;
             keys of parallel edges are 0,1,.. in insertion order and no two edges share
             (source, destination, criteria, ref); every node and every name with recorded splits is
             dequeued or still queued; everything touched is reachable from a start task;
     DoneOk  every dequeued task has all its edges and its final barrier / retry attributes; nodes not
             yet dequeued carry no attributes.
   All theorems are conditional on compose returning Val (the fuel sufficed). *)
From Coq Require Import String List Bool ZArith Arith Lia Permutation Sorted OrderedTypeEx.
From Orq Require Import GenSpecMeta Base State Composer.
Import ListNotations.
Open Scope string_scope.

(* ---------------------------------------------------------------- generic list facts *)

Lemma in_insert_sorted : forall A (leb : A -> A -> bool) x y l,
  In x (insert_sorted leb y l) <-> x = y \/ In x l.
Proof.
  intros A leb x y l; induction l as [|z l IH]; simpl.
  - intuition.
  - destruct (leb z y); simpl; rewrite ?IH; intuition.
Qed.

Lemma in_sort_by : forall A (leb : A -> A -> bool) x l, In x (sort_by leb l) <-> In x l.
Proof.
  intros A leb x l; unfold sort_by.
  assert (H : forall acc, In x (fold_left (fun acc x => insert_sorted leb x acc) l acc) <-> In x acc \/ In x l).
  { induction l as [|y l IH]; intro acc; simpl; [intuition|].
    rewrite IH, in_insert_sorted. intuition. }
  rewrite H; simpl; intuition.
Qed.

(* ------------------------------------------------------------------------- json_eqb *)

Section JsonInd.
  Variable P : json -> Prop.
  Hypothesis Hnull : P JNull.
  Hypothesis Hbool : forall b, P (JBool b).
  Hypothesis Hint : forall z, P (JInt z).
  Hypothesis Hfloat : forall h, P (JFloat h).
  Hypothesis Hstr : forall s, P (JStr s).
  Hypothesis Hlist : forall l, Forall P l -> P (JList l).
  Hypothesis Hdict : forall kv, Forall (fun p => P (snd p)) kv -> P (JDict kv).
  Fixpoint json_ind2 (j : json) : P j :=
    match j with
    | JNull => Hnull
    | JBool b => Hbool b
    | JInt z => Hint z
    | JFloat h => Hfloat h
    | JStr s => Hstr s
    | JList l => Hlist l ((fix go (l : list json) : Forall P l :=
                             match l with
                             | [] => Forall_nil _
                             | x :: l' => Forall_cons _ (json_ind2 x) (go l')
                             end) l)
    | JDict kv => Hdict kv ((fix go (l : list (string * json)) : Forall (fun p => P (snd p)) l :=
                               match l with
                               | [] => Forall_nil _
                               | x :: l' => Forall_cons _ (json_ind2 (snd x)) (go l')
                               end) kv)
    end.
End JsonInd.

Lemma json_eqb_refl : forall a, json_eqb a a = true.
Proof.
  induction a as [| b | z | h | s | l IH | kv IH] using json_ind2; simpl.
  - reflexivity.
  - destruct b; reflexivity.
  - apply Z.eqb_refl.
  - apply String.eqb_refl.
  - apply String.eqb_refl.
  - induction IH as [|x l Hx Hl IHl]; [reflexivity|]. rewrite Hx, IHl. reflexivity.
  - induction IH as [|[k x] l Hx Hl IHl]; [reflexivity|]. simpl in Hx. rewrite String.eqb_refl, Hx, IHl. reflexivity.
Qed.

Lemma json_eqb_true : forall a b, json_eqb a b = true -> a = b.
Proof.
  induction a as [| b | z | h | s | l IH | kv IH] using json_ind2; intros b' H; destruct b'; simpl in H; try discriminate.
  - reflexivity.
  - f_equal. apply Bool.eqb_prop. exact H.
  - f_equal. apply Z.eqb_eq. exact H.
  - f_equal. apply String.eqb_eq. exact H.
  - f_equal. apply String.eqb_eq. exact H.
  - f_equal. revert l0 H. induction IH as [|x l Hx Hl IHl]; intros ys H; destruct ys as [|y ys]; try discriminate; [reflexivity|].
    apply andb_prop in H. destruct H as [H1 H2]. f_equal; [apply Hx; exact H1|apply IHl; exact H2].
  - f_equal. revert kv0 H. induction IH as [|[k x] l Hx Hl IHl]; intros ys H; destruct ys as [|[k' y] ys]; try discriminate; [reflexivity|].
    apply andb_prop in H. destruct H as [H1 H2]. apply andb_prop in H1. destruct H1 as [H0 H1].
    simpl in Hx. f_equal; [f_equal; [apply String.eqb_eq; exact H0|apply Hx; exact H1]|apply IHl; exact H2].
Qed.

Lemma criteria_eqb_eq : forall a b, criteria_eqb a b = true <-> a = b.
Proof.
  intros a b; unfold criteria_eqb; split; intro H.
  - apply json_eqb_true in H. injection H; auto.
  - subst. apply json_eqb_refl.
Qed.
Lemma NoDup_snoc : forall A (x : A) l, NoDup l -> ~ In x l -> NoDup (app l [x]).
Proof.
  intros A x l H Hx. apply (Permutation_NoDup (Permutation_cons_append l x)). constructor; assumption.
Qed.

(* ----------------------------------------------------------------------------- nodes *)

Definition ids (ns : list gnode) : list string := map n_id ns.
Definition node_of (t : string) (ns : list gnode) : option gnode :=
  find (fun n => String.eqb (n_id n) t) ns.
Definition id_preserving (f : gnode -> gnode) : Prop := forall n, n_id (f n) = n_id n.

Lemma has_node_in : forall t ns, has_node t ns = true <-> In t (ids ns).
Proof.
  intros t ns; unfold has_node, ids. rewrite existsb_exists, in_map_iff. split.
  - intros [n [Hn He]]. apply String.eqb_eq in He. exists n; auto.
  - intros [n [He Hn]]. exists n; split; [exact Hn|]. apply String.eqb_eq; exact He.
Qed.

Lemma has_node_false : forall t ns, has_node t ns = false <-> ~ In t (ids ns).
Proof.
  intros t ns. rewrite <- has_node_in. destruct (has_node t ns); split; intro H; try discriminate; auto.
  exfalso; apply H; reflexivity.
Qed.

Lemma ids_upd_node : forall t f ns, id_preserving f -> ids (upd_node t f ns) = ids ns.
Proof.
  intros t f ns Hf; unfold ids, upd_node. rewrite map_map. apply map_ext.
  intro n. destruct (String.eqb (n_id n) t); [apply Hf|reflexivity].
Qed.

Lemma ids_add_node : forall t ns,
  ids (add_node t ns) = if has_node t ns then ids ns else app (ids ns) [t].
Proof.
  intros t ns; unfold add_node. destruct (has_node t ns); [reflexivity|].
  unfold ids. rewrite map_app. reflexivity.
Qed.

Lemma in_ids_add_node : forall x t ns, In x (ids (add_node t ns)) <-> x = t \/ In x (ids ns).
Proof.
  intros x t ns. rewrite ids_add_node. destruct (has_node t ns) eqn:E.
  - apply has_node_in in E. split; [auto|]. intros [H|H]; subst; auto.
  - rewrite in_app_iff; simpl. intuition.
Qed.

Lemma nodup_add_node : forall t ns, NoDup (ids ns) -> NoDup (ids (add_node t ns)).
Proof.
  intros t ns H. rewrite ids_add_node. destruct (has_node t ns) eqn:E; [exact H|].
  apply has_node_false in E. apply NoDup_snoc; assumption.
Qed.

Lemma node_of_some_in : forall t ns n, node_of t ns = Some n -> In n ns /\ n_id n = t.
Proof.
  intros t ns n H. unfold node_of in H. apply find_some in H. destruct H as [H1 H2].
  apply String.eqb_eq in H2. auto.
Qed.

Lemma node_of_none : forall t ns, node_of t ns = None <-> ~ In t (ids ns).
Proof.
  intros t ns. unfold node_of, ids. split.
  - intros H Hin. apply in_map_iff in Hin. destruct Hin as [n [He Hn]].
    pose proof (find_none _ _ H n Hn) as F. simpl in F. rewrite He, String.eqb_refl in F. discriminate.
  - intro H. destruct (find _ ns) eqn:E; [|reflexivity]. exfalso. apply H.
    apply find_some in E. destruct E as [E1 E2]. apply String.eqb_eq in E2. apply in_map_iff. eauto.
Qed.

Lemma node_of_upd_same : forall t f ns, id_preserving f ->
  node_of t (upd_node t f ns) = option_map f (node_of t ns).
Proof.
  intros t f ns Hf. unfold node_of, upd_node. induction ns as [|n ns IH]; [reflexivity|]. simpl.
  destruct (String.eqb (n_id n) t) eqn:E.
  - rewrite Hf, E. reflexivity.
  - rewrite E. exact IH.
Qed.

Lemma node_of_upd_other : forall t t' f ns, id_preserving f -> t' <> t ->
  node_of t' (upd_node t f ns) = node_of t' ns.
Proof.
  intros t t' f ns Hf Hne. unfold node_of, upd_node. induction ns as [|n ns IH]; [reflexivity|]. simpl.
  destruct (String.eqb (n_id n) t) eqn:E.
  - rewrite Hf. apply String.eqb_eq in E. rewrite E.
    destruct (String.eqb t t') eqn:E2; [apply String.eqb_eq in E2; congruence|exact IH].
  - destruct (String.eqb (n_id n) t'); [reflexivity|exact IH].
Qed.

Lemma node_of_app_some : forall t ns ms n, node_of t ns = Some n -> node_of t (app ns ms) = Some n.
Proof.
  intros t ns ms n. unfold node_of. induction ns as [|x ns IH]; simpl; [discriminate|].
  destruct (String.eqb (n_id x) t); auto.
Qed.

Lemma node_of_add_node_some : forall t d ns n, node_of t ns = Some n -> node_of t (add_node d ns) = Some n.
Proof.
  intros t d ns n H. unfold add_node. destruct (has_node d ns); [exact H|]. apply node_of_app_some; exact H.
Qed.

Lemma node_of_app_none : forall t ns ms, node_of t ns = None -> node_of t (app ns ms) = node_of t ms.
Proof.
  intros t ns ms. unfold node_of. induction ns as [|x ns IH]; simpl; [reflexivity|].
  destruct (String.eqb (n_id x) t); [discriminate|exact IH].
Qed.

Lemma node_of_add_node_new : forall t ns, ~ In t (ids ns) -> node_of t (add_node t ns) = Some (mk_node t).
Proof.
  intros t ns H. unfold add_node. apply has_node_false in H as H'. rewrite H'.
  apply node_of_none in H. rewrite (node_of_app_none _ _ _ H). unfold node_of; simpl.
  rewrite String.eqb_refl. reflexivity.
Qed.

Lemma in_upd_node : forall n t f ns, In n (upd_node t f ns) ->
  (In n ns /\ n_id n <> t) \/ (exists m, In m ns /\ n_id m = t /\ n = f m).
Proof.
  intros n t f ns H. unfold upd_node in H. apply in_map_iff in H. destruct H as [m [He Hm]].
  destruct (String.eqb (n_id m) t) eqn:E.
  - right. apply String.eqb_eq in E. exists m. auto.
  - left. subst. split; [exact Hm|]. intro C. rewrite C, String.eqb_refl in E. discriminate.
Qed.

Lemma in_add_node : forall n d ns, In n (add_node d ns) -> In n ns \/ (n = mk_node d /\ ~ In d (ids ns)).
Proof.
  intros n d ns H. unfold add_node in H. destruct (has_node d ns) eqn:E; [auto|].
  apply in_app_or in H. destruct H as [H|[H|[]]]; [auto|]. right. split; [auto|]. apply has_node_false; exact E.
Qed.

Lemma id_pres_barrier : forall b, id_preserving (n_set_barrier b). Proof. intros b n; reflexivity. Qed.
Lemma id_pres_splits : forall s, id_preserving (n_set_splits s). Proof. intros s n; reflexivity. Qed.
Lemma id_pres_retry : forall r, id_preserving (n_set_retry r). Proof. intros r n; reflexivity. Qed.

(* ----------------------------------------------------------------------------- edges *)

Definition ident1 (e : gedge) := (e_src e, e_dst e, e_criteria e, e_ref e).

(* keys of the parallel edges between every pair are 0, 1, ... in list order; no two edges agree on
   (source, destination, criteria, ref) *)
Definition keyed (es : list gedge) : Prop :=
  (forall s d, map e_key (filter (edge_between s d) es) = seq 0 (length (filter (edge_between s d) es)))
  /\ NoDup (map ident1 es).

Lemma edge_between_iff : forall s d e, edge_between s d e = true <-> e_src e = s /\ e_dst e = d.
Proof.
  intros s d e; unfold edge_between. rewrite andb_true_iff, !String.eqb_eq. tauto.
Qed.

Lemma edge_matches_iff : forall s d c r e,
  edge_matches s d c r e = true <-> e_src e = s /\ e_dst e = d /\ e_criteria e = c /\ e_ref e = r.
Proof.
  intros s d c r e; unfold edge_matches.
  rewrite !andb_true_iff, edge_between_iff, criteria_eqb_eq, Nat.eqb_eq. tauto.
Qed.

Lemma keyed_nil : keyed [].
Proof. split; [intros; reflexivity|constructor]. Qed.

Lemma keyed_snoc : forall es s d c r,
  keyed es -> filter (edge_matches s d c r) es = [] ->
  keyed (app es [{| e_src := s; e_dst := d; e_key := length (filter (edge_between s d) es);
                    e_ref := r; e_criteria := c |}]).
Proof.
  intros es s d c r [K U] Hnone. split.
  - intros s' d'. rewrite filter_app, map_app, app_length. simpl.
    destruct (edge_between s' d' _) eqn:E.
    + apply edge_between_iff in E. simpl in E. destruct E as [E1 E2]. subst s' d'.
      simpl. rewrite K. rewrite Nat.add_1_r. rewrite seq_S. reflexivity.
    + simpl. rewrite app_nil_r, Nat.add_0_r. apply K.
  - rewrite map_app. simpl. apply NoDup_snoc; [exact U|].
    intro Hin. apply in_map_iff in Hin. destruct Hin as [e [He Hin]].
    unfold ident1 in He; simpl in He. injection He as E1 E2 E3 E4.
    assert (M : edge_matches s d c r e = true) by (apply edge_matches_iff; auto).
    assert (In e (filter (edge_matches s d c r) es)) as F by (apply filter_In; auto).
    rewrite Hnone in F. exact F.
Qed.

(* ------------------------------------------------------- enqueue / add_transition *)

Lemma enqueue_spec : forall w d splits,
  let w' := enqueue w d splits in
  w_nodes w' = w_nodes w /\ w_edges w' = w_edges w /\ w_done w' = w_done w /\
  ((w_queue w' = w_queue w /\ w_track w' = w_track w /\
    exists s, aget String.eqb d (w_track w) = Some s /\ s <> [])
   \/ (w_queue w' = app (w_queue w) [(d, splits)] /\
       exists v, w_track w' = aset String.eqb d v (w_track w))).
Proof.
  intros w d splits. unfold enqueue.
  destruct (aget String.eqb d (w_track w)) as [s|] eqn:E.
  - destruct s as [|x s].
    + simpl. repeat split. right. split; [reflexivity|eauto].
    + destruct (set_subset splits (x :: s)).
      * repeat split. left. repeat split. exists (x :: s). split; [reflexivity|discriminate].
      * simpl. repeat split. right. split; [reflexivity|eauto].
  - simpl. repeat split. right. split; [reflexivity|eauto].
Qed.

Lemma add_transition_spec : forall w s d c r,
  let w' := add_transition w s d c r in
  w_track w' = w_track w /\ w_queue w' = w_queue w /\ w_done w' = w_done w /\
  ((w_nodes w' = w_nodes w /\ w_edges w' = w_edges w /\
    exists e, In e (w_edges w) /\ edge_matches s d c r e = true)
   \/ (w_nodes w' = add_node d (add_node s (w_nodes w)) /\
       filter (edge_matches s d c r) (w_edges w) = [] /\
       w_edges w' = app (w_edges w)
                        [{| e_src := s; e_dst := d; e_key := length (filter (edge_between s d) (w_edges w));
                            e_ref := r; e_criteria := c |}])).
Proof.
  intros w s d c r. unfold add_transition.
  destruct (filter (edge_matches s d c r) (w_edges w)) as [|e l] eqn:E.
  - simpl. repeat split. right. repeat split.
  - repeat split. left. repeat split. exists e.
    assert (In e (filter (edge_matches s d c r) (w_edges w))) as F by (rewrite E; left; reflexivity).
    apply filter_In in F. exact F.
Qed.

Lemma aget_aset : forall (d d' : string) (v : list string) tr,
  aget String.eqb d' (aset String.eqb d v tr) = if String.eqb d' d then Some v else aget String.eqb d' tr.
Proof.
  intros d d' v tr. induction tr as [|[k x] tr IH]; simpl.
  - rewrite (String.eqb_sym d' d). destruct (String.eqb d d') eqn:E; [|reflexivity].
    reflexivity.
  - destruct (String.eqb d k) eqn:E1; simpl.
    + apply String.eqb_eq in E1. subst k. rewrite (String.eqb_sym d' d).
      destruct (String.eqb d d'); reflexivity.
    + destruct (String.eqb d' k) eqn:E2.
      * apply String.eqb_eq in E2. subst k. rewrite (String.eqb_sym d' d), E1. reflexivity.
      * exact IH.
Qed.

(* ------------------------------------------------------------------ the core invariant *)

(* an edge is one (task, transition index, target) triple of the definition *)
Definition triple_ok (sp : wf_spec) (e : gedge) : Prop :=
  exists w, In (e_dst e, w, e_ref e) (spec_next_tasks sp (e_src e))
            /\ e_dst e <> "retry" /\ e_criteria e = crta_of w.

(* reachable from a start task through transitions that are not the retry command *)
Inductive reach (sp : wf_spec) : string -> Prop :=
  | reach_start : forall t, In t (spec_start_tasks sp) -> reach sp t
  | reach_step : forall t d w i, reach sp t -> In (d, w, i) (spec_next_tasks sp t) -> d <> "retry" ->
                 reach sp d.

Definition qnames (w : cwork) : list string := map fst (w_queue w).

Record Core (sp : wf_spec) (w : cwork) : Prop := {
  co_nodup : NoDup (ids (w_nodes w));
  co_sound : forall e, In e (w_edges w) ->
             triple_ok sp e /\ In (e_src e) (ids (w_nodes w)) /\ In (e_dst e) (ids (w_nodes w));
  co_keyed : keyed (w_edges w);
  co_nodes : forall x, In x (ids (w_nodes w)) -> In x (w_done w) \/ In x (qnames w);
  co_track : forall d s, aget String.eqb d (w_track w) = Some s -> s <> [] ->
             In d (w_done w) \/ In d (qnames w);
  co_reach : forall x, In x (ids (w_nodes w)) \/ In x (w_done w) \/ In x (qnames w) -> reach sp x;
  co_start : forall s, In s (spec_start_tasks sp) -> In s (w_done w) \/ In s (qnames w);
  co_done : forall t, In t (w_done w) -> In t (ids (w_nodes w)) }.

Lemma enqueue_core : forall sp w d splits, Core sp w -> reach sp d -> Core sp (enqueue w d splits).
Proof.
  intros sp w d splits C Hd.
  destruct (enqueue_spec w d splits) as [En [Ee [Ed Hq]]].
  destruct C as [c1 c2 c3 c4 c5 c6 c7 c8].
  destruct Hq as [[Eq [Et _]]|[Eq [v Et]]].
  - constructor; unfold qnames; rewrite ?En, ?Ee, ?Ed, ?Eq, ?Et; assumption.
  - assert (Hsub : forall x, In x (qnames w) -> In x (qnames (enqueue w d splits))).
    { intros x Hx. unfold qnames. rewrite Eq, map_app. apply in_or_app. left. exact Hx. }
    assert (Hd' : In d (qnames (enqueue w d splits))).
    { unfold qnames. rewrite Eq, map_app. apply in_or_app. right. left. reflexivity. }
    assert (Hinv : forall x, In x (qnames (enqueue w d splits)) -> In x (qnames w) \/ x = d).
    { intros x Hx. unfold qnames in Hx. rewrite Eq, map_app in Hx. apply in_app_or in Hx.
      destruct Hx as [Hx|[Hx|[]]]; [left; exact Hx|right; symmetry; exact Hx]. }
    constructor; rewrite ?En, ?Ee, ?Ed.
    + exact c1.
    + exact c2.
    + exact c3.
    + intros x Hx. destruct (c4 x Hx); auto.
    + intros d' s. rewrite Et, aget_aset. destruct (String.eqb d' d) eqn:E.
      * apply String.eqb_eq in E. subst d'. auto.
      * intros H1 H2. destruct (c5 d' s H1 H2); auto.
    + intros x [Hx|[Hx|Hx]]; [apply c6; auto|apply c6; auto|].
      destruct (Hinv x Hx) as [H|H]; [apply c6; auto|subst; exact Hd].
    + intros s Hs. destruct (c7 s Hs); auto.
    + exact c8.
Qed.

Lemma enqueue_mem : forall sp w d splits, Core sp w ->
  In d (w_done (enqueue w d splits)) \/ In d (qnames (enqueue w d splits)).
Proof.
  intros sp w d splits C.
  destruct (enqueue_spec w d splits) as [En [Ee [Ed Hq]]].
  destruct Hq as [[Eq [Et [s [H1 H2]]]]|[Eq _]].
  - unfold qnames. rewrite Ed, Eq. exact (co_track sp w C d s H1 H2).
  - right. unfold qnames. rewrite Eq, map_app. apply in_or_app. right. left. reflexivity.
Qed.

Lemma add_transition_core : forall sp w s d cond r,
  Core sp w -> In s (ids (w_nodes w)) -> reach sp d -> In d (w_done w) \/ In d (qnames w) ->
  In (d, cond, r) (spec_next_tasks sp s) -> d <> "retry" ->
  Core sp (add_transition w s d (crta_of cond) r).
Proof.
  intros sp w s d cond r C Hs Hd Hdq Htr Hnr.
  destruct (add_transition_spec w s d (crta_of cond) r) as [Et [Eq [Ed Hc]]].
  destruct C as [c1 c2 c3 c4 c5 c6 c7 c8].
  destruct Hc as [[En [Ee _]]|[En [Hnone Ee]]].
  - constructor; unfold qnames; rewrite ?En, ?Ee, ?Ed, ?Eq, ?Et; assumption.
  - assert (Hin : forall x, In x (ids (w_nodes (add_transition w s d (crta_of cond) r))) <->
                            x = d \/ In x (ids (w_nodes w))).
    { intro x. rewrite En, !in_ids_add_node. split; [|tauto].
      intros [H|[H|H]]; [auto| |auto]. subst x. auto. }
    constructor; unfold qnames; rewrite ?Ed, ?Eq, ?Et.
    + rewrite En. apply nodup_add_node, nodup_add_node. exact c1.
    + intros e He. rewrite Ee in He. apply in_app_or in He. rewrite !Hin.
      destruct He as [He|[He|[]]].
      * destruct (c2 e He) as [H1 [H2 H3]]. auto.
      * subst e; simpl. split; [|auto]. exists cond. simpl. auto.
    + rewrite Ee. apply keyed_snoc; assumption.
    + intros x Hx. apply Hin in Hx. destruct Hx as [Hx|Hx]; [subst; exact Hdq|apply c4; exact Hx].
    + exact c5.
    + intros x [Hx|[Hx|Hx]]; [|apply c6; auto|apply c6; auto].
      apply Hin in Hx. destruct Hx as [Hx|Hx]; [subst; exact Hd|apply c6; auto].
    + exact c7.
    + intros t Ht. apply Hin. right. apply c8. exact Ht.
Qed.

Lemma set_nodes_core : forall sp w t f, id_preserving f -> Core sp w ->
  Core sp (w_set_nodes w (upd_node t f (w_nodes w))).
Proof.
  intros sp w t f Hf [c1 c2 c3 c4 c5 c6 c7 c8].
  constructor; unfold qnames; simpl; rewrite ?(ids_upd_node t f _ Hf); assumption.
Qed.

Lemma fold_step_exc : forall sp t splits l e, fold_left (step_next sp t splits) l (Exc e) = Exc e.
Proof. intros sp t splits l e; induction l as [|x l IH]; simpl; [reflexivity|exact IH]. Qed.

Lemma step_next_core : forall sp t splits w nx w',
  Core sp w -> In t (ids (w_nodes w)) -> reach sp t -> In nx (spec_next_tasks sp t) ->
  step_next sp t splits (Val w) nx = Val w' ->
  Core sp w' /\ w_done w' = w_done w /\ (forall x, In x (ids (w_nodes w)) -> In x (ids (w_nodes w'))).
Proof.
  intros sp t splits w [[d cond] idx] w' C Ht Hr Hnx H. unfold step_next, nt_name in H. cbn [fst snd] in H.
  destruct (String.eqb d "retry") eqn:Er.
  - injection H as H. subst w'. split; [apply set_nodes_core; [apply id_pres_retry|exact C]|].
    split; [reflexivity|]. intros x Hx. simpl. rewrite ids_upd_node; [exact Hx|apply id_pres_retry].
  - assert (Hnr : d <> "retry") by (intro E; subst d; discriminate).
    assert (Hd : reach sp d) by (eapply reach_step; eauto).
    destruct (if has_node d (w_nodes w) then in_cycle_r sp d else Val false) as [skip|e] eqn:Es; [|discriminate].
    injection H as H. subst w'.
    set (w1 := if skip then w else enqueue w d splits).
    assert (C1 : Core sp w1) by (unfold w1; destruct skip; [exact C|apply enqueue_core; assumption]).
    assert (N1 : w_nodes w1 = w_nodes w /\ w_done w1 = w_done w).
    { unfold w1; destruct skip; [auto|]. destruct (enqueue_spec w d splits) as [A [_ [B _]]]. auto. }
    destruct N1 as [N1 D1].
    assert (M1 : In d (w_done w1) \/ In d (qnames w1)).
    { unfold w1. destruct skip.
      - destruct (has_node d (w_nodes w)) eqn:Eh; [|discriminate].
        apply has_node_in in Eh. apply (co_nodes sp w C). exact Eh.
      - apply (enqueue_mem sp). exact C. }
    split; [apply add_transition_core; try assumption; rewrite N1; exact Ht|].
    destruct (add_transition_spec w1 t d (crta_of cond) idx) as [_ [_ [Ed Hc]]].
    split; [rewrite Ed; exact D1|].
    intros x Hx. destruct Hc as [[En _]|[En _]]; rewrite En, ?N1; [exact Hx|].
    apply in_ids_add_node. right. apply in_ids_add_node. right. exact Hx.
Qed.

Lemma fold_step_core : forall sp t splits l w w',
  Core sp w -> In t (ids (w_nodes w)) -> reach sp t -> (forall nx, In nx l -> In nx (spec_next_tasks sp t)) ->
  fold_left (step_next sp t splits) l (Val w) = Val w' ->
  Core sp w' /\ w_done w' = w_done w /\ (forall x, In x (ids (w_nodes w)) -> In x (ids (w_nodes w'))).
Proof.
  intros sp t splits l; induction l as [|nx l IH]; intros w w' C Ht Hr Hl H; cbn [fold_left] in H.
  - injection H as H; subst; auto.
  - destruct (step_next sp t splits (Val w) nx) as [w1|e] eqn:E1; [|rewrite fold_step_exc in H; discriminate].
    destruct (step_next_core sp t splits w nx w1 C Ht Hr (Hl nx (or_introl eq_refl)) E1) as [C1 [D1 S1]].
    destruct (IH w1 w' C1 (S1 t Ht) Hr (fun y Hy => Hl y (or_intror Hy)) H) as [C2 [D2 S2]].
    split; [exact C2|]. split; [congruence|]. intros x Hx. apply S2, S1, Hx.
Qed.

(* -------------------------------------------------- completeness and attributes of done tasks *)

Definition complete_for (sp : wf_spec) (es : list gedge) (t : string) : Prop :=
  forall d w i, In (d, w, i) (spec_next_tasks sp t) -> d <> "retry" ->
    exists e, In e es /\ e_src e = t /\ e_dst e = d /\ e_ref e = i /\ e_criteria e = crta_of w.

Definition retry_upd (acc : json) (nx : string * json * nat) : json :=
  if String.eqb (nt_name nx) "retry" then retry_cmd (snd (fst nx)) else acc.

(* the declared retry spec, overridden by the last retry command among the (name-sorted) transitions *)
Definition exp_retry (sp : wf_spec) (rt : list (string * json)) (t : string) : json :=
  fold_left retry_upd (spec_next_sorted sp t)
            (match aget String.eqb t rt with Some r => r | None => JNull end).

Definition exp_barrier (sp : wf_spec) (t : string) : json :=
  match spec_get_task sp t with
  | Some ts => if is_jnull (ts_join ts) then JNull else barrier_of ts
  | None => JNull
  end.

Definition attrs_ok (sp : wf_spec) (rt : list (string * json)) (n : gnode) : Prop :=
  n_barrier n = exp_barrier sp (n_id n) /\ n_retry n = exp_retry sp rt (n_id n).

(* X: the task being processed (its edges and attributes are not final yet) *)
Record DoneOk (sp : wf_spec) (rt : list (string * json)) (X : list string) (w : cwork) : Prop := {
  do_complete : forall t, In t (w_done w) -> ~ In t X -> complete_for sp (w_edges w) t;
  do_attrs : forall t n, In t (w_done w) -> ~ In t X -> node_of t (w_nodes w) = Some n -> attrs_ok sp rt n;
  do_fresh : forall n, In n (w_nodes w) -> ~ In (n_id n) (w_done w) -> n = mk_node (n_id n) }.

Lemma complete_for_mono : forall sp es es' t,
  (forall e, In e es -> In e es') -> complete_for sp es t -> complete_for sp es' t.
Proof.
  intros sp es es' t Hsub H d w i Hin Hnr. destruct (H d w i Hin Hnr) as [e [He Hp]]. exists e. auto.
Qed.

Lemma step_next_shape : forall sp t splits w nx w',
  step_next sp t splits (Val w) nx = Val w' ->
  w_done w' = w_done w /\ (forall e, In e (w_edges w) -> In e (w_edges w')) /\
  ((nt_name nx = "retry" /\ w_nodes w' = upd_node t (n_set_retry (retry_cmd (snd (fst nx)))) (w_nodes w))
   \/ (nt_name nx <> "retry" /\
       (w_nodes w' = w_nodes w \/ w_nodes w' = add_node (nt_name nx) (add_node t (w_nodes w))) /\
       exists e, In e (w_edges w') /\ e_src e = t /\ e_dst e = nt_name nx /\ e_ref e = snd nx
                 /\ e_criteria e = crta_of (snd (fst nx)))).
Proof.
  intros sp t splits w nx w' H. unfold step_next in H.
  destruct (String.eqb (nt_name nx) "retry") eqn:Er.
  - injection H as H. subst w'. simpl. split; [reflexivity|]. split; [auto|]. left.
    apply String.eqb_eq in Er. auto.
  - assert (Hnr : nt_name nx <> "retry") by (intro E; rewrite E in Er; discriminate).
    destruct (if has_node (nt_name nx) (w_nodes w) then in_cycle_r sp (nt_name nx) else Val false)
      as [skip|e] eqn:Es; [|discriminate].
    injection H as H. subst w'.
    set (w1 := if skip then w else enqueue w (nt_name nx) splits).
    assert (N1 : w_nodes w1 = w_nodes w /\ w_done w1 = w_done w /\ w_edges w1 = w_edges w).
    { unfold w1; destruct skip; [auto|].
      destruct (enqueue_spec w (nt_name nx) splits) as [A [B [D _]]]. auto. }
    destruct N1 as [N1 [D1 E1]].
    destruct (add_transition_spec w1 t (nt_name nx) (crta_of (snd (fst nx))) (snd nx)) as [_ [_ [Ed Hc]]].
    split; [rewrite Ed; exact D1|].
    destruct Hc as [[En [Ee [e [He Hm]]]]|[En [_ Ee]]].
    + split; [intros e0 H0; rewrite Ee, E1; exact H0|]. right. split; [exact Hnr|].
      split; [left; rewrite En; exact N1|].
      exists e. rewrite Ee. apply edge_matches_iff in Hm. destruct Hm as [M1 [M2 [M3 M4]]]. auto.
    + split; [intros e0 H0; rewrite Ee, E1; apply in_or_app; left; exact H0|]. right. split; [exact Hnr|].
      split; [right; rewrite En, N1; reflexivity|].
      eexists. split; [rewrite Ee; apply in_or_app; right; left; reflexivity|]. simpl. auto.
Qed.

Lemma step_next_doneok : forall sp rt t splits w nx w',
  Core sp w -> In t (w_done w) -> DoneOk sp rt [t] w ->
  step_next sp t splits (Val w) nx = Val w' -> DoneOk sp rt [t] w'.
Proof.
  intros sp rt t splits w nx w' C Ht [d1 d2 d3] H.
  destruct (step_next_shape sp t splits w nx w' H) as [Ed [Hmono Hc]].
  constructor; rewrite ?Ed.
  - intros t' H1 H2. eapply complete_for_mono; [exact Hmono|]. apply d1; assumption.
  - intros t' n H1 H2 Hn. assert (Hne : t' <> t) by (intro E; apply H2; left; auto).
    apply (d2 t' n H1 H2).
    destruct Hc as [[_ En]|[_ [[En|En] _]]]; rewrite En in Hn.
    + rewrite node_of_upd_other in Hn; [exact Hn|apply id_pres_retry|exact Hne].
    + exact Hn.
    + destruct (node_of t' (w_nodes w)) as [n0|] eqn:E0.
      * rewrite (node_of_add_node_some _ _ _ n0) in Hn; [exact Hn|].
        apply node_of_add_node_some. exact E0.
      * exfalso. apply node_of_none in E0. apply E0. apply (co_done sp w C). exact H1.
  - intros n Hn Hnd. destruct Hc as [[_ En]|[_ [[En|En] _]]]; rewrite En in Hn.
    + apply in_upd_node in Hn. destruct Hn as [[Hn _]|[m [Hm [Hid Hf]]]]; [apply d3; assumption|].
      exfalso. apply Hnd. subst n. simpl. rewrite Hid. exact Ht.
    + apply d3; assumption.
    + apply in_add_node in Hn. destruct Hn as [Hn|[Hn _]]; [|subst n; reflexivity].
      apply in_add_node in Hn. destruct Hn as [Hn|[Hn _]]; [apply d3; assumption|subst n; reflexivity].
Qed.

Lemma fold_step_doneok : forall sp rt t splits l w w',
  Core sp w -> In t (ids (w_nodes w)) -> reach sp t -> (forall nx, In nx l -> In nx (spec_next_tasks sp t)) ->
  In t (w_done w) -> DoneOk sp rt [t] w ->
  fold_left (step_next sp t splits) l (Val w) = Val w' -> DoneOk sp rt [t] w'.
Proof.
  intros sp rt t splits l; induction l as [|nx l IH]; intros w w' C Hi Hr Hl Ht D H; cbn [fold_left] in H.
  - injection H as H; subst; auto.
  - destruct (step_next sp t splits (Val w) nx) as [w1|e] eqn:E1; [|rewrite fold_step_exc in H; discriminate].
    destruct (step_next_core sp t splits w nx w1 C Hi Hr (Hl nx (or_introl eq_refl)) E1) as [C1 [D1 S1]].
    apply (IH w1 w' C1 (S1 t Hi) Hr (fun y Hy => Hl y (or_intror Hy))); [rewrite D1; exact Ht| |exact H].
    apply (step_next_doneok sp rt t splits w nx w1 C Ht D E1).
Qed.

(* the edges of the task being processed *)
Lemma fold_step_complete : forall sp t splits l w w',
  fold_left (step_next sp t splits) l (Val w) = Val w' ->
  (forall e, In e (w_edges w) -> In e (w_edges w')) /\
  forall nx, In nx l -> nt_name nx <> "retry" ->
    exists e, In e (w_edges w') /\ e_src e = t /\ e_dst e = nt_name nx /\ e_ref e = snd nx
              /\ e_criteria e = crta_of (snd (fst nx)).
Proof.
  intros sp t splits l; induction l as [|nx l IH]; intros w w' H; cbn [fold_left] in H.
  - injection H as H; subst. split; [auto|]. intros nx [].
  - destruct (step_next sp t splits (Val w) nx) as [w1|e] eqn:E1; [|rewrite fold_step_exc in H; discriminate].
    destruct (step_next_shape sp t splits w nx w1 E1) as [_ [M1 Hc]].
    destruct (IH w1 w' H) as [M2 Hl]. split; [intros e He; apply M2, M1, He|].
    intros nx' [Hx|Hx] Hnr; [subst nx'|apply Hl; assumption].
    destruct Hc as [[Hr _]|[_ [_ [e [He Hp]]]]]; [contradiction|]. exists e. split; [apply M2; exact He|exact Hp].
Qed.

(* the retry and barrier attributes of the task being processed *)
Lemma fold_step_attrs : forall sp t splits l w w' n,
  fold_left (step_next sp t splits) l (Val w) = Val w' -> node_of t (w_nodes w) = Some n ->
  exists n', node_of t (w_nodes w') = Some n' /\ n_retry n' = fold_left retry_upd l (n_retry n)
             /\ n_barrier n' = n_barrier n.
Proof.
  intros sp t splits l; induction l as [|nx l IH]; intros w w' n H Hn; cbn [fold_left] in H.
  - injection H as H; subst. exists n. auto.
  - destruct (step_next sp t splits (Val w) nx) as [w1|e] eqn:E1; [|rewrite fold_step_exc in H; discriminate].
    destruct (step_next_shape sp t splits w nx w1 E1) as [_ [_ Hc]].
    assert (H1 : exists n1, node_of t (w_nodes w1) = Some n1 /\ n_retry n1 = retry_upd (n_retry n) nx
                            /\ n_barrier n1 = n_barrier n).
    { unfold retry_upd. destruct Hc as [[Hr En]|[Hnr [[En|En] _]]]; rewrite En.
      - rewrite node_of_upd_same, Hn; [|apply id_pres_retry]. simpl. eexists. split; [reflexivity|].
        rewrite Hr. simpl. auto.
      - exists n. apply String.eqb_neq in Hnr. rewrite Hnr. auto.
      - exists n. apply String.eqb_neq in Hnr. rewrite Hnr. split; [|auto].
        apply node_of_add_node_some, node_of_add_node_some. exact Hn. }
    destruct H1 as [n1 [Hn1 [R1 B1]]].
    destruct (IH w1 w' n1 H Hn1) as [n' [Hn' [R' B']]]. exists n'. split; [exact Hn'|].
    simpl. rewrite R', R1, B', B1. auto.
Qed.

Lemma retry_fold_absorb : forall l,
  (forall x, fold_left retry_upd l x = x) \/ (forall x y, fold_left retry_upd l x = fold_left retry_upd l y).
Proof.
  induction l as [|nx l IH]; [left; reflexivity|]. simpl. unfold retry_upd at 2 4 6.
  destruct (String.eqb (nt_name nx) "retry"); [right; reflexivity|exact IH].
Qed.

Lemma retry_fold_idem : forall l x, x = JNull \/ x = fold_left retry_upd l JNull ->
  fold_left retry_upd l x = fold_left retry_upd l JNull.
Proof.
  intros l x [H|H]; [subst; reflexivity|]. destruct (retry_fold_absorb l) as [A|A]; [|apply A].
  rewrite !A. rewrite H. apply A.
Qed.

(* -------------------------------------------------------------- one worklist iteration *)

Lemma upd_node_id : forall t ns, upd_node t (fun n => n) ns = ns.
Proof.
  intros t ns; unfold upd_node. rewrite <- (map_id ns) at 2. apply map_ext.
  intro n; destruct (String.eqb (n_id n) t); reflexivity.
Qed.

Lemma upd_node_comp : forall t f g ns, id_preserving g ->
  upd_node t f (upd_node t g ns) = upd_node t (fun n => f (g n)) ns.
Proof.
  intros t f g ns Hg; unfold upd_node. rewrite map_map. apply map_ext. intro n.
  destruct (String.eqb (n_id n) t) eqn:E; [rewrite Hg, E; reflexivity|rewrite E; reflexivity].
Qed.

Definition popped (w : cwork) (q' : list qitem) : cwork :=
  {| w_nodes := w_nodes w; w_edges := w_edges w; w_track := w_track w; w_queue := q'; w_done := w_done w |}.

Definition started (w : cwork) (t : string) (F : gnode -> gnode) : cwork :=
  {| w_nodes := upd_node t F (add_node t (w_nodes w)); w_edges := w_edges w; w_track := w_track w;
     w_queue := w_queue w; w_done := t :: w_done w |}.

Lemma process_shape : forall sp rt w t splits w',
  process sp rt w t splits = Val w' ->
  exists ts F splits', spec_get_task sp t = Some ts /\ id_preserving F /\
    (forall n, n_barrier (F n) = if spec_is_join_task sp t then barrier_of ts else n_barrier n) /\
    (forall n, n_retry (F n) = match aget String.eqb t rt with Some r => r | None => n_retry n end) /\
    fold_left (step_next sp t splits') (spec_next_sorted sp t) (Val (started w t F)) = Val w'.
Proof.
  intros sp rt w t splits w' H. unfold process in H.
  destruct (spec_get_task sp t) as [ts|] eqn:Ets; [|discriminate].
  destruct (if spec_is_split_task sp t then in_cycle_r sp t else Val true) as [cyc|e]; [|discriminate].
  set (splits' := if cyc then splits else app splits [t]) in *.
  set (f2 := if spec_is_join_task sp t then n_set_barrier (barrier_of ts) else fun n => n).
  set (f3 := match splits' with [] => fun n => n | _ => n_set_splits splits' end).
  set (f4 := match aget String.eqb t rt with Some r => n_set_retry r | None => fun n : gnode => n end).
  assert (I2 : id_preserving f2) by (unfold f2; destruct (spec_is_join_task sp t); intro n; reflexivity).
  assert (I3 : id_preserving f3) by (unfold f3; destruct splits'; intro n; reflexivity).
  assert (I4 : id_preserving f4) by (unfold f4; destruct (aget String.eqb t rt); intro n; reflexivity).
  exists ts, (fun n => f4 (f3 (f2 n))), splits'.
  split; [reflexivity|]. split; [intro n; rewrite I4, I3, I2; reflexivity|].
  split; [intro n; unfold f4, f3, f2; destruct (aget String.eqb t rt); destruct splits';
          destruct (spec_is_join_task sp t); reflexivity|].
  split; [intro n; unfold f4, f3, f2; destruct (aget String.eqb t rt); destruct splits';
          destruct (spec_is_join_task sp t); reflexivity|].
  match type of H with
  | match fold_left _ _ (Val {| w_nodes := ?ns; w_edges := _; w_track := _; w_queue := _; w_done := _ |}) with _ => _ end = _ =>
      assert (Hns : ns = upd_node t (fun n => f4 (f3 (f2 n))) (add_node t (w_nodes w)))
  end.
  { rewrite <- (upd_node_comp t f4 (fun n => f3 (f2 n))); [|intro n; rewrite I3, I2; reflexivity].
    rewrite <- (upd_node_comp t f3 f2); [|exact I2].
    unfold f4, f3, f2. destruct (aget String.eqb t rt); destruct splits'; destruct (spec_is_join_task sp t);
      rewrite ?upd_node_id; reflexivity. }
  rewrite Hns in H. unfold started.
  destruct (fold_left _ _ _) as [w2|e]; [|discriminate]. exact H.
Qed.

Lemma pop_core : forall sp w t splits q' F,
  Core sp w -> w_queue w = (t, splits) :: q' -> id_preserving F -> Core sp (started (popped w q') t F).
Proof.
  intros sp w t splits q' F [c1 c2 c3 c4 c5 c6 c7 c8] Hq HF.
  assert (Hqn : forall x, In x (qnames w) <-> x = t \/ In x (map fst q')).
  { intro x. unfold qnames. rewrite Hq. simpl. intuition. }
  assert (Hin : forall x, In x (ids (w_nodes (started (popped w q') t F))) <-> x = t \/ In x (ids (w_nodes w))).
  { intro x. simpl. rewrite ids_upd_node by exact HF. apply in_ids_add_node. }
  assert (Hmv : forall x, In x (w_done w) \/ In x (qnames w) -> In x (t :: w_done w) \/ In x (map fst q')).
  { intros x [H|H]; [left; right; exact H|]. apply Hqn in H. destruct H as [H|H]; [left; left; auto|auto]. }
  constructor; unfold qnames; simpl.
  - rewrite ids_upd_node by exact HF. apply nodup_add_node. exact c1.
  - intros e He. destruct (c2 e He) as [H1 [H2 H3]]. split; [exact H1|].
    rewrite ids_upd_node by exact HF. rewrite !in_ids_add_node. auto.
  - exact c3.
  - intros x Hx. apply (Hin x) in Hx. destruct Hx as [Hx|Hx]; [left; left; auto|apply Hmv, c4, Hx].
  - intros d s H1 H2. apply Hmv. apply (c5 d s H1 H2).
  - intros x [Hx|[Hx|Hx]].
    + apply (Hin x) in Hx. destruct Hx as [Hx|Hx]; [|apply c6; auto].
      subst x. apply c6. right. right. apply Hqn. auto.
    + destruct Hx as [Hx|Hx]; [|apply c6; auto]. subst x. apply c6. right. right. apply Hqn. auto.
    + apply c6. right. right. apply Hqn. auto.
  - intros s Hs. apply Hmv, c7, Hs.
  - intros x [Hx|Hx]; apply (Hin x); [left; auto|right; apply c8; exact Hx].
Qed.

Lemma pop_doneok : forall sp rt w t q' F,
  Core sp w -> DoneOk sp rt [] w -> id_preserving F -> DoneOk sp rt [t] (started (popped w q') t F).
Proof.
  intros sp rt w t q' F C [d1 d2 d3] HF. constructor; simpl.
  - intros t' [H1|H1] H2; [exfalso; apply H2; left; exact H1|]. apply d1; [exact H1|intros []].
  - intros t' n [H1|H1] H2 Hn; [exfalso; apply H2; left; exact H1|].
    assert (Hne : t' <> t) by (intro E; apply H2; left; auto).
    rewrite node_of_upd_other in Hn by assumption.
    apply (d2 t' n H1); [intros []|].
    destruct (node_of t' (w_nodes w)) as [n0|] eqn:E0.
    + rewrite (node_of_add_node_some _ _ _ n0 E0) in Hn. exact Hn.
    + exfalso. apply node_of_none in E0. apply E0. apply (co_done sp w C). exact H1.
  - intros n Hn Hnd. apply in_upd_node in Hn. destruct Hn as [[Hn Hid]|[m [Hm [Hid Hf]]]].
    + apply in_add_node in Hn. destruct Hn as [Hn|[Hn _]]; [|subst n; reflexivity].
      apply d3; [exact Hn|]. intro Hd. apply Hnd. right. exact Hd.
    + exfalso. apply Hnd. left. subst n. rewrite HF. auto.
Qed.

Lemma spec_join_barrier : forall sp t ts, spec_get_task sp t = Some ts ->
  exp_barrier sp t = if spec_is_join_task sp t then barrier_of ts else JNull.
Proof.
  intros sp t ts H. unfold exp_barrier, spec_is_join_task. rewrite H.
  destruct (is_jnull (ts_join ts)); reflexivity.
Qed.

Lemma process_inv : forall sp rt w t splits q' w',
  Core sp w -> DoneOk sp rt [] w -> w_queue w = (t, splits) :: q' ->
  process sp rt (popped w q') t splits = Val w' -> Core sp w' /\ DoneOk sp rt [] w'.
Proof.
  intros sp rt w t splits q' w' C D Hq H.
  destruct (process_shape sp rt (popped w q') t splits w' H) as [ts [F [splits' [Ets [HF [HB [HR Hfold]]]]]]].
  set (w1 := started (popped w q') t F) in *.
  assert (C1 : Core sp w1) by (eapply pop_core; eauto).
  assert (D1 : DoneOk sp rt [t] w1) by (apply pop_doneok; assumption).
  assert (Hi : In t (ids (w_nodes w1))).
  { simpl. rewrite ids_upd_node by exact HF. apply in_ids_add_node. auto. }
  assert (Hr : reach sp t).
  { apply (co_reach sp w C). right. right. unfold qnames. rewrite Hq. left. reflexivity. }
  assert (Hl : forall nx, In nx (spec_next_sorted sp t) -> In nx (spec_next_tasks sp t)).
  { intros nx Hnx. unfold spec_next_sorted in Hnx. apply in_sort_by in Hnx. exact Hnx. }
  destruct (fold_step_core sp t splits' _ w1 w' C1 Hi Hr Hl Hfold) as [C' [Ed' Hsub]].
  split; [exact C'|].
  assert (Ht1 : In t (w_done w1)) by (left; reflexivity).
  pose proof (fold_step_doneok sp rt t splits' _ w1 w' C1 Hi Hr Hl Ht1 D1 Hfold) as D'.
  destruct (fold_step_complete sp t splits' _ w1 w' Hfold) as [_ Hcomp].
  (* the node of t when its processing starts *)
  assert (H0 : exists n0, node_of t (add_node t (w_nodes w)) = Some n0 /\
                          (n_barrier n0 = JNull \/ n_barrier n0 = exp_barrier sp t) /\
                          (n_retry n0 = JNull \/ n_retry n0 = exp_retry sp rt t)).
  { destruct (node_of t (w_nodes w)) as [n0|] eqn:E0.
    - exists n0. split; [apply node_of_add_node_some; exact E0|].
      destruct (node_of_some_in _ _ _ E0) as [Hin Hid].
      destruct (in_dec string_dec t (w_done w)) as [Hd|Hd].
      + destruct (do_attrs sp rt [] w D t n0 Hd (fun x => x) E0) as [A1 A2]. rewrite Hid in A1, A2. auto.
      + rewrite <- Hid in Hd. rewrite (do_fresh sp rt [] w D n0 Hin Hd). simpl. auto.
    - exists (mk_node t). split; [apply node_of_add_node_new, node_of_none; exact E0|]. simpl. auto. }
  destruct H0 as [n0 [Hn0 [B0 R0]]].
  assert (Hn1 : node_of t (w_nodes w1) = Some (F n0)).
  { simpl. rewrite node_of_upd_same by exact HF. rewrite Hn0. reflexivity. }
  destruct (fold_step_attrs sp t splits' _ w1 w' (F n0) Hfold Hn1) as [n' [Hn' [R' B']]].
  destruct D' as [e1 e2 e3].
  constructor.
  - intros t' H1 _. destruct (string_dec t' t) as [E|E].
    + subst t'. intros d wn i Hin Hnr.
      assert (Hs : In (d, wn, i) (spec_next_sorted sp t)) by (apply in_sort_by; exact Hin).
      destruct (Hcomp (d, wn, i) Hs Hnr) as [e [He Hp]]. exists e. auto.
    + apply e1; [exact H1|]. intros [X|[]]. apply E. auto.
  - intros t' n H1 _ Hn. destruct (string_dec t' t) as [E|E].
    + subst t'. rewrite Hn' in Hn. injection Hn as Hn. subst n'.
      destruct (node_of_some_in _ _ _ Hn') as [_ Hid]. unfold attrs_ok. rewrite Hid. split.
      * rewrite B', HB. rewrite (spec_join_barrier sp t ts Ets).
        destruct (spec_is_join_task sp t) eqn:Ej; [reflexivity|].
        destruct B0 as [B0|B0]; rewrite B0; [reflexivity|].
        rewrite (spec_join_barrier sp t ts Ets), Ej. reflexivity.
      * rewrite R', HR. unfold exp_retry. destruct (aget String.eqb t rt) as [r|] eqn:Er; [reflexivity|].
        apply retry_fold_idem. unfold exp_retry in R0. rewrite Er in R0. exact R0.
    + apply (e2 t' n H1); [|exact Hn]. intros [X|[]]. apply E. auto.
  - exact e3.
Qed.

Lemma compose_loop_inv : forall sp rt fuel w w',
  Core sp w -> DoneOk sp rt [] w -> compose_loop sp rt fuel w = Val w' ->
  Core sp w' /\ DoneOk sp rt [] w' /\ w_queue w' = [].
Proof.
  intros sp rt fuel; induction fuel as [|f IH]; intros w w' C D H; simpl in H.
  - destruct (w_queue w) as [|[t s] q'] eqn:Eq; [injection H as H; subst; auto|discriminate].
  - destruct (w_queue w) as [|[t s] q'] eqn:Eq; [injection H as H; subst; auto|].
    destruct (process sp rt _ t s) as [w1|e] eqn:Ep; [|discriminate].
    destruct (process_inv sp rt w t s q' w1 C D Eq Ep) as [C1 D1].
    apply (IH w1 w' C1 D1 H).
Qed.

Lemma init_core : forall sp, Core sp (compose_init sp).
Proof.
  intro sp.
  assert (Hq : qnames (compose_init sp) = spec_start_tasks sp).
  { unfold qnames, compose_init; simpl. rewrite map_map. simpl. apply map_id. }
  constructor; rewrite ?Hq; simpl.
  - constructor.
  - intros e [].
  - apply keyed_nil.
  - intros x [].
  - intros d s H; discriminate.
  - intros x [[]|[[]|Hx]]. apply reach_start. exact Hx.
  - auto.
  - intros t [].
Qed.

Lemma init_doneok : forall sp rt, DoneOk sp rt [] (compose_init sp).
Proof. intros sp rt. constructor; simpl; intros; contradiction. Qed.

Theorem compose_work_inv : forall sp rt fuel w,
  compose_work sp rt fuel = Val w -> Core sp w /\ DoneOk sp rt [] w /\ w_queue w = [].
Proof.
  intros sp rt fuel w H. unfold compose_work in H.
  apply (compose_loop_inv sp rt fuel _ w (init_core sp) (init_doneok sp rt) H).
Qed.

(* ------------------------------------------------------------- the networkx edge order *)

Lemma in_nx_edges : forall e ns es, In e (nx_edges ns es) <-> In e es /\ In (e_src e) (ids ns).
Proof.
  intros e ns es. unfold nx_edges, ids. rewrite in_flat_map. split.
  - intros [n [Hn He]]. apply filter_In in He. destruct He as [He Hs]. apply String.eqb_eq in Hs.
    split; [exact He|]. apply in_map_iff. exists n. auto.
  - intros [He Hs]. apply in_map_iff in Hs. destruct Hs as [n [Hid Hn]]. exists n. split; [exact Hn|].
    apply filter_In. split; [exact He|]. apply String.eqb_eq. auto.
Qed.

Lemma filter_between_src : forall s d t es,
  filter (edge_between s d) (filter (fun e => String.eqb (e_src e) t) es) =
  if String.eqb t s then filter (edge_between s d) es else [].
Proof.
  intros s d t es. induction es as [|e es IH]; simpl; [destruct (String.eqb t s); reflexivity|].
  destruct (String.eqb (e_src e) t) eqn:E1; simpl; rewrite IH; unfold edge_between.
  - apply String.eqb_eq in E1. rewrite E1. rewrite (String.eqb_sym t s).
    destruct (String.eqb s t); simpl; reflexivity.
  - destruct (String.eqb t s) eqn:E2; [|reflexivity]. apply String.eqb_eq in E2. subst t.
    rewrite E1. reflexivity.
Qed.

Lemma filter_between_nx : forall s d ns es, NoDup (ids ns) ->
  filter (edge_between s d) (nx_edges ns es) =
  if has_node s ns then filter (edge_between s d) es else [].
Proof.
  intros s d ns es. induction ns as [|n ns IH]; intro H; [reflexivity|].
  simpl in H. inversion H as [|x l Hx Hl]; subst.
  unfold nx_edges in *. simpl. rewrite filter_app, filter_between_src, IH by exact Hl.
  destruct (String.eqb (n_id n) s) eqn:E; simpl.
  - apply String.eqb_eq in E. subst s.
    destruct (has_node (n_id n) ns) eqn:Eh; [apply has_node_in in Eh; contradiction|]. apply app_nil_r.
  - reflexivity.
Qed.

Lemma nodup_app_intro : forall A (l1 l2 : list A),
  NoDup l1 -> NoDup l2 -> (forall x, In x l1 -> ~ In x l2) -> NoDup (app l1 l2).
Proof.
  intros A l1 l2 H1 H2 Hd. induction H1 as [|x l Hx Hl IH]; simpl; [exact H2|].
  constructor.
  - intro Hin. apply in_app_or in Hin. destruct Hin as [Hin|Hin]; [contradiction|].
    apply (Hd x); [left; reflexivity|exact Hin].
  - apply IH. intros y Hy. apply Hd. right. exact Hy.
Qed.

Lemma nodup_map_filter : forall A B (f : A -> B) p l, NoDup (map f l) -> NoDup (map f (filter p l)).
Proof.
  intros A B f p l. induction l as [|x l IH]; simpl; intro H; [constructor|].
  inversion H as [|y m Hy Hm]; subst. destruct (p x); simpl; [|apply IH; exact Hm].
  constructor; [|apply IH; exact Hm]. intro Hin. apply Hy. apply in_map_iff in Hin.
  destruct Hin as [z [Hz Hin]]. apply filter_In in Hin. apply in_map_iff. exists z. tauto.
Qed.

Lemma nodup_nx_edges : forall ns es, NoDup (ids ns) -> NoDup (map ident1 es) ->
  NoDup (map ident1 (nx_edges ns es)).
Proof.
  intros ns es Hn He. induction ns as [|n ns IH]; [constructor|].
  simpl in Hn. inversion Hn as [|x l Hx Hl]; subst.
  unfold nx_edges in *. simpl. rewrite map_app. apply nodup_app_intro.
  - apply nodup_map_filter. exact He.
  - apply IH. exact Hl.
  - intros x H1 H2. apply in_map_iff in H1. destruct H1 as [e1 [E1 H1]]. apply filter_In in H1.
    destruct H1 as [_ H1]. apply String.eqb_eq in H1.
    apply in_map_iff in H2. destruct H2 as [e2 [E2 H2]].
    apply (in_nx_edges e2 ns es) in H2. destruct H2 as [_ H2].
    apply Hx. subst x. unfold ident1 in E2. injection E2 as S2 _ _ _. rewrite <- H1, <- S2. exact H2.
Qed.

Definition ident2 (e : gedge) := (e_src e, e_dst e, e_key e).

Lemma keys_nodup_ident2 : forall es,
  (forall s d, NoDup (map e_key (filter (edge_between s d) es))) -> NoDup (map ident2 es).
Proof.
  induction es as [|e es IH]; intro H; simpl; [constructor|].
  constructor.
  - intro Hin. apply in_map_iff in Hin. destruct Hin as [e' [E Hin]].
    unfold ident2 in E. injection E as E1 E2 E3.
    pose proof (H (e_src e) (e_dst e)) as K. simpl in K.
    assert (B : edge_between (e_src e) (e_dst e) e = true) by (apply edge_between_iff; auto).
    rewrite B in K. simpl in K. inversion K as [|x l Kx Kl]; subst. apply Kx.
    apply in_map_iff. exists e'. split; [exact E3|]. apply filter_In. split; [exact Hin|].
    apply edge_between_iff. auto.
  - apply IH. intros s d. pose proof (H s d) as K. simpl in K.
    destruct (edge_between s d e); [simpl in K; inversion K; assumption|exact K].
Qed.

Lemma node_of_in_nodup : forall n ns, NoDup (ids ns) -> In n ns -> node_of (n_id n) ns = Some n.
Proof.
  intros n ns. unfold node_of. induction ns as [|m ns IH]; simpl; intros Hnd Hin; [contradiction|].
  inversion Hnd as [|x l Hx Hl]; subst. destruct Hin as [Hin|Hin].
  - subst m. rewrite String.eqb_refl. reflexivity.
  - destruct (String.eqb (n_id m) (n_id n)) eqn:E.
    + exfalso. apply Hx. apply String.eqb_eq in E. rewrite E. apply in_map. exact Hin.
    + apply IH; assumption.
Qed.

(* ----------------------------------------------------------------- start tasks / roots *)

Lemma in_start_tasks : forall sp t,
  In t (spec_start_tasks sp) <-> In t (map fst (wf_tasks sp)) /\ spec_prev_count sp t = 0.
Proof.
  intros sp t. unfold spec_start_tasks. rewrite in_sort_by, filter_In, Nat.eqb_eq. tauto.
Qed.

Lemma aget_in : forall (V : Type) (k : string) (l : list (string * V)) v,
  aget String.eqb k l = Some v -> In (k, v) l.
Proof.
  intros V k l v. induction l as [|[k' v'] l IH]; simpl; [discriminate|].
  destruct (String.eqb k k') eqn:E.
  - intro H. injection H as H. subst. apply String.eqb_eq in E. subst. left. reflexivity.
  - intro H. right. apply IH. exact H.
Qed.

Lemma next_tasks_declared : forall sp s x, In x (spec_next_tasks sp s) -> In s (map fst (wf_tasks sp)).
Proof.
  intros sp s x H. unfold spec_next_tasks, spec_get_task in H.
  destruct (string_in s RESERVED_TASK_NAMES); [simpl in H; contradiction|].
  destruct (aget String.eqb s (wf_tasks sp)) as [ts|] eqn:E; [|contradiction].
  apply aget_in in E. apply in_map_iff. exists (s, ts). auto.
Qed.

Lemma prev_count_pos : forall sp s t w i, In (t, w, i) (spec_next_tasks sp s) -> spec_prev_count sp t <> 0.
Proof.
  intros sp s t w i H. pose proof (next_tasks_declared sp s _ H) as Hs.
  apply in_map_iff in Hs. destruct Hs as [[s' ts] [E Hs]]. simpl in E. subst s'.
  unfold spec_prev_count. intro Hz. apply length_zero_iff_nil in Hz.
  assert (X : In (t, w, i) (flat_map (fun '(n, _) => filter (fun '(d, _, _) => String.eqb d t) (spec_next_tasks sp n))
                                     (wf_tasks sp))).
  { apply in_flat_map. exists (s, ts). split; [exact Hs|]. apply filter_In. split; [exact H|apply String.eqb_refl]. }
  rewrite Hz in X. exact X.
Qed.

(* ---------------------------------------------------------------------- the theorems *)

Section Composed.
  Variable sp : wf_spec.
  Variable rt : list (string * json).
  Variable fuel : nat.
  Variable g : graph.
  Hypothesis Hg : compose sp rt fuel = Val g.

  Lemma composed_work : exists w, g = graph_of_work w /\ Core sp w /\ DoneOk sp rt [] w /\ w_queue w = [].
  Proof.
    unfold compose in Hg. destruct (compose_work sp rt fuel) as [w|e] eqn:E; [|discriminate].
    injection Hg as Hg'. exists w. split; [auto|]. apply (compose_work_inv sp rt fuel w E).
  Qed.

  Lemma all_done : forall w, Core sp w -> w_queue w = [] -> forall t, In t (ids (w_nodes w)) -> In t (w_done w).
  Proof.
    intros w C Hq t Ht. destruct (co_nodes sp w C t Ht) as [H|H]; [exact H|].
    unfold qnames in H. rewrite Hq in H. contradiction.
  Qed.

  Theorem edges_sound : forall e, In e (g_edges g) ->
    triple_ok sp e /\ In (e_src e) (map n_id (g_nodes g)) /\ In (e_dst e) (map n_id (g_nodes g)).
  Proof.
    destruct composed_work as [w [Eg [C [D Hq]]]]. subst g. simpl. intros e He.
    apply in_nx_edges in He. destruct He as [He _]. apply (co_sound sp w C e He).
  Qed.

  Theorem edges_complete : forall t d w i,
    In t (map n_id (g_nodes g)) -> In (d, w, i) (spec_next_tasks sp t) -> d <> "retry" ->
    exists e, In e (g_edges g) /\ e_src e = t /\ e_dst e = d /\ e_ref e = i /\ e_criteria e = crta_of w.
  Proof.
    destruct composed_work as [w0 [Eg [C [D Hq]]]]. subst g. simpl. intros t d w i Ht Hin Hnr.
    pose proof (all_done w0 C Hq t Ht) as Hd.
    destruct (do_complete sp rt [] w0 D t Hd (fun x => x) d w i Hin Hnr) as [e [He [E1 Hp]]].
    exists e. split; [|auto]. apply in_nx_edges. split; [exact He|]. rewrite E1. exact Ht.
  Qed.

  Theorem edges_unique :
    NoDup (map (fun e => (e_src e, e_dst e, e_criteria e, e_ref e)) (g_edges g)) /\
    NoDup (map (fun e => (e_src e, e_dst e, e_key e)) (g_edges g)).
  Proof.
    destruct composed_work as [w [Eg [C [D Hq]]]]. subst g. simpl.
    destruct (co_keyed sp w C) as [K U]. split.
    - apply (nodup_nx_edges _ _ (co_nodup sp w C) U).
    - apply keys_nodup_ident2. intros s d. rewrite filter_between_nx by apply (co_nodup sp w C).
      destruct (has_node s (w_nodes w)); [|constructor]. rewrite K. apply seq_NoDup.
  Qed.

  Theorem edge_keys_dense : forall s d,
    map e_key (filter (edge_between s d) (g_edges g)) = seq 0 (length (filter (edge_between s d) (g_edges g))).
  Proof.
    destruct composed_work as [w [Eg [C [D Hq]]]]. subst g. simpl. intros s d.
    rewrite filter_between_nx by apply (co_nodup sp w C).
    destruct (has_node s (w_nodes w)); [|reflexivity]. apply (co_keyed sp w C).
  Qed.

  Theorem nodes_exact :
    NoDup (map n_id (g_nodes g)) /\ forall t, In t (map n_id (g_nodes g)) <-> reach sp t.
  Proof.
    destruct composed_work as [w [Eg [C [D Hq]]]]. subst g. simpl.
    split; [apply (co_nodup sp w C)|]. intro t. split.
    - intro Ht. apply (co_reach sp w C). left. exact Ht.
    - intro Hr. induction Hr as [t Hs|t d wn i Hr IH Hin Hnr].
      + apply (co_done sp w C). destruct (co_start sp w C t Hs) as [H|H]; [exact H|].
        unfold qnames in H. rewrite Hq in H. contradiction.
      + pose proof (all_done w C Hq t IH) as Hd.
        destruct (do_complete sp rt [] w D t Hd (fun x => x) d wn i Hin Hnr) as [e [He [E1 [E2 _]]]].
        destruct (co_sound sp w C e He) as [_ [_ H3]]. rewrite E2 in H3. exact H3.
  Qed.

  Theorem roots_exact : forall t, In t (g_roots g) <-> In t (spec_start_tasks sp).
  Proof.
    intro t. unfold g_roots. rewrite in_sort_by, in_map_iff. split.
    - intros [n [Hid Hn]]. apply filter_In in Hn. destruct Hn as [Hn Hne].
      assert (Hnode : In t (map n_id (g_nodes g))) by (apply in_map_iff; eauto).
      apply (proj2 nodes_exact) in Hnode. destruct Hnode as [t Hs|t0 d wn i Hr Hin Hnr]; [exact Hs|].
      exfalso. apply (proj2 nodes_exact) in Hr.
      destruct (edges_complete t0 d wn i Hr Hin Hnr) as [e [He [_ [E2 _]]]].
      assert (X : existsb (fun e => String.eqb (e_dst e) (n_id n)) (g_edges g) = true).
      { apply existsb_exists. exists e. split; [exact He|]. apply String.eqb_eq. rewrite E2, Hid. reflexivity. }
      rewrite X in Hne. discriminate.
    - intro Hs. assert (Hnode : In t (map n_id (g_nodes g))) by (apply (proj2 nodes_exact), reach_start, Hs).
      apply in_map_iff in Hnode. destruct Hnode as [n [Hid Hn]]. exists n. split; [exact Hid|].
      apply filter_In. split; [exact Hn|]. apply negb_true_iff.
      destruct (existsb _ (g_edges g)) eqn:E; [|reflexivity]. exfalso.
      apply existsb_exists in E. destruct E as [e [He Hd]]. apply String.eqb_eq in Hd.
      destruct (edges_sound e He) as [[wn [Hin _]] _].
      apply in_start_tasks in Hs. destruct Hs as [_ Hz].
      apply (prev_count_pos sp (e_src e) t wn (e_ref e)); [|exact Hz]. rewrite <- Hid, <- Hd. exact Hin.
  Qed.

  Theorem attributes_exact : forall n, In n (g_nodes g) -> attrs_ok sp rt n.
  Proof.
    destruct composed_work as [w [Eg [C [D Hq]]]]. subst g. simpl. intros n Hn.
    assert (Hid : In (n_id n) (ids (w_nodes w))) by (apply in_map; exact Hn).
    apply (do_attrs sp rt [] w D (n_id n) n (all_done w C Hq _ Hid) (fun x => x)).
    apply node_of_in_nodup; [apply (co_nodup sp w C)|exact Hn].
  Qed.
End Composed.

(* ------------------------------------------------------- serialize / deserialize (typed) *)

Lemma combine_map_self : forall A B (f : A -> B) l, combine l (map f l) = map (fun x => (x, f x)) l.
Proof. intros A B f l; induction l as [|x l IH]; simpl; [reflexivity|rewrite IH; reflexivity]. Qed.

Lemma edge_adj_eta : forall e, edge_of_adj (e_src e) (adj_of_edge e) = e.
Proof. intros [s d k r c]; reflexivity. Qed.

(* restoring a serialised graph keeps the node list and exactly the edges whose source is a node,
   each with its key, ref and criteria *)
Theorem persist_edges : forall g,
  g_nodes (g_deserialize (g_serialize g)) = g_nodes g /\
  forall e, In e (g_edges (g_deserialize (g_serialize g))) <->
            In e (g_edges g) /\ In (e_src e) (map n_id (g_nodes g)).
Proof.
  intro g. split; [reflexivity|]. intro e. unfold g_deserialize, g_serialize; simpl.
  rewrite combine_map_self, flat_map_concat_map, map_map, <- flat_map_concat_map, in_flat_map. split.
  - intros [n [Hn He]]. apply in_map_iff in He. destruct He as [a [Ea Ha]].
    apply in_sort_by in Ha. apply in_map_iff in Ha. destruct Ha as [e0 [E0 H0]].
    unfold g_out_edges in H0. apply filter_In in H0. destruct H0 as [H0 Hs]. apply String.eqb_eq in Hs.
    subst a e. rewrite <- Hs, edge_adj_eta. split; [exact H0|]. rewrite Hs. apply in_map. exact Hn.
  - intros [He Hs]. apply in_map_iff in Hs. destruct Hs as [n [Hid Hn]]. exists n. split; [exact Hn|].
    apply in_map_iff. exists (adj_of_edge e). split; [rewrite Hid; apply edge_adj_eta|].
    apply in_sort_by. apply in_map. unfold g_out_edges. apply filter_In. split; [exact He|].
    apply String.eqb_eq. auto.
Qed.

(* ------------------------------------------------------------- String.leb is a total order *)

Lemma string_leb_iff : forall a b, String.leb a b = true <-> a = b \/ String_as_OT.lt a b.
Proof.
  intros a b. unfold String.leb.
  pose proof (String_as_OT.cmp_eq a b) as He. pose proof (String_as_OT.cmp_lt a b) as Hl.
  unfold String_as_OT.cmp in *. destruct (String.compare a b) eqn:E; split; intro H; try reflexivity; try discriminate.
  - left. apply He. reflexivity.
  - right. apply Hl. reflexivity.
  - destruct H as [H|H]; [apply He in H; discriminate|apply Hl in H; discriminate].
Qed.

Lemma string_leb_trans : forall a b c, String.leb a b = true -> String.leb b c = true -> String.leb a c = true.
Proof.
  intros a b c H1 H2. apply string_leb_iff in H1. apply string_leb_iff in H2. apply string_leb_iff.
  destruct H1 as [H1|H1]; [subst; exact H2|]. destruct H2 as [H2|H2]; [subst; right; exact H1|].
  right. eapply String_as_OT.lt_trans; eauto.
Qed.

Lemma string_leb_refl : forall a, String.leb a a = true.
Proof. intro a. apply string_leb_iff. left. reflexivity. Qed.

(* ------------------------------------------------------------------- insertion sort facts *)

Section SortFacts.
  Context {A : Type} (leb : A -> A -> bool).
  Hypothesis leb_total : forall a b, leb a b = true \/ leb b a = true.
  Hypothesis leb_trans : forall a b c, leb a b = true -> leb b c = true -> leb a c = true.

  Definition lesorted : list A -> Prop := StronglySorted (fun a b => leb a b = true).

  Lemma insert_sorted_lesorted : forall x l, lesorted l -> lesorted (insert_sorted leb x l).
  Proof.
    intros x l H. induction H as [|y l Hl IH Hy]; simpl.
    - constructor; constructor.
    - destruct (leb y x) eqn:E.
      + constructor; [exact IH|]. apply Forall_forall. intros z Hz. apply in_insert_sorted in Hz.
        destruct Hz as [Hz|Hz]; [subst; exact E|]. rewrite Forall_forall in Hy. apply Hy. exact Hz.
      + assert (Hxy : leb x y = true) by (destruct (leb_total x y) as [T|T]; [exact T|congruence]).
        constructor; [constructor; assumption|]. constructor; [exact Hxy|].
        apply Forall_forall. intros z Hz. rewrite Forall_forall in Hy. eapply leb_trans; [exact Hxy|apply Hy; exact Hz].
  Qed.

  Lemma sort_by_lesorted : forall l, lesorted (sort_by leb l).
  Proof.
    intro l. unfold sort_by.
    assert (H : forall acc, lesorted acc -> lesorted (fold_left (fun acc x => insert_sorted leb x acc) l acc)).
    { induction l as [|x l IH]; intros acc Ha; simpl; [exact Ha|]. apply IH. apply insert_sorted_lesorted. exact Ha. }
    apply H. constructor.
  Qed.

  Lemma insert_at_end : forall x l, (forall y, In y l -> leb y x = true) -> insert_sorted leb x l = app l [x].
  Proof.
    intros x l. induction l as [|y l IH]; intro H; simpl; [reflexivity|].
    rewrite (H y (or_introl eq_refl)). rewrite IH; [reflexivity|]. intros z Hz. apply H. right. exact Hz.
  Qed.

  Lemma lesorted_app_elim : forall l1 l2, lesorted (app l1 l2) -> forall x y, In x l1 -> In y l2 -> leb x y = true.
  Proof.
    induction l1 as [|a l1 IH]; intros l2 H x y Hx Hy; [contradiction|].
    simpl in H. inversion H as [|b m Hm Hb]; subst. destruct Hx as [Hx|Hx].
    - subst. rewrite Forall_forall in Hb. apply Hb. apply in_or_app. right. exact Hy.
    - eapply IH; eauto.
  Qed.

  Lemma sort_by_lesorted_id : forall l, lesorted l -> sort_by leb l = l.
  Proof.
    intros l H. unfold sort_by.
    assert (G : forall l acc, lesorted (app acc l) ->
                fold_left (fun acc x => insert_sorted leb x acc) l acc = app acc l).
    { clear l H. induction l as [|x l IH]; intros acc Ha; simpl; [symmetry; apply app_nil_r|].
      rewrite insert_at_end.
      - rewrite IH; rewrite <- app_assoc; [reflexivity|exact Ha].
      - intros y Hy. apply (lesorted_app_elim acc (x :: l) Ha y x Hy). left. reflexivity. }
    apply (G l []). exact H.
  Qed.

  Lemma sort_by_idem : forall l, sort_by leb (sort_by leb l) = sort_by leb l.
  Proof. intro l. apply sort_by_lesorted_id, sort_by_lesorted. Qed.

  Lemma perm_insert_sorted : forall x l, Permutation (insert_sorted leb x l) (x :: l).
  Proof.
    intros x l. induction l as [|y l IH]; simpl; [apply Permutation_refl|].
    destruct (leb y x); [|apply Permutation_refl].
    eapply Permutation_trans; [apply perm_skip; exact IH|apply perm_swap].
  Qed.

  Lemma perm_sort_by : forall l, Permutation (sort_by leb l) l.
  Proof.
    intro l. unfold sort_by.
    assert (H : forall acc, Permutation (fold_left (fun acc x => insert_sorted leb x acc) l acc) (app acc l)).
    { induction l as [|x l IH]; intro acc; simpl; [rewrite app_nil_r; apply Permutation_refl|].
      eapply Permutation_trans; [apply IH|]. eapply Permutation_trans; [apply Permutation_app_tail, perm_insert_sorted|].
      simpl. apply Permutation_middle. }
    apply (H []).
  Qed.

  Hypothesis leb_antisym : forall a b, leb a b = true -> leb b a = true -> a = b.

  Lemma lesorted_perm_eq : forall l1 l2, lesorted l1 -> lesorted l2 -> Permutation l1 l2 -> l1 = l2.
  Proof.
    induction l1 as [|a l1 IH]; intros l2 H1 H2 P.
    - apply Permutation_nil in P. subst. reflexivity.
    - destruct l2 as [|b l2]; [apply Permutation_sym, Permutation_nil in P; discriminate|].
      inversion H1 as [|x m Hm Ha]; subst. inversion H2 as [|x m Hm2 Hb]; subst.
      rewrite Forall_forall in Ha, Hb.
      assert (Hab : a = b).
      { assert (Ia : In a (b :: l2)) by (eapply Permutation_in; [exact P|left; reflexivity]).
        assert (Ib : In b (a :: l1)) by (eapply Permutation_in; [apply Permutation_sym; exact P|left; reflexivity]).
        destruct Ia as [Ia|Ia]; [auto|]. destruct Ib as [Ib|Ib]; [auto|].
        apply leb_antisym; [apply Ha; exact Ib|apply Hb; exact Ia]. }
      subst b. f_equal. apply IH; [assumption|assumption|]. eapply Permutation_cons_inv. exact P.
  Qed.

  Lemma sort_by_perm : forall l1 l2, Permutation l1 l2 -> sort_by leb l1 = sort_by leb l2.
  Proof.
    intros l1 l2 P. apply lesorted_perm_eq; try apply sort_by_lesorted.
    eapply Permutation_trans; [apply perm_sort_by|]. eapply Permutation_trans; [exact P|].
    apply Permutation_sym, perm_sort_by.
  Qed.
End SortFacts.

(* --------------------------------------------------- serialize o deserialize o serialize *)

Lemma adj_leb_total : forall a b, adj_leb a b = true \/ adj_leb b a = true.
Proof. intros a b. unfold adj_leb. apply String.leb_total. Qed.
Lemma adj_leb_trans : forall a b c, adj_leb a b = true -> adj_leb b c = true -> adj_leb a c = true.
Proof. intros a b c. unfold adj_leb. apply string_leb_trans. Qed.

Lemma adj_edge_eta : forall t a, adj_of_edge (edge_of_adj t a) = a.
Proof. intros t [i k r c]; reflexivity. Qed.

Lemma filter_src_block : forall t s (l : list sadj),
  filter (fun e => String.eqb (e_src e) t) (map (edge_of_adj s) l) =
  if String.eqb s t then map (edge_of_adj s) l else [].
Proof.
  intros t s l. induction l as [|a l IH]; simpl; [destruct (String.eqb s t); reflexivity|].
  rewrite IH. destruct (String.eqb s t); reflexivity.
Qed.

Lemma out_edges_restored : forall (A : gnode -> list sadj) ns n,
  NoDup (map n_id ns) -> In n ns -> (forall m, n_id m = n_id n -> A m = A n) ->
  filter (fun e => String.eqb (e_src e) (n_id n))
         (flat_map (fun m => map (edge_of_adj (n_id m)) (A m)) ns) = map (edge_of_adj (n_id n)) (A n).
Proof.
  intros A ns n. induction ns as [|m ns IH]; intros Hnd Hin HA; [contradiction|].
  simpl in Hnd. inversion Hnd as [|x l Hx Hl]; subst. simpl. rewrite filter_app, filter_src_block.
  destruct (String.eqb (n_id m) (n_id n)) eqn:E.
  - apply String.eqb_eq in E. rewrite (HA m E), E.
    assert (Z : filter (fun e => String.eqb (e_src e) (n_id n))
                       (flat_map (fun m => map (edge_of_adj (n_id m)) (A m)) ns) = []).
    { clear IH Hin Hnd. induction ns as [|k ns IHk]; [reflexivity|]. simpl.
      rewrite filter_app, filter_src_block.
      destruct (String.eqb (n_id k) (n_id n)) eqn:Ek.
      - exfalso. apply Hx. apply String.eqb_eq in Ek. rewrite E, <- Ek. left. reflexivity.
      - simpl. apply IHk; [intro H; apply Hx; right; exact H|]. inversion Hl; assumption. }
    rewrite Z. apply app_nil_r.
  - destruct Hin as [Hin|Hin]; [subst m; rewrite String.eqb_refl in E; discriminate|].
    simpl. apply IH; assumption.
Qed.

Lemma out_edges_deserialized : forall g n, NoDup (map n_id (g_nodes g)) -> In n (g_nodes g) ->
  g_out_edges (g_deserialize (g_serialize g)) (n_id n) =
  map (edge_of_adj (n_id n)) (sort_by adj_leb (map adj_of_edge (g_out_edges g (n_id n)))).
Proof.
  intros g n Hnd Hn. unfold g_out_edges at 1. unfold g_deserialize, g_serialize. simpl.
  rewrite combine_map_self, flat_map_concat_map, map_map, <- flat_map_concat_map.
  apply (out_edges_restored (fun m => sort_by adj_leb (map adj_of_edge (g_out_edges g (n_id m)))) _ n Hnd Hn).
  intros m Hm. rewrite Hm. reflexivity.
Qed.

Theorem serialize_roundtrip : forall g, NoDup (map n_id (g_nodes g)) ->
  g_serialize (g_deserialize (g_serialize g)) = g_serialize g.
Proof.
  intros g Hnd.
  assert (H : sg_adj (g_serialize (g_deserialize (g_serialize g))) = sg_adj (g_serialize g)).
  { simpl. apply map_ext_in. intros n Hn. rewrite (out_edges_deserialized g n Hnd Hn).
    rewrite map_map. rewrite (map_ext _ (fun a => a)) by (intro a; apply adj_edge_eta). rewrite map_id.
    apply sort_by_idem; [apply adj_leb_total|apply adj_leb_trans]. }
  destruct (g_serialize (g_deserialize (g_serialize g))) as [ns adj] eqn:E.
  assert (Hns : ns = g_nodes g) by (apply (f_equal sg_nodes) in E; simpl in E; symmetry; exact E).
  simpl in H. subst ns adj. reflexivity.
Qed.

(* ------------------------------------------------------ independence of declaration order *)

Lemma aget_perm : forall (V : Type) (k : string) (l1 l2 : list (string * V)),
  Permutation l1 l2 -> NoDup (map fst l1) -> aget String.eqb k l1 = aget String.eqb k l2.
Proof.
  intros V k l1 l2 P. induction P as [|[k1 v1] l1 l2 P IH|[k1 v1] [k2 v2] l|l1 l2 l3 P1 IH1 P2 IH2]; intro Hnd.
  - reflexivity.
  - simpl. simpl in Hnd. inversion Hnd; subst. rewrite IH by assumption. reflexivity.
  - simpl. simpl in Hnd. inversion Hnd as [|x m Hx Hm]; subst.
    destruct (String.eqb k k1) eqn:E1; destruct (String.eqb k k2) eqn:E2; try reflexivity.
    exfalso. apply String.eqb_eq in E1. apply String.eqb_eq in E2. subst. apply Hx. left. reflexivity.
  - rewrite IH1 by exact Hnd. apply IH2. eapply Permutation_NoDup; [apply Permutation_map; exact P1|exact Hnd].
Qed.

Lemma perm_filter : forall A (p : A -> bool) l1 l2, Permutation l1 l2 -> Permutation (filter p l1) (filter p l2).
Proof.
  intros A p l1 l2 P. induction P as [|x l1 l2 P IH|x y l|l1 l2 l3 P1 IH1 P2 IH2]; simpl.
  - constructor.
  - destruct (p x); [apply perm_skip|]; exact IH.
  - destruct (p x); destruct (p y); try apply Permutation_refl. apply perm_swap.
  - eapply Permutation_trans; eauto.
Qed.

Lemma perm_flat_map : forall A B (f : A -> list B) l1 l2, Permutation l1 l2 -> Permutation (flat_map f l1) (flat_map f l2).
Proof.
  intros A B f l1 l2 P. induction P as [|x l1 l2 P IH|x y l|l1 l2 l3 P1 IH1 P2 IH2]; simpl.
  - constructor.
  - apply Permutation_app_head. exact IH.
  - rewrite !app_assoc. apply Permutation_app_tail. apply Permutation_app_comm.
  - eapply Permutation_trans; eauto.
Qed.

Lemma flat_map_ext_all : forall A B (f g : A -> list B) l, (forall x, f x = g x) -> flat_map f l = flat_map g l.
Proof. intros A B f g l H. induction l as [|x l IH]; simpl; [reflexivity|rewrite H, IH; reflexivity]. Qed.

Lemma fold_left_ext_all : forall A B (f g : A -> B -> A) l a, (forall a b, f a b = g a b) -> fold_left f l a = fold_left g l a.
Proof. intros A B f g l. induction l as [|x l IH]; intros a H; simpl; [reflexivity|rewrite H; apply IH; exact H]. Qed.

(* what the composer reads from a definition *)
Record spec_equiv (sp1 sp2 : wf_spec) : Prop := {
  se_task : forall t, spec_get_task sp1 t = spec_get_task sp2 t;
  se_prev : forall t, spec_prev_count sp1 t = spec_prev_count sp2 t;
  se_start : spec_start_tasks sp1 = spec_start_tasks sp2;
  se_size : spec_size sp1 = spec_size sp2 }.

Lemma se_next : forall sp1 sp2, spec_equiv sp1 sp2 -> forall t, spec_next_tasks sp1 t = spec_next_tasks sp2 t.
Proof. intros sp1 sp2 E t. unfold spec_next_tasks. rewrite (se_task _ _ E). reflexivity. Qed.

Lemma perm_spec_equiv : forall sp1 sp2,
  Permutation (wf_tasks sp1) (wf_tasks sp2) -> NoDup (map fst (wf_tasks sp1)) -> spec_equiv sp1 sp2.
Proof.
  intros sp1 sp2 P Hnd.
  assert (T : forall t, spec_get_task sp1 t = spec_get_task sp2 t).
  { intro t. unfold spec_get_task. destruct (string_in t RESERVED_TASK_NAMES); [reflexivity|].
    apply aget_perm; assumption. }
  assert (N : forall t, spec_next_tasks sp1 t = spec_next_tasks sp2 t).
  { intro t. unfold spec_next_tasks. rewrite T. reflexivity. }
  assert (Pc : forall t, spec_prev_count sp1 t = spec_prev_count sp2 t).
  { intro t. unfold spec_prev_count.
    rewrite (flat_map_ext_all _ _ _ (fun '(n, _) => filter (fun '(d, _, _) => String.eqb d t) (spec_next_tasks sp2 n)))
      by (intros [n ts]; rewrite N; reflexivity).
    apply Permutation_length. apply perm_flat_map. exact P. }
  constructor.
  - exact T.
  - exact Pc.
  - unfold spec_start_tasks.
    rewrite (filter_ext _ (fun t => Nat.eqb (spec_prev_count sp2 t) 0)) by (intro t; rewrite Pc; reflexivity).
    apply sort_by_perm; [apply String.leb_total|apply string_leb_trans|apply String.leb_antisym|].
    apply perm_filter. apply Permutation_map. exact P.
  - unfold spec_size.
    rewrite (flat_map_ext_all _ _ _ (fun '(n, _) => spec_next_tasks sp2 n)) by (intros [n ts]; apply N).
    apply Permutation_length. apply perm_flat_map. exact P.
Qed.

Section Equiv.
  Variables sp1 sp2 : wf_spec.
  Hypothesis E : spec_equiv sp1 sp2.

  Lemma eq_next_sorted : forall t, spec_next_sorted sp1 t = spec_next_sorted sp2 t.
  Proof. intro t. unfold spec_next_sorted. rewrite (se_next _ _ E). reflexivity. Qed.

  Lemma eq_join : forall t, spec_is_join_task sp1 t = spec_is_join_task sp2 t.
  Proof. intro t. unfold spec_is_join_task. rewrite (se_task _ _ E). reflexivity. Qed.

  Lemma eq_split : forall t, spec_is_split_task sp1 t = spec_is_split_task sp2 t.
  Proof. intro t. unfold spec_is_split_task. rewrite eq_join, (se_prev _ _ E). reflexivity. Qed.

  Lemma eq_in_cycle_loop : forall t fuel q trav, in_cycle_loop sp1 t fuel q trav = in_cycle_loop sp2 t fuel q trav.
  Proof.
    intros t fuel. induction fuel as [|f IH]; intros q trav; destruct q as [|n q]; simpl; try reflexivity.
    rewrite eq_next_sorted, !IH. reflexivity.
  Qed.

  Lemma eq_in_cycle_r : forall t, in_cycle_r sp1 t = in_cycle_r sp2 t.
  Proof.
    intro t. unfold in_cycle_r, spec_in_cycle. rewrite (se_size _ _ E), eq_next_sorted, eq_in_cycle_loop. reflexivity.
  Qed.

  Lemma eq_step_next : forall t splits acc nx, step_next sp1 t splits acc nx = step_next sp2 t splits acc nx.
  Proof. intros t splits acc nx. unfold step_next. rewrite eq_in_cycle_r. reflexivity. Qed.

  Lemma eq_process : forall rt w t splits, process sp1 rt w t splits = process sp2 rt w t splits.
  Proof.
    intros rt w t splits. unfold process. rewrite (se_task _ _ E), eq_join, eq_split, eq_in_cycle_r, eq_next_sorted.
    destruct (spec_get_task sp2 t); [|reflexivity].
    destruct (if spec_is_split_task sp2 t then in_cycle_r sp2 t else Val true); [|reflexivity].
    rewrite (fold_left_ext_all _ _ _ (step_next sp2 t (if a then splits else app splits [t]))) by (intros; apply eq_step_next).
    reflexivity.
  Qed.

  Lemma eq_compose_loop : forall rt fuel w, compose_loop sp1 rt fuel w = compose_loop sp2 rt fuel w.
  Proof.
    intros rt fuel. induction fuel as [|f IH]; intro w; simpl; [reflexivity|].
    destruct (w_queue w) as [|[t s] q]; [reflexivity|]. rewrite eq_process.
    destruct (process sp2 rt _ t s); [apply IH|reflexivity].
  Qed.

  Lemma eq_compose : forall rt fuel, compose sp1 rt fuel = compose sp2 rt fuel.
  Proof.
    intros rt fuel. unfold compose, compose_work, compose_init. rewrite (se_start _ _ E), eq_compose_loop. reflexivity.
  Qed.
End Equiv.

(* the composed graph does not depend on the order in which the tasks are declared *)
Theorem declaration_order : forall sp1 sp2 rt fuel,
  Permutation (wf_tasks sp1) (wf_tasks sp2) -> NoDup (map fst (wf_tasks sp1)) ->
  compose sp1 rt fuel = compose sp2 rt fuel.
Proof. intros sp1 sp2 rt fuel P Hnd. apply eq_compose. apply perm_spec_equiv; assumption. Qed.

(* ---------------------------------------- the sort of get_next_tasks is stable: retry policy *)

Lemma nt_leb_total : forall a b, nt_leb a b = true \/ nt_leb b a = true.
Proof. intros a b. unfold nt_leb. apply String.leb_total. Qed.
Lemma nt_leb_trans : forall a b c, nt_leb a b = true -> nt_leb b c = true -> nt_leb a c = true.
Proof. intros a b c. unfold nt_leb. apply string_leb_trans. Qed.

Definition named (k : string) (x : string * json * nat) : bool := String.eqb (nt_name x) k.

Lemma filter_named_insert : forall k x l, lesorted nt_leb l ->
  filter (named k) (insert_sorted nt_leb x l) =
  if named k x then app (filter (named k) l) [x] else filter (named k) l.
Proof.
  intros k x l H. induction H as [|y l Hl IH Hy]; simpl.
  - destruct (named k x); reflexivity.
  - destruct (nt_leb y x) eqn:E; simpl.
    + rewrite IH. destruct (named k y); destruct (named k x); reflexivity.
    + destruct (named k x) eqn:Px; [|reflexivity].
      unfold named in Px. apply String.eqb_eq in Px.
      assert (Py : named k y = false).
      { unfold named. destruct (String.eqb (nt_name y) k) eqn:Ey; [|reflexivity].
        apply String.eqb_eq in Ey. unfold nt_leb in E. rewrite Ey, Px, string_leb_refl in E. discriminate. }
      assert (Pl : filter (named k) l = []).
      { rewrite Forall_forall in Hy. clear IH Hl. induction l as [|z l IHl]; [reflexivity|]. simpl.
        assert (Pz : named k z = false).
        { unfold named. destruct (String.eqb (nt_name z) k) eqn:Ez; [|reflexivity].
          apply String.eqb_eq in Ez. pose proof (Hy z (or_introl eq_refl)) as Hyz.
          unfold nt_leb in *. rewrite Ez in Hyz. rewrite Px in E. congruence. }
        rewrite Pz. apply IHl. intros w Hw. apply Hy. right. exact Hw. }
      rewrite Py, Pl. reflexivity.
Qed.

Lemma filter_named_sort : forall k l, filter (named k) (sort_by nt_leb l) = filter (named k) l.
Proof.
  intros k l. unfold sort_by.
  assert (H : forall acc, lesorted nt_leb acc ->
              filter (named k) (fold_left (fun acc x => insert_sorted nt_leb x acc) l acc) =
              app (filter (named k) acc) (filter (named k) l)).
  { induction l as [|x l IH]; intros acc Ha; simpl; [symmetry; apply app_nil_r|].
    rewrite IH by (apply insert_sorted_lesorted; [apply nt_leb_total|apply nt_leb_trans|exact Ha]).
    rewrite filter_named_insert by exact Ha. destruct (named k x); [rewrite <- app_assoc|]; reflexivity. }
  apply (H []). constructor.
Qed.

Lemma retry_fold_filter : forall l b, fold_left retry_upd l b = fold_left retry_upd (filter (named "retry") l) b.
Proof.
  induction l as [|x l IH]; intro b; simpl; [reflexivity|]. unfold named at 1.
  destruct (String.eqb (nt_name x) "retry") eqn:E; simpl.
  - apply IH.
  - rewrite <- IH. unfold retry_upd at 2. rewrite E. reflexivity.
Qed.

(* the expected retry policy read off the transitions in declaration order: the last retry command
   (highest transition index, last position in its do list) wins over the declared retry spec *)
Theorem exp_retry_unsorted : forall sp rt t,
  exp_retry sp rt t =
  fold_left retry_upd (spec_next_tasks sp t) (match aget String.eqb t rt with Some r => r | None => JNull end).
Proof.
  intros sp rt t. unfold exp_retry, spec_next_sorted.
  rewrite retry_fold_filter, filter_named_sort, <- retry_fold_filter. reflexivity.
Qed.

(* ------------------------------------------------- the fuel of the in_cycle search suffices *)

Definition wsum (sp : wf_spec) (ex : string -> bool) (l : list (string * task_spec)) : nat :=
  list_sum (map (fun '(n, _) => if ex n then 0 else length (spec_next_tasks sp n)) l).

Lemma wsum_ext : forall sp ex1 ex2 l, (forall k, ex1 k = ex2 k) -> wsum sp ex1 l = wsum sp ex2 l.
Proof.
  intros sp ex1 ex2 l H. unfold wsum. f_equal. apply map_ext. intros [n ts]. rewrite H. reflexivity.
Qed.

Lemma wsum_cons : forall sp ex k ts l,
  wsum sp ex ((k, ts) :: l) = (if ex k then 0 else length (spec_next_tasks sp k)) + wsum sp ex l.
Proof. reflexivity. Qed.

Lemma wsum_mono : forall sp ex n l, wsum sp (fun k => String.eqb k n || ex k) l <= wsum sp ex l.
Proof.
  intros sp ex n l. induction l as [|[k ts] l IH]; [unfold wsum; simpl; lia|].
  rewrite !wsum_cons. destruct (String.eqb k n); simpl; [lia|]. destruct (ex k); lia.
Qed.

Lemma wsum_step : forall sp ex n l, ex n = false -> NoDup (map fst l) ->
  wsum sp (fun k => String.eqb k n || ex k) l + (if in_dec string_dec n (map fst l) then length (spec_next_tasks sp n) else 0)
  <= wsum sp ex l.
Proof.
  intros sp ex n l Hex. induction l as [|[k ts] l IH]; intro Hnd; [unfold wsum; simpl; lia|].
  simpl in Hnd. inversion Hnd as [|x m Hx Hm]; subst. specialize (IH Hm).
  rewrite !wsum_cons. simpl map.
  destruct (String.eqb k n) eqn:E.
  - apply String.eqb_eq in E. subst k. rewrite Hex. simpl orb. cbv iota.
    destruct (in_dec string_dec n (n :: map fst l)) as [C0|C]; [|exfalso; apply C; left; reflexivity].
    destruct (in_dec string_dec n (map fst l)) as [C|C1]; [contradiction|].
    pose proof (wsum_mono sp ex n l) as M. lia.
  - simpl orb. destruct (in_dec string_dec n (k :: map fst l)) as [I|I];
      destruct (in_dec string_dec n (map fst l)) as [J|J]; try lia.
    exfalso. destruct I as [I|I]; [subst k; rewrite String.eqb_refl in E; discriminate|contradiction].
Qed.

Lemma next_len_declared : forall sp n,
  length (spec_next_tasks sp n) <= (if in_dec string_dec n (map fst (wf_tasks sp)) then length (spec_next_tasks sp n) else 0).
Proof.
  intros sp n. destruct (in_dec string_dec n (map fst (wf_tasks sp))) as [I|I]; [lia|].
  destruct (spec_next_tasks sp n) as [|x l] eqn:E; [simpl; lia|]. exfalso. apply I.
  apply (next_tasks_declared sp n x). rewrite E. left. reflexivity.
Qed.

Lemma length_sort_by : forall A (leb : A -> A -> bool) l, length (sort_by leb l) = length l.
Proof. intros A leb l. apply Permutation_length, perm_sort_by. Qed.

Lemma in_cycle_loop_fuel : forall sp t, NoDup (map fst (wf_tasks sp)) -> forall fuel q trav,
  length q + wsum sp (fun k => String.eqb k t || string_in k trav) (wf_tasks sp) <= fuel ->
  in_cycle_loop sp t fuel q trav <> None.
Proof.
  intros sp t Hnd fuel. induction fuel as [|f IH]; intros q trav H; destruct q as [|n q]; simpl; try discriminate.
  - simpl in H. lia.
  - destruct (String.eqb n t) eqn:Et; [discriminate|].
    destruct (string_in n trav) eqn:Es.
    + apply IH. simpl in H. lia.
    + apply IH. rewrite app_length, map_length. unfold spec_next_sorted. rewrite length_sort_by.
      pose proof (wsum_step sp (fun k => String.eqb k t || string_in k trav) n (wf_tasks sp)) as S.
      simpl in S. rewrite Et, Es in S. specialize (S eq_refl Hnd).
      pose proof (next_len_declared sp n) as L.
      rewrite (wsum_ext sp (fun k => String.eqb k t || string_in k (n :: trav))
                        (fun k => String.eqb k n || (String.eqb k t || string_in k trav))).
      * simpl in H. lia.
      * intro k. unfold string_in. simpl. destruct (String.eqb k t); destruct (String.eqb k n); reflexivity.
Qed.

Theorem spec_in_cycle_total : forall sp t, NoDup (map fst (wf_tasks sp)) -> spec_in_cycle sp t <> None.
Proof.
  intros sp t Hnd. unfold spec_in_cycle. apply in_cycle_loop_fuel; [exact Hnd|].
  rewrite map_length. unfold spec_next_sorted. rewrite length_sort_by.
  pose proof (wsum_step sp (fun _ => false) t (wf_tasks sp) eq_refl Hnd) as S.
  pose proof (next_len_declared sp t) as L.
  assert (Z : wsum sp (fun _ => false) (wf_tasks sp) = spec_size sp).
  { unfold wsum, spec_size. clear. induction (wf_tasks sp) as [|[n ts] l IH]; simpl; [reflexivity|].
    rewrite app_length, IH. reflexivity. }
  rewrite (wsum_ext sp (fun k => String.eqb k t || string_in k []) (fun k => String.eqb k t || false))
    by (intro k; reflexivity).
  lia.
Qed.

(* ------------------------------------------ the only failure of compose is the worklist's fuel *)

(* every transition target is an engine command or a declared task (inspect() rejects the rest) *)
Definition targets_defined (sp : wf_spec) : Prop :=
  forall t d w i, In (d, w, i) (spec_next_tasks sp t) ->
    string_in d RESERVED_TASK_NAMES = true \/ In d (map fst (wf_tasks sp)).

Lemma aget_of_in : forall (V : Type) (k : string) (l : list (string * V)),
  In k (map fst l) -> aget String.eqb k l <> None.
Proof.
  intros V k l. induction l as [|[k' v] l IH]; simpl; [contradiction|].
  intros [H|H]; [subst; rewrite String.eqb_refl; discriminate|].
  destruct (String.eqb k k'); [discriminate|apply IH; exact H].
Qed.

Lemma reach_defined : forall sp t, targets_defined sp -> reach sp t -> spec_get_task sp t <> None.
Proof.
  intros sp t Hw Hr.
  assert (H : string_in t RESERVED_TASK_NAMES = true \/ In t (map fst (wf_tasks sp))).
  { destruct Hr as [t Hs|t0 d w i _ Hin _]; [right; apply in_start_tasks in Hs; tauto|eapply Hw; eauto]. }
  unfold spec_get_task. destruct (string_in t RESERVED_TASK_NAMES); [discriminate|].
  destruct H as [H|H]; [discriminate|apply aget_of_in; exact H].
Qed.

Section Total.
  Variable sp : wf_spec.
  Hypothesis Hnd : NoDup (map fst (wf_tasks sp)).

  Lemma in_cycle_r_val : forall t, exists b, in_cycle_r sp t = Val b.
  Proof.
    intro t. unfold in_cycle_r. pose proof (spec_in_cycle_total sp t Hnd) as H.
    destruct (spec_in_cycle sp t) as [b|]; [eauto|contradiction].
  Qed.

  Lemma step_next_val : forall t splits w nx, exists w', step_next sp t splits (Val w) nx = Val w'.
  Proof.
    intros t splits w nx. unfold step_next. destruct (String.eqb (nt_name nx) "retry"); [eauto|].
    destruct (has_node (nt_name nx) (w_nodes w)); [|eauto].
    destruct (in_cycle_r_val (nt_name nx)) as [b Hb]. rewrite Hb. eauto.
  Qed.

  Lemma fold_step_val : forall t splits l w, exists w', fold_left (step_next sp t splits) l (Val w) = Val w'.
  Proof.
    intros t splits l. induction l as [|nx l IH]; intro w; cbn [fold_left]; [eauto|].
    destruct (step_next_val t splits w nx) as [w1 H1]. rewrite H1. apply IH.
  Qed.

  Lemma process_val : forall rt w t splits, spec_get_task sp t <> None -> exists w', process sp rt w t splits = Val w'.
  Proof.
    intros rt w t splits Ht. unfold process. destruct (spec_get_task sp t) as [ts|]; [|contradiction].
    assert (C : exists b, (if spec_is_split_task sp t then in_cycle_r sp t else Val true) = Val b).
    { destruct (spec_is_split_task sp t); [apply in_cycle_r_val|eauto]. }
    destruct C as [b Hb]. rewrite Hb.
    match goal with |- context [fold_left ?f ?l (Val ?w0)] => destruct (fold_step_val t (if b then splits else app splits [t]) l w0) as [w' Hw'] end.
    rewrite Hw'. eauto.
  Qed.

  Hypothesis Hw : targets_defined sp.

  Lemma compose_loop_exc : forall rt fuel w e, Core sp w -> DoneOk sp rt [] w ->
    compose_loop sp rt fuel w = Exc e -> e = x_out_of_fuel.
  Proof.
    intros rt fuel. induction fuel as [|f IH]; intros w e C D H; simpl in H.
    - destruct (w_queue w) as [|[t s] q']; [discriminate|]. injection H as H. auto.
    - destruct (w_queue w) as [|[t s] q'] eqn:Eq; [discriminate|].
      assert (Hr : reach sp t).
      { apply (co_reach sp w C). right. right. unfold qnames. rewrite Eq. left. reflexivity. }
      destruct (process_val rt (popped w q') t s (reach_defined sp t Hw Hr)) as [w1 H1].
      unfold popped in H1. rewrite H1 in H.
      destruct (process_inv sp rt w t s q' w1 C D Eq H1) as [C1 D1].
      apply (IH w1 e C1 D1 H).
  Qed.

  Theorem compose_only_fuel_error : forall rt fuel e, compose sp rt fuel = Exc e -> e = x_out_of_fuel.
  Proof.
    intros rt fuel e H. unfold compose in H. destruct (compose_work sp rt fuel) as [w|e'] eqn:E; [discriminate|].
    injection H as H. subst e'. unfold compose_work in E.
    apply (compose_loop_exc rt fuel _ e (init_core sp) (init_doneok sp rt) E).
  Qed.
End Total.

(* ------------------------------------------------------------- more fuel, same graph *)

Lemma compose_loop_more_fuel : forall sp rt f w w', compose_loop sp rt f w = Val w' ->
  forall k, compose_loop sp rt (f + k) w = Val w'.
Proof.
  intros sp rt f. induction f as [|f IH]; intros w w' H k; simpl in H.
  - destruct (w_queue w) as [|[t s] q'] eqn:Eq; [|discriminate].
    destruct k; simpl; rewrite Eq; exact H.
  - simpl. destruct (w_queue w) as [|[t s] q']; [exact H|].
    destruct (process sp rt _ t s) as [w1|e]; [|discriminate]. apply IH. exact H.
Qed.

Theorem compose_fuel_irrelevant : forall sp rt f1 f2 g1 g2,
  compose sp rt f1 = Val g1 -> compose sp rt f2 = Val g2 -> g1 = g2.
Proof.
  intros sp rt f1 f2 g1 g2 H1 H2. unfold compose, compose_work in *.
  destruct (compose_loop sp rt f1 (compose_init sp)) as [w1|] eqn:E1; [|discriminate].
  destruct (compose_loop sp rt f2 (compose_init sp)) as [w2|] eqn:E2; [|discriminate].
  injection H1 as H1. injection H2 as H2. subst.
  pose proof (compose_loop_more_fuel sp rt f1 _ w1 E1 f2) as A.
  pose proof (compose_loop_more_fuel sp rt f2 _ w2 E2 f1) as B.
  rewrite Nat.add_comm in B. rewrite A in B. injection B as B. subst. reflexivity.
Qed.

(* --------------------------------------------------------- a concrete definition (examples) *)

Definition ex_tr (w : json) (d : list string) : transition_spec :=
  {| tr_when := w; tr_publish := []; tr_do := d |}.
Definition ex_task (j : json) (nx : list transition_spec) : task_spec :=
  {| ts_action := JStr "core.noop"; ts_input := JNull; ts_with := None; ts_delay := JNull;
     ts_join := j; ts_next := nx |}.

(* fan-out s -> a, b; fan-in on the join j with two parallel transitions a -> j; the cycle
   a -> j -> c -> a; the commands noop and retry on c; a declared retry on b; u is not reachable
   from the start task s (it sits on a cycle of its own with v); declaration order is not name order *)
Definition ex_spec : wf_spec :=
  {| wf_input := []; wf_vars := []; wf_output := [];
     wf_tasks :=
       [("j", ex_task (JStr "all") [ex_tr JNull ["c"]]);
        ("c", ex_task JNull [ex_tr (JStr "<% failed() %>") ["a"; "retry"]; ex_tr JNull ["noop"];
                             ex_tr (JStr "<% ctx().x %>") ["retry"; "noop"]]);
        ("s", ex_task JNull [ex_tr JNull ["b"; "a"]]);
        ("b", ex_task JNull [ex_tr JNull ["j"]]);
        ("u", ex_task JNull [ex_tr JNull ["v"]]);
        ("v", ex_task JNull [ex_tr JNull ["u"; "a"]]);
        ("a", ex_task JNull [ex_tr (JStr "<% succeeded() %>") ["j"]; ex_tr (JStr "<% failed() %>") ["j"; "j"]])] |}.

Definition ex_rt : list (string * json) :=
  [("b", JDict [("when", JNull); ("count", JInt 2); ("delay", JNull)])].

Definition ex_node i b s r := {| n_id := i; n_barrier := b; n_splits := s; n_retry := r |}.
Definition ex_edge s d k r c := {| e_src := s; e_dst := d; e_key := k; e_ref := r; e_criteria := c |}.

Definition ex_graph : graph :=
  {| g_nodes :=
       [ex_node "s" JNull None JNull;
        ex_node "a" JNull None JNull;
        ex_node "b" JNull None (JDict [("when", JNull); ("count", JInt 2); ("delay", JNull)]);
        ex_node "j" (JStr "*") None JNull;
        ex_node "c" JNull None (JDict [("when", JStr "<% ctx().x %>"); ("count", JInt 3)]);
        ex_node "noop" JNull (Some ["noop"]) JNull];
     g_edges :=
       [ex_edge "s" "a" 0 0 []; ex_edge "s" "b" 0 0 [];
        ex_edge "a" "j" 0 0 [JStr "<% succeeded() %>"]; ex_edge "a" "j" 1 1 [JStr "<% failed() %>"];
        ex_edge "b" "j" 0 0 [];
        ex_edge "j" "c" 0 0 [];
        ex_edge "c" "a" 0 0 [JStr "<% failed() %>"]; ex_edge "c" "noop" 0 1 [];
        ex_edge "c" "noop" 1 2 [JStr "<% ctx().x %>"]] |}.

Lemma ex_compose : compose ex_spec ex_rt 20 = Val ex_graph.
Proof. vm_compute. reflexivity. Qed.

Definition ex_spec_sorted : wf_spec :=
  {| wf_input := []; wf_vars := []; wf_output := [];
     wf_tasks := sort_by (fun a b => String.leb (fst a) (fst b)) (wf_tasks ex_spec) |}.

Lemma ex_targets_defined : targets_defined ex_spec.
Proof.
  intros t d w i H. pose proof (next_tasks_declared ex_spec t _ H) as Hk. simpl in Hk.
  repeat (destruct Hk as [Hk|Hk]; [subst t; vm_compute in H;
    repeat (destruct H as [H|H]; [injection H as H1 H2 H3; subst d; vm_compute; tauto|]); contradiction|]).
  contradiction.
Qed.

Lemma ex_nodup : NoDup (map fst (wf_tasks ex_spec)).
Proof.
  simpl. repeat (constructor; [simpl; intro H; repeat (destruct H as [H|H]; [discriminate|]); exact H|]). constructor.
Qed.
