(* C15Proofs.v -- broken references are reported; accepted definitions compose.
   About model/Inspect.v.  The worklist of detect_undefined_tasks is characterised by an invariant
   (UInv) that holds between two dequeues:
     - everything traversed or queued is a declared task reachable from a start task;
     - every entry reported is a reachable transition to a name that is neither declared nor a command;
     - every traversed task has an entry for each of its undefined targets, and each of its declared,
       non-command targets is traversed or queued;
     - every start task is traversed or queued.
   With unique task names a second invariant (UCount) bounds the number of dequeues by the number
   of declared tasks, so the fuel suffices and no KeyError can arise. *)
From Coq Require Import String List Bool ZArith Arith Lia Permutation.
From Orq Require Import GenSpecMeta Base State Composer Inspect C14Proofs.
Import ListNotations.
Open Scope string_scope.

(* ------------------------------------------------------------------ small facts *)

Lemma string_in_iff : forall k l, string_in k l = true <-> In k l.
Proof.
  intros k l. unfold string_in. rewrite existsb_exists. split.
  - intros [x [Hx E]]. apply String.eqb_eq in E. subst. exact Hx.
  - intro H. exists k. split; [exact H|apply String.eqb_refl].
Qed.

Lemma string_in_false : forall k l, string_in k l = false <-> ~ In k l.
Proof.
  intros k l. rewrite <- string_in_iff. destruct (string_in k l); split; intro H.
  - discriminate.
  - exfalso. apply H. reflexivity.
  - intro X. discriminate.
  - reflexivity.
Qed.

Lemma ahas_iff : forall (V : Type) k (l : list (string * V)), ahas String.eqb k l = true <-> In k (map fst l).
Proof.
  intros V k l. unfold ahas. split.
  - destruct (aget String.eqb k l) as [v|] eqn:E; [|discriminate]. intros _.
    apply aget_in in E. apply in_map_iff. exists (k, v). auto.
  - intro H. apply aget_of_in in H. destruct (aget String.eqb k l); [reflexivity|contradiction].
Qed.

Definition declared (sp : wf_spec) (d : string) : Prop := In d (map fst (wf_tasks sp)).
Definition is_command (d : string) : Prop := In d RESERVED_TASK_NAMES.

Lemma has_task_iff : forall sp d, spec_has_task sp d = true <-> is_command d \/ declared sp d.
Proof.
  intros sp d. unfold spec_has_task, is_command, declared. rewrite orb_true_iff, string_in_iff, ahas_iff. tauto.
Qed.

Lemma retry_is_command : is_command "retry".
Proof. unfold is_command. apply string_in_iff. vm_compute. reflexivity. Qed.

(* the (transition index, target) pairs of a task in the order the detector visits them *)
Definition targets_of (ts : task_spec) : list (nat * string) :=
  flat_map (fun itr => map (fun d => (fst itr, d)) (tr_do (snd itr))) (enumerate (ts_next ts)).

Lemma next_tasks_targets : forall sp t d w i, In (d, w, i) (spec_next_tasks sp t) ->
  exists ts, spec_get_task sp t = Some ts /\ In (i, d) (targets_of ts).
Proof.
  intros sp t d w i H. unfold spec_next_tasks in H. destruct (spec_get_task sp t) as [ts|]; [|contradiction].
  exists ts. split; [reflexivity|]. unfold targets_of. apply in_flat_map in H. destruct H as [[j tr] [Hj H]].
  apply in_flat_map. exists (j, tr). split; [exact Hj|]. simpl. apply in_map_iff in H. destruct H as [d' [E Hd]].
  injection E as E1 E2 E3. subst. apply in_map_iff. exists d. auto.
Qed.

Lemma targets_next_tasks : forall sp t ts i d, spec_get_task sp t = Some ts -> In (i, d) (targets_of ts) ->
  exists w, In (d, w, i) (spec_next_tasks sp t).
Proof.
  intros sp t ts i d Hg H. unfold spec_next_tasks. rewrite Hg. unfold targets_of in H.
  apply in_flat_map in H. destruct H as [[j tr] [Hj H]]. simpl in H. apply in_map_iff in H.
  destruct H as [d' [E Hd]]. injection E as E1 E2. subst. exists (tr_when tr).
  apply in_flat_map. exists (i, tr). split; [exact Hj|]. apply in_map_iff. exists d. auto.
Qed.

(* a transition of a task to a name that is neither a declared task nor an engine command *)
Definition undef_triple (sp : wf_spec) (t : string) (i : nat) (d : string) : Prop :=
  (exists w, In (d, w, i) (spec_next_tasks sp t)) /\ ~ is_command d /\ ~ declared sp d.

(* the nested loops over transitions and their do lists = one loop over targets_of *)
Lemma undef_fold_flat : forall sp t l st,
  fold_left (undef_transition sp t) l st
  = fold_left (fun s (p : nat * string) => undef_target sp t (fst p) s (snd p))
              (flat_map (fun itr => map (fun d => (fst itr, d)) (tr_do (snd itr))) l) st.
Proof.
  intros sp t l. induction l as [|[i tr] l IH]; intro st; simpl; [reflexivity|].
  rewrite fold_left_app, IH. f_equal. unfold undef_transition. simpl.
  generalize (tr_do tr) st. intro ds. induction ds as [|d ds IHd]; intro s; simpl; [reflexivity|apply IHd].
Qed.

Definition step_target (sp : wf_spec) (t : string) (s : ustate) (p : nat * string) : ustate :=
  undef_target sp t (fst p) s (snd p).

Lemma undef_task_flat : forall sp t st ts, spec_get_task sp t = Some ts ->
  undef_task sp t st = Val (fold_left (step_target sp t) (targets_of ts) st).
Proof.
  intros sp t st ts H. unfold undef_task. rewrite H. f_equal. apply undef_fold_flat.
Qed.

(* ------------------------------------------------ one target: what undef_target does *)

Lemma undef_target_trav : forall sp t i st d, u_trav (undef_target sp t i st d) = u_trav st.
Proof.
  intros. unfold undef_target. destruct (string_in d (u_trav st)); [reflexivity|].
  destruct (spec_has_task sp d); [|reflexivity].
  destruct (negb (string_in d (app RESERVED_TASK_NAMES (u_trav st))) && negb (string_in d (u_queued st))); reflexivity.
Qed.

Lemma fold_target_trav : forall sp t l st, u_trav (fold_left (step_target sp t) l st) = u_trav st.
Proof.
  intros sp t l. induction l as [|p l IH]; intro st; simpl; [reflexivity|].
  rewrite IH. apply undef_target_trav.
Qed.

(* the three cases *)
Inductive target_case (sp : wf_spec) (t : string) (i : nat) (st : ustate) (d : string) (st' : ustate) : Prop :=
  | tc_skip : st' = st -> (In d (u_trav st) \/ is_command d \/ (declared sp d /\ In d (u_queued st))) ->
              target_case sp t i st d st'
  | tc_push : st' = {| u_queue := app (u_queue st) [d]; u_trav := u_trav st;
                       u_queued := app (u_queued st) [d]; u_result := u_result st |} ->
              declared sp d -> ~ is_command d -> ~ In d (u_trav st) -> ~ In d (u_queued st) ->
              target_case sp t i st d st'
  | tc_report : st' = {| u_queue := u_queue st; u_trav := u_trav st; u_queued := u_queued st;
                         u_result := app (u_result st) [SE_undefined t i d] |} ->
                ~ is_command d -> ~ declared sp d -> ~ In d (u_trav st) ->
                target_case sp t i st d st'.

Lemma undef_target_case : forall sp t i st d, target_case sp t i st d (undef_target sp t i st d).
Proof.
  intros sp t i st d. unfold undef_target.
  destruct (string_in d (u_trav st)) eqn:Et.
  { apply tc_skip; [reflexivity|left; apply string_in_iff; exact Et]. }
  apply string_in_false in Et.
  destruct (spec_has_task sp d) eqn:Eh.
  - apply has_task_iff in Eh.
    destruct (string_in d (app RESERVED_TASK_NAMES (u_trav st))) eqn:Er; simpl.
    + apply string_in_iff in Er. apply in_app_or in Er. destruct Er as [Er|Er]; [|contradiction].
      apply tc_skip; [reflexivity|right; left; exact Er].
    + apply string_in_false in Er.
      assert (Hc : ~ is_command d) by (intro X; apply Er; apply in_or_app; left; exact X).
      assert (Hd : declared sp d) by (destruct Eh as [X|X]; [contradiction|exact X]).
      destruct (string_in d (u_queued st)) eqn:Eq; simpl.
      * apply string_in_iff in Eq. apply tc_skip; [reflexivity|right; right; split; assumption].
      * apply string_in_false in Eq. apply tc_push; try assumption. reflexivity.
  - assert (Hn : ~ (is_command d \/ declared sp d)).
    { intro X. apply has_task_iff in X. congruence. }
    apply tc_report; [reflexivity|tauto|tauto|exact Et].
Qed.

(* ---------------------------------------------------------------- the invariant *)

Record UMid (sp : wf_spec) (st : ustate) : Prop := {
  um_trav : forall x, In x (u_trav st) -> declared sp x /\ reach sp x;
  um_queue : forall x, In x (u_queue st) -> declared sp x /\ reach sp x;
  um_queued : forall x, In x (u_queued st) -> In x (u_trav st) \/ In x (u_queue st);
  um_sound : forall e, In e (u_result st) ->
             exists t i d, e = SE_undefined t i d /\ reach sp t /\ undef_triple sp t i d;
  um_start : forall s, In s (spec_start_tasks sp) -> In s (u_trav st) \/ In s (u_queue st) }.

(* what has been done for the target (i, d) of task t *)
Definition target_done (sp : wf_spec) (st : ustate) (t : string) (i : nat) (d : string) : Prop :=
  (~ is_command d -> ~ declared sp d -> In (SE_undefined t i d) (u_result st)) /\
  (~ is_command d -> declared sp d -> In d (u_trav st) \/ In d (u_queue st)).

Definition task_done (sp : wf_spec) (st : ustate) (t : string) : Prop :=
  forall ts i d, spec_get_task sp t = Some ts -> In (i, d) (targets_of ts) -> target_done sp st t i d.

Record UInv (sp : wf_spec) (st : ustate) : Prop := {
  ui_mid : UMid sp st;
  ui_done : forall t, In t (u_trav st) -> task_done sp st t }.

(* within the processing of one task the traversed list is fixed, queue and result only grow *)
Definition umono (st st' : ustate) : Prop :=
  u_trav st' = u_trav st /\ (forall x, In x (u_queue st) -> In x (u_queue st')) /\
  (forall e, In e (u_result st) -> In e (u_result st')).

Lemma umono_refl : forall st, umono st st.
Proof. intro st. split; [reflexivity|split; auto]. Qed.

Lemma umono_trans : forall a b c, umono a b -> umono b c -> umono a c.
Proof.
  intros a b c [H1 [H2 H3]] [K1 [K2 K3]]. split; [congruence|split; auto].
Qed.

Lemma target_done_mono : forall sp st st' t i d, umono st st' -> target_done sp st t i d -> target_done sp st' t i d.
Proof.
  intros sp st st' t i d [M1 [M2 M3]] [H1 H2]. split.
  - intros A B. apply M3. apply H1; assumption.
  - intros A B. destruct (H2 A B) as [X|X]; [left; rewrite M1; exact X|right; apply M2; exact X].
Qed.

Lemma undef_target_inv : forall sp t ts i d st,
  UMid sp st -> In t (u_trav st) -> spec_get_task sp t = Some ts -> In (i, d) (targets_of ts) ->
  let st' := undef_target sp t i st d in
  UMid sp st' /\ umono st st' /\ target_done sp st' t i d.
Proof.
  intros sp t ts i d st M Ht Hg Hin. cbv zeta.
  destruct (targets_next_tasks sp t ts i d Hg Hin) as [w Hw].
  destruct (um_trav sp st M t Ht) as [Hdt Hrt].
  destruct (undef_target_case sp t i st d) as [E C|E Hd Hc Hnt Hnq|E Hc Hd Hnt]; rewrite E.
  - split; [exact M|]. split; [apply umono_refl|]. split.
    + intros A B. exfalso. destruct C as [C|[C|[C _]]]; [|contradiction|contradiction].
      apply B. apply (um_trav sp st M d C).
    + intros A B. destruct C as [C|[C|[_ C]]]; [left; exact C|contradiction|apply (um_queued sp st M d C)].
  - assert (Hrd : reach sp d).
    { apply (reach_step sp t d w i Hrt Hw). intro X. apply Hc. rewrite X. exact retry_is_command. }
    split; [|split].
    + constructor; simpl.
      * apply (um_trav sp st M).
      * intros x Hx. apply in_app_or in Hx. destruct Hx as [Hx|[Hx|[]]]; [apply (um_queue sp st M x Hx)|subst; auto].
      * intros x Hx. apply in_app_or in Hx. destruct Hx as [Hx|[Hx|[]]].
        -- destruct (um_queued sp st M x Hx) as [X|X]; [left; exact X|right; apply in_or_app; left; exact X].
        -- subst. right. apply in_or_app. right. left. reflexivity.
      * apply (um_sound sp st M).
      * intros s Hs. destruct (um_start sp st M s Hs) as [X|X]; [left; exact X|right; apply in_or_app; left; exact X].
    + split; [reflexivity|]. split; simpl; [intros x Hx; apply in_or_app; left; exact Hx|auto].
    + split; simpl; [intros A B; contradiction|]. intros A B. right. apply in_or_app. right. left. reflexivity.
  - split; [|split].
    + constructor; simpl; try (apply M).
      intros e He. apply in_app_or in He. destruct He as [He|[He|[]]]; [apply (um_sound sp st M e He)|].
      subst e. exists t, i, d. split; [reflexivity|]. split; [exact Hrt|]. split; [exists w; exact Hw|]. split; assumption.
    + split; [reflexivity|]. split; simpl; [auto|]. intros e He. apply in_or_app. left. exact He.
    + split; simpl; [|intros A B; contradiction]. intros A B. apply in_or_app. right. left. reflexivity.
Qed.

Lemma fold_target_inv : forall sp t ts l st,
  UMid sp st -> In t (u_trav st) -> spec_get_task sp t = Some ts ->
  (forall p, In p l -> In p (targets_of ts)) ->
  let st' := fold_left (step_target sp t) l st in
  UMid sp st' /\ umono st st' /\ (forall i d, In (i, d) l -> target_done sp st' t i d).
Proof.
  intros sp t ts l. induction l as [|[i d] l IH]; intros st M Ht Hg Hl; cbv zeta; simpl.
  - split; [exact M|]. split; [apply umono_refl|]. intros i d [].
  - destruct (undef_target_inv sp t ts i d st M Ht Hg (Hl (i, d) (or_introl eq_refl))) as [M1 [U1 D1]].
    unfold step_target at 2. simpl.
    assert (Ht1 : In t (u_trav (undef_target sp t i st d))) by (rewrite (proj1 U1); exact Ht).
    destruct (IH (undef_target sp t i st d) M1 Ht1 Hg (fun p Hp => Hl p (or_intror Hp))) as [M2 [U2 D2]].
    split; [exact M2|]. split; [eapply umono_trans; eassumption|].
    intros i' d' [E|Hin]; [|apply D2; exact Hin].
    injection E as E1 E2. subst i' d'. eapply target_done_mono; [exact U2|exact D1].
Qed.

Definition upop (st : ustate) (t : string) (q' : list string) : ustate :=
  {| u_queue := q'; u_trav := app (u_trav st) [t]; u_queued := u_queued st; u_result := u_result st |}.

Lemma declared_get_task : forall sp t, declared sp t -> spec_get_task sp t <> None.
Proof.
  intros sp t H. unfold spec_get_task. destruct (string_in t RESERVED_TASK_NAMES); [discriminate|].
  apply aget_of_in. exact H.
Qed.

Lemma upop_mid : forall sp st t q', UMid sp st -> u_queue st = t :: q' -> UMid sp (upop st t q').
Proof.
  intros sp st t q' M Eq. constructor; simpl.
  - intros x Hx. apply in_app_or in Hx. destruct Hx as [Hx|[Hx|[]]]; [apply (um_trav sp st M x Hx)|].
    subst x. apply (um_queue sp st M t). rewrite Eq. left. reflexivity.
  - intros x Hx. apply (um_queue sp st M x). rewrite Eq. right. exact Hx.
  - intros x Hx. destruct (um_queued sp st M x Hx) as [X|X]; [left; apply in_or_app; left; exact X|].
    rewrite Eq in X. destruct X as [X|X]; [subst; left; apply in_or_app; right; left; reflexivity|right; exact X].
  - apply (um_sound sp st M).
  - intros s Hs. destruct (um_start sp st M s Hs) as [X|X]; [left; apply in_or_app; left; exact X|].
    rewrite Eq in X. destruct X as [X|X]; [subst; left; apply in_or_app; right; left; reflexivity|right; exact X].
Qed.

Lemma undef_task_inv : forall sp st t q' st',
  UInv sp st -> u_queue st = t :: q' -> undef_task sp t (upop st t q') = Val st' ->
  UInv sp st' /\ u_trav st' = app (u_trav st) [t].
Proof.
  intros sp st t q' st' [M D] Eq H.
  pose proof (upop_mid sp st t q' M Eq) as M1.
  destruct (spec_get_task sp t) as [ts|] eqn:Hg; [|unfold undef_task in H; rewrite Hg in H; discriminate].
  rewrite (undef_task_flat sp t _ ts Hg) in H. injection H as H.
  assert (Ht1 : In t (u_trav (upop st t q'))) by (simpl; apply in_or_app; right; left; reflexivity).
  destruct (fold_target_inv sp t ts (targets_of ts) (upop st t q') M1 Ht1 Hg (fun p Hp => Hp)) as [M2 [U2 D2]].
  rewrite H in M2, U2, D2. split; [|exact (proj1 U2)].
  constructor; [exact M2|]. intros t0 Ht0. rewrite (proj1 U2) in Ht0. simpl in Ht0.
  apply in_app_or in Ht0. destruct Ht0 as [Ht0|[Ht0|[]]].
  - intros ts0 i d Hg0 Hin. eapply target_done_mono; [exact U2|].
    destruct (D t0 Ht0 ts0 i d Hg0 Hin) as [A B]. split; [exact A|]. simpl.
    intros X Y. destruct (B X Y) as [Z|Z]; [left; apply in_or_app; left; exact Z|].
    rewrite Eq in Z. destruct Z as [Z|Z]; [subst; left; apply in_or_app; right; left; reflexivity|right; exact Z].
  - subst t0. intros ts0 i d Hg0 Hin. rewrite Hg in Hg0. injection Hg0 as Hg0. subst ts0. apply D2. exact Hin.
Qed.

Lemma undef_loop_inv : forall sp fuel st l, UInv sp st -> undef_loop sp fuel st = Val l ->
  exists st', UInv sp st' /\ u_queue st' = [] /\ u_result st' = l.
Proof.
  intros sp fuel. induction fuel as [|f IH]; intros st l I H; simpl in H.
  - destruct (u_queue st) eqn:Eq; [|discriminate]. injection H as H. exists st. auto.
  - destruct (u_queue st) as [|t q'] eqn:Eq; [injection H as H; exists st; auto|].
    change {| u_queue := q'; u_trav := app (u_trav st) [t]; u_queued := u_queued st; u_result := u_result st |}
      with (upop st t q') in H.
    destruct (undef_task sp t (upop st t q')) as [st1|e] eqn:E1; [|discriminate].
    destruct (undef_task_inv sp st t q' st1 I Eq E1) as [I1 _]. apply (IH st1 l I1 H).
Qed.

Lemma undef_init_inv : forall sp, UInv sp (undef_init sp).
Proof.
  intro sp. constructor; [constructor|]; simpl; try (intros x []).
  - intros x Hx. split; [apply in_start_tasks in Hx; apply Hx|apply reach_start; exact Hx].
  - intros s Hs. right. exact Hs.
Qed.

Lemma next_tasks_not_command : forall sp s x, In x (spec_next_tasks sp s) -> ~ is_command s.
Proof.
  intros sp s x H C. unfold spec_next_tasks, spec_get_task in H. apply string_in_iff in C. rewrite C in H.
  simpl in H. exact H.
Qed.

(* when the worklist is empty every reachable task that has transitions has been traversed *)
Lemma reach_traversed : forall sp st, UInv sp st -> u_queue st = [] ->
  forall t, reach sp t -> (exists x, In x (spec_next_tasks sp t)) -> In t (u_trav st).
Proof.
  intros sp st [M D] Eq t Hr. induction Hr as [t Hs|t0 d w i Hr0 IH Hin Hne]; intros [x Hx].
  - destruct (um_start sp st M t Hs) as [X|X]; [exact X|rewrite Eq in X; destruct X].
  - assert (Ht0 : In t0 (u_trav st)) by (apply IH; exists (d, w, i); exact Hin).
    destruct (next_tasks_targets sp t0 d w i Hin) as [ts0 [Hg0 Hin0]].
    destruct (D t0 Ht0 ts0 i d Hg0 Hin0) as [_ B].
    destruct (B (next_tasks_not_command sp d x Hx) (next_tasks_declared sp d x Hx)) as [X|X]; [exact X|].
    rewrite Eq in X. destruct X.
Qed.

(* ------------------------------------------------------- (a) soundness and completeness *)

Theorem undefined_sound : forall sp fuel l, detect_undefined_tasks sp fuel = Val l ->
  forall e, In e l -> exists t i d, e = SE_undefined t i d /\ reach sp t /\ undef_triple sp t i d.
Proof.
  intros sp fuel l H e He. unfold detect_undefined_tasks in H.
  destruct (undef_loop_inv sp fuel _ l (undef_init_inv sp) H) as [st [[M _] [_ Er]]].
  subst l. apply (um_sound sp st M e He).
Qed.

Theorem undefined_reported : forall sp fuel l, detect_undefined_tasks sp fuel = Val l ->
  forall t d w i, reach sp t -> In (d, w, i) (spec_next_tasks sp t) ->
    ~ is_command d -> ~ declared sp d -> In (SE_undefined t i d) l.
Proof.
  intros sp fuel l H t d w i Hr Hin Hc Hd. unfold detect_undefined_tasks in H.
  destruct (undef_loop_inv sp fuel _ l (undef_init_inv sp) H) as [st [I [Eq Er]]].
  pose proof (reach_traversed sp st I Eq t Hr (ex_intro _ (d, w, i) Hin)) as Ht.
  destruct (next_tasks_targets sp t d w i Hin) as [ts [Hg Hin']].
  subst l. apply (proj1 (ui_done sp st I t Ht ts i d Hg Hin') Hc Hd).
Qed.

(* ------------------------------------------------------------- the fuel suffices *)

Record UCount (sp : wf_spec) (st : ustate) : Prop := {
  uc_nodup : NoDup (app (u_trav st) (u_queue st));
  uc_queue : forall x, In x (u_queue st) -> In x (u_queued st) \/ In x (spec_start_tasks sp) }.

Lemma undef_target_count : forall sp t ts i d st,
  UMid sp st -> UCount sp st -> In t (u_trav st) -> spec_get_task sp t = Some ts -> In (i, d) (targets_of ts) ->
  UCount sp (undef_target sp t i st d).
Proof.
  intros sp t ts i d st M [N Q] Ht Hg Hin.
  destruct (targets_next_tasks sp t ts i d Hg Hin) as [w Hw].
  destruct (undef_target_case sp t i st d) as [E C|E Hd Hc Hnt Hnq|E Hc Hd Hnt]; rewrite E.
  - constructor; assumption.
  - constructor; simpl.
    + rewrite app_assoc. apply NoDup_snoc; [exact N|]. intro X. apply in_app_or in X.
      destruct X as [X|X]; [contradiction|]. destruct (Q d X) as [Y|Y]; [contradiction|].
      apply in_start_tasks in Y. exact (prev_count_pos sp t d w i Hw (proj2 Y)).
    + intros x Hx. apply in_app_or in Hx. destruct Hx as [Hx|[Hx|[]]].
      * destruct (Q x Hx) as [Y|Y]; [left; apply in_or_app; left; exact Y|right; exact Y].
      * subst. left. apply in_or_app. right. left. reflexivity.
  - constructor; simpl; assumption.
Qed.

Lemma fold_target_count : forall sp t ts l st,
  UMid sp st -> UCount sp st -> In t (u_trav st) -> spec_get_task sp t = Some ts ->
  (forall p, In p l -> In p (targets_of ts)) ->
  UCount sp (fold_left (step_target sp t) l st).
Proof.
  intros sp t ts l. induction l as [|[i d] l IH]; intros st M C Ht Hg Hl; simpl; [exact C|].
  unfold step_target at 2. simpl.
  destruct (undef_target_inv sp t ts i d st M Ht Hg (Hl (i, d) (or_introl eq_refl))) as [M1 [U1 _]].
  apply IH; try assumption.
  - eapply undef_target_count; try eassumption. apply Hl. left. reflexivity.
  - rewrite (proj1 U1). exact Ht.
  - intros p Hp. apply Hl. right. exact Hp.
Qed.

Lemma upop_count : forall sp st t q', UCount sp st -> u_queue st = t :: q' -> UCount sp (upop st t q').
Proof.
  intros sp st t q' [N Q] Eq. constructor; simpl.
  - rewrite <- app_assoc. simpl. rewrite <- Eq. exact N.
  - intros x Hx. apply Q. rewrite Eq. right. exact Hx.
Qed.

Lemma count_bound : forall sp st, NoDup (task_names sp) -> UMid sp st -> UCount sp st ->
  length (u_trav st) + length (u_queue st) <= length (task_names sp).
Proof.
  intros sp st Hnd M [N _]. rewrite <- app_length. apply NoDup_incl_length; [exact N|].
  intros x Hx. apply in_app_or in Hx. destruct Hx as [Hx|Hx].
  - apply (um_trav sp st M x Hx).
  - apply (um_queue sp st M x Hx).
Qed.

Lemma undef_loop_total : forall sp, NoDup (task_names sp) -> forall fuel st,
  UInv sp st -> UCount sp st -> length (task_names sp) <= length (u_trav st) + fuel ->
  exists l, undef_loop sp fuel st = Val l.
Proof.
  intros sp Hnd fuel. induction fuel as [|f IH]; intros st I C Hf; simpl.
  - destruct (u_queue st) as [|t q'] eqn:Eq; [eauto|].
    pose proof (count_bound sp st Hnd (ui_mid sp st I) C) as B. rewrite Eq in B. simpl in B. lia.
  - destruct (u_queue st) as [|t q'] eqn:Eq; [eauto|].
    change {| u_queue := q'; u_trav := app (u_trav st) [t]; u_queued := u_queued st; u_result := u_result st |}
      with (upop st t q').
    assert (Hdt : declared sp t) by (apply (um_queue sp st (ui_mid sp st I) t); rewrite Eq; left; reflexivity).
    destruct (spec_get_task sp t) as [ts|] eqn:Hg; [|exfalso; exact (declared_get_task sp t Hdt Hg)].
    pose proof (undef_task_flat sp t (upop st t q') ts Hg) as E1. rewrite E1.
    destruct (undef_task_inv sp st t q' _ I Eq E1) as [I1 T1].
    apply IH; [exact I1| |rewrite T1, app_length; simpl; lia].
    apply (fold_target_count sp t ts); auto.
    + apply upop_mid; [apply I|exact Eq].
    + apply upop_count; assumption.
    + simpl. apply in_or_app. right. left. reflexivity.
Qed.

Lemma start_tasks_nodup : forall sp, NoDup (task_names sp) -> NoDup (spec_start_tasks sp).
Proof.
  intros sp H. unfold spec_start_tasks.
  eapply Permutation_NoDup; [apply Permutation_sym; apply perm_sort_by|]. apply NoDup_filter. exact H.
Qed.

Theorem undefined_total : forall sp fuel, NoDup (task_names sp) -> length (wf_tasks sp) <= fuel ->
  exists l, detect_undefined_tasks sp fuel = Val l.
Proof.
  intros sp fuel Hnd Hf. unfold detect_undefined_tasks.
  apply (undef_loop_total sp Hnd fuel _ (undef_init_inv sp)).
  - constructor; simpl; [apply start_tasks_nodup; exact Hnd|]. intros x Hx. right. exact Hx.
  - simpl. unfold task_names. rewrite map_length. exact Hf.
Qed.

(* ---------------------------------------------- (b) (c) the direct detectors *)

Theorem reserved_reported : forall sp e,
  In e (detect_reserved_names sp) <-> exists t, e = SE_reserved t /\ declared sp t /\ is_command t.
Proof.
  intros sp e. unfold detect_reserved_names, declared, is_command, task_names. rewrite in_map_iff. split.
  - intros [t [E H]]. apply filter_In in H. destruct H as [H1 H2]. apply string_in_iff in H2. exists t. auto.
  - intros [t [E [H1 H2]]]. exists t. split; [auto|]. apply filter_In. split; [exact H1|apply string_in_iff; exact H2].
Qed.

Lemma no_start_iff : forall sp, spec_start_tasks sp = [] <-> forall t, declared sp t -> spec_prev_count sp t <> 0.
Proof.
  intro sp. split.
  - intros H t Hd Hz. assert (X : In t (spec_start_tasks sp)) by (apply in_start_tasks; split; assumption).
    rewrite H in X. exact X.
  - intro H. destruct (spec_start_tasks sp) as [|s l] eqn:E; [reflexivity|]. exfalso.
    assert (X : In s (spec_start_tasks sp)) by (rewrite E; left; reflexivity).
    apply in_start_tasks in X. destruct X as [X1 X2]. exact (H s X1 X2).
Qed.

Theorem no_start_reported : forall sp,
  (In SE_no_start (detect_start_tasks sp) <->
   wf_tasks sp <> [] /\ forall t, declared sp t -> spec_prev_count sp t <> 0)
  /\ forall e, In e (detect_start_tasks sp) -> e = SE_no_start.
Proof.
  intro sp. unfold detect_start_tasks. pose proof (no_start_iff sp) as N.
  destruct (wf_tasks sp) as [|x l] eqn:Et.
  - split; [split; [intros []|intros [H _]; congruence]|intros e []].
  - destruct (spec_start_tasks sp) as [|s r] eqn:Es.
    + split; [split; [intros _; split; [discriminate|apply N; reflexivity]|intros _; left; reflexivity]|].
      intros e [E|[]]. auto.
    + split; [split; [intros []|]|intros e []]. intros [_ H]. apply N in H. discriminate.
Qed.

Theorem actionless_items_reported : forall sp e,
  In e (detect_actionless_with_items sp) <->
  exists t ts, e = SE_actionless t /\ In (t, ts) (wf_tasks sp) /\ task_has_items ts = true
               /\ truthy (ts_action ts) = false.
Proof.
  intros sp e. unfold detect_actionless_with_items. rewrite in_map_iff. split.
  - intros [[t ts] [E H]]. apply filter_In in H. destruct H as [H1 H2]. apply andb_true_iff in H2.
    destruct H2 as [H2 H3]. apply negb_true_iff in H3. exists t, ts. auto.
  - intros [t [ts [E [H1 [H2 H3]]]]]. exists (t, ts). split; [auto|]. apply filter_In. split; [exact H1|].
    rewrite H2, H3. reflexivity.
Qed.

(* -------------------------------------------------- inspect_semantics reports nothing *)

Lemma semantics_nil : forall sp fuel, inspect_semantics sp fuel = Val [] ->
  detect_reserved_names sp = [] /\ detect_start_tasks sp = [] /\ detect_undefined_tasks sp fuel = Val []
  /\ detect_unreachable_tasks sp fuel = Val [] /\ detect_actionless_with_items sp = [].
Proof.
  intros sp fuel H. unfold inspect_semantics in H.
  destruct (detect_undefined_tasks sp fuel) as [und|]; [|discriminate].
  destruct (detect_unreachable_tasks sp fuel) as [unr|]; [|discriminate].
  injection H as H. apply app_eq_nil in H. destruct H as [H1 H]. apply app_eq_nil in H. destruct H as [H2 H].
  apply app_eq_nil in H. destruct H as [H3 H]. apply app_eq_nil in H. destruct H as [H4 H5]. subst. auto.
Qed.

Theorem semantics_accepted : forall sp fuel, inspect_semantics sp fuel = Val [] ->
  (forall t, declared sp t -> ~ is_command t)
  /\ (wf_tasks sp = [] \/ exists s, In s (spec_start_tasks sp))
  /\ (forall t d w i, reach sp t -> In (d, w, i) (spec_next_tasks sp t) -> is_command d \/ declared sp d)
  /\ (forall t ts, In (t, ts) (wf_tasks sp) -> task_has_items ts = true -> truthy (ts_action ts) = true).
Proof.
  intros sp fuel H. destruct (semantics_nil sp fuel H) as [H1 [H2 [H3 [_ H5]]]]. split; [|split; [|split]].
  - intros t Hd Hc. assert (X : In (SE_reserved t) (detect_reserved_names sp)).
    { apply reserved_reported. exists t. auto. }
    rewrite H1 in X. exact X.
  - unfold detect_start_tasks in H2. destruct (wf_tasks sp) as [|x0 l0]; [left; reflexivity|right].
    destruct (spec_start_tasks sp) as [|s0 r0]; [discriminate|]. exists s0. left. reflexivity.
  - intros t d w i Hr Hin.
    destruct (string_in d RESERVED_TASK_NAMES) eqn:Ec; [left; apply string_in_iff; exact Ec|].
    destruct (ahas String.eqb d (wf_tasks sp)) eqn:Ed; [right; apply ahas_iff; exact Ed|]. exfalso.
    apply string_in_false in Ec.
    assert (Hd : ~ declared sp d).
    { intro X. apply ahas_iff in X. congruence. }
    exact (undefined_reported sp fuel [] H3 t d w i Hr Hin Ec Hd).
  - intros t ts Hin Hi. destruct (truthy (ts_action ts)) eqn:E; [reflexivity|]. exfalso.
    assert (X : In (SE_actionless t) (detect_actionless_with_items sp)).
    { apply actionless_items_reported. exists t, ts. auto. }
    rewrite H5 in X. exact X.
Qed.

(* the report of the whole inspection contains what the undefined-task detector reports, and the
   order in which inspect() lists the entries is a permutation of it *)
Theorem semantics_reports_undefined : forall sp fuel l, inspect_semantics sp fuel = Val l ->
  forall t d w i, reach sp t -> In (d, w, i) (spec_next_tasks sp t) -> ~ is_command d -> ~ declared sp d ->
    In (SE_undefined t i d) l.
Proof.
  intros sp fuel l H t d w i Hr Hin Hc Hd. unfold inspect_semantics in H.
  destruct (detect_undefined_tasks sp fuel) as [und|] eqn:Eu; [|discriminate].
  destruct (detect_unreachable_tasks sp fuel) as [unr|]; [|discriminate].
  injection H as H. subst l. apply in_or_app. right. apply in_or_app. right. apply in_or_app. left.
  exact (undefined_reported sp fuel und Eu t d w i Hr Hin Hc Hd).
Qed.

Theorem semantics_sorted_perm : forall sp fuel l, inspect_semantics sp fuel = Val l ->
  exists l', inspect_semantics_sorted sp fuel = Val l' /\ Permutation l' l.
Proof.
  intros sp fuel l H. unfold inspect_semantics_sorted. rewrite H. exists (sort_by entry_leb l).
  split; [reflexivity|apply perm_sort_by].
Qed.

(* --------------------------------------------- (e) accepted definitions compose *)

(* C14's compose_only_fuel_error asks for every target of every declared task to be defined;
   inspection only guarantees it for the tasks reachable from a start task, which is all the
   composer ever looks at.  Same proof with the weaker hypothesis. *)
Lemma compose_loop_exc_reach : forall sp, NoDup (map fst (wf_tasks sp)) ->
  (forall t, reach sp t -> spec_get_task sp t <> None) ->
  forall rt fuel w e, Core sp w -> DoneOk sp rt [] w -> compose_loop sp rt fuel w = Exc e -> e = x_out_of_fuel.
Proof.
  intros sp Hnd Hr rt fuel. induction fuel as [|f IH]; intros w e C D H; simpl in H.
  - destruct (w_queue w) as [|[t s] q']; [discriminate|]. injection H as H. auto.
  - destruct (w_queue w) as [|[t s] q'] eqn:Eq; [discriminate|].
    assert (Hrt : reach sp t).
    { apply (co_reach sp w C). right. right. unfold qnames. rewrite Eq. left. reflexivity. }
    destruct (process_val sp Hnd rt (popped w q') t s (Hr t Hrt)) as [w1 H1].
    unfold popped in H1. rewrite H1 in H.
    destruct (process_inv sp rt w t s q' w1 C D Eq H1) as [C1 D1].
    apply (IH w1 e C1 D1 H).
Qed.

Lemma accepted_reach_defined : forall sp fuel, detect_undefined_tasks sp fuel = Val [] ->
  forall t, reach sp t -> spec_get_task sp t <> None.
Proof.
  intros sp fuel H t Hr. destruct Hr as [t Hs|t0 d w i Hr0 Hin Hne].
  - apply declared_get_task. apply in_start_tasks in Hs. apply Hs.
  - unfold spec_get_task. destruct (string_in d RESERVED_TASK_NAMES) eqn:Ec; [discriminate|].
    destruct (ahas String.eqb d (wf_tasks sp)) eqn:Ed.
    + apply aget_of_in. apply ahas_iff. exact Ed.
    + exfalso. apply string_in_false in Ec.
      assert (Hd : ~ declared sp d).
      { intro X. apply ahas_iff in X. congruence. }
      exact (undefined_reported sp fuel [] H t0 d w i Hr0 Hin Ec Hd).
Qed.

Theorem accepted_composes : forall sp fuel, NoDup (map fst (wf_tasks sp)) ->
  inspect_semantics sp fuel = Val [] ->
  forall rt f e, compose sp rt f = Exc e -> e = x_out_of_fuel.
Proof.
  intros sp fuel Hnd Ha rt f e H. destruct (semantics_nil sp fuel Ha) as [_ [_ [H3 _]]].
  unfold compose in H. destruct (compose_work sp rt f) as [w|e'] eqn:E; [discriminate|].
  injection H as H. subst e'. unfold compose_work in E.
  apply (compose_loop_exc_reach sp Hnd (accepted_reach_defined sp fuel H3) rt f _ e
           (init_core sp) (init_doneok sp rt) E).
Qed.

(* ------------------------------------ (d) the rolling context of one spec object *)

Lemma set_union_in : forall b a x, In x (set_union a b) <-> In x a \/ In x b.
Proof.
  unfold set_union. intro b. induction b as [|y b IH]; intros a x; simpl; [tauto|].
  rewrite IH. destruct (string_in y a) eqn:E.
  - apply string_in_iff in E. split; [tauto|]. intros [H|[H|H]]; [tauto|subst; tauto|tauto].
  - rewrite in_app_iff. simpl. tauto.
Qed.

(* the positions of a spec object in evaluation order, each with "does its property assign" *)
Definition flat_positions (seq inputs : list string) (props : cprops) : list (bool * cpos) :=
  flat_map (fun name => map (fun p => (string_in name inputs, p)) (positions_of props name)) seq.

Definition step_pos (acc : cstate_t) (ap : bool * cpos) : cstate_t := inspect_pos (fst ap) acc (snd ap).

Lemma inspect_props_flat : forall seq inputs props acc,
  fold_left (inspect_leaf inputs props) seq acc = fold_left step_pos (flat_positions seq inputs props) acc.
Proof.
  intros seq inputs props. induction seq as [|name seq IH]; intro acc; simpl; [reflexivity|].
  unfold flat_positions in *. simpl. rewrite fold_left_app, IH. f_equal. unfold inspect_leaf.
  generalize (positions_of props name) acc. intro l. induction l as [|p l IHl]; intro a; simpl; [reflexivity|].
  apply IHl.
Qed.

Lemma inspect_ref_unassigned : forall path ctx es v q x,
  In (CE_unassigned q x) (inspect_ref path ctx es v) <->
  In (CE_unassigned q x) es \/ (q = path /\ x = v /\ ~ In v ctx).
Proof.
  intros path ctx es v q x. unfold inspect_ref.
  assert (P : In (CE_unassigned q x) (if starts_with "__" v then app es [CE_private path v] else es)
              <-> In (CE_unassigned q x) es).
  { destruct (starts_with "__" v); [|tauto]. rewrite in_app_iff. simpl. split; [|tauto].
    intros [H|[H|[]]]; [exact H|discriminate]. }
  destruct (string_in v ctx) eqn:E.
  - apply string_in_iff in E. rewrite P. tauto.
  - apply string_in_false in E. rewrite in_app_iff, P. simpl. split.
    + intros [H|[H|[]]]; [tauto|]. injection H as H1 H2. subst. tauto.
    + intros [H|[H1 [H2 _]]]; [tauto|]. subst. tauto.
Qed.

Lemma fold_ref_unassigned : forall path ctx refs es q x,
  In (CE_unassigned q x) (fold_left (inspect_ref path ctx) refs es) <->
  In (CE_unassigned q x) es \/ (q = path /\ In x refs /\ ~ In x ctx).
Proof.
  intros path ctx refs. induction refs as [|v refs IH]; intros es q x; simpl; [tauto|].
  rewrite IH, inspect_ref_unassigned. split.
  - intros [[H|[H1 [H2 H3]]]|H]; [tauto|subst; tauto|tauto].
  - intros [H|[H1 [[H2|H2] H3]]]; [tauto|subst; tauto|tauto].
Qed.

Lemma step_pos_ctx : forall ctx es a p x,
  In x (fst (step_pos (ctx, es) (a, p))) <-> In x ctx \/ (a = true /\ In x (cp_keys p)).
Proof.
  intros ctx es a p x. unfold step_pos, inspect_pos. simpl. destruct a; simpl.
  - rewrite set_union_in. tauto.
  - split; [tauto|]. intros [H|[H _]]; [exact H|discriminate].
Qed.

Lemma fold_pos_unassigned : forall l ctx es q x,
  In (CE_unassigned q x) (snd (fold_left step_pos l (ctx, es))) <->
  In (CE_unassigned q x) es \/
  exists pre a p post, l = app pre ((a, p) :: post) /\ cp_path p = q /\ In x (cp_refs p) /\ ~ In x ctx
                       /\ forall a' p', In (a', p') pre -> a' = true -> ~ In x (cp_keys p').
Proof.
  intro l. induction l as [|[a0 p0] l IH]; intros ctx es q x.
  - simpl. split; [tauto|]. intros [H|[pre [a [p [post [E _]]]]]]; [exact H|].
    destruct pre; discriminate.
  - cbn [fold_left].
    destruct (step_pos (ctx, es) (a0, p0)) as [ctx1 es1] eqn:E1.
    assert (Hc : forall y, In y ctx1 <-> In y ctx \/ (a0 = true /\ In y (cp_keys p0))).
    { intro y. pose proof (step_pos_ctx ctx es a0 p0 y) as X. rewrite E1 in X. exact X. }
    assert (He : In (CE_unassigned q x) es1 <->
                 In (CE_unassigned q x) es \/ (q = cp_path p0 /\ In x (cp_refs p0) /\ ~ In x ctx)).
    { assert (X : es1 = fold_left (inspect_ref (cp_path p0) ctx) (cp_refs p0) es).
      { unfold step_pos, inspect_pos in E1. simpl in E1. injection E1 as _ E1. auto. }
      rewrite X. apply fold_ref_unassigned. }
    rewrite IH, He. split.
    + intros [[H|[H1 [H2 H3]]]|[pre [a [p [post [El [Hp [Hr [Hn Hpre]]]]]]]]].
      * left. exact H.
      * right. exists [], a0, p0, l. simpl. repeat split; auto; try (intros a' p' []).
      * right. exists ((a0, p0) :: pre), a, p, post. subst l. simpl. repeat split; auto.
        -- intro X. apply Hn. apply Hc. left. exact X.
        -- intros a' p' [E|Hin] Ha'.
           ++ injection E as E2 E3. subst a' p'. intro X. apply Hn. apply Hc. right. split; assumption.
           ++ apply (Hpre a' p' Hin Ha').
    + intros [H|[pre [a [p [post [El [Hp [Hr [Hn Hpre]]]]]]]]]; [left; left; exact H|].
      destruct pre as [|[a1 p1] pre]; simpl in El.
      * injection El as E2 E3 E4. subst a p post. left. right. auto.
      * injection El as E2 E3 E4. subst a1 p1 l. right. exists pre, a, p, post. repeat split; auto.
        -- intro X. apply Hc in X. destruct X as [X|[X1 X2]]; [contradiction|].
           apply (Hpre a0 p0 (or_introl eq_refl) X1 X2).
        -- intros a' p' Hin Ha'. apply (Hpre a' p' (or_intror Hin) Ha').
Qed.

Theorem context_straight_line : forall seq inputs props ctx q x,
  In (CE_unassigned q x) (snd (inspect_props seq inputs props ctx)) <->
  exists pre a p post,
    flat_positions seq inputs props = app pre ((a, p) :: post) /\ cp_path p = q /\ In x (cp_refs p)
    /\ ~ In x ctx /\ forall a' p', In (a', p') pre -> a' = true -> ~ In x (cp_keys p').
Proof.
  intros seq inputs props ctx q x. unfold inspect_props. rewrite inspect_props_flat, fold_pos_unassigned.
  split; [intros [[]|H]; exact H|intro H; right; exact H].
Qed.

Lemma fold_pos_ctx : forall l ctx es x,
  In x (fst (fold_left step_pos l (ctx, es))) <->
  In x ctx \/ exists p, In (true, p) l /\ In x (cp_keys p).
Proof.
  intro l. induction l as [|[a0 p0] l IH]; intros ctx es x.
  - simpl. split; [tauto|]. intros [H|[p [[] _]]]. exact H.
  - cbn [fold_left]. destruct (step_pos (ctx, es) (a0, p0)) as [ctx1 es1] eqn:E1.
    rewrite IH. pose proof (step_pos_ctx ctx es a0 p0 x) as X. rewrite E1 in X. simpl in X. rewrite X. split.
    + intros [[H|[H1 H2]]|[p [H1 H2]]]; [tauto| |].
      * subst a0. right. exists p0. split; [left; reflexivity|exact H2].
      * right. exists p. split; [right; exact H1|exact H2].
    + intros [H|[p [[E|H1] H2]]]; [tauto| |].
      * injection E as E2 E3. subst. tauto.
      * right. exists p. tauto.
Qed.

Theorem context_assigned : forall seq inputs props ctx x,
  In x (fst (inspect_props seq inputs props ctx)) <->
  In x ctx \/ exists p, In (true, p) (flat_positions seq inputs props) /\ In x (cp_keys p).
Proof.
  intros. unfold inspect_props. rewrite inspect_props_flat. apply fold_pos_ctx.
Qed.

(* ------------------------------------------------ facts about the reflected metadata *)

Theorem positions_covered :
  CTX_SEQ_WorkflowSpec = ["input"; "vars"; "tasks"; "output"]
  /\ CTX_INPUTS_WorkflowSpec = ["input"; "vars"; "output"]
  /\ CTX_SEQ_TaskSpec = ["delay"; "with"; "action"; "input"; "retry"; "next"]
  /\ CTX_INPUTS_TaskSpec = []
  /\ CTX_SEQ_ItemizedSpec = ["items"; "concurrency"] /\ CTX_INPUTS_ItemizedSpec = []
  /\ CTX_SEQ_TaskRetrySpec = ["when"; "count"; "delay"] /\ CTX_INPUTS_TaskRetrySpec = []
  /\ CTX_SEQ_TaskTransitionSpec = ["when"; "publish"; "do"]
  /\ CTX_INPUTS_TaskTransitionSpec = ["publish"]
  /\ (forall c, In c ["continue"; "fail"; "noop"; "retry"] <-> is_command c).
Proof.
  repeat (split; [reflexivity|]). intro c. unfold is_command. vm_compute. tauto.
Qed.

(* -------------------------------------------------------------------- the example *)

Definition e_tr (w : json) (d : list string) : transition_spec :=
  {| tr_when := w; tr_publish := []; tr_do := d |}.
Definition e_task (a : json) (wi : option items_spec) (j : json) (nx : list transition_spec) : task_spec :=
  {| ts_action := a; ts_input := JDict []; ts_with := wi; ts_delay := JNull; ts_join := j; ts_next := nx |}.
Definition e_items : items_spec := {| it_expr := "<% ctx().xs %>"; it_keys := None; it_concurrency := JNull |}.

(* s -> a, b ; a -> ghost, j (transition 0) and ghost again (transition 1) ; b -> j, noop ; j (join)
   -> phantom, phantom ; w: with-items without action ; a task named retry ; u1 <-> u2: an island no
   start task reaches, whose transition to ghost2 is therefore not reported *)
Definition ex15 : wf_spec :=
  {| wf_input := [("xs", JNull)]; wf_vars := []; wf_output := [];
     wf_tasks :=
       [("j", e_task (JStr "core.noop") None (JStr "all") [e_tr JNull ["phantom"; "phantom"]]);
        ("s", e_task (JStr "core.noop") None JNull [e_tr (JStr "<% succeeded() %>") ["a"; "b"]]);
        ("a", e_task (JStr "core.noop") None JNull
                [e_tr (JStr "<% succeeded() %>") ["ghost"; "j"]; e_tr (JStr "<% failed() %>") ["ghost"]]);
        ("b", e_task (JStr "core.noop") None JNull [e_tr JNull ["j"; "noop"; "w"]]);
        ("w", e_task JNull (Some e_items) JNull []);
        ("retry", e_task (JStr "core.noop") None JNull [e_tr JNull ["nowhere"]]);
        ("u1", e_task (JStr "core.noop") None JNull [e_tr JNull ["u2"; "ghost2"]]);
        ("u2", e_task (JStr "core.noop") None JNull [e_tr JNull ["u1"]])] |}.

Lemma ex15_undefined :
  detect_undefined_tasks ex15 8
  = Val [SE_undefined "a" 0 "ghost"; SE_undefined "a" 1 "ghost";
         SE_undefined "j" 0 "phantom"; SE_undefined "j" 0 "phantom"].
Proof. vm_compute. reflexivity. Qed.

Lemma ex15_nodup : NoDup (task_names ex15).
Proof.
  unfold task_names. simpl.
  repeat (constructor; [simpl; intro H; repeat (destruct H as [H|H]; [discriminate|]); exact H|]). constructor.
Qed.

Lemma ex15_reach_a : reach ex15 "a".
Proof.
  apply (reach_step ex15 "s" "a" (JStr "<% succeeded() %>") 0); [|vm_compute; tauto|discriminate].
  apply reach_start. vm_compute. tauto.
Qed.

(* a cycle closed over every task: no start task *)
Definition ex15_cycle : wf_spec :=
  {| wf_input := []; wf_vars := []; wf_output := [];
     wf_tasks := [("p", e_task (JStr "core.noop") None JNull [e_tr JNull ["q"]]);
                  ("q", e_task (JStr "core.noop") None JNull [e_tr JNull ["p"]])] |}.

(* an accepted definition *)
Definition ex15_ok : wf_spec :=
  {| wf_input := []; wf_vars := []; wf_output := [];
     wf_tasks :=
       [("s", e_task (JStr "core.noop") None JNull [e_tr (JStr "<% succeeded() %>") ["a"; "b"]]);
        ("a", e_task (JStr "core.noop") None JNull [e_tr JNull ["j"]]);
        ("b", e_task (JStr "core.noop") (Some e_items) JNull [e_tr JNull ["j"; "noop"]]);
        ("j", e_task (JStr "core.noop") None (JStr "all") [e_tr (JStr "<% failed() %>") ["retry"]])] |}.

Lemma ex15_ok_accepted : inspect_semantics ex15_ok 10 = Val [].
Proof. vm_compute. reflexivity. Qed.

Lemma ex15_ok_nodup : NoDup (map fst (wf_tasks ex15_ok)).
Proof.
  simpl. repeat (constructor; [simpl; intro H; repeat (destruct H as [H|H]; [discriminate|]); exact H|]). constructor.
Qed.

(* the positions of a transition  when: <% ctx().a and ctx().y %>, publish: [{y: <% ctx().x %>}, {z: <% ctx().y %>}] *)
Definition ex15_props : cprops :=
  [("when", [{| cp_path := "tasks.t.next[0].when"; cp_refs := ["a"; "y"]; cp_keys := [] |}]);
   ("publish", [{| cp_path := "tasks.t.next[0].publish[0]"; cp_refs := ["x"]; cp_keys := ["y"] |};
                {| cp_path := "tasks.t.next[0].publish[1]"; cp_refs := ["y"]; cp_keys := ["z"] |}]);
   ("do", [{| cp_path := "tasks.t.next[0].do"; cp_refs := []; cp_keys := ["continue"] |}])].
