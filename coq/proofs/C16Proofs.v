(* C16Proofs.v -- values flow through unchanged; evaluation is pure; internals stay hidden.
   (a) exact characterisation of merge_dicts / merge_json, (b) literal values pass through
   [evaluate] unchanged, (c) [evaluate] is pure, (d) the data path of the model (input -> context,
   context lookup, publish, output), (e) which names can enter a published delta. *)
From Coq Require Import String Ascii List Bool ZArith Arith Lia.
From Orq Require Import GenStatuses GenEvents GenTables GenSpecMeta Base State Machines Codec Conductor.
From Orq Require Import Hoare.
Import ListNotations.
Open Scope string_scope.
Open Scope monad_scope.

(* ================================================================= dictionaries *)

Definition keys (d : dict) : list string := map fst d.
Definition is_jdict (v : json) : bool := match v with JDict _ => true | _ => false end.

Lemma seqb_refl : forall k, String.eqb k k = true.
Proof. intro k; apply String.eqb_refl. Qed.

Lemma seqb_neq : forall a b, a <> b -> String.eqb a b = false.
Proof. intros a b H; apply String.eqb_neq; exact H. Qed.

Lemma dget_app : forall k d1 d2,
  dget k (app d1 d2) = match dget k d1 with Some x => Some x | None => dget k d2 end.
Proof.
  intros k d1 d2; induction d1 as [|[k' v'] d1 IH]; simpl; [reflexivity|].
  unfold dget in *; simpl. destruct (String.eqb k k'); [reflexivity|exact IH].
Qed.

Lemma dget_none_notin : forall k d, dget k d = None <-> ~ In k (keys d).
Proof.
  intros k d; induction d as [|[k' v'] d IH]; simpl; [tauto|].
  unfold dget in *; simpl. destruct (String.eqb k k') eqn:E.
  - apply String.eqb_eq in E; subst. split; [discriminate|intro H; exfalso; apply H; left; reflexivity].
  - apply String.eqb_neq in E. rewrite IH. split; intro H.
    + intros [H1|H1]; [apply E; symmetry; exact H1|apply H; exact H1].
    + intro H1; apply H; right; exact H1.
Qed.

Lemma dget_some_in : forall k d v, dget k d = Some v -> In k (keys d).
Proof.
  intros k d v H. destruct (in_dec string_dec k (keys d)) as [Hi|Hn]; [exact Hi|].
  apply dget_none_notin in Hn. rewrite Hn in H; discriminate.
Qed.

Lemma dhas_in : forall k d, dhas k d = true <-> In k (keys d).
Proof.
  intros k d; unfold dhas, ahas. fold (dget k d). destruct (dget k d) eqn:E.
  - split; [intros _; eapply dget_some_in; exact E|reflexivity].
  - split; [discriminate|]. intro H. apply dget_none_notin in E. contradiction.
Qed.

Lemma dget_dset_same : forall k v d, dget k (dset k v d) = Some v.
Proof.
  intros k v d; induction d as [|[k' v'] d IH]; unfold dget, dset in *; simpl.
  - rewrite seqb_refl; reflexivity.
  - destruct (String.eqb k k') eqn:E; simpl; rewrite E; [reflexivity|exact IH].
Qed.

Lemma dget_dset_other : forall k k' v d, k <> k' -> dget k (dset k' v d) = dget k d.
Proof.
  intros k k' v d Hne; induction d as [|[k2 v2] d IH]; unfold dget, dset in *; simpl.
  - rewrite (seqb_neq _ _ Hne); reflexivity.
  - destruct (String.eqb k' k2) eqn:E; simpl.
    + apply String.eqb_eq in E; subst k2. rewrite (seqb_neq _ _ Hne). reflexivity.
    + destruct (String.eqb k k2); [reflexivity|exact IH].
Qed.

Lemma keys_dset_present : forall k v d, In k (keys d) -> keys (dset k v d) = keys d.
Proof.
  intros k v d; induction d as [|[k' v'] d IH]; intro H; [destruct H|].
  unfold dset in *; simpl. destruct (String.eqb k k') eqn:E; simpl; [reflexivity|].
  f_equal. apply IH. destruct H as [H|H]; [|exact H].
  simpl in H; subst k'. rewrite seqb_refl in E; discriminate.
Qed.

Lemma dset_fresh : forall k v d, ~ In k (keys d) -> dset k v d = app d [(k, v)].
Proof.
  intros k v d; induction d as [|[k' v'] d IH]; intro H; [reflexivity|].
  unfold dset in *; simpl. destruct (String.eqb k k') eqn:E.
  - apply String.eqb_eq in E; subst. exfalso; apply H; left; reflexivity.
  - f_equal. apply IH. intro Hi; apply H; right; exact Hi.
Qed.

Lemma keys_dset : forall k v d,
  keys (dset k v d) = if dhas k d then keys d else app (keys d) [k].
Proof.
  intros k v d. destruct (dhas k d) eqn:E.
  - apply keys_dset_present. apply dhas_in; exact E.
  - assert (Hn : ~ In k (keys d)) by (intro Hi; apply dhas_in in Hi; rewrite Hi in E; discriminate).
    rewrite (dset_fresh _ _ _ Hn). unfold keys; rewrite map_app; reflexivity.
Qed.

Lemma NoDup_snoc : forall (l : list string) k, NoDup l -> ~ In k l -> NoDup (app l [k]).
Proof.
  intros l k Hl Hk; induction Hl as [|x l Hx Hl IH]; simpl.
  - constructor; [intros []|constructor].
  - constructor.
    + intro Hi; apply in_app_or in Hi; destruct Hi as [Hi|[Hi|[]]]; [exact (Hx Hi)|].
      subst; apply Hk; left; reflexivity.
    + apply IH. intro Hi; apply Hk; right; exact Hi.
Qed.

Lemma NoDup_keys_dset : forall k v d, NoDup (keys d) -> NoDup (keys (dset k v d)).
Proof.
  intros k v d H. rewrite keys_dset. destruct (dhas k d) eqn:E; [exact H|].
  apply NoDup_snoc; [exact H|]. intro Hi; apply dhas_in in Hi; rewrite Hi in E; discriminate.
Qed.

(* ------------------------------------------------------------- merge_dicts *)

(* one step of the loop "for k, v in right.items()" *)
Definition merge_step (acc : dict) (k : string) (v : json) : dict :=
  match dget k acc with
  | None => app acc [(k, v)]
  | Some lv => dset k (merge_json lv v) acc
  end.

Fixpoint merge_go (acc : dict) (rs : list (string * json)) : dict :=
  match rs with
  | [] => acc
  | (k, v) :: rs' => merge_go (merge_step acc k v) rs'
  end.

Lemma merge_json_dicts : forall r l, merge_json (JDict l) (JDict r) = JDict (merge_go l r).
Proof.
  induction r as [|[k v] r IH]; intro l; [reflexivity|].
  specialize (IH (merge_step l k v)). simpl in *. exact IH.
Qed.

Lemma merge_dicts_go : forall l r, merge_dicts l r = merge_go l r.
Proof. intros l r; unfold merge_dicts; rewrite merge_json_dicts; reflexivity. Qed.

Lemma merge_json_dicts_rec : forall r l, merge_json (JDict l) (JDict r) = JDict (merge_dicts l r).
Proof. intros r l. rewrite merge_dicts_go. exact (merge_json_dicts r l). Qed.

(* non-dict values REPLACE, never merge *)
Lemma merge_json_replace : forall l r, is_jdict r = false \/ is_jdict l = false -> merge_json l r = r.
Proof.
  intros l r [H|H]; destruct r; try reflexivity; try discriminate; destruct l; try reflexivity; discriminate.
Qed.

Lemma merge_json_not_dict_r : forall l r, is_jdict r = false -> merge_json l r = r.
Proof. intros l r H; apply merge_json_replace; left; exact H. Qed.

Lemma merge_json_not_dict_l : forall l r, is_jdict l = false -> merge_json l r = r.
Proof. intros l r H; apply merge_json_replace; right; exact H. Qed.

Lemma merge_dicts_nil_r : forall l, merge_dicts l [] = l.
Proof. reflexivity. Qed.

Lemma dget_merge_step : forall k acc k0 v0,
  dget k (merge_step acc k0 v0) =
  if String.eqb k k0
  then match dget k0 acc with Some lv => Some (merge_json lv v0) | None => Some v0 end
  else dget k acc.
Proof.
  intros k acc k0 v0. unfold merge_step. destruct (String.eqb k k0) eqn:E.
  - apply String.eqb_eq in E; subst k0. destruct (dget k acc) eqn:G.
    + apply dget_dset_same.
    + rewrite dget_app, G. unfold dget; simpl. rewrite seqb_refl; reflexivity.
  - apply String.eqb_neq in E. destruct (dget k0 acc) eqn:G.
    + apply dget_dset_other; exact E.
    + rewrite dget_app. destruct (dget k acc); [reflexivity|].
      unfold dget; simpl. rewrite (seqb_neq _ _ E); reflexivity.
Qed.

(* the exact lookup characterisation *)
Theorem dget_merge_dicts : forall r l k, NoDup (keys r) ->
  dget k (merge_dicts l r) =
  match dget k r with
  | None => dget k l
  | Some v => match dget k l with Some lv => Some (merge_json lv v) | None => Some v end
  end.
Proof.
  intros r l k Hr. rewrite merge_dicts_go. revert l.
  induction r as [|[k0 v0] r IH]; intro l; [reflexivity|].
  simpl in Hr. inversion Hr as [|x xs Hnotin Hr']; subst.
  simpl. rewrite (IH Hr'). rewrite dget_merge_step.
  unfold dget at 3; simpl. fold (dget k r).
  destruct (String.eqb k k0) eqn:E.
  - apply String.eqb_eq in E; subst k0.
    assert (Hn : dget k r = None) by (apply dget_none_notin; exact Hnotin).
    rewrite Hn. reflexivity.
  - reflexivity.
Qed.

Lemma keys_merge_step : forall acc k v,
  keys (merge_step acc k v) = if dhas k acc then keys acc else app (keys acc) [k].
Proof.
  intros acc k v. unfold merge_step, dhas, ahas. fold (dget k acc). destruct (dget k acc) eqn:E.
  - apply keys_dset_present. eapply dget_some_in; exact E.
  - unfold keys; rewrite map_app; reflexivity.
Qed.

Lemma dhas_merge_step_other : forall k acc k0 v0, k <> k0 -> dhas k (merge_step acc k0 v0) = dhas k acc.
Proof.
  intros k acc k0 v0 Hne. unfold dhas, ahas. fold (dget k (merge_step acc k0 v0)). fold (dget k acc).
  rewrite dget_merge_step, (seqb_neq _ _ Hne). reflexivity.
Qed.

(* key order: the left keys in their order, then the new right keys in their order *)
Theorem keys_merge_dicts : forall r l, NoDup (keys r) ->
  keys (merge_dicts l r) = app (keys l) (filter (fun k => negb (dhas k l)) (keys r)).
Proof.
  intros r l Hr. rewrite merge_dicts_go. revert l.
  induction r as [|[k0 v0] r IH]; intro l; simpl; [rewrite app_nil_r; reflexivity|].
  simpl in Hr. inversion Hr as [|x xs Hnotin Hr']; subst.
  rewrite (IH Hr'). rewrite keys_merge_step.
  assert (Hf : filter (fun k => negb (dhas k (merge_step l k0 v0))) (keys r)
               = filter (fun k => negb (dhas k l)) (keys r)).
  { apply filter_ext_in. intros k Hk. rewrite dhas_merge_step_other; [reflexivity|].
    intro; subst; contradiction. }
  rewrite Hf. destruct (dhas k0 l); simpl; [reflexivity|].
  rewrite <- app_assoc; reflexivity.
Qed.

(* key uniqueness is preserved (for every right operand) *)
Lemma NoDup_keys_merge_step : forall acc k v, NoDup (keys acc) -> NoDup (keys (merge_step acc k v)).
Proof.
  intros acc k v H. rewrite keys_merge_step. destruct (dhas k acc) eqn:E; [exact H|].
  apply NoDup_snoc; [exact H|]. intro Hi; apply dhas_in in Hi; rewrite Hi in E; discriminate.
Qed.

Theorem NoDup_keys_merge_dicts : forall r l, NoDup (keys l) -> NoDup (keys (merge_dicts l r)).
Proof.
  intros r l Hl. rewrite merge_dicts_go. revert l Hl.
  induction r as [|[k v] r IH]; intros l Hl; simpl; [exact Hl|].
  apply IH. apply NoDup_keys_merge_step; exact Hl.
Qed.

(* disjoint operands: merge is concatenation; in particular merge_dicts [] r = r *)
Theorem merge_dicts_disjoint : forall r l, NoDup (app (keys l) (keys r)) -> merge_dicts l r = app l r.
Proof.
  intros r l. rewrite merge_dicts_go. revert l.
  induction r as [|[k v] r IH]; intros l H; simpl; [rewrite app_nil_r; reflexivity|].
  simpl in H. pose proof (NoDup_remove_2 _ _ _ H) as Hk.
  assert (Hn : dget k l = None).
  { apply dget_none_notin. intro Hi; apply Hk; apply in_or_app; left; exact Hi. }
  unfold merge_step; rewrite Hn. rewrite IH.
  - rewrite <- app_assoc; reflexivity.
  - unfold keys in *; rewrite map_app; simpl. rewrite <- app_assoc; simpl. exact H.
Qed.

Theorem merge_dicts_nil_l : forall r, NoDup (keys r) -> merge_dicts [] r = r.
Proof. intros r H. apply (merge_dicts_disjoint r []). exact H. Qed.

(* a name absent on the right keeps its left value, a non-dict right value replaces *)
Corollary dget_merge_dicts_replace : forall r l k v, NoDup (keys r) -> dget k r = Some v ->
  (is_jdict v = false \/ forall lv, dget k l = Some lv -> is_jdict lv = false) ->
  dget k (merge_dicts l r) = Some v.
Proof.
  intros r l k v Hr Hk Hv. rewrite (dget_merge_dicts r l k Hr), Hk.
  destruct (dget k l) as [lv|] eqn:E; [|reflexivity].
  rewrite merge_json_replace; [reflexivity|].
  destruct Hv as [Hv|Hv]; [left; exact Hv|right; apply Hv; reflexivity].
Qed.

(* ================================================================= literals *)

(* [has_sub p s]: p occurs in s *)
Fixpoint has_sub (p s : string) : bool :=
  String.prefix p s || match s with EmptyString => false | String _ s' => has_sub p s' end.

(* the delimiters of the two expression languages *)
Definition EXPR_DELIMS : list string := ["<%"; "%>"; "{{"; "}}"; "{%"].
Definition no_expr (s : string) : bool := negb (existsb (fun d => has_sub d s) EXPR_DELIMS).

Fixpoint keys_unique (ks : list string) : bool :=
  match ks with [] => true | k :: ks' => negb (string_in k ks') && keys_unique ks' end.

(* a JSON value none of whose strings (dict keys included) carries a delimiter; dict keys are
   unique at every level (Python dicts) *)
Fixpoint literal (v : json) : bool :=
  match v with
  | JStr s => no_expr s
  | JList l => forallb literal l
  | JDict kv => keys_unique (map fst kv) && forallb (fun p => no_expr (fst p) && literal (snd p)) kv
  | _ => true
  end.

Lemma string_in_In : forall k l, string_in k l = true <-> In k l.
Proof.
  intros k l; unfold string_in; rewrite existsb_exists. split.
  - intros [x [Hx He]]. apply String.eqb_eq in He; subst; exact Hx.
  - intro H; exists k; split; [exact H|apply String.eqb_refl].
Qed.

Lemma keys_unique_NoDup : forall ks, keys_unique ks = true -> NoDup ks.
Proof.
  induction ks as [|k ks IH]; intro H; [constructor|].
  simpl in H; apply andb_prop in H; destruct H as [H1 H2]. constructor; [|apply IH; exact H2].
  intro Hi. apply string_in_In in Hi. rewrite Hi in H1; discriminate.
Qed.

Section WithEval.
Variable ev : string -> dict -> evalres.

(* the evaluators return a string without delimiters as it is (expr_base.evaluate: no evaluator
   reports has_expressions, the statement is returned) *)
Definition ev_literal_ok : Prop := forall s ctx, no_expr s = true -> ev s ctx = EvOk (JStr s).

(* the two inner loops of [evaluate], named *)
Definition eval_list (ctx : dict) : list json -> M (list json) :=
  fix go (l : list json) : M (list json) :=
    match l with
    | [] => ret []
    | x :: l' => y <- evaluate ev x ctx ;; ys <- go l' ;; ret (y :: ys)
    end.

Definition eval_dict (ctx : dict) : list (string * json) -> dict -> M dict :=
  fix go (kv : list (string * json)) (acc : dict) {struct kv} : M dict :=
    match kv with
    | [] => ret acc
    | (k, v) :: kv' =>
        k' <- lift_eval (ev k ctx) ;;
        (match k' with
         | JList _ => raise (exn_unhashable_key "list" k)
         | JDict _ => raise (exn_unhashable_key "dict" k)
         | _ => ret tt
         end) ;;;
        v' <- evaluate ev v ctx ;;
        match k' with
        | JStr ks => go kv' (dset ks v' acc)
        | _ => raise (mkexn "TypeError" "unsupported dictionary key produced by expression")
        end
    end.

Lemma evaluate_list : forall l ctx,
  evaluate ev (JList l) ctx = bind (eval_list ctx l) (fun r => ret (JList r)).
Proof. reflexivity. Qed.

Lemma evaluate_dict : forall kv ctx,
  evaluate ev (JDict kv) ctx = bind (eval_dict ctx kv []) (fun r => ret (JDict r)).
Proof. reflexivity. Qed.

Lemma eval_list_cons : forall ctx x l,
  eval_list ctx (x :: l) = (y <- evaluate ev x ctx ;; ys <- eval_list ctx l ;; ret (y :: ys)).
Proof. reflexivity. Qed.

Lemma eval_dict_cons : forall ctx k v kv acc,
  eval_dict ctx ((k, v) :: kv) acc =
  (k' <- lift_eval (ev k ctx) ;;
   (match k' with
    | JList _ => raise (exn_unhashable_key "list" k)
    | JDict _ => raise (exn_unhashable_key "dict" k)
    | _ => ret tt
    end) ;;;
   v' <- evaluate ev v ctx ;;
   match k' with
   | JStr ks => eval_dict ctx kv (dset ks v' acc)
   | _ => raise (mkexn "TypeError" "unsupported dictionary key produced by expression")
   end).
Proof. reflexivity. Qed.

(* (b) literal values pass through evaluate unchanged, in type and value *)
Theorem evaluate_identity : ev_literal_ok -> forall v ctx c, literal v = true ->
  evaluate ev v ctx c = (c, Val v).
Proof.
  intros Hev v; induction v as [| | | |s|l IH|kv IH] using json_ind'; intros ctx c Hl;
    try reflexivity.
  - simpl in *. rewrite (Hev s ctx Hl). reflexivity.
  - simpl in Hl. rewrite evaluate_list. unfold bind.
    assert (G : eval_list ctx l c = (c, Val l)).
    { induction IH as [|x l Hx Hl' IHl]; [reflexivity|].
      simpl in Hl; apply andb_prop in Hl; destruct Hl as [Hlx Hll].
      rewrite eval_list_cons. unfold bind. rewrite (Hx ctx c Hlx). rewrite (IHl Hll). reflexivity. }
    rewrite G. reflexivity.
  - simpl in Hl. apply andb_prop in Hl; destruct Hl as [Hu Hall].
    apply keys_unique_NoDup in Hu.
    rewrite evaluate_dict. unfold bind.
    assert (G : forall acc, NoDup (app (keys acc) (keys kv)) ->
                eval_dict ctx kv acc c = (c, Val (app acc kv))).
    { clear Hu. induction IH as [|[k v] kv' Hx Hl' IHl]; intros acc Hnd.
      - rewrite app_nil_r; reflexivity.
      - simpl in Hall; apply andb_prop in Hall; destruct Hall as [Hkv Hrest].
        apply andb_prop in Hkv; destruct Hkv as [Hk Hv]. simpl in Hk, Hv, Hx.
        rewrite eval_dict_cons. unfold bind. rewrite (Hev k ctx Hk). simpl. rewrite (Hx ctx c Hv).
        simpl in Hnd. pose proof (NoDup_remove_2 _ _ _ Hnd) as Hnk.
        rewrite dset_fresh by (intro Hi; apply Hnk; apply in_or_app; left; exact Hi).
        rewrite (IHl Hrest).
        + rewrite <- app_assoc; reflexivity.
        + unfold keys in *; rewrite map_app; simpl. rewrite <- app_assoc; simpl. exact Hnd. }
    rewrite (G []); [reflexivity|exact Hu].
Qed.

(* (c) evaluation never changes the conductor state ... *)
Theorem evaluate_state_unchanged : forall stmt ctx c, fst (evaluate ev stmt ctx c) = c.
Proof. intros stmt ctx c. apply (evaluate_pure ev stmt ctx c). Qed.

End WithEval.

(* ... and the context reaches the evaluators as it was given: [evaluate] depends on the oracle
   only through its values at that very context (trivial in Gallina -- there is no aliasing and
   the recursion passes [ctx] down unchanged -- stated so that the claim is explicit). *)
Theorem evaluate_ctx_unchanged : forall ev ev' stmt ctx,
  (forall s, ev s ctx = ev' s ctx) -> forall c, evaluate ev stmt ctx c = evaluate ev' stmt ctx c.
Proof.
  intros ev ev' stmt ctx Hev; induction stmt as [| | | |s|l IH|kv IH] using json_ind'; intro c;
    try reflexivity.
  - simpl. rewrite Hev. reflexivity.
  - rewrite !evaluate_list. unfold bind.
    assert (G : forall c, eval_list ev ctx l c = eval_list ev' ctx l c).
    { induction IH as [|x l Hx Hl IHl]; intro c0; [reflexivity|].
      rewrite !eval_list_cons. unfold bind. rewrite (Hx c0).
      destruct (evaluate ev' x ctx c0) as [c1 [y|e]]; [|reflexivity].
      rewrite (IHl c1). reflexivity. }
    rewrite (G c). reflexivity.
  - rewrite !evaluate_dict. unfold bind.
    assert (G : forall acc c, eval_dict ev ctx kv acc c = eval_dict ev' ctx kv acc c).
    { induction IH as [|[k v] kv' Hx Hl IHl]; intros acc c0; [reflexivity|].
      rewrite !eval_dict_cons. unfold bind. rewrite (Hev k).
      destruct (lift_eval (ev' k ctx) c0) as [c1 [k'|e]]; [|reflexivity].
      simpl in Hx.
      destruct k'; cbn [raise ret]; try reflexivity;
        rewrite (Hx c1); (destruct (evaluate ev' v ctx c1) as [c2 [v'|e]]; [|reflexivity]);
        try reflexivity. apply IHl. }
    rewrite (G [] c). reflexivity.
Qed.

(* ================================================================= data path *)

Lemma bind_val : forall A B (m : M A) (f : A -> M B) c c' a, m c = (c', Val a) -> bind m f c = f a c'.
Proof. intros A B m f c c' a H. unfold bind. rewrite H. reflexivity. Qed.

Lemma bind_exc : forall A B (m : M A) (f : A -> M B) c c' e, m c = (c', Exc e) -> bind m f c = (c', Exc e).
Proof. intros A B m f c c' e H. unfold bind. rewrite H. reflexivity. Qed.

(* d[n1] = v1; d[n2] = v2; ... *)
Definition set_all (nvs : list (string * json)) (d : dict) : dict :=
  fold_left (fun acc p => dset (fst p) (snd p) acc) nvs d.

Definition all_literal (nvs : list (string * json)) : bool := forallb (fun p => literal (snd p)) nvs.

(* runtime_inputs.get(name, default) for every declared input *)
Definition input_values (specs : list (string * json)) (runtime : dict) : list (string * json) :=
  map (fun p => (fst p, match dget (fst p) runtime with Some x => x | None => snd p end)) specs.

Lemma input_values_names : forall specs runtime, map fst (input_values specs runtime) = map fst specs.
Proof. intros specs runtime; unfold input_values; rewrite map_map; reflexivity. Qed.

Lemma dget_set_all_notin : forall nvs d n, ~ In n (map fst nvs) -> dget n (set_all nvs d) = dget n d.
Proof.
  induction nvs as [|[n0 v0] nvs IH]; intros d n H; [reflexivity|].
  simpl. rewrite IH by (intro Hi; apply H; right; exact Hi).
  apply dget_dset_other. intro; subst; apply H; left; reflexivity.
Qed.

Lemma dget_set_all : forall nvs d n v, NoDup (map fst nvs) -> In (n, v) nvs ->
  dget n (set_all nvs d) = Some v.
Proof.
  induction nvs as [|[n0 v0] nvs IH]; intros d n v Hnd Hin; [destruct Hin|].
  simpl in Hnd; inversion Hnd as [|x xs Hx Hnd']; subst. simpl.
  destruct Hin as [Heq|Hin].
  - inversion Heq; subst. rewrite dget_set_all_notin by exact Hx. apply dget_dset_same.
  - apply IH; assumption.
Qed.

Lemma NoDup_keys_set_all : forall nvs d, NoDup (keys d) -> NoDup (keys (set_all nvs d)).
Proof.
  induction nvs as [|[n0 v0] nvs IH]; intros d H; [exact H|].
  simpl. apply IH. apply NoDup_keys_dset; exact H.
Qed.

Lemma set_all_fresh : forall nvs d, NoDup (app (keys d) (map fst nvs)) -> set_all nvs d = app d nvs.
Proof.
  induction nvs as [|[n0 v0] nvs IH]; intros d H; simpl; [rewrite app_nil_r; reflexivity|].
  simpl in H. pose proof (NoDup_remove_2 _ _ _ H) as Hk.
  rewrite dset_fresh by (intro Hi; apply Hk; apply in_or_app; left; exact Hi).
  rewrite IH.
  - rewrite <- app_assoc; reflexivity.
  - unfold keys in *; rewrite map_app; simpl. rewrite <- app_assoc; simpl. exact H.
Qed.

Lemma set_all_nil : forall nvs, NoDup (map fst nvs) -> set_all nvs [] = nvs.
Proof. intros nvs H. apply (set_all_fresh nvs []). exact H. Qed.

Lemma keys_set_all_sub : forall nvs d k, In k (keys (set_all nvs d)) -> In k (keys d) \/ In k (map fst nvs).
Proof.
  induction nvs as [|[n0 v0] nvs IH]; intros d k H; [left; exact H|].
  simpl in H. apply IH in H. destruct H as [H|H]; [|right; right; exact H].
  rewrite keys_dset in H. destruct (dhas n0 d); [left; exact H|].
  apply in_app_or in H; destruct H as [H|[H|[]]]; [left; exact H|right; left; exact H].
Qed.

Definition is_dunder (k : string) : bool := String.prefix "__" k.

Section DataPath.
Variable ev : string -> dict -> evalres.

Section Literal.
Hypothesis Hev : ev_literal_ok ev.

Lemma try_eval_literal : forall v rolling c, literal v = true ->
  try_catch_expr (x <- evaluate ev v rolling ;; ret (inl x)) (fun e : exn => ret (inr e)) c
  = (c, Val (@inl json exn v)).
Proof.
  intros v rolling c H. unfold try_catch_expr, bind. rewrite (evaluate_identity ev Hev v rolling c H).
  reflexivity.
Qed.

(* WorkflowSpec.render_input with literal values: every value is stored as it is *)
Lemma render_input_literal : forall specs runtime rolling errs c,
  all_literal (input_values specs runtime) = true ->
  render_input ev specs runtime rolling errs c
  = (c, Val (set_all (input_values specs runtime) rolling, errs)).
Proof.
  induction specs as [|[name dflt] specs IH]; intros runtime rolling errs c H; [reflexivity|].
  simpl in H. apply andb_prop in H; destruct H as [Hv Hrest].
  simpl. rewrite (bind_val _ _ _ _ _ _ _ (try_eval_literal _ rolling c Hv)).
  apply IH. exact Hrest.
Qed.

(* render_vars / publish / output with literal values *)
Lemma render_vars_literal : forall specs rolling rendered errs c,
  all_literal specs = true ->
  render_vars ev specs rolling rendered errs c = (c, Val (set_all specs rendered, errs)).
Proof.
  induction specs as [|[name expr] specs IH]; intros rolling rendered errs c H; [reflexivity|].
  simpl in H. apply andb_prop in H; destruct H as [Hv Hrest].
  simpl. rewrite (bind_val _ _ _ _ _ _ _ (try_eval_literal _ rolling c Hv)).
  apply IH. exact Hrest.
Qed.

(* a literal published under unique names: the delta is the publish list itself *)
Corollary render_vars_literal_delta : forall specs rolling c,
  all_literal specs = true -> NoDup (map fst specs) ->
  render_vars ev specs rolling [] [] c = (c, Val (specs, [])).
Proof.
  intros specs rolling c Hl Hn. rewrite (render_vars_literal specs rolling [] [] c Hl).
  rewrite (set_all_nil specs Hn). reflexivity.
Qed.

(* TaskSpec.finalize_context: the new context delta of a transition that publishes literals *)
Theorem finalize_context_literal : forall ts e in_ctx tr c,
  nth_error (ts_next ts) (e_ref e) = Some tr -> string_in (e_dst e) (tr_do tr) = true ->
  all_literal (tr_publish tr) = true ->
  finalize_context ev ts e in_ctx c = (c, Val (set_all (tr_publish tr) [], [])).
Proof.
  intros ts e in_ctx tr c Hn Hd Hl. unfold finalize_context. rewrite Hn, Hd.
  apply render_vars_literal. exact Hl.
Qed.

(* ---- workflow input -> contexts[0] ---- *)

Definition init_ctx_of (c : cstate) : dict :=
  let ri := set_all (input_values (wf_input (c_spec c)) (c_inputs c)) (c_parent c) in
  merge_dicts (merge_dicts (c_parent c) ri) (set_all (wf_vars (c_spec c)) []).

Lemma stage_roots_contexts : forall l c, exists c',
  forM_ l (fun t => modws (fun w => ws_add_staged w (mk_staged t 0 [0] [] true None))) c = (c', Val tt)
  /\ contexts (c_ws c') = contexts (c_ws c).
Proof.
  induction l as [|t l IH]; intro c; [exists c; split; reflexivity|].
  simpl. unfold bind at 1. unfold modws at 1.
  destruct (IH (set_ws c (ws_add_staged (c_ws c) (mk_staged t 0 [0] [] true None)))) as [c' [H1 H2]].
  exists c'. split; [exact H1|exact H2].
Qed.

Theorem ensure_ws_literal : forall c, c_init c = false ->
  all_literal (input_values (wf_input (c_spec c)) (c_inputs c)) = true ->
  all_literal (wf_vars (c_spec c)) = true ->
  status_in (wstatus (c_ws c)) ABENDED_STATUSES = false ->
  exists c', ensure_ws ev c = (c', Val tt)
             /\ contexts (c_ws c') = app (contexts (c_ws c)) [init_ctx_of c].
Proof.
  intros c Hi Hin Hvars Hst. unfold ensure_ws.
  unfold bind at 1. unfold get at 1. cbv beta iota. rewrite Hi.
  unfold bind at 1. unfold modify at 1. cbv beta iota.
  rewrite (bind_val _ _ _ _ _ _ _ (render_input_literal _ _ _ _ _ Hin)). cbv beta iota.
  rewrite (bind_val _ _ _ _ _ _ _ (render_vars_literal _ _ _ _ _ Hvars)). cbv beta iota.
  simpl app. cbv beta iota.
  unfold bind at 1. unfold ret at 1. cbv beta iota.
  unfold bind at 1. unfold getws at 1. cbv beta iota.
  change (c_ws (set_init c true)) with (c_ws c). rewrite Hst.
  unfold bind at 1. unfold modws at 1. cbv beta iota.
  match goal with |- exists c', forM_ ?l ?f ?c1 = _ /\ _ =>
    destruct (stage_roots_contexts l c1) as [c' [H1 H2]] end.
  exists c'. split; [exact H1|]. rewrite H2. reflexivity.
Qed.

(* a literal input value is found unchanged, under its name, in the initial context *)
Theorem init_ctx_holds_input : forall c n v,
  NoDup (map fst (wf_input (c_spec c))) -> NoDup (keys (c_parent c)) ->
  In (n, v) (input_values (wf_input (c_spec c)) (c_inputs c)) ->
  ~ In n (map fst (wf_vars (c_spec c))) ->
  (is_jdict v = false \/ forall pv, dget n (c_parent c) = Some pv -> is_jdict pv = false) ->
  dget n (init_ctx_of c) = Some v.
Proof.
  intros c n v Hnd Hp Hin Hnv Hrep. unfold init_ctx_of. cbv zeta.
  rewrite dget_merge_dicts by (apply NoDup_keys_set_all; constructor).
  rewrite (dget_set_all_notin _ [] n Hnv). simpl.
  apply dget_merge_dicts_replace.
  - apply NoDup_keys_set_all; exact Hp.
  - apply dget_set_all; [rewrite input_values_names; exact Hnd|exact Hin].
  - exact Hrep.
Qed.

Lemma NoDup_keys_init_ctx : forall c, NoDup (keys (c_parent c)) -> NoDup (keys (init_ctx_of c)).
Proof.
  intros c H. unfold init_ctx_of. cbv zeta. apply NoDup_keys_merge_dicts. apply NoDup_keys_merge_dicts. exact H.
Qed.

End Literal.

(* ---- contexts -> task context ---- *)

Theorem task_context_of_initial : forall ctxs d, nth_error ctxs 0 = Some d -> NoDup (keys d) ->
  get_task_context_from ctxs [0] [] = Val d.
Proof.
  intros ctxs d H Hd. destruct ctxs as [|d' ctxs]; [discriminate|]. simpl in H; inversion H; subst d'.
  cbn [get_task_context_from nth_error]. rewrite (merge_dicts_nil_l d Hd). reflexivity.
Qed.

Theorem task_context_of_two : forall ctxs i d0 di, nth_error ctxs 0 = Some d0 -> nth_error ctxs i = Some di ->
  NoDup (keys d0) -> get_task_context_from ctxs [0; i] [] = Val (merge_dicts d0 di).
Proof.
  intros ctxs i d0 di H0 Hi Hd. destruct ctxs as [|d' ctxs]; [discriminate|]. simpl in H0; inversion H0; subst d'.
  unfold get_task_context_from. change (nth_error (d0 :: ctxs) 0) with (Some d0). cbv iota.
  rewrite (merge_dicts_nil_l d0 Hd). rewrite Hi. reflexivity.
Qed.

(* a value published into a later delta is what the next task sees (a non-dict value, or a value
   over a non-dict / absent one, REPLACES; two dicts are merged key by key -- see dget_merge_dicts) *)
Theorem later_context_wins : forall ctxs i d0 di n v, nth_error ctxs 0 = Some d0 -> nth_error ctxs i = Some di ->
  NoDup (keys d0) -> NoDup (keys di) -> dget n di = Some v ->
  (is_jdict v = false \/ forall pv, dget n d0 = Some pv -> is_jdict pv = false) ->
  exists d, get_task_context_from ctxs [0; i] [] = Val d /\ dget n d = Some v.
Proof.
  intros ctxs i d0 di n v H0 Hi Hd0 Hdi Hn Hrep. exists (merge_dicts d0 di). split.
  - apply task_context_of_two; assumption.
  - apply dget_merge_dicts_replace; assumption.
Qed.

Theorem earlier_context_kept : forall ctxs i d0 di n, nth_error ctxs 0 = Some d0 -> nth_error ctxs i = Some di ->
  NoDup (keys d0) -> NoDup (keys di) -> dget n di = None ->
  exists d, get_task_context_from ctxs [0; i] [] = Val d /\ dget n d = dget n d0.
Proof.
  intros ctxs i d0 di n H0 Hi Hd0 Hdi Hn. exists (merge_dicts d0 di). split.
  - apply task_context_of_two; assumption.
  - rewrite dget_merge_dicts by exact Hdi. rewrite Hn. reflexivity.
Qed.

(* ---- the context handed to the evaluators for a task ---- *)

Definition task_eval_ctx (t : string) (route : nat) (res : option json) (ctx0 : dict) (w : wstate) : dict :=
  merge_dicts (dset "__current_task" (current_task_json t route res) ctx0) (state_ctx w).

Lemma NoDup_state_ctx : forall w, NoDup (keys (state_ctx w)).
Proof. intro w. simpl. constructor; [intros []|constructor]. Qed.

Theorem task_eval_ctx_internals : forall t route res ctx0 w,
  dget "__current_task" (task_eval_ctx t route res ctx0 w) = Some (current_task_json t route res)
  /\ dhas "__state" (task_eval_ctx t route res ctx0 w) = true.
Proof.
  intros t route res ctx0 w. unfold task_eval_ctx. split.
  - rewrite dget_merge_dicts by apply NoDup_state_ctx. simpl. apply dget_dset_same.
  - unfold dhas, ahas. fold (dget "__state" (merge_dicts (dset "__current_task" (current_task_json t route res) ctx0) (state_ctx w))).
    rewrite dget_merge_dicts by apply NoDup_state_ctx. simpl.
    destruct (dget "__state" (dset "__current_task" (current_task_json t route res) ctx0)); reflexivity.
Qed.

(* user names reach the evaluators with the value the task context has for them *)
Theorem task_eval_ctx_user : forall t route res ctx0 w k, k <> "__current_task" -> k <> "__state" ->
  dget k (task_eval_ctx t route res ctx0 w) = dget k ctx0.
Proof.
  intros t route res ctx0 w k H1 H2. unfold task_eval_ctx.
  rewrite dget_merge_dicts by apply NoDup_state_ctx.
  unfold state_ctx, dget at 1; simpl. rewrite (seqb_neq _ _ H2).
  apply dget_dset_other. exact H1.
Qed.

(* ---- which names can enter a published delta (for EVERY evaluator) ---- *)

Lemma render_vars_names : forall specs rolling rendered errs c c' out errs',
  render_vars ev specs rolling rendered errs c = (c', Val (out, errs')) ->
  (forall k, In k (keys out) -> In k (keys rendered) \/ In k (map fst specs))
  /\ (forall k, In k (keys rendered) -> In k (keys out))
  /\ exists es, errs' = app errs es /\ (es = [] -> forall n, In n (map fst specs) -> In n (keys out)).
Proof.
  induction specs as [|[name expr] specs IH]; intros rolling rendered errs c c' out errs' H.
  - simpl in H. inversion H; subst. split; [intros k Hk; left; exact Hk|].
    split; [intros k Hk; exact Hk|]. exists []. rewrite app_nil_r. split; [reflexivity|intros _ n []].
  - simpl in H. unfold bind at 1 in H.
    destruct (try_catch_expr (x <- evaluate ev expr rolling;; ret (inl x)) (fun e : exn => ret (inr e)) c)
      as [c1 [[x|e]|e]] eqn:E; [| |discriminate].
    + apply IH in H. destruct H as [Ha [Hb [es [He Hc]]]].
      assert (Hname : In name (keys (dset name x rendered))).
      { apply dhas_in. unfold dhas, ahas. fold (dget name (dset name x rendered)).
        rewrite dget_dset_same. reflexivity. }
      split; [|split].
      * intros k Hk. apply Ha in Hk. destruct Hk as [Hk|Hk]; [|right; right; exact Hk].
        rewrite keys_dset in Hk. destruct (dhas name rendered); [left; exact Hk|].
        apply in_app_or in Hk; destruct Hk as [Hk|[Hk|[]]]; [left; exact Hk|right; left; exact Hk].
      * intros k Hk. apply Hb. rewrite keys_dset. destruct (dhas name rendered); [exact Hk|].
        apply in_or_app; left; exact Hk.
      * exists es. split; [exact He|]. intros Hes n [Hn|Hn].
        -- simpl in Hn; subst n. apply Hb. exact Hname.
        -- apply Hc; assumption.
    + apply IH in H. destruct H as [Ha [Hb [es [He Hc]]]].
      split; [|split].
      * intros k Hk. apply Ha in Hk. destruct Hk as [Hk|Hk]; [left; exact Hk|right; right; exact Hk].
      * exact Hb.
      * exists (e :: es). split; [rewrite He, <- app_assoc; reflexivity|discriminate].
Qed.

(* the published delta contains only published names; exactly those when nothing failed *)
Theorem published_names : forall specs rolling c c' out errs,
  render_vars ev specs rolling [] [] c = (c', Val (out, errs)) ->
  (forall k, In k (keys out) -> In k (map fst specs))
  /\ (errs = [] -> forall n, In n (map fst specs) -> In n (keys out)).
Proof.
  intros specs rolling c c' out errs H. apply render_vars_names in H.
  destruct H as [Ha [_ [es [He Hc]]]]. split.
  - intros k Hk. destruct (Ha k Hk) as [[]|Hx]; exact Hx.
  - intro Hn. apply Hc. simpl in He. subst; reflexivity.
Qed.

Theorem finalize_context_names : forall ts e in_ctx c c' new_ctx errs,
  finalize_context ev ts e in_ctx c = (c', Val (new_ctx, errs)) ->
  forall k, In k (keys new_ctx) ->
  exists tr, nth_error (ts_next ts) (e_ref e) = Some tr /\ In k (map fst (tr_publish tr)).
Proof.
  intros ts e in_ctx c c' new_ctx errs H k Hk. unfold finalize_context in H.
  destruct (nth_error (ts_next ts) (e_ref e)) as [tr|] eqn:En; [|discriminate].
  exists tr. split; [reflexivity|].
  destruct (string_in (e_dst e) (tr_do tr)).
  - apply published_names in H. destruct H as [Ha _]. apply Ha; exact Hk.
  - inversion H; subst. destruct Hk.
Qed.

(* no double-underscore name enters a delta unless a publish names it *)
Corollary no_dunder_published : forall ts e in_ctx c c' new_ctx errs,
  finalize_context ev ts e in_ctx c = (c', Val (new_ctx, errs)) ->
  (forall tr, nth_error (ts_next ts) (e_ref e) = Some tr ->
              forallb (fun n => negb (is_dunder n)) (map fst (tr_publish tr)) = true) ->
  forallb (fun n => negb (is_dunder n)) (keys new_ctx) = true.
Proof.
  intros ts e in_ctx c c' new_ctx errs H Hp. apply forallb_forall. intros k Hk.
  destruct (finalize_context_names _ _ _ _ _ _ _ H k Hk) as [tr [Hn Hin]].
  specialize (Hp tr Hn). rewrite forallb_forall in Hp. apply Hp; exact Hin.
Qed.

(* ---- the offer of get_next_tasks carries that context ---- *)

Ltac step H :=
  unfold bind at 1 in H;
  lazymatch type of H with
  | (let (_, _) := ?m ?c in _) = _ =>
      let a := fresh "a" in destruct (m c) as [? [a|?]] eqn:?; [|discriminate H]
  end.

(* the first statement of get_task / next_task_for: the inbound context of the staged entry *)
Definition inbound_ctx_M (s : stg) (c : cstate) : M dict :=
  match get_staged_task (c_ws c) (s_id s) (s_route s) with
  | Some s' => get_task_context (s_in s')
  | None => match ws_task_entry (c_ws c) (s_id s) (s_route s) with
            | Some r => get_task_context (r_in r)
            | None => match nth_error (contexts (c_ws c)) 0 with
                      | Some d => ret d
                      | None => raise exn_index
                      end
            end
  end.

Theorem next_task_for_ctx : forall s c c' o, next_task_for ev s c = (c', Val (Some o)) ->
  exists c0 ctx0, inbound_ctx_M s c c = (c0, Val ctx0)
                  /\ o_ctx o = task_eval_ctx (s_id s) (s_route s) None ctx0 (c_ws c).
Proof.
  intros s c c' o H. unfold next_task_for in H.
  unfold bind at 1, get at 1 in H. cbv beta iota in H.
  step H. exists c0, a. split; [exact Heqp|].
  fold (task_eval_ctx (s_id s) (s_route s) None a (c_ws c)) in H.
  set (tc := task_eval_ctx (s_id s) (s_route s) None a (c_ws c)) in *.
  step H. step H. step H.
  destruct (ts_with a0) as [its|].
  - step H. step H. step H. step H.
    match type of H with (let '(_, _) := ?p in _) _ = _ => destruct p as [acts conc'] end.
    unfold ret in H. destruct acts; [destruct (Datatypes.length a1)|]; inversion H; reflexivity.
  - unfold ret in H. destruct a1; inversion H; reflexivity.
Qed.

Lemma inbound_ctx_initial : forall s c s' d0,
  get_staged_task (c_ws c) (s_id s) (s_route s) = Some s' -> s_in s' = [0] ->
  nth_error (contexts (c_ws c)) 0 = Some d0 -> NoDup (keys d0) ->
  inbound_ctx_M s c c = (c, Val d0).
Proof.
  intros s c s' d0 Hs Hin H0 Hd. unfold inbound_ctx_M. rewrite Hs, Hin.
  unfold get_task_context, bind, getws. rewrite (task_context_of_initial _ _ H0 Hd). reflexivity.
Qed.

(* contexts[0] -> the context offered with (and evaluated for) a task that reads [0] *)
Theorem first_task_sees_initial : forall s c c' o s' d0 n,
  next_task_for ev s c = (c', Val (Some o)) ->
  get_staged_task (c_ws c) (s_id s) (s_route s) = Some s' -> s_in s' = [0] ->
  nth_error (contexts (c_ws c)) 0 = Some d0 -> NoDup (keys d0) ->
  n <> "__current_task" -> n <> "__state" ->
  dget n (o_ctx o) = dget n d0
  /\ dhas "__current_task" (o_ctx o) = true /\ dhas "__state" (o_ctx o) = true.
Proof.
  intros s c c' o s' d0 n H Hs Hin H0 Hd Hn1 Hn2.
  destruct (next_task_for_ctx s c c' o H) as [c0 [ctx0 [Hc Ho]]].
  rewrite (inbound_ctx_initial s c s' d0 Hs Hin H0 Hd) in Hc. inversion Hc; subst c0 ctx0.
  rewrite Ho. split; [apply task_eval_ctx_user; assumption|].
  destruct (task_eval_ctx_internals (s_id s) (s_route s) None d0 (c_ws c)) as [H1 H2].
  split; [|exact H2]. unfold dhas, ahas.
  fold (dget "__current_task" (task_eval_ctx (s_id s) (s_route s) None d0 (c_ws c))).
  rewrite H1. reflexivity.
Qed.

(* ---- output ---- *)

Lemma ensure_ws_inited' : forall c, c_init c = true -> ensure_ws ev c = (c, Val tt).
Proof. intros c H; unfold ensure_ws, bind, get; simpl; rewrite H; reflexivity. Qed.

Section LiteralOut.
Hypothesis Hev : ev_literal_ok ev.

Theorem render_output_literal : forall c tctx, c_init c = true ->
  status_in (wstatus (c_ws c)) COMPLETED_STATUSES = true -> c_output c = None ->
  get_workflow_terminal_context c = (c, Val tctx) ->
  all_literal (wf_output (c_spec c)) = true ->
  render_workflow_output ev c =
  (match set_all (wf_output (c_spec c)) [] with [] => c | o => set_output c (Some o) end, Val tt).
Proof.
  intros c tctx Hi Hst Hout Ht Hl. unfold render_workflow_output.
  rewrite (bind_val _ _ _ _ _ _ _ (ensure_ws_inited' c Hi)).
  unfold bind at 1, get at 1. cbv beta iota. rewrite Hst, Hout. change (true && true) with true. cbv beta iota.
  rewrite (bind_val _ _ _ _ _ _ _ Ht).
  rewrite (bind_val _ _ _ _ _ _ _ (render_vars_literal Hev _ _ _ _ _ Hl)). cbv beta iota.
  destruct (set_all (wf_output (c_spec c)) []); reflexivity.
Qed.
End LiteralOut.

End DataPath.

(* ---- composition: runtime input -> contexts[0] -> task context -> offered / evaluated context ---- *)
Theorem input_reaches_first_task : forall ev, ev_literal_ok ev -> forall c n v,
  c_init c = false -> contexts (c_ws c) = [] ->
  all_literal (input_values (wf_input (c_spec c)) (c_inputs c)) = true ->
  all_literal (wf_vars (c_spec c)) = true ->
  status_in (wstatus (c_ws c)) ABENDED_STATUSES = false ->
  NoDup (map fst (wf_input (c_spec c))) -> NoDup (keys (c_parent c)) ->
  In (n, v) (input_values (wf_input (c_spec c)) (c_inputs c)) ->
  ~ In n (map fst (wf_vars (c_spec c))) ->
  (is_jdict v = false \/ forall pv, dget n (c_parent c) = Some pv -> is_jdict pv = false) ->
  n <> "__current_task" -> n <> "__state" ->
  exists c1, ensure_ws ev c = (c1, Val tt)
    /\ nth_error (contexts (c_ws c1)) 0 = Some (init_ctx_of c)
    /\ dget n (init_ctx_of c) = Some v
    /\ get_task_context_from (contexts (c_ws c1)) [0] [] = Val (init_ctx_of c)
    /\ forall s s' c2 o, get_staged_task (c_ws c1) (s_id s) (s_route s) = Some s' -> s_in s' = [0] ->
         next_task_for ev s c1 = (c2, Val (Some o)) -> dget n (o_ctx o) = Some v.
Proof.
  intros ev Hev c n v Hi Hc Hin Hvars Hst Hnd Hp Hnv Hnot Hrep Hn1 Hn2.
  destruct (ensure_ws_literal ev Hev c Hi Hin Hvars Hst) as [c1 [He Hctx]].
  rewrite Hc in Hctx. simpl in Hctx.
  assert (H0 : nth_error (contexts (c_ws c1)) 0 = Some (init_ctx_of c)) by (rewrite Hctx; reflexivity).
  pose proof (init_ctx_holds_input c n v Hnd Hp Hnv Hnot Hrep) as Hv.
  pose proof (NoDup_keys_init_ctx c Hp) as Hk.
  exists c1. split; [exact He|]. split; [exact H0|]. split; [exact Hv|].
  split; [apply task_context_of_initial; assumption|].
  intros s s' c2 o Hs Hsin Hn.
  destruct (first_task_sees_initial ev s c1 c2 o s' (init_ctx_of c) n Hn Hs Hsin H0 Hk Hn1 Hn2) as [Hd _].
  rewrite Hd. exact Hv.
Qed.

(* ================================================================= examples (non-vacuity) *)

Module C16Examples.

(* ints beyond 2^64 / 2^128, strings that look like numbers, booleans, null, format directives,
   JSON text; nested containers; a float extreme (opaque hex text) *)
Definition zoo : json :=
  JDict [("big", JInt 340282366920938463463374607431768211457);
         ("neg", JInt (-18446744073709551617));
         ("s1", JStr "1"); ("st", JStr "true"); ("sn", JStr "null"); ("fmt", JStr "%s");
         ("js", JStr "{""a"": [1, 2]}");
         ("f", JFloat "0x1.fffffffffffffp+1023");
         ("nested", JList [JDict [("k", JList [JNull; JBool true; JStr "{0}"; JInt 18446744073709551616])];
                           JList []; JDict []; JStr "%(a)s"]);
         ("1", JInt 1)].

(* a toy oracle: literals are returned, "<% ctx().NAME %>" looks NAME up, anything else fails *)
Definition ev_toy (s : string) (ctx : dict) : evalres :=
  if no_expr s then EvOk (JStr s)
  else if String.prefix "<% ctx()." s then
    match dget (substring 9 (String.length s - 12) s) ctx with
    | Some v => EvOk v
    | None => EvErr {| x_cls := "YaqlEvaluationException"; x_msg := "unresolved"; x_expr := true |}
    end
  else EvErr {| x_cls := "YaqlEvaluationException"; x_msg := "unsupported"; x_expr := true |}.

Lemma ev_toy_ok : ev_literal_ok ev_toy.
Proof. intros s ctx H. unfold ev_toy. rewrite H. reflexivity. Qed.

Definition t1_spec : task_spec :=
  {| ts_action := JStr "core.echo"; ts_input := JDict [("x", JStr "<% ctx().v %>"); ("lit", zoo)];
     ts_with := None; ts_delay := JNull; ts_join := JNull;
     ts_next := [{| tr_when := JNull; tr_publish := [("p", zoo); ("q", JStr "<% ctx().v %>")]; tr_do := ["t2"] |}] |}.

Definition spec0 : wf_spec :=
  {| wf_input := [("v", JNull); ("d", zoo)]; wf_vars := [("lv", zoo)]; wf_output := [("o", zoo)];
     wf_tasks := [("t1", t1_spec)] |}.

Definition graph0 : graph :=
  {| g_nodes := [{| n_id := "t1"; n_barrier := JNull; n_splits := None; n_retry := JNull |}]; g_edges := [] |}.

Definition c0 : cstate :=
  {| c_spec := spec0; c_graph := graph0; c_inputs := [("v", zoo)]; c_parent := [];
     c_init := false; c_ws := empty_ws; c_errors := []; c_log := []; c_output := None |}.

Example ex_zoo_literal : literal zoo = true /\ no_expr "<% ctx().v %>" = false /\ no_expr "{{ ctx().v }}" = false.
Proof. vm_compute. repeat split. Qed.

(* (a) dicts merge key by key, recursively; anything else replaces; key order *)
Example ex_merge :
  merge_dicts [("w", JDict [("a", JInt 1); ("n", JDict [("x", JInt 1)])]); ("e", JDict [("k", JInt 1)]); ("s", zoo)]
              [("w", JDict [("b", JInt 2); ("n", JDict [("y", JInt 2)])]); ("e", JDict []); ("new", zoo); ("s", JStr "1")]
  = [("w", JDict [("a", JInt 1); ("n", JDict [("x", JInt 1); ("y", JInt 2)]); ("b", JInt 2)]);
     ("e", JDict [("k", JInt 1)]); ("s", JStr "1"); ("new", zoo)].
Proof. vm_compute. reflexivity. Qed.

Example ex_merge_replace : merge_json zoo (JStr "1") = JStr "1" /\ merge_json (JInt 1) zoo = zoo
                           /\ merge_json (JList [zoo]) (JList []) = JList [].
Proof. vm_compute. repeat split. Qed.

(* (b) the literal passes through evaluate; and a reference to it returns it (oracle at work) *)
Example ex_evaluate_identity : evaluate ev_toy zoo [("v", JInt 0)] c0 = (c0, Val zoo).
Proof. vm_compute. reflexivity. Qed.

Example ex_evaluate_reference :
  evaluate ev_toy (JDict [("x", JStr "<% ctx().v %>"); ("l", JList [JStr "<% ctx().v %>"; JStr "%s"])]) [("v", zoo)] c0
  = (c0, Val (JDict [("x", zoo); ("l", JList [zoo; JStr "%s"])])).
Proof. vm_compute. reflexivity. Qed.

(* (d) runtime input -> contexts[0] (with the default of "d" and the var "lv") *)
Example ex_input_stored :
  contexts (c_ws (fst (ensure_ws ev_toy c0))) = [[("v", zoo); ("d", zoo); ("lv", zoo)]]
  /\ init_ctx_of c0 = [("v", zoo); ("d", zoo); ("lv", zoo)].
Proof. vm_compute. split; reflexivity. Qed.

Example ex_task_context :
  get_task_context_from [[("v", zoo); ("w", JDict [("a", JInt 1)])]; [("p", zoo); ("w", JDict [("b", JInt 2)]); ("v", JStr "null")]] [0; 1] []
  = Val [("v", JStr "null"); ("w", JDict [("a", JInt 1); ("b", JInt 2)]); ("p", zoo)].
Proof. vm_compute. reflexivity. Qed.

(* the whole first leg on the model: boot, poll; the offered action input and context hold zoo *)
Example ex_first_offer :
  match (request_workflow_status ev_toy S_RUNNING ;;; get_next_tasks ev_toy) c0 with
  | (_, Val [o]) => (dget "v" (o_ctx o), map a_input (o_actions o),
                     dhas "__current_task" (o_ctx o), dhas "__state" (o_ctx o))
  | _ => (None, [], false, false)
  end = (Some zoo, [JDict [("x", zoo); ("lit", zoo)]], true, true).
Proof. vm_compute. reflexivity. Qed.

(* publish: the delta holds exactly the published names, values unchanged; a dunder name enters
   only because the publish names it *)
Example ex_publish :
  render_vars ev_toy [("p", zoo); ("q", JStr "<% ctx().v %>"); ("__mine", JStr "%s"); ("bad", JStr "<% ctx().nope %>")]
              [("v", zoo); ("__state", JDict [("status", JStr "running")])] [] [] c0
  = (c0, Val ([("p", zoo); ("q", zoo); ("__mine", JStr "%s")],
              [{| x_cls := "YaqlEvaluationException"; x_msg := "unresolved"; x_expr := true |}])).
Proof. vm_compute. reflexivity. Qed.

Example ex_finalize :
  finalize_context ev_toy t1_spec {| e_src := "t1"; e_dst := "t2"; e_key := 0; e_ref := 0; e_criteria := [] |}
                   [("v", zoo); ("__current_task", JNull); ("__state", JNull)] c0
  = (c0, Val ([("p", zoo); ("q", zoo)], [])).
Proof. vm_compute. reflexivity. Qed.

(* output *)
Definition c_done : cstate :=
  {| c_spec := spec0; c_graph := graph0; c_inputs := [("v", zoo)]; c_parent := [];
     c_init := true;
     c_ws := {| contexts := [[("v", zoo)]]; routes := [[]];
                sequence := [{| r_id := "t1"; r_route := 0; r_in := [0]; r_out := None; r_prev := [];
                                r_next := []; r_status := Some S_SUCCEEDED; r_term := true; r_retry := None |}];
                staged := []; wstatus := S_SUCCEEDED; tasks := [(("t1", 0), 0)]; reruns := [] |};
     c_errors := []; c_log := []; c_output := None |}.

Example ex_output : c_output (fst (render_workflow_output ev_toy c_done)) = Some [("o", zoo)].
Proof. vm_compute. reflexivity. Qed.

(* (e) the evaluation context of a task: internals present, user names untouched *)
Example ex_task_eval_ctx :
  keys (task_eval_ctx "t1" 0 None [("v", zoo); ("w", JInt 1)] empty_ws) = ["v"; "w"; "__current_task"; "__state"]
  /\ dget "v" (task_eval_ctx "t1" 0 None [("v", zoo); ("w", JInt 1)] empty_ws) = Some zoo.
Proof. vm_compute. split; reflexivity. Qed.

End C16Examples.
