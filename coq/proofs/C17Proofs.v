(* C17Proofs.v -- rerun: admission (only a completed workflow, only existing executions; a refused
   request changes nothing) and the immediate effect of an accepted one (resuming, output reset,
   history only appended to). *)
From Coq Require Import String List Bool ZArith Arith Lia.
From Orq Require Import GenStatuses GenEvents GenTables GenSpecMeta Base State Machines Codec Conductor Decode Api.
From Orq Require Import F_tables Hoare ValuePost C04Proofs C18Proofs.
Import ListNotations.
Open Scope monad_scope.

Section WithEval.
Variable ev : string -> dict -> evalres.

Definition reqs_dict (reqs : list rerun_req) : list (tkey * rerun_req) :=
  fold_left (fun acc q => aset tkey_eqb (rq_task q, rq_route q) q acc) reqs [].

(* refused while the workflow is not completed: an exception, and the state is exactly as before *)
Theorem rerun_refused_when_active : forall reqs c, c_init c = true ->
  status_in (wstatus (c_ws c)) COMPLETED_STATUSES = false ->
  exists e, request_workflow_rerun ev reqs c = (c, Exc e) /\ x_cls e = "WorkflowIsActiveAndNotRerunableError"%string.
Proof.
  intros reqs c Hi Hs. unfold request_workflow_rerun, bind. rewrite (ensure_ws_inited ev c Hi).
  unfold getws. cbv beta iota. rewrite Hs. simpl. eexists; split; reflexivity.
Qed.

(* refused when a request names a task execution that does not exist: exception, state unchanged *)
Theorem rerun_refused_for_unknown_task : forall reqs c, c_init c = true ->
  status_in (wstatus (c_ws c)) COMPLETED_STATUSES = true ->
  existsb (fun '(k, _) => negb (ahas tkey_eqb k (tasks (c_ws c)))) (reqs_dict reqs) = true ->
  exists e, request_workflow_rerun ev reqs c = (c, Exc e) /\ x_cls e = "InvalidTaskRerunRequest"%string.
Proof.
  intros reqs c Hi Hs Hbad. unfold request_workflow_rerun, bind. rewrite (ensure_ws_inited ev c Hi).
  unfold getws. cbv beta iota. rewrite Hs. cbn [negb].
  fold (reqs_dict reqs).
  destruct (filter (fun '(k, _) => negb (ahas tkey_eqb k (tasks (c_ws c)))) (reqs_dict reqs)) as [|x l] eqn:Ef.
  - exfalso. apply existsb_exists in Hbad. destruct Hbad as [y [Hin Hy]].
    assert (In y []) as F; [|destruct F]. rewrite <- Ef. apply filter_In; split; assumption.
  - eexists; split; reflexivity.
Qed.

(* an accepted rerun leaves the workflow resuming with the output reset *)
Lemma bind_val_inv : forall A B (m : M A) (f : A -> M B) c c' b,
  bind m f c = (c', Val b) -> exists c1 a, m c = (c1, Val a) /\ f a c1 = (c', Val b).
Proof.
  intros A B m f c c' b H. unfold bind in H. destruct (m c) as [c1 [a|e]] eqn:E; [|inversion H].
  exists c1, a; split; [reflexivity|exact H].
Qed.

Theorem rerun_accepted_effect : forall reqs c c', request_workflow_rerun ev reqs c = (c', Val tt) ->
  wstatus (c_ws c') = S_RESUMING /\ c_output c' = None.
Proof.
  intros reqs c c' H. unfold request_workflow_rerun in H.
  apply bind_val_inv in H; destruct H as [c1 [u1 [_ H]]].
  apply bind_val_inv in H; destruct H as [c2 [w [_ H]]].
  destruct (negb (status_in (wstatus w) COMPLETED_STATUSES)); [inversion H|].
  destruct (filter _ _); [|inversion H].
  apply bind_val_inv in H; destruct H as [c3 [cands [_ H]]].
  apply bind_val_inv in H; destruct H as [c4 [u4 [_ H]]].
  apply bind_val_inv in H; destruct H as [c5 [u5 [_ H]]].
  apply bind_val_inv in H; destruct H as [c6 [w6 [_ H]]].
  apply bind_val_inv in H; destruct H as [c7 [u7 [_ H]]].
  apply bind_val_inv in H; destruct H as [c8 [u8 [H8 H]]].
  unfold modify in H8; inversion H8; subst. unfold modws in H; inversion H; subst. simpl. split; reflexivity.
Qed.

(* and only appends to the history: no earlier record, context snapshot or route is lost or rewritten *)
Theorem rerun_appends_only : forall reqs c c' r, request_workflow_rerun ev reqs c = (c', r) -> R18 c c'.
Proof. intros reqs c c' r H. exact (p18_request_workflow_rerun ev reqs c c' r H). Qed.

End WithEval.
