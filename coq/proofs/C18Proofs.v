(* C18Proofs.v -- execution history is append-only: contexts and routes only grow at the end, task
   execution records are never removed or reordered, and id / route / inbound contexts / predecessors
   of an existing record never change -- in every API call, whether it returns or raises. *)
From Coq Require Import String List Bool ZArith Arith Lia.
From Orq Require Import GenStatuses GenEvents GenTables GenSpecMeta Base State Machines Codec Conductor Decode Api.
From Orq Require Import F_tables Hoare.
Import ListNotations.
Open Scope monad_scope.

Definition prefix {A} (l l' : list A) : Prop := exists t, l' = app l t.

Lemma prefix_refl : forall A (l : list A), prefix l l.
Proof. intros; exists []; rewrite app_nil_r; reflexivity. Qed.
Lemma prefix_trans : forall A (a b c : list A), prefix a b -> prefix b c -> prefix a c.
Proof. intros A a b c [t1 H1] [t2 H2]; subst; exists (app t1 t2); rewrite app_assoc; reflexivity. Qed.
Lemma prefix_app : forall A (l t : list A), prefix l (app l t).
Proof. intros; exists t; reflexivity. Qed.

(* the fields of a record that are fixed once it exists *)
Definition rec_fixed (r r' : trec) : Prop :=
  r_id r' = r_id r /\ r_route r' = r_route r /\ r_in r' = r_in r /\ r_prev r' = r_prev r.

Definition seq_grows (s s' : list trec) : Prop :=
  forall i r, nth_error s i = Some r -> exists r', nth_error s' i = Some r' /\ rec_fixed r r'.

Definition R18 (c c' : cstate) : Prop :=
  prefix (contexts (c_ws c)) (contexts (c_ws c')) /\
  prefix (routes (c_ws c)) (routes (c_ws c')) /\
  seq_grows (sequence (c_ws c)) (sequence (c_ws c')).

Lemma rec_fixed_refl : forall r, rec_fixed r r.
Proof. intro; repeat split. Qed.
Lemma rec_fixed_trans : forall a b c, rec_fixed a b -> rec_fixed b c -> rec_fixed a c.
Proof. intros a b c [A1 [A2 [A3 A4]]] [B1 [B2 [B3 B4]]]; repeat split; congruence. Qed.

Lemma seq_grows_refl : forall s, seq_grows s s.
Proof. intros s i r H; exists r; split; [exact H|apply rec_fixed_refl]. Qed.
Lemma seq_grows_trans : forall a b c, seq_grows a b -> seq_grows b c -> seq_grows a c.
Proof.
  intros a b c H1 H2 i r H. destruct (H1 i r H) as [r1 [Hr1 F1]]. destruct (H2 i r1 Hr1) as [r2 [Hr2 F2]].
  exists r2; split; [exact Hr2|eapply rec_fixed_trans; eauto].
Qed.

Lemma R18_refl : forall c, R18 c c.
Proof. intro; repeat split; try apply prefix_refl; apply seq_grows_refl. Qed.
Lemma R18_trans : forall a b c, R18 a b -> R18 b c -> R18 a c.
Proof.
  intros a b c [A1 [A2 A3]] [B1 [B2 B3]]; repeat split;
    [eapply prefix_trans; eauto|eapply prefix_trans; eauto|eapply seq_grows_trans; eauto].
Qed.

(* the three history components of a state *)
Definition hist (c : cstate) := (contexts (c_ws c), routes (c_ws c), sequence (c_ws c)).

Lemma R18_same_hist : forall c c', hist c' = hist c -> R18 c c'.
Proof.
  intros c c' H; unfold hist in H; inversion H as [[H1 H2 H3]]; unfold R18; rewrite H1, H2, H3.
  repeat split; try apply prefix_refl; apply seq_grows_refl.
Qed.

Lemma seq_grows_app : forall s t, seq_grows s (app s t).
Proof.
  intros s t i r H; exists r; split; [|apply rec_fixed_refl].
  rewrite nth_error_app1; [exact H|]. apply nth_error_Some; congruence.
Qed.

Lemma nth_error_set_nth_eq : forall A (l : list A) i x y, nth_error l i = Some y ->
  nth_error (list_set_nth i x l) i = Some x.
Proof. induction l as [|a l IH]; intros [|i] x y H; simpl in *; try discriminate; eauto. Qed.
Lemma nth_error_set_nth_neq : forall A (l : list A) i j x, i <> j ->
  nth_error (list_set_nth i x l) j = nth_error l j.
Proof.
  induction l as [|a l IH]; intros [|i] [|j] x H; simpl; auto; try congruence.
Qed.

Lemma seq_grows_update : forall w i f, (forall r, rec_fixed r (f r)) ->
  seq_grows (sequence w) (sequence (ws_update_rec w i f)).
Proof.
  intros w i f Hf. unfold ws_update_rec. destruct (nth_error (sequence w) i) as [r0|] eqn:E; [|apply seq_grows_refl].
  simpl. intros j r Hj. destruct (Nat.eq_dec i j) as [->|Hn].
  - rewrite (nth_error_set_nth_eq _ _ _ _ _ E). rewrite E in Hj; inversion Hj; subst.
    exists (f r); split; [reflexivity|apply Hf].
  - rewrite nth_error_set_nth_neq by exact Hn. exists r; split; [exact Hj|apply rec_fixed_refl].
Qed.

Lemma R18_update_rec : forall c i f, (forall r, rec_fixed r (f r)) ->
  R18 c (set_ws c (ws_update_rec (c_ws c) i f)).
Proof.
  intros c i f Hf; unfold R18; simpl. repeat split.
  - unfold ws_update_rec; destruct (nth_error _ _); simpl; apply prefix_refl.
  - unfold ws_update_rec; destruct (nth_error _ _); simpl; apply prefix_refl.
  - apply seq_grows_update; exact Hf.
Qed.

Lemma hist_remove_staged : forall c t r, hist (set_ws c (ws_remove_staged_task (c_ws c) t r)) = hist c.
Proof.
  intros; unfold hist, ws_remove_staged_task; simpl.
  destruct (get_staged_task (c_ws c) t r); [|reflexivity]. destruct (items_any_active s); reflexivity.
Qed.

Section WithEval.
Variable ev : string -> dict -> evalres.

Ltac fixed_side := intro; unfold rec_fixed; simpl; repeat split; reflexivity.

Ltac leaf :=
  first
    [ apply (preserves_modws R18); intro; apply R18_same_hist; reflexivity
    | apply (preserves_modws R18); intro; apply R18_same_hist; apply hist_remove_staged
    | apply (preserves_modws R18); intro; apply R18_update_rec; fixed_side
    | apply (preserves_modws R18); intro; unfold R18; simpl;
      repeat split; first [apply prefix_refl | apply prefix_app | apply seq_grows_refl | apply seq_grows_app]
    | apply (preserves_modify R18); intro; apply R18_same_hist; reflexivity
    | apply (preserves_modify R18); intro; apply R18_same_hist; unfold hist;
      match goal with |- context [if ?b then _ else _] => destruct b end; reflexivity
    | assumption
    | match goal with IH : forall _ _ _, preserves _ _ |- _ => apply IH end
    | match goal with IH : forall _ _, preserves _ _ |- _ => apply IH end
    | match goal with IH : forall _ _ _ _, preserves _ _ |- _ => apply IH end
    | eauto 3 with pres18 ].

Ltac walk := pw R18_refl R18_trans leaf.

Lemma p18_wf_workflow_event : forall st, preserves R18 (wf_workflow_event_M st).
Proof.
  intros st c c' r H. unfold wf_workflow_event_M in H.
  destruct (wf_process_workflow_event (c_graph c) (c_ws c) st) as [[new unr]|e]; inversion H; subst;
    [apply R18_same_hist; reflexivity|apply R18_refl].
Qed.
Hint Resolve p18_wf_workflow_event : pres18.

Lemma p18_wf_task_event : forall t route st, preserves R18 (wf_task_event_M t route st).
Proof.
  intros t route st c c' r H. unfold wf_task_event_M in H.
  destruct (wf_process_task_event (c_graph c) (c_ws c) t route st) as [[new unr]|e]; inversion H; subst;
    [apply R18_same_hist; reflexivity|apply R18_refl].
Qed.
Hint Resolve p18_wf_task_event : pres18.

Lemma p18_log_entry_error : forall m t r tr res, preserves R18 (log_entry_error m t r tr res).
Proof. intros; unfold log_entry_error; walk. Qed.
Hint Resolve p18_log_entry_error : pres18.
Lemma p18_log_error : forall e t r tr, preserves R18 (log_error e t r tr).
Proof. intros; unfold log_error; auto with pres18. Qed.
Hint Resolve p18_log_error : pres18.
Lemma p18_log_errors : forall es t r tr, preserves R18 (log_errors es t r tr).
Proof. intros; unfold log_errors; walk. Qed.
Hint Resolve p18_log_errors : pres18.
Lemma p18_log_unreachable : forall l, preserves R18 (log_unreachable l).
Proof. intros; unfold log_unreachable; walk. Qed.
Hint Resolve p18_log_unreachable : pres18.
Lemma p18_upd_rec_status : forall i s, preserves R18 (set_rec_status i s).
Proof. intros; unfold set_rec_status; walk. Qed.
Hint Resolve p18_upd_rec_status : pres18.
Lemma p18_request_status_core : forall st, preserves R18 (request_status_core st).
Proof. intros; unfold request_status_core; walk. Qed.
Hint Resolve p18_request_status_core : pres18.
Lemma p18_render_input : forall specs rt rolling errs, preserves R18 (render_input ev specs rt rolling errs).
Proof. induction specs as [|[n d] specs IH]; intros; simpl; walk. Qed.
Hint Resolve p18_render_input : pres18.
Lemma p18_render_vars : forall specs rolling rendered errs, preserves R18 (render_vars ev specs rolling rendered errs).
Proof. induction specs as [|[n d] specs IH]; intros; simpl; walk. Qed.
Hint Resolve p18_render_vars : pres18.
Lemma p18_ensure_ws : preserves R18 (ensure_ws ev).
Proof. unfold ensure_ws; walk. Qed.
Hint Resolve p18_ensure_ws : pres18.
Lemma p18_request_workflow_status : forall st, preserves R18 (request_workflow_status ev st).
Proof. intros; unfold request_workflow_status; walk. Qed.
Lemma p18_get_task_context : forall idxs, preserves R18 (get_task_context idxs).
Proof. intros; unfold get_task_context; walk. Qed.
Hint Resolve p18_get_task_context : pres18.
Lemma p18_render_task : forall ts ctx, preserves R18 (render_task ev ts ctx).
Proof. intros; unfold render_task; walk. Qed.
Hint Resolve p18_render_task : pres18.
Lemma p18_next_task_for : forall s, preserves R18 (next_task_for ev s).
Proof. intros; unfold next_task_for; walk. Qed.
Hint Resolve p18_next_task_for : pres18.
Lemma p18_get_next_tasks : preserves R18 (get_next_tasks ev).
Proof. unfold get_next_tasks; walk. Qed.
Lemma p18_setup_retry : forall t idxs, preserves R18 (setup_retry ev t idxs).
Proof. intros; unfold setup_retry; walk. Qed.
Hint Resolve p18_setup_retry : pres18.
Lemma p18_add_task_state : forall t r i p, preserves R18 (add_task_state ev t r i p).
Proof. intros; unfold add_task_state; walk. Qed.
Hint Resolve p18_add_task_state : pres18.
Lemma p18_evaluate_route : forall e r, preserves R18 (evaluate_route e r).
Proof. intros; unfold evaluate_route; walk. Qed.
Hint Resolve p18_evaluate_route : pres18.
Lemma p18_evaluate_task_retry : forall r ctx, preserves R18 (evaluate_task_retry ev r ctx).
Proof. intros; unfold evaluate_task_retry; walk. Qed.
Hint Resolve p18_evaluate_task_retry : pres18.
Lemma p18_finalize_context : forall ts e ctx, preserves R18 (finalize_context ev ts e ctx).
Proof. intros; unfold finalize_context; walk. Qed.
Hint Resolve p18_finalize_context : pres18.
Lemma p18_get_rec : forall i, preserves R18 (get_rec i).
Proof. intros; unfold get_rec; walk. Qed.
Hint Resolve p18_get_rec : pres18.
Lemma p18_upd_rec : forall i f, (forall r, rec_fixed r (f r)) -> preserves R18 (upd_rec i f).
Proof. intros i f Hf; unfold upd_rec. apply (preserves_modws R18); intro; apply R18_update_rec; exact Hf. Qed.
Lemma p18_process_transition : forall t route idx ts ctx e,
  preserves R18 (process_transition ev t route idx ts ctx e).
Proof. intros; unfold process_transition, upd_rec; walk. Qed.
Hint Resolve p18_process_transition : pres18.
Lemma p18_update_task_state_fuel : forall fuel t route evt,
  preserves R18 (update_task_state_fuel ev fuel t route evt).
Proof.
  induction fuel as [|fuel IH]; intros t route evt; simpl; [apply (preserves_raise _ R18_refl)|].
  unfold upd_rec; walk.
Qed.
Lemma p18_update_task_state : forall t route evt, preserves R18 (update_task_state ev t route evt).
Proof. intros; unfold update_task_state; apply p18_update_task_state_fuel. Qed.
Lemma p18_merge_term_contexts : forall l acc, preserves R18 (merge_term_contexts l acc).
Proof. induction l as [|[i r] l IH]; intros; simpl; walk. Qed.
Hint Resolve p18_merge_term_contexts : pres18.
Lemma p18_render_workflow_output : preserves R18 (render_workflow_output ev).
Proof. unfold render_workflow_output, get_workflow_terminal_context; walk. Qed.
Lemma p18_request_task_rerun : forall t r b, preserves R18 (request_task_rerun ev t r b).
Proof. intros; unfold request_task_rerun, upd_rec; walk. Qed.
Hint Resolve p18_request_task_rerun : pres18.
Lemma p18_request_workflow_rerun : forall reqs, preserves R18 (request_workflow_rerun ev reqs).
Proof. intros; unfold request_workflow_rerun, upd_rec; walk. Qed.

(* every API call except the persist round trip (covered by C05) *)
Definition is_persist (op : api_op) : bool := match op with OpPersist => true | _ => false end.

Lemma api_exec_append_only : forall op, is_persist op = false -> preserves R18 (api_exec ev op).
Proof.
  intros op Hop; destruct op; simpl in Hop; try discriminate; simpl;
    (apply (preserves_bind _ R18_trans); [|intro; apply (preserves_ret _ R18_refl)]).
  - apply p18_ensure_ws.
  - apply p18_request_workflow_status.
  - apply p18_get_next_tasks.
  - apply p18_update_task_state.
  - apply p18_render_workflow_output.
  - apply p18_request_workflow_rerun.
Qed.

Theorem history_append_only : forall ops c, forallb (fun op => negb (is_persist op)) ops = true ->
  R18 c (run_ops ev ops c).
Proof.
  induction ops as [|op ops IH]; intros c H; simpl; [apply R18_refl|].
  simpl in H; apply andb_prop in H; destruct H as [Hop Hops].
  eapply R18_trans; [|apply IH; exact Hops].
  destruct (api_exec ev op c) as [c1 r] eqn:E; simpl.
  eapply (api_exec_append_only op); [destruct (is_persist op); [discriminate|reflexivity]|exact E].
Qed.

End WithEval.
