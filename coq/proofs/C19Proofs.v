(* C19Proofs.v -- asking for next tasks: the answer is sorted by (task id, route) whatever order the
   staged entries are in; in every status in which nothing may be offered the call is the identity on the
   conductor state. *)
From Coq Require Import String List Bool ZArith Arith Lia Sorted.
From Orq Require Import GenStatuses GenEvents GenTables GenSpecMeta Base State Machines Codec Conductor Decode Api.
From Orq Require Import F_tables Hoare ValuePost C04Proofs C09C10Proofs.
Import ListNotations.
Open Scope monad_scope.

Definition offer_le (a b : offer) : Prop := offer_leb a b = true.

Lemma offer_leb_total : forall a b, offer_leb a b = true \/ offer_leb b a = true.
Proof.
  intros a b. unfold offer_leb. rewrite (String.eqb_sym (o_id b) (o_id a)).
  destruct (String.eqb (o_id a) (o_id b)).
  - destruct (Nat.leb (o_route a) (o_route b)) eqn:E; [left; reflexivity|right].
    apply Nat.leb_le. apply Nat.leb_gt in E. lia.
  - apply String.leb_total.
Qed.

Lemma insert_sorted_Sorted : forall x l, Sorted offer_le l -> Sorted offer_le (insert_sorted offer_leb x l).
Proof.
  intros x l H; induction H as [|y l Hl IH Hd]; simpl.
  - constructor; constructor.
  - destruct (offer_leb y x) eqn:E.
    + constructor; [exact IH|].
      destruct l as [|z l]; simpl.
      * constructor; exact E.
      * destruct (offer_leb z x); constructor; [inversion Hd; assumption|exact E].
    + constructor; [constructor; assumption|]. constructor.
      destruct (offer_leb_total x y) as [T|T]; [exact T|congruence].
Qed.

Lemma sort_by_Sorted : forall l, Sorted offer_le (sort_by offer_leb l).
Proof.
  intro l. unfold sort_by.
  assert (G : forall acc, Sorted offer_le acc ->
              Sorted offer_le (fold_left (fun acc x => insert_sorted offer_leb x acc) l acc)).
  { induction l as [|x l IH]; intros acc H; simpl; [exact H|]. apply IH. apply insert_sorted_Sorted; exact H. }
  apply G; constructor.
Qed.

Section WithEval.
Variable ev : string -> dict -> evalres.

Lemma bind_val_inv' : forall A B (m : M A) (f : A -> M B) c c' b,
  bind m f c = (c', Val b) -> exists c1 a, m c = (c1, Val a) /\ f a c1 = (c', Val b).
Proof.
  intros A B m f c c' b H. unfold bind in H. destruct (m c) as [c1 [a|e]] eqn:E; [|inversion H].
  exists c1, a; split; [reflexivity|exact H].
Qed.

Theorem offers_sorted : forall c c' l, get_next_tasks ev c = (c', Val l) -> Sorted offer_le l.
Proof.
  intros c c' l H. unfold get_next_tasks in H.
  apply bind_val_inv' in H; destruct H as [c1 [u [_ H]]].
  apply bind_val_inv' in H; destruct H as [c2 [w [_ H]]].
  cbv zeta in H.
  match type of H with (if ?b then _ else _) _ = _ => destruct b end.
  - inversion H; subst; constructor.
  - apply bind_val_inv' in H; destruct H as [c3 [rs [_ H]]].
    destruct (existsb snd rs).
    + apply bind_val_inv' in H; destruct H as [c4 [u4 [_ H]]]. inversion H; subst; constructor.
    + inversion H; subst. apply sort_by_Sorted.
Qed.

(* in the statuses in which nothing may be offered, asking is the identity: same (empty) answer, and
   the conductor state is exactly the one before -- so asking twice is asking once *)
Theorem query_is_identity_when_nothing_to_offer : forall c, c_init c = true ->
  In (wstatus (c_ws c)) [S_PAUSING; S_PAUSED; S_CANCELING; S_CANCELED; S_SUCCEEDED] ->
  get_next_tasks ev c = (c, Val []) /\
  (forall c1 r1, get_next_tasks ev c = (c1, r1) -> get_next_tasks ev c1 = (c1, r1)).
Proof.
  intros c Hi Hs.
  assert (E : get_next_tasks ev c = (c, Val [])).
  { simpl in Hs. destruct Hs as [Hs|[Hs|[Hs|[Hs|[Hs|[]]]]]].
    - apply (no_offers_when_held ev c Hi); simpl; auto.
    - apply (no_offers_when_held ev c Hi); simpl; auto.
    - apply (no_offers_when_held ev c Hi); simpl; auto.
    - apply (no_offers_when_held ev c Hi); simpl; auto.
    - apply (no_offers_when_done ev c Hi); simpl; auto. }
  split; [exact E|]. intros c1 r1 H. rewrite E in H. inversion H; subst. exact E.
Qed.

End WithEval.
