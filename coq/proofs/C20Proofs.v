(* C20Proofs.v -- the documented shorthands denote what their long forms denote (model level).
   Specification-side definitions (rendering of a list of pairs, the value class) and all lemmas;
   props/C20.v restates the property theorems. *)
From Coq Require Import String Ascii List Bool ZArith Arith Lia DecimalString.
From Coq Require Decimal DecimalFacts DecimalPos DecimalZ.
From Orq Require Import GenParams Base State Params.
Import ListNotations.
Open Scope string_scope.

(* ------------------------------------------------------------- specification side *)

Fixpoint all_chars (p : ascii -> bool) (s : string) : bool :=
  match s with "" => true | String c s' => p c && all_chars p s' end.

Definition no_char (q : ascii) (s : string) : bool := all_chars (fun c => negb (Ascii.eqb c q)) s.
Definition all_space (s : string) : bool := all_chars is_space s.
Definition is_sepchar (c : ascii) : bool := is_ch 32 c || is_ch 44 c || is_ch 59 c.
Definition sep_ok (s : string) : bool := all_chars is_sepchar s.
Definition word_key (k : string) : bool := negb (String.eqb k "") && all_chars is_word k.

Definition starts_space (s : string) : bool := match s with String c _ => is_space c | "" => false end.
Fixpoint ends_space (s : string) : bool :=
  match s with
  | "" => false
  | String c s' => match s' with "" => is_space c | _ => ends_space s' end
  end.
Fixpoint ends_with (suf s : string) : bool :=
  String.eqb s suf || match s with "" => false | String _ s' => ends_with suf s' end.

(* a digit run that JSON accepts as an integer part: non-empty, no leading zero unless it is "0" *)
Definition canon_digits (ds : string) : bool :=
  all_chars is_digit ds && negb (String.eqb ds "") && negb (leading_zero ds).
Definition digits1 (ds : string) : bool := all_chars is_digit ds && negb (String.eqb ds "").

(* body of an expression: no newline, the closing pair occurs only at the very end *)
Fixpoint body_ok (c1 c2 : ascii) (body : string) : bool :=
  match body with
  | "" => true
  | String a b' =>
      negb (Ascii.eqb a ch_nl)
      && negb (Ascii.eqb a c1 && match b' with "" => Ascii.eqb c1 c2 | String b _ => Ascii.eqb b c2 end)
      && body_ok c1 c2 b'
  end.

(* the values that have both notations *)
Inductive ival :=
  | VInt (neg : bool) (digits : string)
  | VDec (neg : bool) (ip fp : string)
  | VBool (b : bool) (spelling : string)
  | VNull
  | VDq (content : string)
  | VSq (content : string)
  | VYaql (body : string)
  | VJinja (body : string).

Definition sign (neg : bool) : string := if neg then "-" else "".

Definition text (v : ival) : string :=
  match v with
  | VInt n ds => sign n ++ ds
  | VDec n ip fp => sign n ++ ip ++ String "." fp
  | VBool _ sp => sp
  | VNull => "null"
  | VDq c => String ch_dq (c ++ str1 ch_dq)
  | VSq c => String ch_sq (c ++ str1 ch_sq)
  | VYaql b => String "<" (String "%" (b ++ "%>"))
  | VJinja b => String "{" (String "{" (b ++ "}}"))
  end.

(* what the long form carries *)
Definition denote (v : ival) : json :=
  match v with
  | VInt n ds => JInt (z_of_numeral (sign n ++ ds))
  | VDec n ip fp => JFloat (sign n ++ ip ++ String "." fp)
  | VBool b _ => JBool b
  | VNull => JNull
  | VDq c => JStr c
  | VSq c => JStr c
  | VYaql b => JStr (String "<" (String "%" (b ++ "%>")))
  | VJinja b => JStr (String "{" (String "{" (b ++ "}}")))
  end.

Definition ok_val (v : ival) : bool :=
  match v with
  | VInt _ ds => canon_digits ds
  | VDec _ ip fp => canon_digits ip && digits1 fp
  | VBool b sp => String.eqb (lower sp) (if b then "true" else "false")
  | VNull => true
  | VDq c => no_char ch_dq c && negb (curly c) && negb (first_is ch_sq c)
             && negb (ends_with (str1 ch_sq) c) && negb (ends_with (String ch_sq (str1 ch_nl)) c)
  | VSq c => no_char ch_sq c && negb (curly c)
  | VYaql b => body_ok "%" ">" b
  | VJinja b => body_ok "}" "}" b
  end.

Definition entry := (string * ival * string)%type.      (* key, value, separator after it *)

Fixpoint render (l : list entry) : string :=
  match l with
  | [] => ""
  | (k, v, sep) :: l' => k ++ String "=" (text v ++ sep ++ render l')
  end.

Definition entry_ok (e : entry) : bool :=
  let '(k, v, sep) := e in word_key k && ok_val v && sep_ok sep.

(* every separator but the last is non-empty *)
Fixpoint seps_ok (l : list entry) : bool :=
  match l with
  | [] => true
  | (_, _, sep) :: l' => match l' with [] => true | _ => negb (String.eqb sep "") end && seps_ok l'
  end.

Definition denote_all (l : list entry) : list (string * json) :=
  map (fun e : entry => let '(k, v, _) := e in (k, denote v)) l.

(* ------------------------------------------------------------------ characters *)

Ltac all_ascii c := destruct c as [[] [] [] [] [] [] [] []].

Lemma word_not_eq : forall c, is_word c = true -> is_ch 61 c = false.
Proof. intro c; all_ascii c; vm_compute; congruence. Qed.

Lemma space_not_word : forall c, is_space c = true -> is_word c = false /\ is_ch 61 c = false.
Proof. intro c; all_ascii c; vm_compute; intuition congruence. Qed.

Lemma sep_not_word : forall c, is_sepchar c = true ->
  is_word c = false /\ is_ch 61 c = false /\ is_digit c = false /\ is_ch 46 c = false.
Proof. intro c; all_ascii c; vm_compute; intuition congruence. Qed.

Lemma digit_facts : forall c, is_digit c = true ->
  is_ch 91 c = false /\ Ascii.eqb c ch_dq = false /\ Ascii.eqb c ch_sq = false /\ is_ch 45 c = false
  /\ is_space c = false /\ lower_char c = c /\ is_ch 46 c = false /\ is_jws c = false
  /\ is_ch 34 c = false /\ is_ch 123 c = false.
Proof. intro c; all_ascii c; vm_compute; intuition congruence. Qed.

Lemma digit_not_letter : forall c, is_digit c = true ->
  Ascii.eqb c "t" = false /\ Ascii.eqb c "f" = false /\ Ascii.eqb c "n" = false
  /\ Ascii.eqb c "N" = false /\ Ascii.eqb c "I" = false /\ Ascii.eqb c "{" = false.
Proof. intro c; all_ascii c; vm_compute; intuition congruence. Qed.

Lemma space_not_comma : forall c, is_space c = true -> Ascii.eqb c "," = false.
Proof. intro c; all_ascii c; vm_compute; congruence. Qed.

Lemma word_not_space : forall c, is_word c = true ->
  is_space c = false /\ Ascii.eqb c " " = false /\ Ascii.eqb c "," = false.
Proof. intro c; all_ascii c; vm_compute; intuition congruence. Qed.

Lemma lc_inv : forall c x, lower_char c = x -> is_lower x = true ->
  c = x \/ c = ascii_of_nat (code x - 32).
Proof.
  intros c x H; subst x; all_ascii c; vm_compute; intros H; try discriminate H; auto.
Qed.

(* ---------------------------------------------------------------------- strings *)

Lemma app_assoc_s : forall a b c : string, (a ++ b) ++ c = a ++ b ++ c.
Proof. induction a; simpl; intros; [reflexivity | now rewrite IHa]. Qed.

Lemma app_nil_r_s : forall a : string, a ++ "" = a.
Proof. induction a; simpl; [reflexivity | now rewrite IHa]. Qed.

Lemma length_app_s : forall a b : string, String.length (a ++ b) = String.length a + String.length b.
Proof. induction a; simpl; intros; [reflexivity | now rewrite IHa]. Qed.

Lemma all_chars_app : forall p a b, all_chars p (a ++ b) = all_chars p a && all_chars p b.
Proof. induction a; simpl; intros; [reflexivity | rewrite IHa; now rewrite andb_assoc]. Qed.

Lemma all_chars_impl : forall (p q : ascii -> bool) s,
  (forall c, p c = true -> q c = true) -> all_chars p s = true -> all_chars q s = true.
Proof.
  induction s; simpl; intros Hpq H; [reflexivity|].
  apply andb_true_iff in H as [H1 H2]. rewrite (Hpq _ H1), (IHs Hpq H2). reflexivity.
Qed.

Lemma span_app : forall p ds r, all_chars p ds = true ->
  match r with "" => true | String c _ => negb (p c) end = true ->
  span p (ds ++ r) = (ds, r).
Proof.
  induction ds; simpl; intros r H Hr.
  - destruct r; simpl; [reflexivity|]. apply negb_true_iff in Hr. now rewrite Hr.
  - apply andb_true_iff in H as [H1 H2]. rewrite H1, (IHds r H2 Hr). reflexivity.
Qed.

Lemma span_spec : forall p s w r, span p s = (w, r) -> s = w ++ r /\ all_chars p w = true.
Proof.
  induction s; simpl; intros w r H.
  - inversion H; subst; auto.
  - destruct (p a) eqn:E.
    + destruct (span p s) as [a0 b0] eqn:E2. inversion H; subst.
      destruct (IHs a0 r eq_refl) as [-> Hw]. simpl. now rewrite E, Hw.
    + inversion H; subst; auto.
Qed.

Lemma lstrip_nospace : forall s, starts_space s = false -> lstrip s = s.
Proof. destruct s; simpl; intros H; [reflexivity | now rewrite H]. Qed.

Lemma rstrip_spaces : forall w, all_space w = true -> rstrip w = "".
Proof.
  induction w; simpl; intros H; [reflexivity|].
  apply andb_true_iff in H as [H1 H2]. rewrite (IHw H2), H1. reflexivity.
Qed.

Lemma rstrip_app_spaces : forall s w, all_space w = true -> rstrip (s ++ w) = rstrip s.
Proof.
  induction s; simpl; intros w H; [now apply rstrip_spaces | now rewrite (IHs w H)].
Qed.

Lemma rstrip_id : forall s, ends_space s = false -> rstrip s = s.
Proof.
  induction s; simpl; intros H; [reflexivity|].
  destruct s as [|b s'].
  - simpl. now rewrite H.
  - rewrite (IHs H). reflexivity.
Qed.

Lemma lstrip_app_spaces : forall w s, all_space w = true -> lstrip (w ++ s) = lstrip s.
Proof.
  induction w; simpl; intros s H; [reflexivity|].
  apply andb_true_iff in H as [H1 H2]. now rewrite H1, (IHw s H2).
Qed.

Lemma ends_space_snoc : forall a x, ends_space (a ++ str1 x) = is_space x.
Proof.
  induction a; simpl; intros x; [reflexivity|].
  destruct (a0 ++ str1 x) eqn:E; [destruct a0; discriminate E|]. rewrite <- E. apply IHa.
Qed.

(* strip of (core ++ blanks) when the core neither starts nor ends with a blank *)
Lemma strip_core : forall t w, starts_space t = false -> ends_space t = false -> all_space w = true ->
  strip (t ++ w) = t.
Proof.
  intros t w H1 H2 Hw. unfold strip.
  destruct t as [|c t'].
  - simpl. assert (E : lstrip w = "").
    { clear -Hw. induction w; simpl in *; [reflexivity|].
      apply andb_true_iff in Hw as [A B]. rewrite A. auto. }
    now rewrite E.
  - assert (E : lstrip (String c t' ++ w) = String c t' ++ w) by (apply lstrip_nospace; exact H1).
    rewrite E, rstrip_app_spaces by exact Hw. now apply rstrip_id.
Qed.

Lemma strip_id : forall t, starts_space t = false -> ends_space t = false -> strip t = t.
Proof. intros t H1 H2. rewrite <- (app_nil_r_s t) at 1. now apply strip_core. Qed.

Lemma count_char_app : forall q a b, count_char q (a ++ b) = count_char q a + count_char q b.
Proof. induction a; simpl; intros; [reflexivity | rewrite IHa; lia]. Qed.

Lemma count_none : forall q s, no_char q s = true -> count_char q s = 0.
Proof.
  induction s; simpl; intros H; [reflexivity|].
  apply andb_true_iff in H as [H1 H2]. apply negb_true_iff in H1. rewrite H1, (IHs H2). reflexivity.
Qed.

Lemma rm_first_other : forall q s, first_is q s = false -> rm_first q s = s.
Proof. destruct s; simpl; intros H; [reflexivity | now rewrite H]. Qed.

Lemma rm_last_dollar_snoc : forall q c, no_char q c = true -> rm_last_dollar q (c ++ str1 q) = c.
Proof.
  induction c; simpl; intros H.
  - now rewrite Ascii.eqb_refl.
  - apply andb_true_iff in H as [H1 H2]. apply negb_true_iff in H1. rewrite H1. simpl.
    now rewrite (IHc H2).
Qed.

Lemma rm_last_dollar_keep : forall q s,
  ends_with (str1 q) s = false -> ends_with (String q (str1 ch_nl)) s = false -> rm_last_dollar q s = s.
Proof.
  induction s; intros H1 H2; [reflexivity|].
  simpl in H1, H2. apply orb_false_iff in H1 as [A1 B1]. apply orb_false_iff in H2 as [A2 B2].
  simpl. destruct (Ascii.eqb a q) eqn:E.
  - apply Ascii.eqb_eq in E; subst a.
    assert (N1 : String.eqb s "" = false).
    { apply String.eqb_neq. intros ->. apply String.eqb_neq in A1. now apply A1. }
    assert (N2 : String.eqb s (str1 ch_nl) = false).
    { apply String.eqb_neq. intros ->. apply String.eqb_neq in A2. now apply A2. }
    rewrite N1, N2. simpl. now rewrite (IHs B1 B2).
  - simpl. now rewrite (IHs B1 B2).
Qed.

Lemma ends_with_snoc_other : forall suf a x y, suf = str1 y \/ (exists z, suf = String z (str1 y)) ->
  Ascii.eqb x y = false -> ends_with suf (a ++ str1 x) = false.
Proof.
  intros suf a x y Hs Hxy. induction a; simpl.
  - destruct Hs as [-> | [z ->]]; simpl.
    + rewrite Hxy. reflexivity.
    + destruct (Ascii.eqb x z); reflexivity.
  - rewrite IHa. rewrite orb_false_r.
    destruct Hs as [-> | [z ->]]; simpl.
    + destruct (Ascii.eqb a y); [|reflexivity]. destruct a0; reflexivity.
    + destruct (Ascii.eqb a z); [|reflexivity].
      destruct a0 as [|b a1]; simpl; [now rewrite Hxy|].
      destruct (Ascii.eqb b y); [|reflexivity]. destruct a1; reflexivity.
Qed.

Lemma first_is_snoc_cons : forall q c a x, first_is q (String c (a ++ str1 x)) = Ascii.eqb c q.
Proof. reflexivity. Qed.

Lemma last_is_snoc : forall q a x, last_is q (a ++ str1 x) = Ascii.eqb x q.
Proof.
  induction a; simpl; intros x; [reflexivity|].
  destruct (a0 ++ str1 x) eqn:E; [destruct a0; discriminate E|]. rewrite <- E. apply IHa.
Qed.

Lemma until_char_app : forall q c r, no_char q c = true -> until_char q (c ++ String q r) = Some (c, r).
Proof.
  induction c; simpl; intros r H.
  - now rewrite Ascii.eqb_refl.
  - apply andb_true_iff in H as [H1 H2]. apply negb_true_iff in H1. now rewrite H1, (IHc r H2).
Qed.

Lemma until_close_cons2 : forall c1 c2 a b s,
  until_close c1 c2 (String a (String b s)) =
  if Ascii.eqb a c1 && Ascii.eqb b c2 then Some ("", s)
  else if Ascii.eqb a ch_nl then None
  else match until_close c1 c2 (String b s) with Some (x, y) => Some (String a x, y) | None => None end.
Proof. reflexivity. Qed.

Lemma until_close_app : forall c1 c2 body r, body_ok c1 c2 body = true ->
  until_close c1 c2 (body ++ String c1 (String c2 r)) = Some (body, r).
Proof.
  induction body; intros r H.
  - simpl. now rewrite !Ascii.eqb_refl.
  - simpl in H. apply andb_true_iff in H as [H H3]. apply andb_true_iff in H as [H1 H2].
    apply negb_true_iff in H1. apply negb_true_iff in H2.
    assert (IH := IHbody r H3).
    destruct body as [|b body'].
    + simpl. simpl in H2. rewrite H2, H1. simpl. now rewrite !Ascii.eqb_refl.
    + change ((String a (String b body')) ++ String c1 (String c2 r))
        with (String a (String b (body' ++ String c1 (String c2 r)))).
      change ((String b body') ++ String c1 (String c2 r))
        with (String b (body' ++ String c1 (String c2 r))) in IH.
      rewrite until_close_cons2, H2, H1, IH. reflexivity.
Qed.


(* ----------------------------------------------------------------------- scanner *)

Lemma scan_skip : forall m r, scan (String.length m) "" (m ++ r) = scan 0 "" r.
Proof. induction m; simpl; intros r; [reflexivity | apply IHm]. Qed.

Lemma scan_key : forall k acc r, all_chars is_word k = true -> scan 0 acc (k ++ r) = scan 0 (acc ++ k) r.
Proof.
  induction k; simpl; intros acc r H.
  - now rewrite app_nil_r_s.
  - apply andb_true_iff in H as [H1 H2]. rewrite H1, (IHk _ r H2), app_assoc_s. reflexivity.
Qed.

Lemma scan_eq : forall key s', String.eqb key "" = false ->
  scan 0 key (String "=" s') =
  match m_value s' with
  | Some (v, _) => (key, v) :: scan (String.length v) "" s'
  | None => scan 0 "" s'
  end.
Proof. intros key s' H. simpl. rewrite H. reflexivity. Qed.

Definition inert (c : ascii) : bool := negb (is_word c) && negb (is_ch 61 c).

Lemma scan_inert : forall p r, all_chars inert p = true -> scan 0 "" (p ++ r) = scan 0 "" r.
Proof.
  induction p; simpl; intros r H; [reflexivity|].
  apply andb_true_iff in H as [H1 H2]. unfold inert in H1. apply andb_true_iff in H1 as [A B].
  apply negb_true_iff in A. apply negb_true_iff in B. rewrite A, B. simpl. now apply IHp.
Qed.

Lemma spaces_inert : forall w, all_space w = true -> all_chars inert w = true.
Proof.
  intros w. apply all_chars_impl. intros c H. destruct (space_not_word c H) as [A B].
  unfold inert. now rewrite A, B.
Qed.

Lemma seps_inert : forall w, sep_ok w = true -> all_chars inert w = true.
Proof.
  intros w. apply all_chars_impl. intros c H. destruct (sep_not_word c H) as [A [B _]].
  unfold inert. now rewrite A, B.
Qed.

(* a prefix without `=` followed by a blank leaves no key behind *)
Lemma scan_prefix : forall p key r, no_char "=" p = true -> scan 0 key (p ++ String " " r) = scan 0 "" r.
Proof.
  induction p; intros key r H.
  - reflexivity.
  - simpl in H. apply andb_true_iff in H as [H1 H2]. apply negb_true_iff in H1.
    change (String a p ++ String " " r) with (String a (p ++ String " " r)).
    simpl. destruct (is_word a).
    + now apply IHp.
    + assert (E : is_ch 61 a = false).
      { unfold is_ch, code. destruct (Nat.eqb (nat_of_ascii a) 61) eqn:E; [|reflexivity].
        apply Nat.eqb_eq in E. assert (a = "="%char) by (rewrite <- (ascii_nat_embedding a), E; reflexivity).
        subst a. discriminate H1. }
      rewrite E. simpl. now apply IHp.
Qed.


Definition starts_sep (r : string) : bool := match r with "" => true | String c _ => is_sepchar c end.

Lemma first_match_none : forall a l s, m_alt a s = None -> first_match (a :: l) s = first_match l s.
Proof. intros a l s H. simpl. now rewrite H. Qed.

Lemma first_match_some : forall a l s x, m_alt a s = Some x -> first_match (a :: l) s = Some x.
Proof. intros a l s x H. simpl. now rewrite H. Qed.

Lemma m_brackets_other : forall c s, is_ch 91 c = false -> m_brackets (String c s) = None.
Proof. intros c s H. simpl. now rewrite H. Qed.

Lemma m_quoted_other : forall q c s, Ascii.eqb c q = false -> m_quoted q (String c s) = None.
Proof. intros q c s H. simpl. now rewrite H. Qed.

Lemma m_quoted_ok : forall q c r, no_char q c = true ->
  m_quoted q (String q (c ++ String q r)) = with_ws (String q (c ++ str1 q)) r.
Proof. intros q c r H. simpl. now rewrite Ascii.eqb_refl, (until_char_app q c r H). Qed.

Lemma with_ws_spec : forall m r, exists w r',
  with_ws m r = Some (m ++ w, r') /\ r = w ++ r' /\ all_space w = true.
Proof.
  intros m r. unfold with_ws. destruct (span is_space r) as [w r'] eqn:E.
  destruct (span_spec _ _ _ _ E) as [A B]. exists w, r'. auto.
Qed.

(* ---- numerals *)

Lemma digits_head : forall ds, digits1 ds = true -> exists d ds', ds = String d ds' /\ is_digit d = true.
Proof.
  intros ds H. unfold digits1 in H. apply andb_true_iff in H as [A B].
  destruct ds as [|d ds']; [discriminate B|]. simpl in A. apply andb_true_iff in A as [A _]. eauto.
Qed.

Lemma canon_digits1 : forall ds, canon_digits ds = true -> digits1 ds = true.
Proof.
  intros ds H. unfold canon_digits in H. apply andb_true_iff in H as [H _]. exact H.
Qed.

Lemma opt_minus_sign : forall n ds r, digits1 ds = true -> opt_minus (sign n ++ ds ++ r) = (sign n, ds ++ r).
Proof.
  intros n ds r H. destruct n; [reflexivity|].
  destruct (digits_head ds H) as [d [ds' [-> Hd]]]. simpl.
  destruct (digit_facts d Hd) as [_ [_ [_ [E _]]]]. now rewrite E.
Qed.

Lemma starts_sep_not_digit : forall r, starts_sep r = true ->
  match r with "" => true | String c _ => negb (is_digit c) end = true.
Proof.
  destruct r; simpl; intros H; [reflexivity|]. destruct (sep_not_word a H) as [_ [_ [E _]]]. now rewrite E.
Qed.

Lemma m_float_int : forall n ds r, digits1 ds = true -> starts_sep r = true ->
  m_float ((sign n ++ ds) ++ r) = None.
Proof.
  intros n ds r H Hr. unfold m_float. rewrite app_assoc_s, (opt_minus_sign n ds r H).
  assert (A : all_chars is_digit ds = true) by (unfold digits1 in H; apply andb_true_iff in H; tauto).
  rewrite (span_app is_digit ds r A (starts_sep_not_digit r Hr)).
  destruct r as [|c r']; [reflexivity|]. simpl in Hr. destruct (sep_not_word c Hr) as [_ [_ [_ E]]]. now rewrite E.
Qed.

Lemma m_int_int : forall n ds r, digits1 ds = true -> starts_sep r = true ->
  m_int ((sign n ++ ds) ++ r) = Some (sign n ++ ds, r).
Proof.
  intros n ds r H Hr. unfold m_int. rewrite app_assoc_s, (opt_minus_sign n ds r H).
  assert (A : all_chars is_digit ds = true) by (unfold digits1 in H; apply andb_true_iff in H; tauto).
  rewrite (span_app is_digit ds r A (starts_sep_not_digit r Hr)).
  destruct (digits_head ds H) as [d [ds' [-> _]]]. reflexivity.
Qed.

Lemma m_float_dec : forall n ip fp r, digits1 ip = true -> digits1 fp = true -> starts_sep r = true ->
  m_float ((sign n ++ ip ++ String "." fp) ++ r) = Some (sign n ++ ip ++ String "." fp, r).
Proof.
  intros n ip fp r Hi Hf Hr. unfold m_float.
  replace ((sign n ++ ip ++ String "." fp) ++ r) with (sign n ++ ip ++ String "." (fp ++ r))
    by (now rewrite !app_assoc_s).
  rewrite (opt_minus_sign n ip _ Hi).
  assert (A : all_chars is_digit ip = true) by (unfold digits1 in Hi; apply andb_true_iff in Hi; tauto).
  assert (B : all_chars is_digit fp = true) by (unfold digits1 in Hf; apply andb_true_iff in Hf; tauto).
  rewrite (span_app is_digit ip (String "." (fp ++ r)) A eq_refl).
  change (is_ch 46 ".") with true. cbv iota.
  rewrite (span_app is_digit fp r B (starts_sep_not_digit r Hr)).
  destruct (digits_head fp Hf) as [d [fp' [-> _]]]. reflexivity.
Qed.

(* the first character of a numeral *)
Lemma numeral_head : forall n ds t, digits1 ds = true -> exists c s',
  (sign n ++ ds ++ t) = String c s' /\ (is_digit c = true \/ c = "-"%char).
Proof.
  intros n ds t H. destruct (digits_head ds H) as [d [ds' [-> Hd]]].
  destruct n; simpl; eauto.
Qed.

Lemma numstart_facts : forall c, is_digit c = true \/ c = "-"%char ->
  is_ch 91 c = false /\ Ascii.eqb c ch_dq = false /\ Ascii.eqb c ch_sq = false.
Proof.
  intros c [H | ->]; [|vm_compute; auto]. destruct (digit_facts c H) as [A [B [C _]]]. auto.
Qed.


Ltac lower_step H :=
  match type of H with
  | lower ?s = String ?x ?rest =>
      let c := fresh "c" in let s' := fresh "s" in let Hc := fresh "Hc" in
      destruct s as [|c s']; [discriminate H|]; simpl in H;
      injection H as Hc H;
      apply lc_inv in Hc; [|reflexivity]; destruct Hc as [Hc|Hc]; subst c
  | lower ?s = "" => destruct s; [clear H|discriminate H]
  end.

Lemma match_true : forall sp r, lower sp = "true" ->
  m_value (sp ++ r) = Some (sp, r).
Proof.
  intros sp r H. repeat lower_step H; vm_compute; reflexivity.
Qed.

Lemma match_false : forall sp r, lower sp = "false" ->
  m_value (sp ++ r) = Some (sp, r).
Proof.
  intros sp r H. repeat lower_step H; vm_compute; reflexivity.
Qed.

Lemma match_null : forall r, m_value ("null" ++ r) = Some ("null", r).
Proof. intros r. vm_compute. reflexivity. Qed.

Lemma delim_assoc : forall o1 o2 b c1 c2 r,
  String o1 (String o2 (b ++ String c1 (str1 c2))) ++ r = String o1 (String o2 (b ++ String c1 (String c2 r))).
Proof. intros. simpl. now rewrite app_assoc_s. Qed.

Lemma match_yaql : forall b r, body_ok "%" ">" b = true ->
  m_value (text (VYaql b) ++ r) = Some (text (VYaql b), r).
Proof.
  intros b r H. unfold text. change "%>" with (String "%" (str1 ">")). rewrite delim_assoc.
  unfold m_value, PARAM_ALTERNATIVES.
  repeat (rewrite first_match_none; [|reflexivity]).
  apply first_match_some. simpl. now rewrite (until_close_app "%" ">" b r H).
Qed.

Lemma match_jinja : forall b r, body_ok "}" "}" b = true ->
  m_value (text (VJinja b) ++ r) = Some (text (VJinja b), r).
Proof.
  intros b r H. unfold text. change "}}" with (String "}" (str1 "}")). rewrite delim_assoc.
  unfold m_value, PARAM_ALTERNATIVES.
  repeat (rewrite first_match_none; [|reflexivity]).
  apply first_match_some. simpl. now rewrite (until_close_app "}" "}" b r H).
Qed.

Lemma match_dq : forall c r, no_char ch_dq c = true -> exists w r',
  m_value (text (VDq c) ++ r) = Some (text (VDq c) ++ w, r') /\ r = w ++ r' /\ all_space w = true.
Proof.
  intros c r H. unfold text.
  replace (String ch_dq (c ++ str1 ch_dq) ++ r) with (String ch_dq (c ++ String ch_dq r))
    by (simpl; now rewrite app_assoc_s).
  destruct (with_ws_spec (String ch_dq (c ++ str1 ch_dq)) r) as [w [r' [A B]]].
  exists w, r'. split; [|exact B].
  unfold m_value, PARAM_ALTERNATIVES.
  repeat (rewrite first_match_none; [|reflexivity]).
  apply first_match_some. unfold m_alt. now rewrite (m_quoted_ok ch_dq c r H).
Qed.

Lemma match_sq : forall c r, no_char ch_sq c = true -> exists w r',
  m_value (text (VSq c) ++ r) = Some (text (VSq c) ++ w, r') /\ r = w ++ r' /\ all_space w = true.
Proof.
  intros c r H. unfold text.
  replace (String ch_sq (c ++ str1 ch_sq) ++ r) with (String ch_sq (c ++ String ch_sq r))
    by (simpl; now rewrite app_assoc_s).
  destruct (with_ws_spec (String ch_sq (c ++ str1 ch_sq)) r) as [w [r' [A B]]].
  exists w, r'. split; [|exact B].
  unfold m_value, PARAM_ALTERNATIVES.
  repeat (rewrite first_match_none; [|reflexivity]).
  apply first_match_some. unfold m_alt. now rewrite (m_quoted_ok ch_sq c r H).
Qed.

Lemma match_int : forall n ds r, digits1 ds = true -> starts_sep r = true ->
  m_value (text (VInt n ds) ++ r) = Some (text (VInt n ds), r).
Proof.
  intros n ds r H Hr. unfold text.
  destruct (numeral_head n ds r H) as [c [s' [E Hc]]].
  destruct (numstart_facts c Hc) as [F1 [F2 F3]].
  unfold m_value, PARAM_ALTERNATIVES.
  rewrite first_match_none by (simpl m_alt; rewrite app_assoc_s, E; now apply m_brackets_other).
  rewrite first_match_none by (simpl m_alt; rewrite app_assoc_s, E; now apply m_quoted_other).
  rewrite first_match_none by (simpl m_alt; rewrite app_assoc_s, E; now apply m_quoted_other).
  rewrite first_match_none by (simpl m_alt; now apply m_float_int).
  apply first_match_some. simpl m_alt. now apply m_int_int.
Qed.

Lemma match_dec : forall n ip fp r, digits1 ip = true -> digits1 fp = true -> starts_sep r = true ->
  m_value (text (VDec n ip fp) ++ r) = Some (text (VDec n ip fp), r).
Proof.
  intros n ip fp r Hi Hf Hr. unfold text.
  destruct (numeral_head n ip (String "." fp ++ r) Hi) as [c [s' [E Hc]]].
  destruct (numstart_facts c Hc) as [F1 [F2 F3]].
  assert (E' : (sign n ++ ip ++ String "." fp) ++ r = String c s') by (rewrite <- E; now rewrite !app_assoc_s).
  unfold m_value, PARAM_ALTERNATIVES.
  rewrite first_match_none by (simpl m_alt; rewrite E'; now apply m_brackets_other).
  rewrite first_match_none by (simpl m_alt; rewrite E'; now apply m_quoted_other).
  rewrite first_match_none by (simpl m_alt; rewrite E'; now apply m_quoted_other).
  apply first_match_some. simpl m_alt. now apply m_float_dec.
Qed.

Lemma value_match : forall v r, ok_val v = true -> starts_sep r = true -> exists w r',
  m_value (text v ++ r) = Some (text v ++ w, r') /\ r = w ++ r' /\ all_space w = true.
Proof.
  intros v r Hv Hr. destruct v; simpl in Hv.
  - exists "", r. rewrite app_nil_r_s. split; [|auto]. apply match_int; [now apply canon_digits1 | exact Hr].
  - apply andb_true_iff in Hv as [A B]. exists "", r. rewrite app_nil_r_s. split; [|auto].
    apply match_dec; [now apply canon_digits1 | exact B | exact Hr].
  - exists "", r. rewrite app_nil_r_s. split; [|auto]. apply String.eqb_eq in Hv. simpl text.
    destruct b; [now apply match_true | now apply match_false].
  - exists "", r. split; [|auto]. apply match_null.
  - apply match_dq. repeat (apply andb_true_iff in Hv as [Hv _]). exact Hv.
  - apply match_sq. apply andb_true_iff in Hv as [Hv _]. exact Hv.
  - exists "", r. rewrite app_nil_r_s. split; [|auto]. now apply match_yaql.
  - exists "", r. rewrite app_nil_r_s. split; [|auto]. now apply match_jinja.
Qed.


(* ------------------------------------------------------------- post-processing *)

Definition nospace (t : string) : bool := all_chars (fun c => negb (is_space c)) t.

Lemma nospace_ends : forall t, nospace t = true -> starts_space t = false /\ ends_space t = false.
Proof.
  induction t; simpl; intros H; [auto|].
  apply andb_true_iff in H as [H1 H2]. apply negb_true_iff in H1. split; [exact H1|].
  destruct t; [exact H1 | now apply IHt].
Qed.

Lemma rm_last_dollar_none : forall q s, no_char q s = true -> rm_last_dollar q s = s.
Proof.
  induction s; simpl; intros H; [reflexivity|].
  apply andb_true_iff in H as [H1 H2]. apply negb_true_iff in H1. rewrite H1. simpl. now rewrite (IHs H2).
Qed.

Lemma first_is_none : forall q s, no_char q s = true -> first_is q s = false.
Proof. destruct s; simpl; intros H; [reflexivity|]. apply andb_true_iff in H as [H _]. now apply negb_true_iff in H. Qed.

Lemma unquote_plain : forall t, no_char ch_dq t = true -> no_char ch_sq t = true -> unquote t = t.
Proof.
  intros t H1 H2. unfold unquote.
  rewrite (rm_first_other ch_dq t (first_is_none _ _ H1)), (rm_last_dollar_none ch_dq t H1).
  rewrite (rm_first_other ch_sq t (first_is_none _ _ H2)), (rm_last_dollar_none ch_sq t H2). reflexivity.
Qed.

Lemma quotes_in_plain : forall t, no_char ch_dq t = true -> no_char ch_sq t = true -> quotes_in t = false.
Proof. intros t H1 H2. unfold quotes_in. now rewrite (count_none _ _ H1), (count_none _ _ H2). Qed.

Lemma post_plain : forall t, no_char ch_dq t = true -> no_char ch_sq t = true -> post_stripped t = load_or_str t.
Proof.
  intros t H1 H2. unfold post_stripped. rewrite (unquote_plain t H1 H2), (quotes_in_plain t H1 H2).
  now rewrite andb_false_r.
Qed.

Lemma rm_last_dollar_snoc_other : forall q a x, Ascii.eqb x q = false -> Ascii.eqb x ch_nl = false ->
  rm_last_dollar q (a ++ str1 x) = a ++ str1 x.
Proof.
  intros q a x H1 H2. induction a.
  - simpl. now rewrite H1.
  - change (String a a0 ++ str1 x) with (String a (a0 ++ str1 x)).
    assert (N1 : String.eqb (a0 ++ str1 x) "" = false) by (destruct a0; reflexivity).
    assert (N2 : String.eqb (a0 ++ str1 x) (str1 ch_nl) = false).
    { destruct a0 as [|b a1]; simpl; [now rewrite H2|]. destruct (Ascii.eqb b ch_nl); [|reflexivity].
      destruct a1; reflexivity. }
    simpl. rewrite N1, N2, andb_false_r, IHa. reflexivity.
Qed.

(* ---- json.loads on the shapes that matter *)

Lemma jvalue_scalar : forall f c s', is_ch 34 c = false -> is_ch 91 c = false -> is_ch 123 c = false ->
  jvalue (S f) (String c s') =
  match jliteral (String c s') with Some x => Some x | None => jnumber (String c s') end.
Proof. intros f c s' H1 H2 H3. simpl. now rewrite H1, H2, H3. Qed.

Lemma fuel_shape : forall n, exists f, 2 * n + 4 = S (S f).
Proof. intros n. exists (2 * n + 2). lia. Qed.

Lemma jliteral_digit : forall d s, is_digit d = true -> jliteral (String d s) = None.
Proof. intros d s; all_ascii d; vm_compute; intro H; try discriminate H; reflexivity. Qed.

Lemma jliteral_minus_digit : forall d s, is_digit d = true -> jliteral (String "-" (String d s)) = None.
Proof. intros d s; all_ascii d; vm_compute; intro H; try discriminate H; reflexivity. Qed.

Lemma canon_parts : forall ds, canon_digits ds = true ->
  all_chars is_digit ds = true /\ String.eqb ds "" = false /\ leading_zero ds = false.
Proof.
  intros ds H. unfold canon_digits in H. apply andb_true_iff in H as [H C]. apply andb_true_iff in H as [A B].
  apply negb_true_iff in B. apply negb_true_iff in C. auto.
Qed.

Lemma numeral_scalar : forall n ds t, digits1 ds = true -> exists c s',
  sign n ++ ds ++ t = String c s' /\ is_ch 34 c = false /\ is_ch 91 c = false /\ is_ch 123 c = false
  /\ is_jws c = false /\ jliteral (String c s') = None.
Proof.
  intros n ds t H. destruct (digits_head ds H) as [d [ds' [-> Hd]]].
  destruct (digit_facts d Hd) as [A [_ [_ [_ [_ [_ [_ [W [Q C]]]]]]]]].
  destruct n; simpl.
  - exists "-"%char, (String d (ds' ++ t)). repeat split; try reflexivity. now apply jliteral_minus_digit.
  - exists d, (ds' ++ t). repeat split; auto. now apply jliteral_digit.
Qed.

Lemma loads_scalar : forall s c s' v, s = String c s' -> is_ch 34 c = false -> is_ch 91 c = false ->
  is_ch 123 c = false -> is_jws c = false -> jliteral s = None -> jnumber s = Some (v, "") ->
  json_loads s = Some v.
Proof.
  intros s c s' v E H1 H2 H3 H4 H5 H6. unfold json_loads.
  destruct (fuel_shape (String.length s)) as [f ->].
  assert (W : skip_ws s = s) by (rewrite E; simpl; now rewrite H4).
  rewrite W. rewrite E at 1. rewrite (jvalue_scalar _ c s' H1 H2 H3), <- E, H5, H6. reflexivity.
Qed.

Lemma jnumber_int : forall n ds, canon_digits ds = true ->
  jnumber (sign n ++ ds) = Some (JInt (z_of_numeral (sign n ++ ds)), "").
Proof.
  intros n ds H. destruct (canon_parts ds H) as [A [B C]].
  unfold jnumber. rewrite <- (app_nil_r_s ds) at 1. rewrite (opt_minus_sign n ds "" (canon_digits1 ds H)).
  rewrite (span_app is_digit ds "" A eq_refl), B, C. reflexivity.
Qed.

Lemma jnumber_dec : forall n ip fp, canon_digits ip = true -> digits1 fp = true ->
  jnumber (sign n ++ ip ++ String "." fp) = Some (JFloat (sign n ++ ip ++ String "." fp), "").
Proof.
  intros n ip fp H Hf. destruct (canon_parts ip H) as [A [B C]].
  assert (F : all_chars is_digit fp = true) by (unfold digits1 in Hf; apply andb_true_iff in Hf; tauto).
  unfold jnumber. rewrite (opt_minus_sign n ip _ (canon_digits1 ip H)).
  rewrite (span_app is_digit ip (String "." fp) A eq_refl), B, C.
  unfold jfrac. change (is_ch 46 ".") with true. cbv iota.
  rewrite <- (app_nil_r_s fp) at 1. rewrite (span_app is_digit fp "" F eq_refl).
  destruct (digits_head fp Hf) as [d [fp' [-> _]]]. simpl. now rewrite app_nil_r_s.
Qed.

Lemma loads_int : forall n ds, canon_digits ds = true ->
  json_loads (sign n ++ ds) = Some (JInt (z_of_numeral (sign n ++ ds))).
Proof.
  intros n ds H. destruct (numeral_scalar n ds "" (canon_digits1 ds H)) as [c [s' [E [H1 [H2 [H3 [H4 H5]]]]]]].
  rewrite app_nil_r_s in E. rewrite <- E in H5.
  exact (loads_scalar _ c s' _ E H1 H2 H3 H4 H5 (jnumber_int n ds H)).
Qed.

Lemma loads_dec : forall n ip fp, canon_digits ip = true -> digits1 fp = true ->
  json_loads (sign n ++ ip ++ String "." fp) = Some (JFloat (sign n ++ ip ++ String "." fp)).
Proof.
  intros n ip fp H Hf.
  destruct (numeral_scalar n ip (String "." fp) (canon_digits1 ip H)) as [c [s' [E [H1 [H2 [H3 [H4 H5]]]]]]].
  rewrite <- E in H5.
  exact (loads_scalar _ c s' _ E H1 H2 H3 H4 H5 (jnumber_dec n ip fp H Hf)).
Qed.

(* a numeral is not a boolean word *)
Lemma numeral_not_bool : forall n ds t, digits1 ds = true ->
  String.eqb (lower (sign n ++ ds ++ t)) "true" || String.eqb (lower (sign n ++ ds ++ t)) "false" = false.
Proof.
  intros n ds t H. destruct (digits_head ds H) as [d [ds' [-> Hd]]].
  destruct n; [reflexivity|]. simpl.
  destruct (digit_facts d Hd) as [_ [_ [_ [_ [_ [L _]]]]]]. rewrite L.
  destruct (digit_not_letter d Hd) as [A [B _]]. now rewrite A, B.
Qed.

Lemma digits_plain : forall ds, all_chars is_digit ds = true ->
  no_char ch_dq ds = true /\ no_char ch_sq ds = true /\ nospace ds = true.
Proof.
  intros ds H. repeat split; revert H; apply all_chars_impl; intros c Hc;
    destruct (digit_facts c Hc) as [_ [A [B [_ [C _]]]]]; now rewrite ?A, ?B, ?C.
Qed.

Lemma sign_plain : forall n, no_char ch_dq (sign n) = true /\ no_char ch_sq (sign n) = true /\ nospace (sign n) = true.
Proof. destruct n; vm_compute; auto. Qed.

Lemma post_int : forall n ds w, canon_digits ds = true -> all_space w = true ->
  post_value ((sign n ++ ds) ++ w) = JInt (z_of_numeral (sign n ++ ds)).
Proof.
  intros n ds w H Hw. destruct (canon_parts ds H) as [A _].
  destruct (digits_plain ds A) as [D1 [D2 D3]]. destruct (sign_plain n) as [S1 [S2 S3]].
  assert (P1 : no_char ch_dq (sign n ++ ds) = true) by (unfold no_char in *; now rewrite all_chars_app, S1, D1).
  assert (P2 : no_char ch_sq (sign n ++ ds) = true) by (unfold no_char in *; now rewrite all_chars_app, S2, D2).
  assert (P3 : nospace (sign n ++ ds) = true) by (unfold nospace in *; now rewrite all_chars_app, S3, D3).
  destruct (nospace_ends _ P3) as [E1 E2].
  unfold post_value. rewrite (strip_core _ w E1 E2 Hw), (post_plain _ P1 P2).
  unfold load_or_str. pose proof (numeral_not_bool n ds "" (canon_digits1 ds H)) as NB.
  rewrite app_nil_r_s in NB. rewrite NB, (loads_int n ds H). reflexivity.
Qed.

Lemma post_dec : forall n ip fp w, canon_digits ip = true -> digits1 fp = true -> all_space w = true ->
  post_value ((sign n ++ ip ++ String "." fp) ++ w) = JFloat (sign n ++ ip ++ String "." fp).
Proof.
  intros n ip fp w H Hf Hw. destruct (canon_parts ip H) as [A _].
  assert (F : all_chars is_digit fp = true) by (unfold digits1 in Hf; apply andb_true_iff in Hf; tauto).
  destruct (digits_plain ip A) as [D1 [D2 D3]]. destruct (digits_plain fp F) as [G1 [G2 G3]].
  destruct (sign_plain n) as [S1 [S2 S3]].
  assert (P1 : no_char ch_dq (sign n ++ ip ++ String "." fp) = true).
  { unfold no_char in *. rewrite !all_chars_app, S1, D1. simpl. now rewrite G1. }
  assert (P2 : no_char ch_sq (sign n ++ ip ++ String "." fp) = true).
  { unfold no_char in *. rewrite !all_chars_app, S2, D2. simpl. now rewrite G2. }
  assert (P3 : nospace (sign n ++ ip ++ String "." fp) = true).
  { unfold nospace in *. rewrite !all_chars_app, S3, D3. simpl. now rewrite G3. }
  destruct (nospace_ends _ P3) as [E1 E2].
  unfold post_value. rewrite (strip_core _ w E1 E2 Hw), (post_plain _ P1 P2).
  unfold load_or_str. rewrite (numeral_not_bool n ip (String "." fp) (canon_digits1 ip H)), (loads_dec n ip fp H Hf).
  reflexivity.
Qed.


Lemma post_true : forall sp w, lower sp = "true" -> all_space w = true -> post_value (sp ++ w) = JBool true.
Proof.
  intros sp w H Hw. unfold post_value.
  repeat lower_step H; (rewrite strip_core by (exact Hw || reflexivity)); vm_compute; reflexivity.
Qed.

Lemma post_false : forall sp w, lower sp = "false" -> all_space w = true -> post_value (sp ++ w) = JBool false.
Proof.
  intros sp w H Hw. unfold post_value.
  repeat lower_step H; (rewrite strip_core by (exact Hw || reflexivity)); vm_compute; reflexivity.
Qed.

Lemma post_null : forall w, all_space w = true -> post_value ("null" ++ w) = JNull.
Proof. intros w Hw. unfold post_value. rewrite strip_core by (exact Hw || reflexivity). vm_compute. reflexivity. Qed.

Lemma quoted_shape : forall q c, String q (c ++ str1 q) = String q c ++ str1 q.
Proof. reflexivity. Qed.

Lemma count_quoted : forall q c, Nat.leb 2 (count_char q (String q (c ++ str1 q))) = true.
Proof.
  intros q c. assert (E : count_char q (String q (c ++ str1 q)) = 2 + count_char q c).
  { cbn [count_char]. rewrite count_char_app. cbn [count_char str1]. rewrite Ascii.eqb_refl. lia. }
  rewrite E. reflexivity.
Qed.

Lemma rm_first_same : forall q s, rm_first q (String q s) = s.
Proof. intros q s. simpl. now rewrite Ascii.eqb_refl. Qed.

Lemma post_dq : forall c w, ok_val (VDq c) = true -> all_space w = true ->
  post_value (text (VDq c) ++ w) = JStr c.
Proof.
  intros c w H Hw. simpl in H.
  apply andb_true_iff in H as [H E2]. apply andb_true_iff in H as [H E1]. apply andb_true_iff in H as [H F].
  apply andb_true_iff in H as [N C].
  apply negb_true_iff in E2. apply negb_true_iff in E1. apply negb_true_iff in F.
  unfold post_value, text.
  rewrite strip_core; [| reflexivity | rewrite quoted_shape, ends_space_snoc; reflexivity | exact Hw].
  unfold post_stripped.
  assert (U : unquote (String ch_dq (c ++ str1 ch_dq)) = c).
  { unfold unquote. rewrite rm_first_same, (rm_last_dollar_snoc ch_dq c N).
    rewrite (rm_first_other ch_sq c F). now apply rm_last_dollar_keep. }
  rewrite U. unfold quotes_in. rewrite count_quoted. simpl orb.
  destruct c as [|a c']; [vm_compute; reflexivity|].
  change (String.eqb (String a c') "") with false. simpl negb at 1. rewrite C. reflexivity.
Qed.

Lemma post_sq : forall c w, ok_val (VSq c) = true -> all_space w = true ->
  post_value (text (VSq c) ++ w) = JStr c.
Proof.
  intros c w H Hw. simpl in H. apply andb_true_iff in H as [N C].
  unfold post_value, text.
  rewrite strip_core; [| reflexivity | rewrite quoted_shape, ends_space_snoc; reflexivity | exact Hw].
  unfold post_stripped.
  assert (U : unquote (String ch_sq (c ++ str1 ch_sq)) = c).
  { unfold unquote. rewrite (rm_first_other ch_dq) by reflexivity.
    rewrite quoted_shape, (rm_last_dollar_snoc_other ch_dq (String ch_sq c) ch_sq) by reflexivity.
    rewrite <- quoted_shape, rm_first_same. now apply rm_last_dollar_snoc. }
  rewrite U. unfold quotes_in. rewrite (count_quoted ch_sq c), orb_true_r.
  destruct c as [|a c']; [vm_compute; reflexivity|].
  change (String.eqb (String a c') "") with false. simpl negb at 1. rewrite C. reflexivity.
Qed.

Lemma delim_shape : forall o1 o2 b c1 c2,
  String o1 (String o2 (b ++ String c1 (str1 c2))) = String o1 (String o2 (b ++ str1 c1)) ++ str1 c2.
Proof. intros. simpl. now rewrite app_assoc_s. Qed.

Lemma unquote_delim : forall o1 a x,
  Ascii.eqb o1 ch_dq = false -> Ascii.eqb o1 ch_sq = false ->
  Ascii.eqb x ch_dq = false -> Ascii.eqb x ch_sq = false -> Ascii.eqb x ch_nl = false ->
  unquote (String o1 a ++ str1 x) = String o1 a ++ str1 x.
Proof.
  intros o1 a x H1 H2 H3 H4 H5. unfold unquote.
  rewrite (rm_first_other ch_dq) by (simpl; exact H1).
  rewrite (rm_last_dollar_snoc_other ch_dq _ x H3 H5).
  rewrite (rm_first_other ch_sq) by (simpl; exact H2).
  now rewrite (rm_last_dollar_snoc_other ch_sq _ x H4 H5).
Qed.

Lemma loads_lt : forall s, json_loads (String "<" s) = None.
Proof.
  intros s. unfold json_loads. destruct (fuel_shape (String.length (String "<" s))) as [f ->]. reflexivity.
Qed.

Lemma loads_curly2 : forall s, json_loads (String "{" (String "{" s)) = None.
Proof.
  intros s. unfold json_loads. destruct (fuel_shape (String.length (String "{" (String "{" s)))) as [f ->].
  reflexivity.
Qed.

Lemma post_yaql : forall b w, all_space w = true ->
  post_value (text (VYaql b) ++ w) = denote (VYaql b).
Proof.
  intros b w Hw. unfold post_value, text, denote. change "%>" with (String "%" (str1 ">")).
  rewrite delim_shape.
  rewrite strip_core; [| reflexivity | rewrite ends_space_snoc; reflexivity | exact Hw].
  unfold post_stripped. rewrite unquote_delim by reflexivity.
  rewrite <- delim_shape.
  change (curly (String "<" ?x)) with false. simpl negb.
  destruct (quotes_in _); [reflexivity|].
  unfold load_or_str. simpl lower. change (String.eqb (String (lower_char "<") ?x) ?y) with false.
  simpl orb. cbv iota. now rewrite loads_lt.
Qed.

Lemma post_jinja : forall b w, all_space w = true ->
  post_value (text (VJinja b) ++ w) = denote (VJinja b).
Proof.
  intros b w Hw. unfold post_value, text, denote. change "}}" with (String "}" (str1 "}")).
  rewrite delim_shape.
  rewrite strip_core; [| reflexivity | rewrite ends_space_snoc; reflexivity | exact Hw].
  unfold post_stripped. rewrite unquote_delim by reflexivity.
  assert (C : curly (String "{" (String "{" (b ++ str1 "}")) ++ str1 "}") = true).
  { unfold curly. rewrite last_is_snoc. reflexivity. }
  rewrite C. rewrite andb_false_r.
  rewrite <- delim_shape.
  unfold load_or_str. simpl lower. change (String.eqb (String (lower_char "{") ?x) ?y) with false.
  simpl orb. cbv iota. now rewrite loads_curly2.
Qed.

Lemma value_post : forall v w, ok_val v = true -> all_space w = true -> post_value (text v ++ w) = denote v.
Proof.
  intros v w Hv Hw. destruct v.
  - simpl in Hv. now apply post_int.
  - simpl in Hv. apply andb_true_iff in Hv as [A B]. now apply post_dec.
  - simpl in Hv. apply String.eqb_eq in Hv. destruct b; [now apply post_true | now apply post_false].
  - now apply post_null.
  - now apply post_dq.
  - now apply post_sq.
  - now apply post_yaql.
  - now apply post_jinja.
Qed.

(* ------------------------------------------------------------------ the round trip *)

Lemma starts_sep_app : forall sep rest, sep_ok sep = true ->
  (String.eqb sep "" = false \/ rest = "") -> starts_sep (sep ++ rest) = true.
Proof.
  intros sep rest H [N | ->].
  - destruct sep; [discriminate N|]. simpl in *. apply andb_true_iff in H as [H _]. exact H.
  - rewrite app_nil_r_s. destruct sep; [reflexivity|]. simpl in *. apply andb_true_iff in H as [H _]. exact H.
Qed.

Lemma findall_step : forall k v sep rest,
  word_key k = true -> ok_val v = true -> sep_ok sep = true ->
  (String.eqb sep "" = false \/ rest = "") ->
  exists m, findall (k ++ String "=" (text v ++ sep ++ rest)) = (k, m) :: findall rest
            /\ post_value m = denote v.
Proof.
  intros k v sep rest Hk Hv Hs Hne.
  unfold word_key in Hk. apply andb_true_iff in Hk as [K1 K2]. apply negb_true_iff in K1.
  destruct (value_match v (sep ++ rest) Hv (starts_sep_app sep rest Hs Hne)) as [w [r' [M [E W]]]].
  exists (text v ++ w). split; [|now apply value_post].
  unfold findall. rewrite (scan_key k "" _ K2). simpl append at 1.
  rewrite (scan_eq k _ K1), M. f_equal.
  rewrite E, <- app_assoc_s, scan_skip.
  rewrite <- (scan_inert sep rest (seps_inert sep Hs)), E.
  now rewrite (scan_inert w r' (spaces_inert w W)).
Qed.

Theorem inline_roundtrip : forall l : list entry,
  forallb entry_ok l = true -> seps_ok l = true ->
  parse_inline_params (render l) = denote_all l.
Proof.
  induction l as [|[[k v] sep] l IH]; intros Hok Hs; [reflexivity|].
  simpl in Hok. apply andb_true_iff in Hok as [H1 H2].
  apply andb_true_iff in H1 as [H1 S]. apply andb_true_iff in H1 as [K V].
  assert (Hne : String.eqb sep "" = false \/ render l = "").
  { simpl in Hs. destruct l; [now right | left]. apply andb_true_iff in Hs as [A _]. now apply negb_true_iff in A. }
  assert (Hs' : seps_ok l = true).
  { simpl in Hs. apply andb_true_iff in Hs as [_ B]. exact B. }
  destruct (findall_step k v sep (render l) K V S Hne) as [m [F P]].
  unfold parse_inline_params in *. simpl render. rewrite F. simpl map. rewrite P, (IH H2 Hs'). reflexivity.
Qed.


(* ---------------------------------------------------------------- integers as Z *)

Lemma uint_string_digits : forall u, all_chars is_digit (NilEmpty.string_of_uint u) = true.
Proof. induction u; simpl; auto. Qed.

Lemma pos_uint_normal : forall p, Decimal.nzhead (Pos.to_uint p) = Pos.to_uint p.
Proof.
  intros p. pose proof (DecimalPos.Unsigned.to_of (Pos.to_uint p)) as H.
  rewrite DecimalPos.Unsigned.of_to in H. simpl in H.
  destruct (Decimal.nzhead (Pos.to_uint p)) eqn:E;
    try (rewrite (DecimalFacts.unorm_nzhead (Pos.to_uint p)) in H by (rewrite E; discriminate); now rewrite E in H).
  unfold Decimal.unorm in H. rewrite E in H. exfalso. exact (DecimalPos.Unsigned.to_uint_nonzero p H).
Qed.

Lemma pos_string_canon : forall p, canon_digits (NilZero.string_of_uint (Pos.to_uint p)) = true.
Proof.
  intros p. pose proof (pos_uint_normal p) as N. pose proof (DecimalPos.Unsigned.to_uint_nonnil p) as NN.
  pose proof (uint_string_digits (Pos.to_uint p)) as D.
  unfold canon_digits.
  destruct (Pos.to_uint p) eqn:E; try congruence;
    try (exfalso; exact (DecimalFacts.nzhead_nonzero _ _ N));
    match goal with
    | |- context [NilZero.string_of_uint ?d] =>
        change (NilZero.string_of_uint d) with (NilEmpty.string_of_uint d); rewrite D; reflexivity
    end.
Qed.

Definition VZ (z : Z) : ival :=
  match Z.to_int z with
  | Decimal.Pos u => VInt false (NilZero.string_of_uint u)
  | Decimal.Neg u => VInt true (NilZero.string_of_uint u)
  end.

Lemma VZ_text : forall z, text (VZ z) = Z_to_string z.
Proof. intros z. unfold VZ, Z_to_string. destruct (Z.to_int z); reflexivity. Qed.

Lemma VZ_ok : forall z, ok_val (VZ z) = true.
Proof.
  intros z. unfold VZ. destruct z; simpl; [reflexivity | apply pos_string_canon | apply pos_string_canon].
Qed.

Lemma VZ_denote : forall z, denote (VZ z) = JInt z.
Proof.
  intros z. pose proof (VZ_text z) as T. unfold VZ in *.
  assert (E : z_of_numeral (Z_to_string z) = z).
  { unfold z_of_numeral, Z_to_string. rewrite NilZero.isi.
    - apply DecimalZ.of_to.
    - destruct z; simpl; try discriminate; intro H; injection H as H;
        exact (DecimalPos.Unsigned.to_uint_nonnil _ H).
    - destruct z; simpl; try discriminate; intro H; injection H as H;
        exact (DecimalPos.Unsigned.to_uint_nonnil _ H). }
  destruct (Z.to_int z); simpl in *; now rewrite T, E.
Qed.


Lemma VZ_spec : forall z : Z, ok_val (VZ z) = true /\ text (VZ z) = Z_to_string z /\ denote (VZ z) = JInt z.
Proof. intros z. split; [apply VZ_ok | split; [apply VZ_text | apply VZ_denote]]. Qed.

Local Arguments Ascii.eqb : simpl never.

(* -------------------------------------------------------------------------- do *)

Definition name_ok (n : string) : bool :=
  no_char "," n && negb (starts_space n) && negb (ends_space n).

Lemma split_on_nochar : forall q x, no_char q x = true -> split_on q x = [x].
Proof.
  induction x; simpl; intros H; [reflexivity|].
  apply andb_true_iff in H as [H1 H2]. apply negb_true_iff in H1. now rewrite H1, (IHx H2).
Qed.

Lemma split_on_app : forall q x r, no_char q x = true -> split_on q (x ++ String q r) = x :: split_on q r.
Proof.
  induction x; simpl; intros r H.
  - now rewrite Ascii.eqb_refl.
  - apply andb_true_iff in H as [H1 H2]. apply negb_true_iff in H1. now rewrite H1, (IHx r H2).
Qed.

Lemma spaces_no_comma : forall w, all_space w = true -> no_char "," w = true.
Proof.
  intros w. apply all_chars_impl. intros c H. now rewrite (space_not_comma c H).
Qed.

Lemma strip_padded : forall l n r, all_space l = true -> all_space r = true ->
  starts_space n = false -> ends_space n = false -> strip (l ++ n ++ r) = n.
Proof.
  intros l n r Hl Hr H1 H2. unfold strip. rewrite (lstrip_app_spaces l _ Hl).
  fold (strip (n ++ r)). now apply strip_core.
Qed.

Definition padded := (string * string * string)%type.    (* blanks, name, blanks *)
Definition pad (p : padded) : string := let '(l, n, r) := p in l ++ n ++ r.
Definition pad_name (p : padded) : string := let '(_, n, _) := p in n.
Definition pad_ok (p : padded) : bool := let '(l, n, r) := p in all_space l && all_space r && name_ok n.

Lemma pad_no_comma : forall p, pad_ok p = true -> no_char "," (pad p) = true.
Proof.
  intros [[l n] r] H. simpl in *. apply andb_true_iff in H as [H N]. apply andb_true_iff in H as [L R].
  unfold name_ok in N. apply andb_true_iff in N as [N _]. apply andb_true_iff in N as [N _].
  unfold no_char in *. rewrite !all_chars_app. fold (no_char "," l). fold (no_char "," r).
  now rewrite (spaces_no_comma l L), (spaces_no_comma r R), N.
Qed.

Lemma pad_strip : forall p, pad_ok p = true -> strip (pad p) = pad_name p.
Proof.
  intros [[l n] r] H. simpl in *. apply andb_true_iff in H as [H N]. apply andb_true_iff in H as [L R].
  unfold name_ok in N. apply andb_true_iff in N as [N E]. apply andb_true_iff in N as [_ S].
  apply negb_true_iff in E. apply negb_true_iff in S. now apply strip_padded.
Qed.

Theorem do_split : forall ps : list padded, ps <> [] -> forallb pad_ok ps = true ->
  split_do (join "," (map pad ps)) = map pad_name ps.
Proof.
  unfold split_do. induction ps as [|p ps IH]; intros NE H; [congruence|].
  simpl in H. apply andb_true_iff in H as [Hp Hps].
  destruct ps as [|p2 ps'].
  - simpl. rewrite (split_on_nochar "," _ (pad_no_comma p Hp)). simpl. now rewrite (pad_strip p Hp).
  - change (join "," (map pad (p :: p2 :: ps'))) with (pad p ++ String "," (join "," (map pad (p2 :: ps')))).
    rewrite (split_on_app "," _ _ (pad_no_comma p Hp)).
    rewrite (map_cons strip), (map_cons pad_name p), (pad_strip p Hp). f_equal.
    apply IH; [discriminate | exact Hps].
Qed.

Definition comma_blank (names : list string) : list padded :=
  match names with
  | [] => []
  | n :: rest => ("", n, "") :: map (fun m => (" ", m, "")) rest
  end.

Lemma join_comma_blank : forall names, join ", " names = join "," (map pad (comma_blank names)).
Proof.
  destruct names as [|n rest]; [reflexivity|]. simpl comma_blank.
  revert n. induction rest as [|m rest IH]; intros n.
  - simpl. now rewrite app_nil_r_s.
  - change (join ", " (n :: m :: rest)) with (n ++ ", " ++ join ", " (m :: rest)).
    rewrite (IH m).
    change (map pad (("", n, "") :: map (fun m0 => (" ", m0, "")) (m :: rest)))
      with (pad ("", n, "") :: pad (" ", m, "") :: map pad (map (fun m0 => (" ", m0, "")) rest)).
    change (map pad (("", m, "") :: map (fun m0 => (" ", m0, "")) rest))
      with (pad ("", m, "") :: map pad (map (fun m0 => (" ", m0, "")) rest)).
    destruct rest as [|m2 rest'].
    + simpl. now rewrite !app_nil_r_s.
    + simpl. rewrite !app_nil_r_s. reflexivity.
Qed.

Theorem do_split_comma_blank : forall names, names <> [] -> forallb name_ok names = true ->
  split_do (join ", " names) = names.
Proof.
  intros names NE H. rewrite join_comma_blank, do_split.
  - destruct names as [|n rest]; [congruence|]. simpl. f_equal. rewrite map_map. simpl.
    clear. induction rest; simpl; [reflexivity | now rewrite IHrest].
  - destruct names; [congruence | discriminate].
  - destruct names as [|n rest]; [congruence|]. simpl in *. apply andb_true_iff in H as [A B].
    rewrite A. simpl. clear -B. induction rest; simpl in *; [reflexivity|].
    apply andb_true_iff in B as [B1 B2]. now rewrite B1, (IHrest B2).
Qed.

Lemma join_nonempty : forall sep n rest, n <> "" -> join sep (n :: rest) <> "".
Proof. intros sep n rest H. destruct rest; simpl; destruct n; congruence || discriminate. Qed.

Theorem do_forms_agree : forall names, names <> [] -> forallb name_ok names = true ->
  (forall n, In n names -> n <> "") ->
  norm_do (DoStr (join ", " names)) = norm_do (DoList names).
Proof.
  intros names NE H NZ. destruct names as [|n rest]; [congruence|].
  assert (J : join ", " (n :: rest) <> "") by (apply join_nonempty; apply NZ; now left).
  unfold norm_do. destruct (join ", " (n :: rest)) eqn:E; [congruence|]. rewrite <- E.
  now apply do_split_comma_blank.
Qed.

Theorem do_default : norm_do DoAbsent = ["continue"] /\ norm_do (DoStr "") = ["continue"]
  /\ norm_do (DoList []) = ["continue"] /\ norm_do (DoStr "continue") = ["continue"]
  /\ norm_do (DoList ["continue"]) = ["continue"].
Proof. vm_compute. auto. Qed.

(* ------------------------------------------------------------------------ with *)

Lemma find_sub_cons : forall p c s,
  find_sub p (String c s) =
  if prefixb p (String c s) then Some ("", drop (String.length p) (String c s))
  else match find_sub p s with Some (a, b) => Some (String c a, b) | None => None end.
Proof. reflexivity. Qed.

Lemma prefixb_ext : forall p s e, String.length p <= String.length s -> prefixb p (s ++ e) = prefixb p s.
Proof.
  induction p as [|x p IH]; simpl; intros s e H; [reflexivity|].
  destruct s as [|b s']; simpl in *; [lia|]. rewrite (IH s' e); [reflexivity | lia].
Qed.

Definition IN : string := " in ".

(* no occurrence of " in " starts inside K when K is followed by " in" *)
Definition clear_of_in (K : string) : bool :=
  match find_sub IN (K ++ " in") with None => true | Some _ => false end.

Lemma find_in_at : forall K E, clear_of_in K = true -> find_sub IN (K ++ IN ++ E) = Some (K, E).
Proof.
  unfold clear_of_in. induction K; intros E H.
  - reflexivity.
  - change (String a K ++ " in") with (String a (K ++ " in")) in H.
    rewrite find_sub_cons in H.
    destruct (prefixb IN (String a (K ++ " in"))) eqn:P; [discriminate H|].
    destruct (find_sub IN (K ++ " in")) as [[x y]|] eqn:F; [discriminate H|].
    change (String a K ++ IN ++ E) with (String a (K ++ IN ++ E)).
    rewrite find_sub_cons.
    assert (P' : prefixb IN (String a (K ++ IN ++ E)) = false).
    { replace (String a (K ++ IN ++ E)) with (String a (K ++ " in") ++ String " " E)
        by (simpl; rewrite app_assoc_s; reflexivity).
      rewrite prefixb_ext; [exact P|]. simpl. rewrite length_app_s. simpl. lia. }
    rewrite P', (IHK E); reflexivity.
Qed.

Theorem items_with_keys : forall K E, clear_of_in K = true ->
  parse_items (K ++ " in " ++ E) = (strip E, Some (split_on "," (remove_char " " K))).
Proof. intros K E H. unfold parse_items. fold IN. now rewrite (find_in_at K E H). Qed.

(* word keys joined by ", " *)
Definition key_ok (k : string) : bool := word_key k && negb (String.eqb k "in").

Lemma find_in_word : forall k t, all_chars is_word k = true -> find_sub IN t = None -> find_sub IN (k ++ t) = None.
Proof.
  induction k; intros t H F; [exact F|].
  simpl in H. apply andb_true_iff in H as [H1 H2].
  change (String a k ++ t) with (String a (k ++ t)). rewrite find_sub_cons.
  assert (P : prefixb IN (String a (k ++ t)) = false).
  { unfold IN. simpl. destruct (word_not_space a H1) as [_ [S _]].
    destruct (Ascii.eqb " " a) eqn:X; [|reflexivity]. apply Ascii.eqb_eq in X. subst a. discriminate S. }
  now rewrite P, (IHk t H2 F).
Qed.

Lemma prefix_in_word : forall k t, word_key k = true -> String.eqb k "in" = false ->
  match t with "" => false | String c _ => negb (is_word c) end = true ->
  prefixb "in " (k ++ t) = false.
Proof.
  intros k t Hk Hn Ht. unfold word_key in Hk. apply andb_true_iff in Hk as [K1 K2].
  destruct t as [|c t']; [discriminate Ht|]. apply negb_true_iff in Ht.
  assert (Cn : Ascii.eqb "n" c = false).
  { destruct (Ascii.eqb "n" c) eqn:X; [|reflexivity]. apply Ascii.eqb_eq in X. subst c. discriminate Ht. }
  destruct k as [|c1 k1]; [discriminate K1|].
  destruct k1 as [|c2 k2].
  - simpl. rewrite Cn. now rewrite andb_false_r.
  - destruct k2 as [|c3 k3].
    + simpl. destruct (Ascii.eqb "i" c1) eqn:X1; [|reflexivity]. destruct (Ascii.eqb "n" c2) eqn:X2; [|reflexivity].
      apply Ascii.eqb_eq in X1. apply Ascii.eqb_eq in X2. subst. discriminate Hn.
    + simpl in K2. apply andb_true_iff in K2 as [_ K2]. apply andb_true_iff in K2 as [_ K2].
      apply andb_true_iff in K2 as [W3 _]. destruct (word_not_space c3 W3) as [_ [S _]].
      simpl. assert (X : Ascii.eqb " " c3 = false).
      { destruct (Ascii.eqb " " c3) eqn:X; [|reflexivity]. apply Ascii.eqb_eq in X. subst c3. discriminate S. }
      rewrite X. now rewrite !andb_false_r.
Qed.

Lemma keys_clear : forall keys, keys <> [] -> forallb key_ok keys = true ->
  find_sub IN (join ", " keys ++ " in") = None /\ prefixb "in " (join ", " keys ++ " in") = false.
Proof.
  induction keys as [|k keys IH]; intros NE H; [congruence|].
  simpl in H. apply andb_true_iff in H as [Hk Hks]. unfold key_ok in Hk. apply andb_true_iff in Hk as [W N].
  apply negb_true_iff in N.
  assert (W' : all_chars is_word k = true) by (unfold word_key in W; apply andb_true_iff in W; tauto).
  destruct keys as [|k2 keys'].
  - simpl join. split.
    + apply find_in_word; [exact W' | reflexivity].
    + now apply prefix_in_word.
  - destruct (IH ltac:(discriminate) Hks) as [F P].
    change (join ", " (k :: k2 :: keys')) with (k ++ ", " ++ join ", " (k2 :: keys')).
    rewrite !app_assoc_s. split.
    + apply find_in_word; [exact W'|].
      change (", " ++ join ", " (k2 :: keys') ++ " in")
        with (String "," (String " " (join ", " (k2 :: keys') ++ " in"))).
      rewrite find_sub_cons. change (prefixb IN (String "," ?x)) with false. cbv iota.
      rewrite find_sub_cons.
      change (prefixb IN (String " " ?x)) with (prefixb "in " x). rewrite P, F. reflexivity.
    + now apply prefix_in_word.
Qed.

Lemma remove_blank_word : forall k, all_chars is_word k = true -> remove_char " " k = k.
Proof.
  induction k; simpl; intros H; [reflexivity|]. apply andb_true_iff in H as [H1 H2].
  destruct (word_not_space a H1) as [_ [S _]]. now rewrite S, (IHk H2).
Qed.

Lemma remove_char_app : forall q a b, remove_char q (a ++ b) = remove_char q a ++ remove_char q b.
Proof. induction a; simpl; intros b; [reflexivity|]. destruct (Ascii.eqb a q); simpl; now rewrite IHa. Qed.

Lemma word_no_comma : forall k, all_chars is_word k = true -> no_char "," k = true.
Proof.
  intros k. apply all_chars_impl. intros c H. destruct (word_not_space c H) as [_ [_ C]]. now rewrite C.
Qed.

Lemma keys_back : forall keys, keys <> [] -> forallb key_ok keys = true ->
  split_on "," (remove_char " " (join ", " keys)) = keys.
Proof.
  induction keys as [|k keys IH]; intros NE H; [congruence|].
  simpl in H. apply andb_true_iff in H as [Hk Hks]. unfold key_ok in Hk. apply andb_true_iff in Hk as [W _].
  assert (W' : all_chars is_word k = true) by (unfold word_key in W; apply andb_true_iff in W; tauto).
  destruct keys as [|k2 keys'].
  - simpl join. rewrite (remove_blank_word k W'). now apply split_on_nochar, word_no_comma.
  - change (join ", " (k :: k2 :: keys')) with (k ++ ", " ++ join ", " (k2 :: keys')).
    rewrite !remove_char_app, (remove_blank_word k W').
    change (remove_char " " ", ") with ",". simpl append at 2.
    rewrite (split_on_app "," k _ (word_no_comma k W')). f_equal. apply IH; [discriminate | exact Hks].
Qed.

Theorem items_keys_expr : forall keys E, keys <> [] -> forallb key_ok keys = true ->
  parse_items (join ", " keys ++ " in " ++ E) = (strip E, Some keys).
Proof.
  intros keys E NE H. rewrite items_with_keys.
  - now rewrite (keys_back keys NE H).
  - unfold clear_of_in. destruct (keys_clear keys NE H) as [F _]. now rewrite F.
Qed.

Theorem items_plain : forall E, find_sub " in " E = None -> parse_items E = (strip E, None).
Proof. intros E H. unfold parse_items. now rewrite H. Qed.

Theorem with_forms_agree : forall s, items_of_with (WithStr s) = items_of_with (WithMap s JNull).
Proof. reflexivity. Qed.


(* ----------------------------------------------------------------------- action *)

Lemma find_blank : forall name r, no_char " " name = true ->
  find_sub " " (name ++ String " " r) = Some (name, r).
Proof.
  induction name; intros r H; [reflexivity|].
  simpl in H. apply andb_true_iff in H as [H1 H2]. apply negb_true_iff in H1.
  change (String a name ++ String " " r) with (String a (name ++ String " " r)).
  rewrite find_sub_cons.
  assert (P : prefixb " " (String a (name ++ String " " r)) = false).
  { simpl. destruct (Ascii.eqb " " a) eqn:X; [|reflexivity]. apply Ascii.eqb_eq in X. subst a. discriminate H1. }
  now rewrite P, (IHname r H2).
Qed.

Lemma dset_nonempty : forall k v d, dset k v d <> [].
Proof. intros k v d. destruct d as [|[k' v'] d']; simpl; [discriminate|]. destruct (String.eqb k k'); discriminate. Qed.

Lemma fold_dset_nonempty : forall l d, d <> [] ->
  fold_left (fun (d : dict) '(k, v) => dset k v d) l d <> [].
Proof.
  induction l as [|[k v] l IH]; simpl; intros d H; [exact H|]. apply IH. apply dset_nonempty.
Qed.

Lemma dict_of_pairs_nonempty : forall l, l <> [] -> dict_of_pairs l <> [].
Proof.
  intros [|[k v] l] H; [congruence|]. unfold dict_of_pairs.
  change (fold_left (fun (d : dict) '(k0, v0) => dset k0 v0 d) ((k, v) :: l) [])
    with (fold_left (fun (d : dict) '(k0, v0) => dset k0 v0 d) l (dset k v [])).
  apply fold_dset_nonempty, dset_nonempty.
Qed.

Theorem action_split : forall name (l : list entry),
  no_char " " name = true -> no_char "=" name = true ->
  l <> [] -> forallb entry_ok l = true -> seps_ok l = true ->
  split_action_res (name ++ String " " (render l)) = ActInline name (dict_of_pairs (denote_all l)).
Proof.
  intros name l N1 N2 NE Hok Hs.
  assert (P : parse_inline_dict (name ++ String " " (render l)) = dict_of_pairs (denote_all l)).
  { unfold parse_inline_dict, parse_inline_params, findall. rewrite (scan_prefix name "" _ N2).
    pose proof (inline_roundtrip l Hok Hs) as R. unfold parse_inline_params, findall in R. now rewrite R. }
  unfold split_action_res. rewrite P, (find_blank name _ N1).
  assert (D : dict_of_pairs (denote_all l) <> []).
  { apply dict_of_pairs_nonempty. destruct l; [congruence | discriminate]. }
  destruct (dict_of_pairs (denote_all l)); [congruence | reflexivity].
Qed.

Theorem action_plain : forall s, parse_inline_dict s = [] -> split_action_res s = ActPlain s.
Proof. intros s H. unfold split_action_res. now rewrite H. Qed.

(* ------------------------------------------------- where the full statements fail *)

Theorem dq_apostrophe_refuted : exists c,
  no_char ch_dq c = true /\ curly c = false /\
  parse_inline_params (render [("x", VDq c, "")]) <> [("x", JStr c)].
Proof. exists "'a'". repeat split; vm_compute; discriminate. Qed.

Theorem curly_string_refuted : exists c,
  no_char ch_dq c = true /\ first_is ch_sq c = false /\ ends_with (str1 ch_sq) c = false /\
  parse_inline_params (render [("x", VDq c, "")]) <> [("x", JStr c)].
Proof. exists "{}". repeat split; vm_compute; discriminate. Qed.

Theorem two_lists_refuted :
  parse_inline_params "x=[1]" = [("x", JList [JInt 1])] /\
  parse_inline_params "y=[2]" = [("y", JList [JInt 2])] /\
  parse_inline_params "x=[1] y=[2]" = [("x", JStr "[1] y=[2]")].
Proof. vm_compute. auto. Qed.

Theorem leading_dot_refuted : exists fp, digits1 fp = true /\
  parse_inline_params ("x=." ++ fp) = [("x", JStr ("." ++ fp))].
Proof. exists "5". vm_compute. auto. Qed.

Theorem key_in_refuted : exists keys E,
  forallb (fun k => word_key k) keys = true /\
  parse_items (join ", " keys ++ " in " ++ E) <> (strip E, Some keys).
Proof. exists ["x"; "in"], "<% ctx().xs %>". split; vm_compute; [reflexivity | discriminate]. Qed.

Theorem expr_in_refuted : exists E,
  m_value E = Some (E, "") /\ parse_items E <> (strip E, None).
Proof. exists "<% ctx().xs.where($ in list(1, 2)) %>". split; vm_compute; [reflexivity | discriminate]. Qed.

(* --------------------------------------------------------------- non-vacuity *)

Definition sample_entries : list entry :=
  [ ("msg", VDq "hello, k=v; it's <b> in x", ", ");
    ("n", VZ (-42), "; ");
    ("f", VDec false "3" "140", " ");
    ("flag", VBool true "TrUe", " ,; ");
    ("z", VNull, "  ");
    ("s", VSq "say ""hi"" [1, 2]", ",");
    ("e", VYaql " ctx().x + 1 ", " ");
    ("j", VJinja " ctx().y ", "") ].

Example sample_roundtrip :
  forallb entry_ok sample_entries = true /\ seps_ok sample_entries = true /\
  render sample_entries =
    "msg=""hello, k=v; it's <b> in x"", n=-42; f=3.140 flag=TrUe ,; z=null  s='say ""hi"" [1, 2]',e=<% ctx().x + 1 %> j={{ ctx().y }}" /\
  parse_inline_params (render sample_entries) =
    [("msg", JStr "hello, k=v; it's <b> in x"); ("n", JInt (-42)); ("f", JFloat "3.140"); ("flag", JBool true);
     ("z", JNull); ("s", JStr "say ""hi"" [1, 2]"); ("e", JStr "<% ctx().x + 1 %>"); ("j", JStr "{{ ctx().y }}")].
Proof. vm_compute. auto. Qed.

Example sample_do :
  forallb pad_ok [("", "t1", " "); (" ", "task two", ""); ("  ", "continue", "  ")] = true /\
  split_do "t1 , task two,  continue  " = ["t1"; "task two"; "continue"] /\
  forallb name_ok ["a"; "b c"; "noop"] = true /\ split_do "a, b c, noop" = ["a"; "b c"; "noop"].
Proof. vm_compute. auto. Qed.

Example sample_with :
  forallb key_ok ["k1"; "k2"; "inner"] = true /\
  parse_items "k1, k2, inner in <% ctx().xs.where($ in ctx().ys) %> " =
    ("<% ctx().xs.where($ in ctx().ys) %>", Some ["k1"; "k2"; "inner"]) /\
  items_of_with (WithStr "a, b in <% ctx().xs %>")
    = {| it_expr := "<% ctx().xs %>"; it_keys := Some ["a"; "b"]; it_concurrency := JNull |}.
Proof. vm_compute. auto. Qed.

Example sample_action :
  no_char " " "core.echo" = true /\ no_char "=" "core.echo" = true /\
  split_action ("core.echo" ++ String " " (render sample_entries)) =
    ("core.echo", dict_of_pairs (denote_all sample_entries)) /\
  split_action "core.local cmd=""ls"" cmd='pwd' n=1" = ("core.local", [("cmd", JStr "pwd"); ("n", JInt 1)]).
Proof. vm_compute. auto. Qed.
