(* CancelProofs.v -- C10, the two clauses that were only tested.
   (a) a canceling / canceled workflow is not turned into failed by the engine's own bookkeeping: in the canceling
       row of the workflow table the only entry that leads to failed is the failure request "workflow_failed";
       every task event and every other workflow request keeps the workflow canceling or canceled, without running
       the unreachable-join check (no join is reported).  Over a whole API call: the workflow is failed afterwards
       only if the call is an explicit failure request or an exception was logged by a handler that then asked for
       the failure (C11b).
   (b) the output: what render_workflow_output evaluates the output expressions against is a pure function of the
       records flagged terminal; a status request never flags a record, so a workflow completed by a cancel request
       with nothing in flight renders from the empty context (finding D5a). *)
From Coq Require Import String List Bool ZArith Arith Lia.
From Orq Require Import GenStatuses GenEvents GenTables GenSpecMeta Base State Machines Codec Conductor Decode Api.
From Orq Require Import F_tables Hoare ValuePost StatusReach C04Proofs C05Proofs C02C03Proofs InertProofs RetryProofs RecordedProofs.
Import ListNotations.
Open Scope string_scope.
Open Scope monad_scope.

(* ------------------------------------------------------------------ table facts *)

Definition cancel_class (c : cstate) : Prop := wstatus (c_ws c) = S_CANCELING \/ wstatus (c_ws c) = S_CANCELED.

(* from canceling, failed is reached by the failure request only; canceled has no way out *)
Lemma F_canceling_to_failed : forall e, tbl_step wf_table S_CANCELING e = Some S_FAILED -> e = "workflow_failed".
Proof.
  intros e H.
  assert (T : table_forall wf_table (fun s e t => negb (status_eqb s S_CANCELING) || negb (status_eqb t S_FAILED)
                                                  || String.eqb e "workflow_failed") = true) by (vm_compute; reflexivity).
  pose proof (table_forall_step _ _ T _ _ _ H) as P; cbv beta in P. simpl in P. apply String.eqb_eq; exact P.
Qed.

Lemma F_cancel_class_step : forall s e t, s = S_CANCELING \/ s = S_CANCELED -> tbl_step wf_table s e = Some t ->
  t = S_CANCELING \/ t = S_CANCELED \/ (t = S_FAILED /\ e = "workflow_failed").
Proof.
  intros s e t [-> | ->] H.
  - destruct (F_wf_cancel_closed S_CANCELING e t (or_introl eq_refl) H) as [<- | [<- | [<- | []]]]; auto.
    right; right; split; [reflexivity|apply F_canceling_to_failed; exact H].
  - rewrite F_wf_canceled_final in H. discriminate.
Qed.

Lemma task_event_not_failure_request : forall n, string_in n TASK_EXECUTION_EVENTS = true -> n <> "workflow_failed".
Proof.
  intros n H E. subst n. vm_compute in H. discriminate.
Qed.

(* ------------------------------------------------------------------ (a) the machine steps *)

(* a task event on a canceling / canceled workflow: canceling or canceled afterwards, and no join is reported
   (the unreachable-join check is not even run: it runs for completed statuses other than canceled) *)
Lemma task_event_keeps_cancel : forall t route st c c' unr, cancel_class c ->
  wf_task_event_M t route st c = (c', Val unr) -> cancel_class c' /\ unr = [].
Proof.
  intros t route st c c' unr Hc H. unfold wf_task_event_M in H.
  destruct (wf_process_task_event (c_graph c) (c_ws c) t route st) as [[new u]|e] eqn:E; inversion H; subst c' unr; clear H.
  unfold wf_process_task_event in E.
  destruct (negb (string_in (wf_task_event_name (c_graph c) (c_ws c) t route st) TASK_EXECUTION_EVENTS)) eqn:Ev; [discriminate|].
  apply negb_false_iff in Ev.
  destruct (tbl_row wf_table (wstatus (c_ws c))) as [row|] eqn:Er; [|discriminate].
  destruct (aget String.eqb (wf_task_event_name (c_graph c) (c_ws c) t route st) row) as [n|] eqn:Ea.
  - assert (St : tbl_step wf_table (wstatus (c_ws c)) (wf_task_event_name (c_graph c) (c_ws c) t route st) = Some n)
      by (unfold tbl_step; rewrite Er; exact Ea).
    destruct (F_cancel_class_step _ _ _ Hc St) as [Hn|[Hn|[_ Hn]]]; [| |exfalso; exact (task_event_not_failure_request _ Ev Hn)]; subst n;
      simpl in E; inversion E; subst; split; try reflexivity; unfold cancel_class; simpl; auto.
  - inversion E; subst. split; [|reflexivity]. unfold cancel_class in *; simpl. exact Hc.
Qed.

(* a workflow request on a canceling / canceled workflow: failed afterwards only if it is the failure request; and
   no join is reported *)
Lemma workflow_event_keeps_cancel : forall st c c' unr, cancel_class c ->
  wf_workflow_event_M st c = (c', Val unr) ->
  unr = [] /\ (cancel_class c' \/ (wstatus (c_ws c') = S_FAILED /\ st = S_FAILED)).
Proof.
  intros st c c' unr Hc H. unfold wf_workflow_event_M in H.
  destruct (wf_process_workflow_event (c_graph c) (c_ws c) st) as [[new u]|e] eqn:E; inversion H; subst c' unr; clear H.
  unfold wf_process_workflow_event in E.
  destruct (negb (string_in (wf_workflow_event_name (c_ws c) st) WORKFLOW_EXECUTION_EVENTS)); [discriminate|].
  destruct (tbl_row wf_table (wstatus (c_ws c))) as [row|] eqn:Er; [|discriminate].
  destruct (aget String.eqb (wf_workflow_event_name (c_ws c) st) row) as [n|] eqn:Ea.
  - assert (St : tbl_step wf_table (wstatus (c_ws c)) (wf_workflow_event_name (c_ws c) st) = Some n)
      by (unfold tbl_step; rewrite Er; exact Ea).
    assert (Hns : status_eqb n S_SUCCEEDED = false).
    { destruct (F_cancel_class_step _ _ _ Hc St) as [->|[->|[-> _]]]; reflexivity. }
    rewrite Hns, andb_false_r in E. inversion E; subst new u. split; [reflexivity|]. simpl.
    destruct (F_cancel_class_step _ _ _ Hc St) as [->|[->|[-> Hn]]]; [left; left; reflexivity|left; right; reflexivity|right].
    split; [reflexivity|].
    (* the name "workflow_failed" is built from the status failed only *)
    unfold wf_workflow_event_name in Hn. destruct st; revert Hn;
      repeat match goal with |- context [if ?b then _ else _] => destruct b end; cbn; intro Hn; try discriminate Hn; reflexivity.
  - inversion E; subst. split; [reflexivity|]. left. unfold cancel_class in *; simpl. exact Hc.
Qed.

(* ------------------------------------------------------------------ (a) whole API calls *)

(* an exception was logged by a handler (the entry may have been in the log already: equal entries are dropped) *)
Definition logged (c : cstate) : Prop := exists e t r tr, recorded c (entry_of e t r tr).

Definition Rcn (c c' : cstate) : Prop :=
  Rst c c' /\ (exists l, c_errors c' = app (c_errors c) l) /\
  (cancel_class c -> wstatus (c_ws c') = S_FAILED -> logged c').

Lemma Rcn_refl : forall c, Rcn c c.
Proof.
  intro c. split; [apply Rst_refl|]. split; [exists []; rewrite app_nil_r; reflexivity|].
  intros [H|H] F; rewrite H in F; discriminate.
Qed.

Lemma logged_prefix : forall c c' l, c_errors c' = app (c_errors c) l -> logged c -> logged c'.
Proof.
  intros c c' l E [e [t [r [tr H]]]]. exists e, t, r, tr. unfold recorded in *. rewrite E, existsb_app, H. reflexivity.
Qed.

Lemma Rcn_trans : forall a b c, Rcn a b -> Rcn b c -> Rcn a c.
Proof.
  intros a b c [R1 [[l1 E1] S1]] [R2 [[l2 E2] S2]]. split; [eapply Rst_trans; eassumption|].
  split; [exists (app l1 l2); rewrite E2, E1, app_assoc; reflexivity|]. intros Ha Hf.
  assert (Hb : In (wstatus (c_ws b)) [S_CANCELING; S_CANCELED; S_FAILED]).
  { eapply reach_cancel_closed; [|exact R1]. destruct Ha as [Ha|Ha]; rewrite Ha; simpl; auto. }
  destruct Hb as [Hb|[Hb|[Hb|[]]]].
  - apply S2; [left; symmetry; exact Hb|exact Hf].
  - apply S2; [right; symmetry; exact Hb|exact Hf].
  - eapply logged_prefix; [exact E2|]. apply S1; [exact Ha|symmetry; exact Hb].
Qed.

(* a step that does not touch status nor log *)
Lemma Rcn_same : forall c c', wstatus (c_ws c') = wstatus (c_ws c) -> c_errors c' = c_errors c -> Rcn c c'.
Proof.
  intros c c' Hs He. split; [unfold Rst; rewrite Hs; apply wr_refl|]. split; [exists []; rewrite app_nil_r; exact He|].
  intros [H|H] F; rewrite Hs, H in F; discriminate.
Qed.

(* a step that only appends to the log *)
Lemma Rcn_logs : forall c c' l, c_ws c' = c_ws c -> c_errors c' = app (c_errors c) l -> Rcn c c'.
Proof.
  intros c c' l Hw He. split; [unfold Rst; rewrite Hw; apply wr_refl|]. split; [exists l; exact He|].
  intros [H|H] F; rewrite Hw, H in F; discriminate.
Qed.

(* the handler unit, for this relation: the exception is in the log when the request is made *)
Lemma unit_cn : forall A e t r tr (k : unit -> M A), (forall u, preserves Rcn (k u)) ->
  preserves Rcn (log_error e t r tr ;;; (u <- request_status_core S_FAILED ;; k u)).
Proof.
  intros A e t r tr k Hk c c' res H. destruct (log_error_spec e t r tr c) as [c1 [H1 [W1 [R1 E1]]]].
  unfold bind at 1 in H. rewrite H1 in H.
  assert (Pre : exists l, c_errors c1 = app (c_errors c) l)
    by (destruct E1 as [E1|E1]; [exists []; rewrite app_nil_r; exact E1|eexists; exact E1]).
  assert (Step : forall c2 r2, request_status_core S_FAILED c1 = (c2, r2) -> Rcn c c2).
  { intros c2 r2 H2. destruct (pben_request_status_core _ _ _ _ H2) as [l2 [E2 _]]. destruct Pre as [l E].
    split; [unfold Rst; rewrite <- W1; eapply pres_request_status_core; exact H2|].
    split; [exists (app l l2); rewrite E2, E, app_assoc; reflexivity|].
    intros _ _. exists e, t, r, tr. unfold recorded in *. rewrite E2, existsb_app, R1. reflexivity. }
  apply bind_inv in H. destruct H as [[c2 [u [E2 H]]]|[x [E2 ->]]].
  - eapply Rcn_trans; [eapply Step; exact E2|eapply Hk; exact H].
  - eapply Step; exact E2.
Qed.

Lemma unit_cn_errs : forall A e0 es t r tr (k : unit -> M A), (forall u, preserves Rcn (k u)) ->
  preserves Rcn (log_errors (e0 :: es) t r tr ;;; (u <- request_status_core S_FAILED ;; k u)).
Proof.
  intros A e0 es t r tr k Hk c c' res H. destruct (logs_only_log_errors (e0 :: es) t r tr c) as [c1 [l [H1 [W1 E1]]]].
  pose proof (log_errors_records _ _ _ _ _ _ _ H1 e0 (or_introl eq_refl)) as R1.
  unfold bind at 1 in H. rewrite H1 in H.
  assert (Step : forall c2 r2, request_status_core S_FAILED c1 = (c2, r2) -> Rcn c c2).
  { intros c2 r2 H2. destruct (pben_request_status_core _ _ _ _ H2) as [l2 [E2 _]].
    split; [unfold Rst; rewrite <- W1; eapply pres_request_status_core; exact H2|].
    split; [exists (app l l2); rewrite E2, E1, app_assoc; reflexivity|].
    intros _ _. exists e0, t, r, tr. unfold recorded in *. rewrite E2, existsb_app, R1. reflexivity. }
  apply bind_inv in H. destruct H as [[c2 [u [E2 H]]]|[x [E2 ->]]].
  - eapply Rcn_trans; [eapply Step; exact E2|eapply Hk; exact H].
  - eapply Step; exact E2.
Qed.

Lemma unit_cn_errs0 : forall e0 es t r tr,
  preserves Rcn (log_errors (e0 :: es) t r tr ;;; request_status_core S_FAILED).
Proof.
  intros e0 es t r tr c c' res H. destruct (logs_only_log_errors (e0 :: es) t r tr c) as [c1 [l [H1 [W1 E1]]]].
  pose proof (log_errors_records _ _ _ _ _ _ _ H1 e0 (or_introl eq_refl)) as R1.
  unfold bind at 1 in H. rewrite H1 in H. destruct (pben_request_status_core _ _ _ _ H) as [l2 [E2 _]].
  split; [unfold Rst; rewrite <- W1; eapply pres_request_status_core; exact H|].
  split; [exists (app l l2); rewrite E2, E1, app_assoc; reflexivity|].
  intros _ _. exists e0, t, r, tr. unfold recorded in *. rewrite E2, existsb_app, R1. reflexivity.
Qed.

Ltac cnw leaf :=
  lazymatch goal with
  | |- preserves Rcn (bind (log_error ?e ?t ?r ?tr) (fun _ => bind (request_status_core S_FAILED) ?k)) =>
      apply (unit_cn _ e t r tr k); intro; cnw leaf
  | |- preserves Rcn (bind (log_errors (?e0 :: ?es) ?t ?r ?tr) (fun _ => bind (request_status_core S_FAILED) ?k)) =>
      apply (unit_cn_errs _ e0 es t r tr k); intro; cnw leaf
  | |- preserves Rcn (bind (log_errors (?e0 :: ?es) ?t ?r ?tr) (fun _ => request_status_core S_FAILED)) =>
      apply (unit_cn_errs0 e0 es t r tr)
  | |- preserves _ (ret _) => apply (preserves_ret _ Rcn_refl)
  | |- preserves _ (raise _) => apply (preserves_raise _ Rcn_refl)
  | |- preserves _ get => apply (preserves_get _ Rcn_refl)
  | |- preserves _ getws => apply (preserves_getws _ Rcn_refl)
  | |- preserves _ (bind _ _) => apply (preserves_bind _ Rcn_trans); [ cnw leaf | intro; cnw leaf ]
  | |- preserves _ (try_catch _ _) => apply (preserves_try_catch _ Rcn_trans); [ cnw leaf | intro; cnw leaf ]
  | |- preserves _ (try_catch_expr _ _) => apply (preserves_try_catch_expr _ Rcn_trans); [ cnw leaf | intro; cnw leaf ]
  | |- preserves _ (mapM _ _) => apply (preserves_mapM _ Rcn_refl Rcn_trans); intro; cnw leaf
  | |- preserves _ (forM_ _ _) => apply (preserves_forM _ Rcn_refl Rcn_trans); intro; cnw leaf
  | |- preserves _ (lift_res _) => apply (preserves_lift_res _ Rcn_refl)
  | |- preserves _ (lift_eval _) => apply (preserves_lift_eval _ Rcn_refl)
  | |- preserves _ (evaluate _ _ _) => apply (state_pure_preserves _ Rcn_refl); apply evaluate_pure
  | |- preserves _ (match ?x with _ => _ end) => destruct x; cnw leaf
  | |- preserves _ ?m =>
      first [ solve [leaf]
            | let h := head_of m in progress (unfold h); cnw leaf
            | progress (cbv beta); cnw leaf
            | idtac ]
  end.

Lemma Rcn_modws : forall f, (forall w, wstatus (f w) = wstatus w) -> preserves Rcn (modws f).
Proof. intros f Hf. apply (preserves_modws Rcn); intro c. apply Rcn_same; [simpl; apply Hf|reflexivity]. Qed.

Create HintDb prescn.

Section CancelCalls.
Variable ev : string -> dict -> evalres.

Ltac leaf :=
  first
    [ apply Rcn_modws; intro; first [reflexivity | apply ws_update_rec_status | apply ws_remove_staged_status]
    | apply (preserves_modify Rcn); intro; apply Rcn_same; reflexivity
    | assumption
    | match goal with IH : forall _ _ _, preserves _ _ |- _ => apply IH end
    | match goal with IH : forall _ _, preserves _ _ |- _ => apply IH end
    | match goal with IH : forall _ _ _ _, preserves _ _ |- _ => apply IH end
    | eauto 3 with prescn ].
Ltac walk := cnw leaf.

Lemma pcn_wf_task_event : forall t route st, preserves Rcn (wf_task_event_M t route st).
Proof.
  intros t route st c c' r H. split; [eapply pres_wf_task_event; exact H|].
  assert (E : c_errors c' = c_errors c).
  { unfold wf_task_event_M in H. destruct (wf_process_task_event (c_graph c) (c_ws c) t route st) as [[n u]|e]; inversion H; reflexivity. }
  split; [exists []; rewrite app_nil_r; exact E|]. intros Hc Hf. exfalso.
  destruct r as [unr|x].
  - destruct (task_event_keeps_cancel _ _ _ _ _ _ Hc H) as [[Hk|Hk] _]; rewrite Hk in Hf; discriminate.
  - unfold wf_task_event_M in H. destruct (wf_process_task_event (c_graph c) (c_ws c) t route st) as [[n u]|e]; inversion H; subst.
    destruct Hc as [Hc|Hc]; rewrite Hc in Hf; discriminate.
Qed.
Hint Resolve pcn_wf_task_event : prescn.

Lemma pcn_wf_workflow_event : forall st, st <> S_FAILED -> preserves Rcn (wf_workflow_event_M st).
Proof.
  intros st Hst c c' r H. split; [eapply pres_wf_workflow_event; exact H|].
  assert (E : c_errors c' = c_errors c).
  { unfold wf_workflow_event_M in H. destruct (wf_process_workflow_event (c_graph c) (c_ws c) st) as [[n u]|e]; inversion H; reflexivity. }
  split; [exists []; rewrite app_nil_r; exact E|]. intros Hc Hf. exfalso.
  destruct r as [unr|x].
  - destruct (workflow_event_keeps_cancel _ _ _ _ Hc H) as [_ [[Hk|Hk]|[_ Hk]]]; [rewrite Hk in Hf; discriminate|rewrite Hk in Hf; discriminate|exact (Hst Hk)].
  - unfold wf_workflow_event_M in H. destruct (wf_process_workflow_event (c_graph c) (c_ws c) st) as [[n u]|e]; inversion H; subst.
    destruct Hc as [Hc|Hc]; rewrite Hc in Hf; discriminate.
Qed.

Lemma pcn_log_error : forall e t r tr, preserves Rcn (log_error e t r tr).
Proof.
  intros e t r tr c c' res H. destruct (log_error_spec e t r tr c) as [c1 [H1 [W1 [_ E1]]]]. rewrite H1 in H. inversion H; subst.
  destruct E1 as [E1|E1]; [apply (Rcn_logs c c' []); [exact W1|rewrite app_nil_r; exact E1]|eapply Rcn_logs; [exact W1|exact E1]].
Qed.
Hint Resolve pcn_log_error : prescn.
Lemma pcn_log_unreachable : forall l, preserves Rcn (log_unreachable l).
Proof. intros; unfold log_unreachable. apply (preserves_forM _ Rcn_refl Rcn_trans); intro; apply pcn_log_error. Qed.
Hint Resolve pcn_log_unreachable : prescn.
Lemma pcn_set_rec_status : forall i s, preserves Rcn (set_rec_status i s).
Proof. intros; unfold set_rec_status; walk. Qed.
Hint Resolve pcn_set_rec_status : prescn.
Lemma pcn_upd_rec : forall i f, preserves Rcn (upd_rec i f).
Proof. intros; unfold upd_rec; walk. Qed.
Hint Resolve pcn_upd_rec : prescn.
Lemma pcn_get_rec : forall i, preserves Rcn (get_rec i).
Proof. intros; unfold get_rec; walk. Qed.
Hint Resolve pcn_get_rec : prescn.

(* any status request but the failure request *)
Lemma pcn_request_status_core : forall st, st <> S_FAILED -> preserves Rcn (request_status_core st).
Proof. intros st Hst. pose proof (pcn_wf_workflow_event st Hst). unfold request_status_core; walk. Qed.

Lemma pcn_render_input : forall specs rt rolling errs, preserves Rcn (render_input ev specs rt rolling errs).
Proof. induction specs as [|[n d] specs IH]; intros; simpl; walk. Qed.
Hint Resolve pcn_render_input : prescn.
Lemma pcn_render_vars : forall specs rolling rendered errs, preserves Rcn (render_vars ev specs rolling rendered errs).
Proof. induction specs as [|[n d] specs IH]; intros; simpl; walk. Qed.
Hint Resolve pcn_render_vars : prescn.
Lemma pcn_ensure_ws : preserves Rcn (ensure_ws ev).
Proof. unfold ensure_ws; walk. Qed.
Hint Resolve pcn_ensure_ws : prescn.
Lemma pcn_get_task_context : forall idxs, preserves Rcn (get_task_context idxs).
Proof. intros; unfold get_task_context; walk. Qed.
Hint Resolve pcn_get_task_context : prescn.
Lemma pcn_setup_retry : forall t idxs, preserves Rcn (setup_retry ev t idxs).
Proof. intros; unfold setup_retry; walk. Qed.
Hint Resolve pcn_setup_retry : prescn.
Lemma pcn_add_task_state : forall t r i p, preserves Rcn (add_task_state ev t r i p).
Proof. intros; unfold add_task_state; walk. Qed.
Hint Resolve pcn_add_task_state : prescn.
Lemma pcn_evaluate_route : forall e r, preserves Rcn (evaluate_route e r).
Proof. intros; unfold evaluate_route; walk. Qed.
Hint Resolve pcn_evaluate_route : prescn.
Lemma pcn_evaluate_task_retry : forall r ctx, preserves Rcn (evaluate_task_retry ev r ctx).
Proof. intros; unfold evaluate_task_retry; walk. Qed.
Hint Resolve pcn_evaluate_task_retry : prescn.
Lemma pcn_finalize_context : forall ts e ctx, preserves Rcn (finalize_context ev ts e ctx).
Proof. intros; unfold finalize_context; walk. Qed.
Hint Resolve pcn_finalize_context : prescn.
Lemma pcn_process_transition : forall t route idx ts ctx e, preserves Rcn (process_transition ev t route idx ts ctx e).
Proof. intros; unfold process_transition; walk. Qed.
Hint Resolve pcn_process_transition : prescn.
Lemma pcn_logfail : forall t evt, preserves Rcn (uts_logfail t evt).
Proof.
  intros t evt c c' r H. unfold uts_logfail in H. destruct (status_eqb (ev_status evt) S_FAILED); [|inversion H; apply Rcn_refl].
  unfold log_entry_error, modify in H. inversion H; subst c' r. cbv zeta.
  destruct (existsb _ (c_errors c)); [apply Rcn_refl|]. eapply Rcn_logs; reflexivity.
Qed.

Lemma pcn_update_task_state_fuel : forall fuel t route evt, preserves Rcn (update_task_state_fuel ev fuel t route evt).
Proof.
  induction fuel as [|fuel IH]; intros t route evt; [apply (preserves_raise _ Rcn_refl)|].
  rewrite uts_unfold. unfold uts_body, uts_main, uts_machine, uts_sel1, uts_sel2, uts_need_staged, uts_unstage, uts_item,
    uts_setst, uts_retrying, uts_completion, uts_tail, uts_queue, uts_call.
  pose proof pcn_logfail. walk.
Qed.

End CancelCalls.

Section CancelApi.
Variable ev : string -> dict -> evalres.

Lemma flagged_logged : forall todo (rs : list (option offer * bool)) c,
  Forall2 (fun s v => snd v = true ->
             exists cx c0 e, next_task_for ev s cx = (c0, Exc e) /\
                             recorded c (entry_of e (Some (s_id s)) (Some (s_route s)) None)) todo rs ->
  existsb snd rs = true -> logged c.
Proof.
  intros todo rs c H; induction H as [|s v todo rs Hv _ IH]; simpl; [discriminate|].
  intro Hx. apply orb_prop in Hx. destruct Hx as [Hx|Hx]; [|apply IH; exact Hx].
  destruct (Hv Hx) as [_ [_ [e [_ R]]]]. exists e, (Some (s_id s)), (Some (s_route s)), None. exact R.
Qed.

Lemma pcn_get_next_tasks : preserves Rcn (get_next_tasks ev).
Proof.
  intros c c' res H. unfold get_next_tasks in H.
  apply bind_inv in H. destruct H as [[c1 [u [E1 H]]]|[x [E1 ->]]]; [|eapply pcn_ensure_ws; exact E1].
  eapply Rcn_trans; [eapply pcn_ensure_ws; exact E1|]. clear E1 c. rename c1 into c.
  rewrite (bind_step _ _ _ _ _ _ _ (eq_refl : getws c = (c, Val (c_ws c)))) in H. cbv zeta in H.
  match type of H with (if ?b then _ else _) _ = _ => destruct b end; [inversion H; subst; apply Rcn_refl|].
  fold (gnt_elem ev) in H.
  match type of H with bind (mapM ?f ?todo) _ _ = _ => change f with (gnt_elem ev) in H; set (td := todo) in * end.
  apply bind_inv in H. destruct H as [[c1 [rs [E1 H]]]|[x [E1 ->]]].
  2: { destruct (gnt_loop_spec ev _ _ _ _ E1) as [rs [l [Hr _]]]. discriminate Hr. }
  destruct (gnt_loop_spec ev _ _ _ _ E1) as [rs' [l [Hr [W1 [El [Hn Hf]]]]]]. inversion Hr; subst rs'.
  assert (R1 : Rcn c c1).
  { split; [unfold Rst; rewrite W1; apply wr_refl|]. split; [exists l; exact El|].
    intros [Hc|Hc] F; rewrite W1, Hc in F; discriminate. }
  destruct (existsb snd rs) eqn:Ex; [|inversion H; subst; exact R1].
  pose proof (flagged_logged _ _ _ Hf Ex) as Lg.
  assert (Step : forall c2 r2, request_status_core S_FAILED c1 = (c2, r2) -> Rcn c1 c2).
  { intros c2 r2 H2. destruct (pben_request_status_core _ _ _ _ H2) as [l2 [E2 _]].
    split; [eapply pres_request_status_core; exact H2|]. split; [exists l2; exact E2|].
    intros _ _. eapply logged_prefix; [exact E2|exact Lg]. }
  eapply Rcn_trans; [exact R1|].
  apply bind_inv in H. destruct H as [[c2 [u2 [E2 H]]]|[x [E2 ->]]]; [inversion H; subst|]; eapply Step; exact E2.
Qed.

(* rendering the output never touches a canceling workflow and keeps a canceled one canceled *)
Lemma pcn_render_workflow_output : preserves Rcn (render_workflow_output ev).
Proof.
  unfold render_workflow_output. apply (preserves_bind _ Rcn_trans); [apply pcn_ensure_ws|intros _].
  intros c c' res H. destruct (render_output_core ev _ _ _ H) as [[R [l [E _]]] _].
  split; [exact R|]. split; [exists l; exact E|]. intros Hc Hf. exfalso. destruct Hc as [Hc|Hc].
  - rewrite (bind_step _ _ _ _ _ _ _ (eq_refl : get c = (c, Val c))) in H. cbv zeta in H. rewrite Hc in H.
    change (status_in S_CANCELING COMPLETED_STATUSES) with false in H. cbn [andb] in H. inversion H; subst. rewrite Hc in Hf; discriminate.
  - unfold Rst in R. rewrite Hc in R. apply reach_from_canceled in R. rewrite R in Hf. discriminate.
Qed.

Lemma pcn_persist : preserves Rcn (persist ev).
Proof.
  intros c c' r H. unfold persist in H. apply bind_inv in H. destruct H as [[c1 [u1 [E1 H]]]|[e [E1 ->]]]; [|eapply pcn_ensure_ws; exact E1].
  eapply Rcn_trans; [eapply pcn_ensure_ws; exact E1|]. rewrite dec_cstate_enc_total in H. inversion H; subst.
  apply Rcn_same; reflexivity.
Qed.

(* (a) the exact list: a canceling / canceled workflow is failed after an API call only if the call is the explicit
   failure request, or an exception logged by a handler (which then asked for the failure) is in the log *)
Theorem canceled_failed_only_by : forall op c c' r, is_rerun op = false -> cancel_class c ->
  api_exec ev op c = (c', r) -> wstatus (c_ws c') = S_FAILED ->
  op = OpRequest S_FAILED \/ logged c'.
Proof.
  intros op c c' r Hop Hc H Hf.
  assert (G : forall (m : M unit) k, preserves Rcn m -> (m ;;; ret k) c = (c', r) -> logged c').
  { intros m k Pm Hm. apply bind_inv in Hm. destruct Hm as [[c1 [u1 [E1 Hm]]]|[x [E1 _]]];
      [inversion Hm; subst|]; destruct (Pm _ _ _ E1) as [_ [_ S]]; apply S; assumption. }
  destruct op; try discriminate; cbn [api_exec] in H.
  - right. apply (G _ _ (pcn_ensure_ws ev) H).
  - destruct (status_eqb st S_FAILED) eqn:Es; [left; apply status_eqb_eq in Es; subst; reflexivity|right].
    refine (G _ _ _ H). unfold request_workflow_status. apply (preserves_bind _ Rcn_trans); [apply pcn_ensure_ws|intros _].
    apply pcn_request_status_core. intro E; subst; discriminate.
  - right. apply bind_inv in H. destruct H as [[c1 [l1 [E1 H]]]|[x [E1 _]]];
      [inversion H; subst|]; destruct (pcn_get_next_tasks _ _ _ E1) as [_ [_ S]]; apply S; assumption.
  - right. refine (G _ _ _ H). unfold update_task_state. apply pcn_update_task_state_fuel.
  - right. apply (G _ _ pcn_render_workflow_output H).
  - right. apply (G _ _ pcn_persist H).
Qed.

(* ... in particular, with no exception entry in the log, only the explicit request fails it *)
Corollary canceled_stays_unless_requested : forall op c c' r, is_rerun op = false -> cancel_class c ->
  api_exec ev op c = (c', r) -> ~ logged c' -> op <> OpRequest S_FAILED -> cancel_class c'.
Proof.
  intros op c c' r Hop Hc H Hl Hq.
  assert (R : Rst c c').
  { eapply (api_exec_reach ev op Hop); exact H. }
  assert (Hin : In (wstatus (c_ws c')) [S_CANCELING; S_CANCELED; S_FAILED]).
  { eapply reach_cancel_closed; [|exact R]. destruct Hc as [Hc|Hc]; rewrite Hc; simpl; auto. }
  destruct Hin as [H1|[H1|[H1|[]]]]; [left; symmetry; exact H1|right; symmetry; exact H1|].
  exfalso. destruct (canceled_failed_only_by op c c' r Hop Hc H (eq_sym H1)) as [E|E]; [exact (Hq E)|exact (Hl E)].
Qed.

End CancelApi.

(* ------------------------------------------------------------------ (b) what the output is rendered from *)

Fixpoint merge_term_pure (ctxs : list dict) (l : list (nat * trec)) (acc : dict) : result dict :=
  match l with
  | [] => Val acc
  | (_, r) :: l' =>
      match nat_remove_first 0 (r_in r) with
      | None => Exc (mkexn "ValueError" "list.remove(x): x not in list")
      | Some idxs => match get_task_context_from ctxs idxs [] with
                     | Val d => merge_term_pure ctxs l' (merge_dicts acc d)
                     | Exc e => Exc e
                     end
      end
  end.

(* the context of the records flagged terminal: the first one's inbound contexts merged in order, then each further
   one's (without the initial context) merged over it; EMPTY when no record is flagged *)
Definition terminal_ctx (w : wstate) : result dict :=
  match get_terminal_tasks w with
  | [] => Val []
  | (_, first) :: others =>
      match get_task_context_from (contexts w) (r_in first) [] with
      | Val c0 => merge_term_pure (contexts w) others c0
      | Exc e => Exc e
      end
  end.

Lemma merge_term_contexts_pure : forall l acc c, merge_term_contexts l acc c = (c, merge_term_pure (contexts (c_ws c)) l acc).
Proof.
  induction l as [|[i r] l IH]; intros acc c; [reflexivity|]. simpl.
  destruct (nat_remove_first 0 (r_in r)) as [idxs|]; [|reflexivity].
  unfold bind, get_task_context, getws, bind. destruct (get_task_context_from (contexts (c_ws c)) idxs []) as [d|e]; simpl; [apply IH|reflexivity].
Qed.

Theorem terminal_context_is : forall c, get_workflow_terminal_context c = (c, terminal_ctx (c_ws c)).
Proof.
  intro c. unfold get_workflow_terminal_context, terminal_ctx, bind, getws. cbv beta iota.
  destruct (get_terminal_tasks (c_ws c)) as [|[i first] others]; [reflexivity|].
  unfold get_task_context, bind, getws. destruct (get_task_context_from (contexts (c_ws c)) (r_in first) []) as [c0|e]; simpl;
    [apply merge_term_contexts_pure|reflexivity].
Qed.

(* status requests (and polls) never flag a record terminal: the flags are written by update_task_state only --
   when a completed task has no outgoing transition, when none of its transitions is satisfied, and on the task whose
   report completes the workflow *)
Definition Rtm (c c' : cstate) : Prop := map r_term (sequence (c_ws c')) = map r_term (sequence (c_ws c)).
Lemma Rtm_refl : forall c, Rtm c c.
Proof. intro; reflexivity. Qed.
Lemma Rtm_trans : forall a b c, Rtm a b -> Rtm b c -> Rtm a c.
Proof. unfold Rtm; intros; congruence. Qed.

Lemma map_term_set_nth : forall (l : list trec) i r x, nth_error l i = Some r -> r_term x = r_term r ->
  map r_term (list_set_nth i x l) = map r_term l.
Proof.
  induction l as [|a l IH]; intros [|i] r x H E; simpl in *; try discriminate.
  - inversion H; subst. rewrite E. reflexivity.
  - f_equal. eapply IH; eassumption.
Qed.

Lemma Rtm_set_status : forall c i s, Rtm c (set_ws c (ws_update_rec (c_ws c) i (fun r => r_set_status r s))).
Proof.
  intros c i s. unfold Rtm, ws_update_rec; simpl. destruct (nth_error (sequence (c_ws c)) i) as [r|] eqn:E; [|reflexivity].
  simpl. eapply map_term_set_nth; [exact E|reflexivity].
Qed.

Section Flags.
Variable ev : string -> dict -> evalres.

Lemma ptm_request_status_core : forall st, preserves Rtm (request_status_core st).
Proof.
  intro st. unfold request_status_core, set_rec_status, log_unreachable, log_error, log_entry_error.
  pw Rtm_refl Rtm_trans
     ltac:(first [ apply (preserves_modws Rtm); intro; apply Rtm_set_status
                 | apply (preserves_modify Rtm); intro; cbv zeta; try match goal with |- context [if ?b then _ else _] => destruct b end; reflexivity
                 | intros c0 c1 r0 H0; unfold wf_workflow_event_M in H0;
                   destruct (wf_process_workflow_event (c_graph c0) (c_ws c0) st) as [[? ?]|?]; inversion H0; subst; reflexivity ]).
Qed.

Theorem status_request_flags_nothing : forall st c c' r, c_init c = true ->
  request_workflow_status ev st c = (c', r) -> map r_term (sequence (c_ws c')) = map r_term (sequence (c_ws c)).
Proof.
  intros st c c' r Hi H. unfold request_workflow_status in H.
  rewrite (bind_step _ _ _ _ _ _ _ (ensure_ws_inited ev c Hi)) in H. eapply ptm_request_status_core; exact H.
Qed.

(* so: a workflow completed by a cancel request with no record flagged renders its output from the empty context *)
Corollary cancel_request_renders_from_nothing : forall st c c' r, c_init c = true ->
  get_terminal_tasks (c_ws c) = [] -> request_workflow_status ev st c = (c', r) -> terminal_ctx (c_ws c') = Val [].
Proof.
  intros st c c' r Hi Ht H. pose proof (status_request_flags_nothing st c c' r Hi H) as E.
  unfold terminal_ctx. assert (G : get_terminal_tasks (c_ws c') = []); [|rewrite G; reflexivity].
  unfold get_terminal_tasks in *.
  assert (F : forall (l l' : list trec) n, map r_term l' = map r_term l ->
              filter (fun '(_, r) => r_term r) (enumerate_from n l) = [] -> filter (fun '(_, r) => r_term r) (enumerate_from n l') = []).
  { induction l as [|a l IH]; intros [|a' l'] n Hm Hf; simpl in *; try discriminate; [reflexivity|].
    inversion Hm as [[Ha Hl]]. rewrite Ha. destruct (r_term a); [discriminate|]. eapply IH; eassumption. }
  eapply F; eassumption.
Qed.

End Flags.
