(* ComposeTermProofs.v -- the composer's worklist terminates.
   Measure.  Let N = number of names (declared tasks + engine commands), E = spec_size (number of
   transition triples, a bound on every out-degree), Wt 0 = 1, Wt (S j) = 1 + E * Wt j.
   Every queued item (t, splits) is given a ghost path: the tasks through which it was reached since
   the last task that lies on a cycle (or the start task).  A task for which tasks.in_cycle answers
   True is put on the queue only while it is not yet a node, hence once; a task for which it answers
   False is not reachable from itself (the breadth-first search is complete), so ghost paths never
   repeat a name and are no longer than N.  The potential
       sum over queued items of Wt (N - |path|)  +  Wt N * #(in-cycle names that are not nodes yet)
   drops by at least one with every dequeue: the item of weight Wt (N - k) = 1 + E * Wt (N - k - 1)
   is replaced by at most E items of weight Wt (N - k - 1), and an in-cycle child (weight Wt (N - 1))
   is paid for by the reserve.  Split tracking only prunes, so it is not needed for the bound. *)
From Coq Require Import String List Bool ZArith Arith Lia Permutation.
From Orq Require Import GenSpecMeta Base State Composer C14Proofs.
Import ListNotations.
Open Scope string_scope.

(* ------------------------------------------- tasks.in_cycle = False means: not on a cycle *)

Definition link (sp : wf_spec) (a b : string) : Prop :=
  exists w i, In (b, w, i) (spec_next_tasks sp a).

Inductive lstar (sp : wf_spec) : string -> string -> Prop :=
  | ls_refl : forall x, lstar sp x x
  | ls_step : forall x y z, link sp x y -> lstar sp y z -> lstar sp x z.

Lemma lstar_snoc : forall sp x y z, lstar sp x y -> link sp y z -> lstar sp x z.
Proof.
  intros sp x y z H L. induction H as [x|x y0 y L0 H IH].
  - eapply ls_step; [exact L|apply ls_refl].
  - eapply ls_step; [exact L0|apply IH; exact L].
Qed.

Lemma link_iff : forall sp x y, link sp x y <-> In y (map nt_name (spec_next_sorted sp x)).
Proof.
  intros sp x y. unfold link, spec_next_sorted. rewrite in_map_iff. split.
  - intros [w [i H]]. exists (y, w, i). split; [reflexivity|]. apply in_sort_by. exact H.
  - intros [[[d w] i] [E H]]. apply in_sort_by in H. unfold nt_name in E. simpl in E. subst d. eauto.
Qed.

Lemma in_cycle_loop_false : forall sp t fuel q trav,
  in_cycle_loop sp t fuel q trav = Some false -> ~ In t trav ->
  (forall x y, In x trav -> link sp x y -> In y trav \/ In y q) ->
  exists T, incl trav T /\ incl q T /\ ~ In t T /\ (forall x y, In x T -> link sp x y -> In y T).
Proof.
  intros sp t fuel. induction fuel as [|f IH]; intros q trav H Ht Hc; destruct q as [|n q]; simpl in H; try discriminate.
  - exists trav. split; [apply incl_refl|]. split; [intros x []|]. split; [exact Ht|].
    intros x y Hx L. destruct (Hc x y Hx L) as [A|[]]. exact A.
  - exists trav. split; [apply incl_refl|]. split; [intros x []|]. split; [exact Ht|].
    intros x y Hx L. destruct (Hc x y Hx L) as [A|[]]. exact A.
  - destruct (String.eqb n t) eqn:En; [discriminate|].
    destruct (string_in n trav) eqn:Es.
    + assert (Hn : In n trav).
      { unfold string_in in Es. apply existsb_exists in Es. destruct Es as [z [Hz E]].
        apply String.eqb_eq in E. subst z. exact Hz. }
      destruct (IH q trav H Ht) as [T [A [B [C D]]]].
      { intros x y Hx L. destruct (Hc x y Hx L) as [X|[X|X]]; [auto|subst y; auto|auto]. }
      exists T. split; [exact A|]. split; [|auto]. intros z [Hz|Hz]; [subst z; apply A, Hn|apply B, Hz].
    + destruct (IH _ _ H) as [T [A [B [C D]]]].
      { intros [X|X]; [subst n; rewrite String.eqb_refl in En; discriminate|contradiction]. }
      { intros x y [Hx|Hx] L.
        - subst x. right. apply in_or_app. right. apply link_iff. exact L.
        - destruct (Hc x y Hx L) as [X|[X|X]]; [left; right; exact X|subst y; left; left; reflexivity|].
          right. apply in_or_app. left. exact X. }
      exists T. split; [intros z Hz; apply A; right; exact Hz|]. split; [|auto].
      intros z [Hz|Hz]; [subst z; apply A; left; reflexivity|apply B, in_or_app; left; exact Hz].
Qed.

Lemma lstar_closed : forall sp (T : list string), (forall x y, In x T -> link sp x y -> In y T) ->
  forall y d, lstar sp y d -> In y T -> In d T.
Proof.
  intros sp T D y d S. induction S as [x|x y0 z L0 S IH]; intro Hy; [exact Hy|]. apply IH. eapply D; eauto.
Qed.

Lemma in_cycle_false_no_cycle : forall sp d, spec_in_cycle sp d = Some false ->
  forall y, link sp d y -> lstar sp y d -> False.
Proof.
  intros sp d H y L S. unfold spec_in_cycle in H.
  destruct (in_cycle_loop_false sp d _ _ [] H) as [T [_ [B [C D]]]].
  - intros [].
  - intros x z [].
  - apply C. apply (lstar_closed sp T D y d S). apply B, link_iff. exact L.
Qed.

(* ---------------------------------------------------------------------- ghost paths *)

(* p = [t_k; ...; t_1]: t_1 -> t_2 -> ... -> t_k, most recent first *)
Inductive rpath (sp : wf_spec) : list string -> Prop :=
  | rp_one : forall t, rpath sp [t]
  | rp_cons : forall d t p, rpath sp (t :: p) -> link sp t d -> rpath sp (d :: t :: p).

Lemma rpath_star : forall sp p, rpath sp p -> forall t p0 x, p = t :: p0 -> In x p -> lstar sp x t.
Proof.
  intros sp p H. induction H as [t|d t p H IH L]; intros t' p0 x E Hx.
  - injection E as E1 E2. subst t' p0. destruct Hx as [Hx|[]]. subst x. apply ls_refl.
  - injection E as E1 E2. subst t' p0. destruct Hx as [Hx|Hx]; [subst x; apply ls_refl|].
    eapply lstar_snoc; [apply (IH t p x eq_refl Hx)|exact L].
Qed.

Lemma lstar_close_cycle : forall sp d t, lstar sp d t -> link sp t d -> exists y, link sp d y /\ lstar sp y d.
Proof.
  intros sp d t S L. destruct S as [x|x y z L0 S0].
  - exists x. split; [exact L|apply ls_refl].
  - exists y. split; [exact L0|eapply lstar_snoc; eauto].
Qed.

Lemma fresh_on_path : forall sp t p0 d, rpath sp (t :: p0) -> link sp t d ->
  spec_in_cycle sp d = Some false -> ~ In d (t :: p0).
Proof.
  intros sp t p0 d R L Hc Hin.
  pose proof (rpath_star sp _ R t p0 d eq_refl Hin) as S.
  destruct (lstar_close_cycle sp d t S L) as [y [L0 S0]].
  exact (in_cycle_false_no_cycle sp d Hc y L0 S0).
Qed.

(* ------------------------------------------------------------------------- the measure *)

Definition names (sp : wf_spec) : list string := app (map fst (wf_tasks sp)) RESERVED_TASK_NAMES.
Definition NN (sp : wf_spec) : nat := length (names sp).

Fixpoint Wt (E j : nat) : nat := match j with O => 1 | S j' => 1 + E * Wt E j' end.

Lemma Wt_pos : forall E j, 1 <= Wt E j.
Proof. intros E j; destruct j; simpl; lia. Qed.

Lemma Wt_mono : forall E i j, i <= j -> Wt E i <= Wt E j.
Proof.
  intros E i j H. induction H as [|j H IH]; [lia|]. simpl.
  destruct i; simpl in *; [pose proof (Wt_pos E j); nia|]. 
  assert (Wt E j <= 1 + E * Wt E j).
  { clear. induction j as [|j IH]; simpl; [lia|]. nia. }
  lia.
Qed.

Definition cycb (sp : wf_spec) (x : string) : bool :=
  match spec_in_cycle sp x with Some true => true | _ => false end.

(* names on a cycle that are not nodes yet: each can still be queued once *)
Definition pending (sp : wf_spec) (ns : list gnode) : list string :=
  filter (fun x => cycb sp x && negb (has_node x ns)) (names sp).

Definition reserve (sp : wf_spec) (ns : list gnode) : nat :=
  length (pending sp ns) * Wt (spec_size sp) (NN sp).

Definition pw (sp : wf_spec) (p : list string) : nat := Wt (spec_size sp) (NN sp - length p).
Definition psum (sp : wf_spec) (ps : list (list string)) : nat := list_sum (map (pw sp) ps).

Definition child_w (sp : wf_spec) (p : list string) : nat :=
  if Nat.leb (S (length p)) (NN sp) then Wt (spec_size sp) (NN sp - S (length p)) else 0.

Lemma pw_child : forall sp p, 1 + spec_size sp * child_w sp p <= pw sp p.
Proof.
  intros sp p. unfold child_w, pw. destruct (Nat.leb (S (length p)) (NN sp)) eqn:E.
  - apply Nat.leb_le in E. replace (NN sp - length p) with (S (NN sp - S (length p))) by lia. simpl. lia.
  - pose proof (Wt_pos (spec_size sp) (NN sp - length p)). lia.
Qed.

Lemma psum_app : forall sp a b, psum sp (app a b) = psum sp a + psum sp b.
Proof. intros sp a b. unfold psum. rewrite map_app, list_sum_app. reflexivity. Qed.

Lemma filter_len_mono : forall A (f g : A -> bool) l,
  (forall x, In x l -> f x = true -> g x = true) -> length (filter f l) <= length (filter g l).
Proof.
  intros A f g l. induction l as [|x l IH]; intro H; simpl; [lia|].
  assert (IH' : length (filter f l) <= length (filter g l)) by (apply IH; intros y Hy; apply H; right; exact Hy).
  destruct (f x) eqn:Ef.
  - rewrite (H x (or_introl eq_refl) Ef). simpl. lia.
  - destruct (g x); simpl; lia.
Qed.

Lemma filter_len_strict : forall A (f g : A -> bool) l d,
  (forall x, In x l -> f x = true -> g x = true) -> In d l -> f d = false -> g d = true ->
  S (length (filter f l)) <= length (filter g l).
Proof.
  intros A f g l d. induction l as [|x l IH]; intros H Hd Hf Hg; [contradiction|]. simpl.
  assert (M : length (filter f l) <= length (filter g l)) by (apply filter_len_mono; intros y Hy; apply H; right; exact Hy).
  destruct Hd as [Hd|Hd].
  - subst x. rewrite Hf, Hg. simpl. lia.
  - assert (IH' : S (length (filter f l)) <= length (filter g l)) by (apply IH; auto; intros y Hy; apply H; right; exact Hy).
    destruct (f x) eqn:Ef.
    + rewrite (H x (or_introl eq_refl) Ef). simpl. lia.
    + destruct (g x); simpl; lia.
Qed.

Lemma reserve_mono : forall sp ns ns', (forall x, In x (ids ns) -> In x (ids ns')) ->
  reserve sp ns' <= reserve sp ns.
Proof.
  intros sp ns ns' H. unfold reserve, pending. apply Nat.mul_le_mono_r. apply filter_len_mono.
  intros x _ Hx. apply andb_true_iff in Hx. destruct Hx as [H1 H2]. rewrite H1. simpl.
  apply negb_true_iff in H2. apply negb_true_iff. apply has_node_false. apply has_node_false in H2.
  intro C. apply H2. apply H. exact C.
Qed.

Lemma reserve_strict : forall sp ns ns' d, (forall x, In x (ids ns) -> In x (ids ns')) ->
  In d (names sp) -> cycb sp d = true -> ~ In d (ids ns) -> In d (ids ns') ->
  reserve sp ns' + Wt (spec_size sp) (NN sp) <= reserve sp ns.
Proof.
  intros sp ns ns' d H Hd Hc Hn Hn'. unfold reserve, pending.
  assert (S (length (filter (fun x => cycb sp x && negb (has_node x ns')) (names sp)))
          <= length (filter (fun x => cycb sp x && negb (has_node x ns)) (names sp))) as L.
  { apply (filter_len_strict _ _ _ _ d); [|exact Hd| |].
    - intros x _ Hx. apply andb_true_iff in Hx. destruct Hx as [H1 H2]. rewrite H1. simpl.
      apply negb_true_iff in H2. apply negb_true_iff. apply has_node_false. apply has_node_false in H2.
      intro C. apply H2. apply H. exact C.
    - apply has_node_in in Hn'. rewrite Hn', Hc. reflexivity.
    - apply has_node_false in Hn. rewrite Hn, Hc. reflexivity. }
  nia.
Qed.

Lemma filter_len_le : forall A (f : A -> bool) l, length (filter f l) <= length l.
Proof. intros A f l. induction l as [|x l IH]; simpl; [lia|]. destruct (f x); simpl; lia. Qed.

Lemma reserve_le_total : forall sp ns, reserve sp ns <= NN sp * Wt (spec_size sp) (NN sp).
Proof.
  intros sp ns. unfold reserve, pending, NN. apply Nat.mul_le_mono_r. apply filter_len_le.
Qed.

(* ------------------------------------------------------------------ one transition *)

Definition ok (sp : wf_spec) (it : qitem) (p : list string) : Prop :=
  hd_error p = Some (fst it) /\ rpath sp p /\ NoDup p /\ incl p (names sp).

Lemma get_task_named : forall sp t, spec_get_task sp t <> None -> In t (names sp).
Proof.
  intros sp t H. unfold names. apply in_or_app. unfold spec_get_task in H.
  destruct (string_in t RESERVED_TASK_NAMES) eqn:E.
  - right. unfold string_in in E. apply existsb_exists in E. destruct E as [z [Hz E]].
    apply String.eqb_eq in E. subst z. exact Hz.
  - left. destruct (aget String.eqb t (wf_tasks sp)) as [ts|] eqn:Ea; [|contradiction].
    apply aget_in in Ea. apply in_map_iff. exists (t, ts). auto.
Qed.

Lemma next_len_le_size : forall sp t, length (spec_next_tasks sp t) <= spec_size sp.
Proof.
  intros sp t. destruct (spec_next_tasks sp t) as [|x l] eqn:E; [simpl; lia|].
  assert (Ht : In t (map fst (wf_tasks sp))) by (apply (next_tasks_declared sp t x); rewrite E; left; reflexivity).
  rewrite <- E. unfold spec_size. clear E x l. induction (wf_tasks sp) as [|[n ts] tl IH]; [contradiction|].
  simpl. rewrite app_length. destruct Ht as [Ht|Ht]; [simpl in Ht; subst n; lia|]. specialize (IH Ht). lia.
Qed.

Section Term.
  Variable sp : wf_spec.
  Hypothesis Hnd : NoDup (map fst (wf_tasks sp)).
  Hypothesis Hdef : forall t, reach sp t -> spec_get_task sp t <> None.

  Lemma step_term : forall t p0 splits w nx w',
    Core sp w -> In t (ids (w_nodes w)) -> reach sp t -> In nx (spec_next_tasks sp t) ->
    rpath sp (t :: p0) -> NoDup (t :: p0) -> incl (t :: p0) (names sp) ->
    step_next sp t splits (Val w) nx = Val w' ->
    exists items qs, w_queue w' = app (w_queue w) items /\ Forall2 (ok sp) items qs /\
      psum sp qs + reserve sp (w_nodes w') <= reserve sp (w_nodes w) + child_w sp (t :: p0).
  Proof.
    intros t p0 splits w [[d cond] idx] w' C Ht Hr Hnx R ND IN H.
    unfold step_next, nt_name in H. cbn [fst snd] in H.
    destruct (String.eqb d "retry") eqn:Er.
    - injection H as H. subst w'. exists [], []. split; [simpl; rewrite app_nil_r; reflexivity|].
      split; [constructor|]. simpl. rewrite (reserve_mono sp (w_nodes w)); [lia|].
      intros x Hx. rewrite ids_upd_node; [exact Hx|apply id_pres_retry].
    - assert (Hnr : d <> "retry") by (intro E; subst d; discriminate).
      assert (Hd : reach sp d) by (eapply reach_step; eauto).
      assert (Hdn : In d (names sp)) by (apply get_task_named, Hdef, Hd).
      assert (L : link sp t d) by (exists cond, idx; exact Hnx).
      unfold in_cycle_r in H. pose proof (spec_in_cycle_total sp d Hnd) as Tot.
      destruct (spec_in_cycle sp d) as [b|] eqn:Ec; [|contradiction].
      set (skip := if has_node d (w_nodes w) then b else false) in *.
      assert (Hs : (if has_node d (w_nodes w) then Val b else Val false) = Val skip)
        by (unfold skip; destruct (has_node d (w_nodes w)); reflexivity).
      rewrite Hs in H. injection H as H. subst w'.
      set (w1 := if skip then w else enqueue w d splits) in *.
      assert (C1 : Core sp w1) by (unfold w1; destruct skip; [exact C|apply enqueue_core; assumption]).
      assert (N1 : w_nodes w1 = w_nodes w).
      { unfold w1; destruct skip; [reflexivity|]. destruct (enqueue_spec w d splits) as [A _]. exact A. }
      destruct (add_transition_spec w1 t d (crta_of cond) idx) as [_ [Eq [_ Hc]]].
      assert (Sub : forall x, In x (ids (w_nodes w)) -> In x (ids (w_nodes (add_transition w1 t d (crta_of cond) idx)))).
      { intros x Hx. destruct Hc as [[En _]|[En _]]; rewrite En, ?N1; [exact Hx|].
        apply in_ids_add_node. right. apply in_ids_add_node. right. exact Hx. }
      pose proof (reserve_mono sp _ _ Sub) as RM.
      (* was an item queued? *)
      assert (Q : w_queue w1 = w_queue w \/ (skip = false /\ w_queue w1 = app (w_queue w) [(d, splits)])).
      { unfold w1. destruct skip; [left; reflexivity|].
        destruct (enqueue_spec w d splits) as [_ [_ [_ [[A _]|[A _]]]]]; [left; exact A|right; auto]. }
      destruct Q as [Q|[Sk Q]].
      + exists [], []. split; [rewrite Eq, Q, app_nil_r; reflexivity|]. split; [constructor|]. simpl. lia.
      + destruct b.
        * (* d lies on a cycle: it is queued because it is not a node yet, and becomes one now *)
          assert (Hn : ~ In d (ids (w_nodes w))).
          { unfold skip in Sk. destruct (has_node d (w_nodes w)) eqn:Eh; [discriminate|]. apply has_node_false. exact Eh. }
          assert (Hn' : In d (ids (w_nodes (add_transition w1 t d (crta_of cond) idx)))).
          { destruct Hc as [[_ [_ [e [He Hm]]]]|[En _]].
            - exfalso. apply Hn. rewrite <- N1. apply edge_matches_iff in Hm. destruct Hm as [_ [M2 _]].
              destruct (co_sound sp w1 C1 e He) as [_ [_ X]]. rewrite M2 in X. exact X.
            - rewrite En. apply in_ids_add_node. left. reflexivity. }
          assert (Hcb : cycb sp d = true) by (unfold cycb; rewrite Ec; reflexivity).
          pose proof (reserve_strict sp _ _ d Sub Hdn Hcb Hn Hn') as RS.
          exists [(d, splits)], [[d]]. split; [rewrite Eq, Q; reflexivity|]. split.
          { constructor; [|constructor]. split; [reflexivity|]. split; [apply rp_one|].
            split; [constructor; [intros []|constructor]|]. intros x [Hx|[]]. subst x. exact Hdn. }
          unfold psum, pw. simpl.
          pose proof (Wt_mono (spec_size sp) (NN sp - 1) (NN sp)) as WM. lia.
        * (* d does not lie on a cycle: its path extends the path of t *)
          assert (Fr : ~ In d (t :: p0)) by (apply (fresh_on_path sp t p0 d R L Ec)).
          assert (ND' : NoDup (d :: t :: p0)) by (constructor; assumption).
          assert (IN' : incl (d :: t :: p0) (names sp)).
          { intros x [Hx|Hx]; [subst x; exact Hdn|apply IN; exact Hx]. }
          pose proof (NoDup_incl_length ND' IN') as Len. simpl in Len.
          exists [(d, splits)], [d :: t :: p0]. split; [rewrite Eq, Q; reflexivity|]. split.
          { constructor; [|constructor]. split; [reflexivity|]. split; [apply rp_cons; assumption|]. split; assumption. }
          unfold psum, pw, child_w. simpl length.
          assert (Le : Nat.leb (S (S (length p0))) (NN sp) = true) by (apply Nat.leb_le; unfold NN; lia).
          rewrite Le. simpl. lia.
  Qed.

  Lemma fold_term : forall t p0 splits l w w',
    Core sp w -> In t (ids (w_nodes w)) -> reach sp t -> (forall nx, In nx l -> In nx (spec_next_tasks sp t)) ->
    rpath sp (t :: p0) -> NoDup (t :: p0) -> incl (t :: p0) (names sp) ->
    fold_left (step_next sp t splits) l (Val w) = Val w' ->
    exists items qs, w_queue w' = app (w_queue w) items /\ Forall2 (ok sp) items qs /\
      psum sp qs + reserve sp (w_nodes w') <= reserve sp (w_nodes w) + length l * child_w sp (t :: p0).
  Proof.
    intros t p0 splits l. induction l as [|nx l IH]; intros w w' C Ht Hr Hl R ND IN H; cbn [fold_left] in H.
    - injection H as H. subst w'. exists [], []. split; [rewrite app_nil_r; reflexivity|].
      split; [constructor|]. simpl. lia.
    - destruct (step_next sp t splits (Val w) nx) as [w1|e] eqn:E1; [|rewrite fold_step_exc in H; discriminate].
      destruct (step_next_core sp t splits w nx w1 C Ht Hr (Hl nx (or_introl eq_refl)) E1) as [C1 [_ S1]].
      destruct (step_term t p0 splits w nx w1 C Ht Hr (Hl nx (or_introl eq_refl)) R ND IN E1)
        as [it1 [qs1 [Q1 [F1 B1]]]].
      destruct (IH w1 w' C1 (S1 t Ht) Hr (fun y Hy => Hl y (or_intror Hy)) R ND IN H) as [it2 [qs2 [Q2 [F2 B2]]]].
      exists (app it1 it2), (app qs1 qs2). split; [rewrite Q2, Q1, app_assoc; reflexivity|].
      split; [apply Forall2_app; assumption|]. rewrite psum_app. simpl length. lia.
  Qed.

  Lemma process_term : forall rt w t splits q' p w1,
    Core sp w -> w_queue w = (t, splits) :: q' -> ok sp (t, splits) p ->
    process sp rt (popped w q') t splits = Val w1 ->
    exists items qs, w_queue w1 = app q' items /\ Forall2 (ok sp) items qs /\
      psum sp qs + reserve sp (w_nodes w1) + 1 <= pw sp p + reserve sp (w_nodes w).
  Proof.
    intros rt w t splits q' p w1 C Hq [Hh [R [ND IN]]] H.
    destruct p as [|t0 p0]; [discriminate|]. simpl in Hh. injection Hh as Hh. subst t0.
    destruct (process_shape sp rt (popped w q') t splits w1 H) as [ts [F [splits' [_ [HF [_ [_ Hfold]]]]]]].
    set (w0 := started (popped w q') t F) in *.
    assert (C0 : Core sp w0) by (eapply pop_core; eauto).
    assert (Hi : In t (ids (w_nodes w0))).
    { simpl. rewrite ids_upd_node by exact HF. apply in_ids_add_node. auto. }
    assert (Hr : reach sp t).
    { apply (co_reach sp w C). right. right. unfold qnames. rewrite Hq. left. reflexivity. }
    assert (Hl : forall nx, In nx (spec_next_sorted sp t) -> In nx (spec_next_tasks sp t)).
    { intros nx Hnx. unfold spec_next_sorted in Hnx. apply in_sort_by in Hnx. exact Hnx. }
    destruct (fold_term t p0 splits' _ w0 w1 C0 Hi Hr Hl R ND IN Hfold) as [items [qs [Q [Fa B]]]].
    exists items, qs. split; [exact Q|]. split; [exact Fa|].
    assert (R0 : reserve sp (w_nodes w0) <= reserve sp (w_nodes w)).
    { apply reserve_mono. intros x Hx. simpl. rewrite ids_upd_node by exact HF. apply in_ids_add_node. auto. }
    assert (Len : length (spec_next_sorted sp t) <= spec_size sp).
    { unfold spec_next_sorted. rewrite length_sort_by. apply (next_len_le_size sp). }
    pose proof (pw_child sp (t :: p0)) as PC.
    assert (length (spec_next_sorted sp t) * child_w sp (t :: p0) <= spec_size sp * child_w sp (t :: p0))
      by (apply Nat.mul_le_mono_r; exact Len).
    lia.
  Qed.

  Lemma loop_term : forall rt fuel w ps,
    Core sp w -> DoneOk sp rt [] w -> Forall2 (ok sp) (w_queue w) ps ->
    psum sp ps + reserve sp (w_nodes w) <= fuel ->
    exists w', compose_loop sp rt fuel w = Val w'.
  Proof.
    intros rt fuel. induction fuel as [|f IH]; intros w ps C D Fa B.
    - simpl. destruct (w_queue w) as [|[t s] q'] eqn:Eq; [eauto|].
      inversion Fa as [|it p its ps' Ok Fa']; subst. unfold psum in B. simpl in B.
      pose proof (Wt_pos (spec_size sp) (NN sp - length p)). unfold pw in B. lia.
    - simpl. destruct (w_queue w) as [|[t s] q'] eqn:Eq; [eauto|].
      inversion Fa as [|it p its ps' Ok Fa']; subst.
      assert (Hr : reach sp t).
      { apply (co_reach sp w C). right. right. unfold qnames. rewrite Eq. left. reflexivity. }
      destruct (process_val sp Hnd rt (popped w q') t s (Hdef t Hr)) as [w1 H1].
      pose proof H1 as H1'. unfold popped in H1'. rewrite H1'.
      destruct (process_inv sp rt w t s q' w1 C D Eq H1) as [C1 D1].
      destruct (process_term rt w t s q' p w1 C Eq Ok H1) as [items [qs [Q [Fq Bq]]]].
      apply (IH w1 (app ps' qs) C1 D1).
      + rewrite Q. apply Forall2_app; assumption.
      + rewrite psum_app. unfold psum in *. simpl in B. lia.
  Qed.

  (* dequeues that always suffice *)
  Definition compose_fuel : nat :=
    (length (spec_start_tasks sp) + NN sp) * Wt (spec_size sp) (NN sp).

  Lemma init_paths : forall l, (forall t, In t l -> In t (names sp)) ->
    Forall2 (ok sp) (map (fun t => (t, @nil string)) l) (map (fun t => [t]) l).
  Proof.
    induction l as [|t l IH]; intro H; simpl; constructor.
    - split; [reflexivity|]. split; [apply rp_one|]. split; [constructor; [intros []|constructor]|].
      intros x [Hx|[]]. subst x. apply H. left. reflexivity.
    - apply IH. intros x Hx. apply H. right. exact Hx.
  Qed.

  Theorem compose_work_total : forall rt, exists w, compose_work sp rt compose_fuel = Val w.
  Proof.
    intro rt. unfold compose_work.
    apply (loop_term rt compose_fuel (compose_init sp) (map (fun t => [t]) (spec_start_tasks sp))
             (init_core sp) (init_doneok sp rt)).
    - simpl. apply init_paths. intros t Ht. unfold names. apply in_or_app. left.
      apply in_start_tasks in Ht. apply Ht.
    - simpl. pose proof (reserve_le_total sp []) as RT.
      assert (P : psum sp (map (fun t => [t]) (spec_start_tasks sp))
                  <= length (spec_start_tasks sp) * Wt (spec_size sp) (NN sp)).
      { unfold psum. induction (spec_start_tasks sp) as [|t l IH]; simpl; [lia|].
        unfold pw at 1. simpl length. pose proof (Wt_mono (spec_size sp) (NN sp - 1) (NN sp)). lia. }
      unfold compose_fuel. lia.
  Qed.

  Theorem compose_total : forall rt, exists g, compose sp rt compose_fuel = Val g.
  Proof.
    intro rt. destruct (compose_work_total rt) as [w H]. unfold compose. rewrite H. eauto.
  Qed.

  Theorem compose_total_more : forall rt g, compose sp rt compose_fuel = Val g ->
    forall k, compose sp rt (compose_fuel + k) = Val g.
  Proof.
    intros rt g H k. unfold compose, compose_work in *.
    destruct (compose_loop sp rt compose_fuel (compose_init sp)) as [w|] eqn:E; [|discriminate].
    rewrite (compose_loop_more_fuel sp rt _ _ w E k). exact H.
  Qed.
End Term.

(* ----------------------------------------------------------- the composed graph, totally *)

(* task names unique; every task reachable from a start task is declared or an engine command
   (what inspect() guarantees: C15_semantics_accepted) *)
Definition composable (sp : wf_spec) : Prop :=
  NoDup (map fst (wf_tasks sp)) /\ forall t, reach sp t -> spec_get_task sp t <> None.

Lemma targets_defined_composable : forall sp, NoDup (map fst (wf_tasks sp)) -> targets_defined sp -> composable sp.
Proof. intros sp Hnd Hw. split; [exact Hnd|]. intros t Hr. apply reach_defined; assumption. Qed.

Definition empty_graph : graph := {| g_nodes := []; g_edges := [] |}.

(* WorkflowComposer.compose(spec) without a fuel argument *)
Definition compose_graph (sp : wf_spec) (rt : list (string * json)) : graph :=
  match compose sp rt (compose_fuel sp) with Val g => g | Exc _ => empty_graph end.

Theorem compose_graph_spec : forall sp rt, composable sp ->
  compose sp rt (compose_fuel sp) = Val (compose_graph sp rt).
Proof.
  intros sp rt [Hnd Hdef]. unfold compose_graph.
  destruct (compose_total sp Hnd Hdef rt) as [g H]. rewrite H. reflexivity.
Qed.

Theorem compose_graph_more_fuel : forall sp rt k, composable sp ->
  compose sp rt (compose_fuel sp + k) = Val (compose_graph sp rt).
Proof.
  intros sp rt k Hc. apply compose_total_more. apply compose_graph_spec. exact Hc.
Qed.

Theorem compose_graph_unique : forall sp rt f g, composable sp ->
  compose sp rt f = Val g -> g = compose_graph sp rt.
Proof.
  intros sp rt f g Hc H. apply (compose_fuel_irrelevant sp rt f (compose_fuel sp)); [exact H|].
  apply compose_graph_spec. exact Hc.
Qed.

Theorem compose_enough_fuel : forall sp rt f, composable sp -> compose_fuel sp <= f ->
  compose sp rt f = Val (compose_graph sp rt).
Proof.
  intros sp rt f Hc Hf. replace f with (compose_fuel sp + (f - compose_fuel sp)) by lia.
  apply compose_graph_more_fuel. exact Hc.
Qed.

Lemma compose_fuel_eq : forall sp,
  compose_fuel sp = (length (spec_start_tasks sp) + NN sp) * Wt (spec_size sp) (NN sp).
Proof. reflexivity. Qed.

Lemma ex_composable : composable ex_spec.
Proof. apply targets_defined_composable; [exact ex_nodup|exact ex_targets_defined]. Qed.

Lemma ex_compose_graph : compose_graph ex_spec ex_rt = ex_graph.
Proof. symmetry. apply (compose_graph_unique ex_spec ex_rt 20 ex_graph ex_composable ex_compose). Qed.
