(* C02, last sentence, the fail command, composed (C02f): a whole provider call whose satisfied transitions queue `fail`
   leaves the workflow failed -- or in the cancel class. *)
From Coq Require Import String List Bool ZArith Arith Lia.
From Orq Require Import GenStatuses GenEvents GenTables Base State Machines Conductor Api.
From Orq Require Import F_tables F_names Hoare ValuePost StatusReach C02C03Proofs C04Proofs InertProofs RetryProofs
  FrozenProofs JustifiedProofs NoInternalProofs SysProofs RecordedProofs LateProofs FailProofs Late2Proofs.
Import ListNotations.
Open Scope string_scope.
Open Scope monad_scope.

(* ------------------------------------------------------------------ a decision recorded true stays *)

Definition Rtrue (idx : nat) (tid : trid) (c c' : cstate) : Prop :=
  (exists r, nth_error (sequence (c_ws c)) idx = Some r /\ aget trid_eqb tid (r_next r) = Some true) ->
  (exists r', nth_error (sequence (c_ws c')) idx = Some r' /\ aget trid_eqb tid (r_next r') = Some true).
Lemma Rtrue_refl : forall idx tid c, Rtrue idx tid c c.
Proof. intros idx tid c H; exact H. Qed.
Lemma Rtrue_trans : forall idx tid a b c, Rtrue idx tid a b -> Rtrue idx tid b c -> Rtrue idx tid a c.
Proof. unfold Rtrue; intros; auto. Qed.
Lemma Rnx_Rtrue : forall idx tid c c', Rnx c c' -> Rtrue idx tid c c'.
Proof. intros idx tid c c' H [r [Hr Ha]]. destruct (H idx r Hr) as [r' [Hr' [N _]]]. exists r'. split; [exact Hr'|rewrite N; exact Ha]. Qed.

Lemma trid_eqb_eq : forall a b, trid_eqb a b = true -> a = b.
Proof.
  intros [a1 a2] [b1 b2] H. unfold trid_eqb in H. simpl in H. apply andb_prop in H. destruct H as [H1 H2].
  apply String.eqb_eq in H1. apply Nat.eqb_eq in H2. subst; reflexivity.
Qed.
Lemma trid_eqb_refl : forall a, trid_eqb a a = true.
Proof. intros [a1 a2]. unfold trid_eqb. simpl. rewrite String.eqb_refl, Nat.eqb_refl. reflexivity. Qed.
Lemma aget_aset_trid : forall (k k' : trid) (v : bool) d,
  aget trid_eqb k (aset trid_eqb k' v d) = if trid_eqb k k' then Some v else aget trid_eqb k d.
Proof.
  intros k k' v d; induction d as [|[k1 v1] d IH]; simpl.
  - destruct (trid_eqb k k'); reflexivity.
  - destruct (trid_eqb k' k1) eqn:E1; simpl.
    + apply trid_eqb_eq in E1; subst k1. destruct (trid_eqb k k'); reflexivity.
    + destruct (trid_eqb k k1) eqn:E2.
      * apply trid_eqb_eq in E2; subst k1. destruct (trid_eqb k k') eqn:E3; [|reflexivity].
        apply trid_eqb_eq in E3; subst. rewrite trid_eqb_refl in E1; discriminate.
      * exact IH.
Qed.

Lemma Rtrue_set_next : forall idx tid c j tid' b, tid' <> tid ->
  Rtrue idx tid c (set_ws c (ws_update_rec (c_ws c) j (fun r => r_set_next r (aset trid_eqb tid' b (r_next r))))).
Proof.
  intros idx tid c j tid' b Hne [r [Hr Ha]]. cbn [c_ws set_ws]. destruct (Nat.eq_dec j idx) as [->|Hn].
  - eexists. split; [apply (nth_update_rec_same (c_ws c) idx _ r Hr)|]. cbn [r_next r_set_next]. rewrite aget_aset_trid.
    destruct (trid_eqb tid tid') eqn:E; [apply trid_eqb_eq in E; subst; contradiction|exact Ha].
  - exists r. split; [rewrite nth_update_rec_other by exact Hn; exact Hr|exact Ha].
Qed.

Lemma Rtrue_update : forall idx tid c j f, (forall r, r_next (f r) = r_next r) ->
  Rtrue idx tid c (set_ws c (ws_update_rec (c_ws c) j f)).
Proof.
  intros idx tid c j f Hf [r [Hr Ha]]. cbn [c_ws set_ws]. destruct (Nat.eq_dec j idx) as [->|Hn].
  - exists (f r). split; [apply nth_update_rec_same; exact Hr|rewrite Hf; exact Ha].
  - exists r. split; [rewrite nth_update_rec_other by exact Hn; exact Hr|exact Ha].
Qed.

Section WithEval.
Variable ev : string -> dict -> evalres.

Section Kept.
Variable idx : nat.
Variable tid : trid.

Ltac nleaf :=
  first
    [ apply (preserves_modws (Rtrue idx tid)); intro; apply Rnx_Rtrue; apply Rnx_same_seq; simpl; first [reflexivity|apply seq_remove_staged]
    | apply (preserves_modws (Rtrue idx tid)); intro; apply Rtrue_update; intro; reflexivity
    | apply (preserves_modify (Rtrue idx tid)); intro; apply Rnx_Rtrue; apply Rnx_same_seq; cbv zeta;
      try match goal with |- context [if ?b then _ else _] => destruct b end; reflexivity
    | assumption ].

Lemma of_nx : forall A (m : M A), preserves Rnx m -> preserves (Rtrue idx tid) m.
Proof. intros A m H c c' r E. apply Rnx_Rtrue. eapply H; exact E. Qed.

(* what follows the decision in one transition writes no decision *)
Lemma ptr_cont : forall t route i ts ctx e ok, preserves (Rtrue idx tid) (JustifiedProofs.pt_cont ev t route i ts ctx e ok).
Proof.
  intros. unfold JustifiedProofs.pt_cont, finalize_context, get_rec, upd_rec, evaluate_route. cbv zeta.
  pw (Rtrue_refl idx tid) (Rtrue_trans idx tid)
     ltac:(first [apply of_nx; apply pnx_request_status_core|apply of_nx; apply pnx_log_errors|apply of_nx; apply pnx_render_vars|nleaf]).
Qed.
(* a transition with another id *)
Lemma ptr_transition : forall t route i ts ctx e, trid_of e <> tid -> preserves (Rtrue idx tid) (process_transition ev t route i ts ctx e).
Proof.
  intros t route i ts ctx e Hne. rewrite JustifiedProofs.pt_eq.
  apply (preserves_bind _ (Rtrue_trans idx tid)); [|intro; apply ptr_cont].
  unfold JustifiedProofs.pt_step1, upd_rec.
  pw (Rtrue_refl idx tid) (Rtrue_trans idx tid)
     ltac:(first [apply of_nx; apply pnx_request_status_core|apply of_nx; apply pnx_log_error
                 |apply (preserves_modws (Rtrue idx tid)); intro; apply Rtrue_set_next; exact Hne|nleaf]).
Qed.
End Kept.

(* the transition that returns a command (or a ready task) recorded its decision true *)
Lemma pt_records_true : forall t route idx ts ctx e c c1 v r,
  process_transition ev t route idx ts ctx e c = (c1, Val v) -> (fst v <> None \/ snd v <> None) ->
  nth_error (sequence (c_ws c)) idx = Some r ->
  exists r1, nth_error (sequence (c_ws c1)) idx = Some r1 /\ aget trid_eqb (trid_of e) (r_next r1) = Some true.
Proof.
  intros t route idx ts ctx e c c1 v r H Hv Hr. rewrite JustifiedProofs.pt_eq in H.
  apply bind_val_inv' in H. destruct H as [ca [ok [E1 E2]]].
  assert (Hok : ok = Some true).
  { destruct ok as [[|]|]; [reflexivity| |];
      rewrite (JustifiedProofs.no_reference_unless_true ev t route idx ts ctx e) in E2 by discriminate;
      inversion E2; subst v; simpl in Hv; destruct Hv as [Hv|Hv]; exfalso; apply Hv; reflexivity. }
  subst ok.
  destruct (JustifiedProofs.decision_recorded_is_criteria ev _ _ _ _ _ _ _ _ E1) as [vs [_ [_ Hrec]]].
  specialize (Hrec r Hr).
  apply (ptr_cont idx (trid_of e) _ _ _ _ _ _ _ _ _ _ E2).
  eexists. split; [exact Hrec|]. cbn [r_next r_set_next]. unfold trid_of. rewrite aget_aset_trid, trid_eqb_refl. reflexivity.
Qed.

Definition cmds_of' (rs : list (option (string * nat) * option (string * nat))) : list (string * nat) :=
  flat_map (fun '(q, _) => match q with Some x => [x] | None => [] end) rs.

(* all the transitions: each command queued comes from an edge whose decision is recorded true at the end *)
Lemma mapM_records_true : forall t route idx ts ctx l c c' rs,
  mapM (process_transition ev t route idx ts ctx) l c = (c', Val rs) -> NoDup (map trid_of l) ->
  (exists r, nth_error (sequence (c_ws c)) idx = Some r) ->
  forall p, In p (cmds_of' rs) ->
    exists e r', In e l /\ e_dst e = fst p /\ nth_error (sequence (c_ws c')) idx = Some r' /\
                 aget trid_eqb (trid_of e) (r_next r') = Some true.
Proof.
  intros t route idx ts ctx l; induction l as [|e l IH]; intros c c' rs H Hnd [r Hr] p Hp.
  - inversion H; subst. destruct Hp.
  - simpl in H. apply bind_val_inv' in H. destruct H as [c1 [v [E1 H]]].
    apply bind_val_inv' in H. destruct H as [c2 [vs [E2 H]]]. inversion H; subst c' rs; clear H.
    simpl in Hnd. apply NoDup_cons_iff in Hnd. destruct Hnd as [Hn1 Hn2].
    assert (Hr1 : exists r1, nth_error (sequence (c_ws c1)) idx = Some r1).
    { destruct (nth_error (sequence (c_ws c1)) idx) as [r1|] eqn:E; [eauto|exfalso].
      pose proof (vfr_process_transition ev _ _ _ _ _ _ _ _ _ E1) as [_ [F2 _]].
      apply nth_error_None in E. assert (L : length (map sig (sequence (c_ws c1))) = length (map sig (sequence (c_ws c)))) by (rewrite F2; reflexivity).
      rewrite !map_length in L. assert (idx < length (sequence (c_ws c))) by (apply nth_error_Some; rewrite Hr; discriminate). lia. }
    unfold cmds_of' in Hp. simpl in Hp. destruct v as [q0 q1]. apply in_app_or in Hp. destruct Hp as [Hp|Hp].
    + destruct q0 as [x|]; [|destruct Hp]. destruct Hp as [<-|[]].
      assert (Hv : fst (Some x, q1) <> None \/ snd (Some x, q1) <> None) by (left; discriminate).
      destruct (pt_records_true _ _ _ _ _ _ _ _ _ _ E1 Hv Hr) as [r1 [Hr1' Ha]].
      assert (Hde : fst x = e_dst e).
      { assert (V : vpost (fun v0 : option (string * nat) * option (string * nat) => forall y, fst v0 = Some y -> fst y = e_dst e)
                          (process_transition ev t route idx ts ctx e)).
        { unfold process_transition. apply vpost_bind; intros [[|]|]; try (apply vpost_ret; intros y Hy; discriminate).
          apply vpost_bind; intros [new_ctx errors]. destruct errors as [|e1 errs].
          2: { repeat (apply vpost_bind; intro). apply vpost_ret; intros y Hy; discriminate. }
          repeat (apply vpost_bind; intro).
          destruct (is_engine_command (e_dst e)).
          - apply vpost_ret; intros y Hy; inversion Hy; subst; reflexivity.
          - match goal with |- vpost _ (if ?b then _ else _) => destruct b end; apply vpost_ret; intros y Hy; discriminate. }
        exact (V _ _ _ E1 x eq_refl). }
      (* the later transitions have other ids *)
      assert (Keep : Rtrue idx (trid_of e) c1 c2).
      { clear -E2 Hn1. revert c1 c2 vs E2. induction l as [|e' l IHl]; intros c1 c2 vs E2.
        - inversion E2; subst. apply Rtrue_refl.
        - simpl in E2. apply bind_val_inv' in E2. destruct E2 as [ca [va [Ea E2]]].
          apply bind_val_inv' in E2. destruct E2 as [cb [vb [Eb E2]]]. inversion E2; subst c2 vs; clear E2.
          eapply Rtrue_trans.
          + eapply ptr_transition; [|exact Ea]. intro X. apply Hn1. simpl. left. exact X.
          + eapply IHl; [|exact Eb]. intro X. apply Hn1. simpl. right. exact X. }
      destruct (Keep (ex_intro _ r1 (conj Hr1' Ha))) as [r2 [Hr2 Ha2]].
      exists e, r2. split; [left; reflexivity|]. split; [symmetry; exact Hde|]. split; [exact Hr2|exact Ha2].
    + destruct (IH c1 c2 vs E2 Hn2 Hr1 p Hp) as [e' [r' [He' Hx]]]. exists e', r'. split; [right; exact He'|exact Hx].
Qed.

(* the queue, with the decisions: each queued command comes from an edge recorded true in the state the queue is returned in *)
Lemma queue_records_true : forall t route idx ts o n compl c c' q,
  uts_queue ev t route idx ts o n compl c = (c', Val q) -> NoDup (map trid_of (g_next_transitions (c_graph c) t)) ->
  (exists r, nth_error (sequence (c_ws c)) idx = Some r) ->
  forall p, In p q ->
    exists e r', In e (g_next_transitions (c_graph c) t) /\ e_dst e = fst p /\ nth_error (sequence (c_ws c')) idx = Some r' /\
                 aget trid_eqb (trid_of e) (r_next r') = Some true.
Proof.
  intros t route idx ts o n compl c c' q H Hnd [r Hr] p Hp. unfold uts_queue in H.
  destruct compl as [[ctx b]|]; [|inversion H; subst; destruct Hp].
  destruct (negb (status_eqb n o)); [|inversion H; subst; destruct Hp].
  apply bind_val_inv' in H. destruct H as [c0 [cst [E0 H]]]. inversion E0; subst c0 cst; clear E0. cbv zeta in H.
  apply bind_val_inv' in H. destruct H as [c1 [u1 [E1 H]]].
  apply bind_val_inv' in H. destruct H as [c2 [rs [E2 H]]].
  apply bind_val_inv' in H. destruct H as [c3 [u3 [E3 H]]].
  apply bind_val_inv' in H. destruct H as [c4 [r4 [Eg H]]]. apply get_rec_inv in Eg. destruct Eg as [-> _].
  apply bind_val_inv' in H. destruct H as [c5 [u5 [E5 H]]]. inversion H; subst c' q; clear H.
  assert (Hr1 : exists r1, nth_error (sequence (c_ws c1)) idx = Some r1).
  { clear -E1 Hr. destruct (g_next_transitions (c_graph c) t); [|inversion E1; subst; eauto].
    unfold upd_rec, modws in E1. inversion E1; subst. cbn [c_ws set_ws]. eexists. apply (nth_update_rec_same _ _ _ _ Hr). }
  destruct (mapM_records_true _ _ _ _ _ _ _ _ _ E2 Hnd Hr1 p Hp) as [e [r2 [He [Hde [Hr2 Ha]]]]].
  exists e. 
  assert (K3 : sequence (c_ws c3) = sequence (c_ws c2)).
  { clear -E3. destruct (existsb _ _); [|inversion E3; reflexivity].
    destruct (flag_loop _ [] _ _ _ E3) as [_ [_ [S _]]]; [intros k []|exact S]. }
  assert (Hr3 : nth_error (sequence (c_ws c3)) idx = Some r2) by (rewrite K3; exact Hr2).
  assert (K5 : Rtrue idx (trid_of e) c3 c5).
  { clear -E5. destruct (g_next_transitions (c_graph c) t); [inversion E5; subst; apply Rtrue_refl|].
    destruct (existsb _ (r_next r4)); [inversion E5; subst; apply Rtrue_refl|].
    unfold upd_rec, modws in E5. inversion E5; subst. apply Rtrue_update. intro; reflexivity. }
  destruct (K5 (ex_intro _ r2 (conj Hr3 Ha))) as [r5 [Hr5 Ha5]].
  exists r5. split; [exact He|]. split; [exact Hde|]. split; [exact Hr5|exact Ha5].
Qed.

Lemma F_in_progress_step : forall s e t, in_progress s -> tbl_step wf_table s e = Some t ->
  In t [S_RUNNING; S_PAUSING; S_PAUSED; S_RESUMING; S_CANCELING; S_CANCELED; S_SUCCEEDED; S_FAILED].
Proof.
  intros s e t Hs H.
  assert (T : table_forall wf_table
                (fun s _ t => negb (status_in s [S_RUNNING; S_PAUSING; S_PAUSED; S_RESUMING])
                              || status_in t [S_RUNNING; S_PAUSING; S_PAUSED; S_RESUMING; S_CANCELING; S_CANCELED; S_SUCCEEDED; S_FAILED]) = true)
    by (vm_compute; reflexivity).
  pose proof (table_forall_step _ _ T _ _ _ H) as P; cbv beta in P.
  apply status_in_In in Hs. rewrite Hs in P; cbn [andb negb orb] in P. apply status_in_In; exact P.
Qed.

Hypothesis Hev : eval_no_internal ev.

(* C02f: a provider's completion report whose transitions queue `fail` first *)
Theorem queued_fail_fails_call : forall t route st res ts idx r s c c' c1 p c2 q rt,
  WF c -> static_ok (c_spec c) (c_graph c) -> in_progress (wstatus (c_ws c)) ->
  NoDup (map trid_of (g_next_transitions (c_graph c) t)) -> g_has_barrier (c_graph c) "fail" = false ->
  cmds_unvisited c t route ->
  is_engine_command t = false -> g_has_task (c_graph c) t = true ->
  spec_get_task (c_spec c) t = Some ts -> task_has_items ts = false ->
  ws_task_idx (c_ws c) t route = Some idx -> nth_error (sequence (c_ws c)) idx = Some r ->
  r_status r = Some s -> In s [S_RUNNING; S_PAUSING; S_CANCELING] ->
  status_in st COMPLETED_STATUSES = true -> no_retry_left r ->
  update_task_state ev t route (EvAction st res) c = (c', Val tt) ->
  uts_prefix ev t route (EvAction st res) c = (c1, Val p) ->
  uts_queue ev t route (po_idx p) (po_ts p) (po_old p) (po_new p) (po_compl p) c1 = (c2, Val (("fail", rt) :: q)) ->
  In (wstatus (c_ws c')) [S_FAILED; S_CANCELING; S_CANCELED].
Proof.
  intros t route st res ts idx r s c c' c1 p c2 q rt Wc Hso Hip Htids Hnb Hunv Hcmd Hg Hts Hit Hp Hr Hs Hin Hst Hnr H Hpre Hqueue.
  destruct (F_reported_completed st) as [Hrc [Hgood _]].
  unfold update_task_state in H. rewrite uts_unfold in H.
  match type of H with uts_body _ ?rc _ _ _ _ = _ =>
    assert (Hrec : rec_ok rc) by apply rec_ok_fuel;
    assert (Hfail : forall rt0 ca cb, rc "fail" rt0 fail_event ca = (cb, Val tt) ->
                      graph_commands_inert (c_graph ca) -> c_init ca = true -> ws_task_idx (c_ws ca) "fail" rt0 = None ->
                      (in_progress (wstatus (c_ws ca)) \/ wstatus (c_ws ca) = S_FAILED) -> wstatus (c_ws cb) = S_FAILED)
      by (intros rt0 ca cb E A B C D; exact (fail_command_call_fails ev 1 rt0 ca cb A B C D E));
    generalize dependent rc; intros rec H Hrec Hfail end.
  rewrite body_eq in H.
  destruct (late_prefix ev t route st res ts idx r s c Wc (or_intror Hnr) Hcmd Hg Hts Hit Hp Hr Hs Hin Hst) as [c1' [ctx [E1 [K [Hr1 W1]]]]].
  rewrite E1 in Hpre. inversion Hpre; subst c1' p. clear Hpre. cbn [po_ts po_idx po_old po_new po_compl] in Hqueue.
  rewrite (bind_step _ _ _ _ _ _ _ E1) in H. unfold tail_of in H. cbn [po_ts po_idx po_old po_new po_compl] in H.
  unfold uts_tail in H. rewrite (bind_step _ _ _ _ _ _ _ Hqueue) in H.
  pose proof (kept_cmd_edges c c1 t route K) as Ke.
  destruct K as [K1 [K2 [K3 [K4 [K5 [K6 [K7 K8]]]]]]].
  pose proof (vfr_queue ev _ _ _ _ _ _ _ _ _ _ Hqueue) as [F1 [F2 [F3 [F4 [F5 F6]]]]].
  apply bind_val_inv' in H. destruct H as [cx [r2 [Eg H]]]. apply get_rec_inv in Eg. destruct Eg as [-> Hr2].
  assert (Hs2 : r_status r2 = Some (reported st)).
  { pose proof (map_nth_same _ _ sig _ _ _ _ _ F2 Hr1 Hr2) as E. unfold sig in E. inversion E. reflexivity. }
  rewrite Hs2 in H. rewrite (bind_step _ _ _ _ _ _ _ (eq_refl : ret (reported st) c2 = (c2, Val (reported st)))) in H.
  destruct (after_queue_inv _ _ _ _ _ _ _ _ H) as [c3 [unr [c4 [c5 [E3 [E4 [E5 Hend]]]]]]]. clear H.
  (* the workflow machine's step for the task does not make the workflow succeeded: `fail` is a next task *)
  assert (Hp1 : ws_task_idx (c_ws c1) t route = Some idx) by (unfold ws_task_idx in *; rewrite K1; exact Hp).
  destruct (wf_ptr _ W1 _ _ Hp1) as [Hidx1 Hroute1]. simpl in Hroute1.
  destruct (queue_records_true _ _ _ _ _ _ _ _ _ _ Hqueue) with (p := ("fail", rt)) as [e [r2' [He [Hde [Hr2' Ha]]]]];
    [rewrite K5; exact Htids|eexists; exact Hr1|left; reflexivity|].
  rewrite Hr2 in Hr2'. inversion Hr2'; subst r2'. clear Hr2'. simpl in Hde.
  assert (Hnext : has_next_tasks (c_graph c2) (c_ws c2) t route = true).
  { unfold has_next_tasks, has_next, ws_task_entry, ws_task_idx. rewrite F1. fold (ws_task_idx (c_ws c1) t route). rewrite Hp1, Hr2.
    unfold ostatus_in. rewrite Hs2, Hrc. cbn [negb]. apply existsb_exists. exists e. split; [rewrite F4; exact He|].
    rewrite Hde. change (String.eqb "fail" "continue") with false. cbv iota.
    unfold trid_of in Ha. rewrite Hde in Ha. rewrite Ha. rewrite F4, K5, Hnb. reflexivity. }
  assert (St2 : in_progress (wstatus (c_ws c2)) \/ wstatus (c_ws c2) = S_FAILED).
  { destruct F3 as [F3|F3]; [left; rewrite F3, K4; exact Hip|right; exact F3]. }
  assert (St3 : (in_progress (wstatus (c_ws c3)) \/ wstatus (c_ws c3) = S_FAILED) \/ In (wstatus (c_ws c3)) [S_CANCELING; S_CANCELED]).
  { assert (Hns : wstatus (c_ws c3) <> S_SUCCEEDED).
    { intro E. assert (Hn2 : wstatus (c_ws c2) <> S_SUCCEEDED) by (destruct St2 as [[X|[X|[X|[X|[]]]]]|X]; [rewrite <- X|rewrite <- X|rewrite <- X|rewrite <- X|rewrite X]; discriminate).
      destruct (succeeded_only_when_all_done _ _ _ _ _ _ Hn2 E3 E) as [_ [_ [_ [_ [_ [_ [X _]]]]]]]. rewrite Hnext in X. discriminate. }
    destruct (wf_task_event_M_spec _ _ _ _ _ _ E3) as [[x [Hx _]]|[u [_ Hspec]]]; [discriminate|]. cbv zeta in Hspec.
    destruct St2 as [Hip2|Hf2].
    - destruct (tbl_step wf_table (wstatus (c_ws c2)) _) as [n|] eqn:En.
      + assert (Hn : In n [S_RUNNING; S_PAUSING; S_PAUSED; S_RESUMING; S_CANCELING; S_CANCELED; S_SUCCEEDED; S_FAILED])
          by (eapply F_in_progress_step; [exact Hip2|exact En]).
        destruct Hspec as [E|[E _]]; [|left; right; exact E]. rewrite E. rewrite E in Hns.
        simpl in Hn. unfold in_progress. simpl. intuition congruence.
      + left; left. rewrite Hspec. exact Hip2.
    - rewrite Hf2, F_failed_row_empty in Hspec. left; right. congruence. }
  (* the command is delivered first *)
  cbn [forM_] in E5. apply bind_val_inv' in E5. destruct E5 as [ca [[] [Ea E5]]].
  unfold uts_call in Ea. change (engine_event "fail") with (Some fail_event) in Ea.
  destruct (log_unreachable_run unr c3) as [c4' [E4' W4]]. rewrite E4 in E4'. inversion E4'; subst c4'. clear E4'.
  assert (G4 : c_graph c4 = c_graph c).
  { pose proof (pg_wf_task_event _ _ _ _ _ _ E3) as A. pose proof (pg_log_unreachable _ _ _ _ E4) as B. unfold Rg in *. congruence. }
  assert (Sa : In (wstatus (c_ws ca)) [S_FAILED; S_CANCELING; S_CANCELED]).
  { rewrite <- W4 in St3. destruct St3 as [St3|St3].
    - left. symmetry. eapply Hfail; [exact Ea| | | |exact St3].
      + rewrite G4. apply (so_inert _ _ Hso).
      + pose proof (pw_wf_task_event _ _ _ _ _ _ E3) as [A _]. pose proof (pw_log_unreachable _ _ _ _ E4) as [B _].
        apply B, A. rewrite F6. apply (wf_init _ W1).
      + unfold ws_task_idx. rewrite W4.
        assert (T3 : tasks (c_ws c3) = tasks (c_ws c2)).
        { unfold wf_task_event_M in E3. destruct (wf_process_task_event _ _ _ _ _) as [[nw un]|x]; inversion E3; reflexivity. }
        rewrite T3, F1.
        destruct (queue_kinds ev Hev _ _ _ _ _ _ _ _ _ _ Hqueue W1) with (p := ("fail", rt)) as [e' [He' [Hde' [[Q1 Q2]|Q]]]];
          [rewrite K5, K6; exact Hso|rewrite K6; exact Hts|exact Hroute1|exact Hidx1|left; reflexivity| |].
        * simpl in Q1, Hde'. subst rt. rewrite <- Hde'.
          assert (X : ws_task_idx (c_ws c1) (e_dst e') route = None); [|exact X].
          unfold ws_task_idx. rewrite K1. apply Hunv. rewrite <- Ke. unfold cmd_edges_on_route. apply filter_In. split; [exact He'|].
          rewrite Hde', Q2. reflexivity.
        * simpl in Q. destruct (aget tkey_eqb ("fail", rt) (tasks (c_ws c1))) as [i|] eqn:E; [|reflexivity].
          destruct (wf_ptr _ W1 _ _ E) as [_ Hlt]. simpl in Hlt. lia.
    - destruct Hrec as [_ Hreach]. pose proof (Hreach _ _ _ _ _ _ Ea) as R. unfold StatusReach.Rst in R.
      assert (St3' : In (wstatus (c_ws c4)) [S_CANCELING; S_CANCELED; S_FAILED]) by (simpl in St3 |- *; tauto).
      pose proof (reach_cancel_closed _ _ St3' R) as X. simpl in X. simpl. tauto. }
  (* what follows stays in the class *)
  assert (R5 : wf_reach (wstatus (c_ws ca)) (wstatus (c_ws c'))).
  { assert (R : StatusReach.Rst ca c5) by (eapply loop_reach; [exact Hrec|exact E5]).
    destruct Hend as [-> | ->]; [exact R|]. unfold StatusReach.Rst in *. cbn [c_ws set_ws]. rewrite ws_update_rec_status. exact R. }
  assert (Sa' : In (wstatus (c_ws ca)) [S_CANCELING; S_CANCELED; S_FAILED]) by (simpl in Sa |- *; tauto).
  pose proof (reach_cancel_closed _ _ Sa' R5) as X. simpl in X |- *. tauto.
Qed.

End WithEval.
