(* C02, last sentence, at the level of a whole update_task_state call: "a task failure with no matching transition,
   a fail command or a runtime error always ends in failed unless a cancellation is in progress".
   (a) a failure report that completes a plain task none of whose transitions is satisfied, with no retry left;
   (b) the engine's own call of the `fail` command.  (The runtime error is C11b.) *)
From Coq Require Import String List Bool ZArith Arith Lia.
From Orq Require Import GenStatuses GenEvents GenTables Base State Machines Conductor Api.
From Orq Require Import F_tables F_names Hoare ValuePost StatusReach C02C03Proofs C04Proofs InertProofs RetryProofs
  FrozenProofs NoInternalProofs SysProofs RecordedProofs LateProofs.
Import ListNotations.
Open Scope string_scope.
Open Scope monad_scope.

Definition in_progress (s : status) : Prop := In s [S_RUNNING; S_PAUSING; S_PAUSED; S_RESUMING].

Lemma F_failed_row_empty : forall n, tbl_step wf_table S_FAILED n = None.
Proof. intro n. reflexivity. Qed.

(* none of the task's transitions is recorded satisfied (`continue` does not count: it is no successor) *)
Definition unsatisfied (g : graph) (t : string) (r : trec) : Prop :=
  forall e, In e (g_next_transitions g t) ->
    e_dst e = "continue" \/ aget trid_eqb (e_dst e, e_key e) (r_next r) <> Some true.

Lemma has_next_unsatisfied : forall g w t route r b,
  ws_task_entry w t route = Some r -> unsatisfied g t r -> has_next g w t route b = false.
Proof.
  intros g w t route r b He Hu. unfold has_next. rewrite He.
  destruct (negb (ostatus_in (r_status r) COMPLETED_STATUSES)); [reflexivity|].
  apply not_true_is_false. intro Hex. apply existsb_exists in Hex. destruct Hex as [e [Hin He']].
  destruct (Hu e Hin) as [Hc|Hn].
  - rewrite Hc in He'. simpl in He'. discriminate.
  - destruct (String.eqb (e_dst e) "continue"); [discriminate|].
    destruct (aget trid_eqb (e_dst e, e_key e) (r_next r)) as [[|]|]; try discriminate. apply Hn; reflexivity.
Qed.

Section WithEval.
Variable ev : string -> dict -> evalres.

(* the engine's delivery of queued commands keeps a decided record, and moves the status along the table only *)
Definition rec_ok (rec : string -> nat -> event -> M unit) : Prop :=
  (forall i r0 n rt e, decided r0 -> is_engine_command n = true -> preserves (FrozenProofs.Rf i r0) (rec n rt e)) /\
  (forall n rt e, preserves StatusReach.Rst (rec n rt e)).
Lemma rec_ok_fuel : forall fuel, rec_ok (update_task_state_fuel ev fuel).
Proof.
  intro fuel. split.
  - intros i r0 n rt e Hd Hc ca cb rr Hr Hfa. eapply (uts_frozen_w i r0 Hd ev); [exact Hr|exact Hfa|]. right; left; exact Hc.
  - intros; apply pres_update_task_state_fuel.
Qed.
Lemma loop_frozen : forall rec i r0 q c c' res, rec_ok rec -> decided r0 -> Forall cmd_pair q ->
  forM_ q (uts_call rec) c = (c', res) -> Fz i r0 c -> Fz i r0 c'.
Proof.
  intros rec i r0 q c c' res [Hrec _] Hd Hq H.
  revert c c' res H. apply (preserves_forM_In _ (FrozenProofs.Rf_refl i r0) (FrozenProofs.Rf_trans i r0)).
  intros [n rt] Hin. unfold uts_call.
  destruct (engine_event n) as [e|]; [|apply (preserves_raise _ (FrozenProofs.Rf_refl i r0))].
  apply Hrec; [exact Hd|]. rewrite Forall_forall in Hq. exact (Hq _ Hin).
Qed.
Lemma loop_reach : forall rec q c c' res, rec_ok rec ->
  forM_ q (uts_call rec) c = (c', res) -> StatusReach.Rst c c'.
Proof.
  intros rec q c c' res [_ Hrec]. revert c c' res.
  apply (preserves_forM _ StatusReach.Rst_refl StatusReach.Rst_trans). intros [n rt]. unfold uts_call.
  destruct (engine_event n) as [e|]; [apply Hrec|apply (preserves_raise _ StatusReach.Rst_refl)].
Qed.

(* the tail after the transitions, taken apart *)
Lemma after_queue_inv : forall rec t route idx st q c c',
  (unreachable <- wf_task_event_M t route st ;;
   log_unreachable unreachable ;;;
   forM_ q (uts_call rec) ;;;
   w <- getws ;;
   if status_in (wstatus w) COMPLETED_STATUSES then upd_rec idx (fun r => r_set_term r true) else ret tt) c = (c', Val tt) ->
  exists c3 unr c4 c5,
    wf_task_event_M t route st c = (c3, Val unr) /\ log_unreachable unr c3 = (c4, Val tt) /\
    forM_ q (uts_call rec) c4 = (c5, Val tt) /\
    (c' = c5 \/ c' = set_ws c5 (ws_update_rec (c_ws c5) idx (fun r => r_set_term r true))).
Proof.
  intros rec t route idx st q c c' H.
  apply bind_val_inv' in H. destruct H as [c3 [unr [E3 H]]].
  apply bind_val_inv' in H. destruct H as [c4 [[] [E4 H]]].
  apply bind_val_inv' in H. destruct H as [c5 [[] [E5 H]]].
  apply bind_val_inv' in H. destruct H as [c6 [w [E6 H]]]. inversion E6; subst c6 w; clear E6.
  exists c3, unr, c4, c5. split; [exact E3|]. split; [exact E4|]. split; [exact E5|].
  destruct (status_in (wstatus (c_ws c5)) COMPLETED_STATUSES); [right|left]; inversion H; reflexivity.
Qed.

Lemma map_nth_same : forall A B (f : A -> B) l l' i a b, map f l' = map f l ->
  nth_error l i = Some a -> nth_error l' i = Some b -> f b = f a.
Proof.
  intros A B f l l' i a b Hm Ha Hb. apply (map_nth_error f) in Ha. apply (map_nth_error f) in Hb.
  rewrite Hm in Hb. congruence.
Qed.

(* (a) a failure report completes a plain task; no retry is left; none of its transitions is satisfied when the call
   returns: the workflow is failed *)
Theorem unremediated_failure_fails_call : forall t route st res ts idx r s c c' r',
  WF c -> in_progress (wstatus (c_ws c)) ->
  is_engine_command t = false -> g_has_task (c_graph c) t = true ->
  spec_get_task (c_spec c) t = Some ts -> task_has_items ts = false ->
  ws_task_idx (c_ws c) t route = Some idx -> nth_error (sequence (c_ws c)) idx = Some r ->
  r_status r = Some s -> In s [S_RUNNING; S_PAUSING; S_CANCELING] ->
  status_in st COMPLETED_STATUSES = true -> reported st = S_FAILED -> no_retry_left r ->
  update_task_state ev t route (EvAction st res) c = (c', Val tt) ->
  nth_error (sequence (c_ws c')) idx = Some r' -> unsatisfied (c_graph c) t r' ->
  wstatus (c_ws c') = S_FAILED.
Proof.
  intros t route st res ts idx r s c c' r' Wc Hip Hcmd Hg Hts Hit Hp Hr Hs Hin Hst Hrep Hnr H Hr' Hun.
  unfold update_task_state in H. rewrite uts_unfold in H.
  match type of H with uts_body _ ?rc _ _ _ _ = _ =>
    assert (Hrec : rec_ok rc) by apply rec_ok_fuel; generalize dependent rc; intros rec H Hrec end.
  rewrite body_eq in H.
  destruct (late_prefix ev t route st res ts idx r s c Wc (or_intror Hnr) Hcmd Hg Hts Hit Hp Hr Hs Hin Hst)
    as [c1 [ctx [E1 [K [Hr1 W1]]]]].
  rewrite (bind_step _ _ _ _ _ _ _ E1) in H. unfold tail_of in H. cbn [po_ts po_idx po_old po_new po_compl] in H.
  rewrite Hrep in H, Hr1. unfold uts_tail in H.
  destruct K as [K1 [_ [_ [K4 [K5 _]]]]].
  apply bind_val_inv' in H. destruct H as [c2 [q [E2 H]]].
  pose proof (vfr_queue ev _ _ _ _ _ _ _ _ _ _ E2) as [F1 [F2 [F3 [F4 _]]]].
  pose proof (queue_cmds ev _ _ _ _ _ _ _ _ _ _ E2) as Hq.
  apply bind_val_inv' in H. destruct H as [cx [r2 [Eg H]]]. apply get_rec_inv in Eg. destruct Eg as [-> Hr2].
  assert (Hs2 : r_status r2 = Some S_FAILED).
  { pose proof (map_nth_same _ _ sig _ _ _ _ _ F2 Hr1 Hr2) as E. unfold sig in E. inversion E. reflexivity. }
  rewrite Hs2 in H. rewrite (bind_step _ _ _ _ _ _ _ (eq_refl : ret S_FAILED c2 = (c2, Val S_FAILED))) in H.
  (* the record as the workflow machine sees it is the record at the end *)
  assert (Hd2 : decided r2) by (unfold decided; rewrite Hs2; reflexivity).
  destruct (after_queue_inv _ _ _ _ _ _ _ _ H) as [c3 [unr [c4 [c5 [E3 [E4 [E5 Hend]]]]]]]. clear H.
  assert (Fz5 : Fz idx r2 c5).
  { eapply (loop_frozen rec idx r2 q c4 c5 _ Hrec Hd2 Hq E5). eapply pfz_log_unreachable; [exact E4|].
    eapply pfz_wf_task_event; [exact E3|]. exists r2. split; [exact Hr2|apply sd_refl]. }
  assert (Fz' : Fz idx r2 c').
  { destruct Hend as [-> | ->]; [exact Fz5|].
    eapply (pfz_upd_term idx r2 idx true c5 _ (Val tt)); [reflexivity|exact Fz5]. }
  destruct Fz' as [r'' [Hr'' Hsd]].
  rewrite Hr' in Hr''. inversion Hr''; subst r''. clear Hr''.
  assert (Hnx : r_next r' = r_next r2) by (destruct Hsd as [_ [_ [_ [_ [_ [X _]]]]]]; exact X).
  assert (He2 : ws_task_entry (c_ws c2) t route = Some r2).
  { unfold ws_task_entry, ws_task_idx in *. rewrite F1, K1, Hp. exact Hr2. }
  assert (Hu2 : unsatisfied (c_graph c2) t r2).
  { intros e He. rewrite F4, K5 in He. destruct (Hun e He) as [A|A]; [left; exact A|right; rewrite <- Hnx; exact A]. }
  assert (Hf3 : wstatus (c_ws c3) = S_FAILED).
  { destruct F3 as [F3|F3].
    - eapply unremediated_failure_fails_workflow; [|apply (has_next_unsatisfied _ _ _ _ _ true He2 Hu2)
                                                    |apply (has_next_unsatisfied _ _ _ _ _ false He2 Hu2)|exact E3].
      rewrite F3, K4. exact Hip.
    - destruct (wf_task_event_M_spec _ _ _ _ _ _ E3) as [[e [He _]]|[u [_ Hspec]]]; [discriminate|].
      cbv zeta in Hspec. rewrite F3, F_failed_row_empty in Hspec. congruence. }
  assert (Hreach : wf_reach (wstatus (c_ws c3)) (wstatus (c_ws c'))).
  { assert (R5 : StatusReach.Rst c3 c5).
    { eapply StatusReach.Rst_trans; [eapply pres_log_unreachable; exact E4|eapply loop_reach; [exact Hrec|exact E5]]. }
    destruct Hend as [-> | ->]; [exact R5|]. unfold StatusReach.Rst in *. cbn [c_ws set_ws]. rewrite ws_update_rec_status. exact R5. }
  rewrite Hf3 in Hreach. apply reach_from_failed; exact Hreach.
Qed.

(* ... unless a cancellation is in progress: any call leaves a canceling / canceled workflow in that class or failed *)
Theorem call_keeps_cancel_class : forall t route evt c c' res,
  In (wstatus (c_ws c)) [S_CANCELING; S_CANCELED] -> update_task_state ev t route evt c = (c', res) ->
  In (wstatus (c_ws c')) [S_CANCELING; S_CANCELED; S_FAILED].
Proof.
  intros t route evt c c' res Hc H. pose proof (pres_update_task_state ev _ _ _ _ _ _ H) as Hreach.
  eapply reach_cancel_closed; [|exact Hreach]. destruct Hc as [<-|[<-|[]]]; simpl; tauto.
Qed.

(* ------------------------------------------------------------------ (b) the engine's call of the `fail` command *)

(* the workflow status stays what it was or becomes failed: true of everything a call does before the workflow
   machine's step (the engine's only status request there is the request to fail) *)
Definition stay (s0 : status) (c : cstate) : Prop := wstatus (c_ws c) = s0 \/ wstatus (c_ws c) = S_FAILED.

Ltac dns :=
  unfold stay in *; cbn [c_ws set_ws wstatus ws_set_contexts ws_set_routes ws_set_staged ws_add_staged ws_set_sequence ws_set_tasks
                         set_init set_errors];
  rewrite ?ws_update_rec_status, ?ws_remove_staged_status;
  first [ assumption
        | match goal with |- context [if ?b then _ else _] => destruct b end; assumption ].
Ltac qt := exact Logic.I.

Section Stay.
Variable s0 : status.
Hypothesis Hs0 : in_progress s0 \/ s0 = S_FAILED.
Let T := fun (_ : cstate) (_ : exn) => True.

Lemma stay_lifecycle : forall c, stay s0 c -> RecordedProofs.lifecycle c /\ wstatus (c_ws c) <> S_CANCELED.
Proof.
  intros c [E|E]; unfold RecordedProofs.lifecycle; rewrite E.
  - destruct Hs0 as [[<-|[<-|[<-|[<-|[]]]]]| ->]; (split; [vm_compute; tauto|discriminate]).
  - split; [vm_compute; tauto|discriminate].
Qed.

Lemma hx_stay_rsc : hx (stay s0) T (request_status_core S_FAILED).
Proof.
  intros c c' r Hst H. destruct (stay_lifecycle c Hst) as [Hl Hnc].
  destruct (RecordedProofs.fail_request c c' r Hl H) as [_ [_ [[A _]|[_ [A _]]]]]; [contradiction|].
  split; [right; exact A|intros; exact Logic.I].
Qed.

Lemma hx_stay_evaluate : forall stmt ctx, hx (stay s0) T (evaluate ev stmt ctx).
Proof. intros. apply hx_pure; [apply evaluate_pure|intros; exact Logic.I]. Qed.

Lemma hx_stay_log_error : forall e t r tr, hx (stay s0) T (log_error e t r tr).
Proof. intros. unfold log_error, log_entry_error. apply hx_modify. intros c Hc. cbv zeta. destruct (existsb _ _); exact Hc. Qed.

Lemma hx_stay_render_input : forall specs rt rolling errs, hx (stay s0) T (render_input ev specs rt rolling errs).
Proof.
  induction specs as [|[n d] specs IH]; intros; simpl; [apply hx_ret|].
  apply hx_bind.
  - apply hx_try_catch_expr; [|intro; apply hx_ret].
    apply hx_bind; [eapply hx_weaken; [|apply hx_stay_evaluate]; intros; right; exact Logic.I|intro; apply hx_ret].
  - intros [x|e]; apply IH.
Qed.
Lemma hx_stay_render_vars : forall specs rolling rendered errs, hx (stay s0) T (render_vars ev specs rolling rendered errs).
Proof.
  induction specs as [|[n d] specs IH]; intros; simpl; [apply hx_ret|].
  apply hx_bind.
  - apply hx_try_catch_expr; [|intro; apply hx_ret].
    apply hx_bind; [eapply hx_weaken; [|apply hx_stay_evaluate]; intros; right; exact Logic.I|intro; apply hx_ret].
  - intros [x|e]; apply IH.
Qed.

Ltac sleaf := first [apply hx_stay_rsc|apply hx_stay_evaluate|apply hx_stay_log_error|apply hx_stay_render_input|apply hx_stay_render_vars].

Lemma hx_stay_try : forall A (m : M A) h, hx (stay s0) T m -> (forall e, hx (stay s0) T (h e)) -> hx (stay s0) T (try_catch m h).
Proof. intros A m h Hm Hh. apply (hx_try_catch (stay s0) T T); assumption. Qed.

Lemma hx_stay_ensure_ws : hx (stay s0) T (ensure_ws ev).
Proof. unfold ensure_ws, log_errors. hxw qt dns sleaf. Qed.
Lemma hx_stay_setup_retry : forall t idxs, hx (stay s0) T (setup_retry ev t idxs).
Proof. intros; unfold setup_retry, get_task_context. hxw qt dns sleaf. Qed.
Lemma hx_stay_add_task_state : forall t r i p, hx (stay s0) T (add_task_state ev t r i p).
Proof.
  intros; unfold add_task_state.
  apply hx_bind; [apply hx_get|intro c0]. destruct (negb (g_has_task (c_graph c0) t)); [apply hx_raise; intros; exact Logic.I|].
  cbv zeta. apply hx_bind.
  - destruct (g_task_has_retry (c_graph c0) t); [|apply hx_ret].
    apply hx_stay_try; [apply hx_bind; [apply hx_stay_setup_retry|intro; apply hx_ret]|intro x].
    hxw qt dns sleaf.
  - intro retry. hxw qt dns sleaf.
Qed.
Lemma hx_stay_evaluate_task_retry : forall r ctx, hx (stay s0) T (evaluate_task_retry ev r ctx).
Proof. intros; unfold evaluate_task_retry. hxw qt dns sleaf. Qed.
Lemma hx_stay_completion : forall t route evt ts idx n o, hx (stay s0) T (uts_completion ev t route evt ts idx n o).
Proof.
  intros; unfold uts_completion, get_rec, get_task_context.
  destruct (status_in n COMPLETED_STATUSES); [|apply hx_ret].
  apply hx_bind; [hxw qt dns sleaf|intros _]. cbv zeta.
  apply hx_bind; [hxw qt dns sleaf|intro r]. apply hx_bind; [hxw qt dns sleaf|intro in_ctx].
  apply hx_bind; [apply hx_getws|intro w].
  apply hx_bind; [|intro; apply hx_ret].
  apply hx_stay_try; [destruct (_ && _ && _); [apply hx_stay_evaluate_task_retry|apply hx_ret]|intro x; hxw qt dns sleaf].
Qed.
Lemma hx_stay_prefix : forall t route evt, hx (stay s0) T (uts_prefix ev t route evt).
Proof.
  intros; unfold uts_prefix, pre_main, pre_machine, uts_sel1, uts_sel2, uts_need_staged, uts_unstage, uts_item, uts_logfail,
    uts_setst, uts_retrying, set_rec_status, upd_rec, get_rec, log_entry_error.
  hxw qt dns ltac:(first [apply hx_stay_ensure_ws|apply hx_stay_add_task_state|apply hx_stay_completion|sleaf]).
Qed.
End Stay.

Lemma has_next_inert : forall g w n rt b, g_next_transitions g n = [] -> has_next g w n rt b = false.
Proof.
  intros g w n rt b H. unfold has_next. destruct (ws_task_entry w n rt) as [r|]; [|reflexivity].
  destruct (negb _); [reflexivity|]. rewrite H. reflexivity.
Qed.

Lemma map_nth_exists : forall A B (f : A -> B) l l' i a, map f l' = map f l ->
  nth_error l i = Some a -> exists b, nth_error l' i = Some b /\ f b = f a.
Proof.
  intros A B f l l' i a Hm Ha. pose proof (map_nth_error f _ _ Ha) as Ha'. rewrite <- Hm in Ha'.
  destruct (nth_error l' i) as [b|] eqn:E.
  - exists b. split; [reflexivity|]. apply (map_nth_error f) in E. congruence.
  - apply nth_error_None in E. assert (nth_error (map f l') i = None) by (apply nth_error_None; rewrite map_length; exact E). congruence.
Qed.

Definition fail_event : event := EvEngine "task_fail_requested" S_FAILED.

(* the `fail` command, delivered by the engine to a workflow in progress (or already failed), for a (command, route)
   that has no record yet: when the call returns, the workflow is failed *)
Theorem fail_command_call_fails : forall fuel rt c c',
  graph_commands_inert (c_graph c) -> c_init c = true -> ws_task_idx (c_ws c) "fail" rt = None ->
  (in_progress (wstatus (c_ws c)) \/ wstatus (c_ws c) = S_FAILED) ->
  update_task_state_fuel ev (S fuel) "fail" rt fail_event c = (c', Val tt) ->
  wstatus (c_ws c') = S_FAILED.
Proof.
  intros fuel rt c c' Hin Hi Hno Hs0 H. rewrite uts_unfold, body_eq in H.
  apply bind_val_inv' in H. destruct H as [c1 [p [Ep H]]].
  assert (Hcmd : is_engine_command "fail" = true) by reflexivity.
  destruct (Hin "fail" Hcmd) as [Htr Hnr].
  destruct (hx_stay_prefix (wstatus (c_ws c)) Hs0 "fail" rt fail_event c c1 (Val p) (or_introl eq_refl) Ep) as [St1 _].
  pose proof (pg_prefix ev _ _ _ _ _ _ Ep) as G1. unfold Rg in G1.
  (* the record is new and the command's event takes it to failed *)
  destruct (prefix_to_machine ev _ _ _ _ _ _ Ep) as [cE [ts [idx [c3 [r [EE [Em [_ [Hr3 [_ Hd]]]]]]]]]].
  rewrite (ensure_ws_inited ev c Hi) in EE. inversion EE; subst cE; clear EE.
  destruct Hd as [[Hx _]|[Hnone _]]; [rewrite Hno in Hx; discriminate|].
  destruct (pre_machine_inv ev _ _ _ _ _ _ _ _ Em) as [r' [ns [cA [cB [HrA [Hns [_ [HnA [_ [_ [ER [EC [_ [Hpi [_ Hpn]]]]]]]]]]]]]]].
  rewrite Hr3 in HrA; inversion HrA; subst r'; clear HrA.
  assert (Ens : ns = Some S_FAILED).
  { unfold task_process_event, fail_event, rstatus in Hns. rewrite Hnone in Hns. vm_compute in Hns. inversion Hns; reflexivity. }
  subst ns.
  pose proof (vfr_retrying _ _ _ _ _ _ _ _ ER) as [_ [FR _]].
  pose proof (vfr_completion ev _ _ _ _ _ _ _ _ _ _ EC) as [_ [FC _]].
  destruct (map_nth_exists _ _ sig _ _ _ _ FR HnA) as [rB [HrB SB]].
  destruct (map_nth_exists _ _ sig _ _ _ _ FC HrB) as [r1 [Hr1 S1]].
  assert (Hs1 : r_status r1 = Some S_FAILED) by (unfold sig in SB, S1; inversion SB; inversion S1; congruence).
  (* the tail: nothing queued, the workflow machine's step, nothing after it *)
  unfold tail_of in H. rewrite Hpi in H. unfold uts_tail in H.
  assert (Hb : forall ctx b, po_compl p = Some (ctx, b) -> b = false)
    by (intros ctx b Hc; exact (prefix_cmd_no_retry ev _ _ _ _ _ _ Hcmd Hnr Ep ctx b Hc)).
  assert (Rest : (queue <- uts_queue ev "fail" rt idx (po_ts p) (po_old p) (po_new p) (po_compl p) ;;
                  r <- get_rec idx ;;
                  st <- (match r_status r with Some s => ret s | None => raise (exn_key "status") end) ;;
                  unreachable <- wf_task_event_M "fail" rt st ;;
                  log_unreachable unreachable ;;;
                  forM_ queue (uts_call (update_task_state_fuel ev fuel)) ;;;
                  w <- getws ;;
                  if status_in (wstatus w) COMPLETED_STATUSES then upd_rec idx (fun r => r_set_term r true) else ret tt) c1
                 = (c', Val tt)).
  { destruct (po_compl p) as [[ctx b]|] eqn:Ec; [|exact H]. rewrite (Hb ctx b eq_refl) in H. exact H. }
  clear H. apply bind_val_inv' in Rest. destruct Rest as [c2 [q [E2 H]]].
  assert (Hq : q = []) by (eapply queue_nil; [exact E2|right; rewrite G1; exact Htr]). subst q.
  pose proof (vfr_queue ev _ _ _ _ _ _ _ _ _ _ E2) as [_ [F2 [F3 [F4 _]]]].
  apply bind_val_inv' in H. destruct H as [cx [r2 [Eg H]]]. apply get_rec_inv in Eg. destruct Eg as [-> Hr2].
  assert (Hs2 : r_status r2 = Some S_FAILED).
  { pose proof (map_nth_same _ _ sig _ _ _ _ _ F2 Hr1 Hr2) as E. unfold sig in E. inversion E. congruence. }
  rewrite Hs2 in H. rewrite (bind_step _ _ _ _ _ _ _ (eq_refl : ret S_FAILED c2 = (c2, Val S_FAILED))) in H.
  destruct (after_queue_inv _ _ _ _ _ _ _ _ H) as [c3' [unr [c4 [c5 [E3 [E4 [E5 Hend]]]]]]]. clear H.
  assert (Hf3 : wstatus (c_ws c3') = S_FAILED).
  { assert (St2 : stay (wstatus (c_ws c)) c2) by (destruct F3 as [F3|F3]; [unfold stay in *; rewrite F3; exact St1|right; exact F3]).
    assert (Htr2 : g_next_transitions (c_graph c2) "fail" = []) by (rewrite F4, G1; exact Htr).
    assert (Fails : in_progress (wstatus (c_ws c2)) -> wstatus (c_ws c3') = S_FAILED).
    { intro Hip. eapply unremediated_failure_fails_workflow; [exact Hip|apply has_next_inert; exact Htr2|apply has_next_inert; exact Htr2|exact E3]. }
    assert (Stays : wstatus (c_ws c2) = S_FAILED -> wstatus (c_ws c3') = S_FAILED).
    { intro E. destruct (wf_task_event_M_spec _ _ _ _ _ _ E3) as [[e [He _]]|[u [_ Hspec]]]; [discriminate|].
      cbv zeta in Hspec. rewrite E, F_failed_row_empty in Hspec. congruence. }
    destruct St2 as [E|E]; [|apply Stays; exact E].
    destruct Hs0 as [Hip|Hf]; [apply Fails; rewrite E; exact Hip|apply Stays; rewrite E; exact Hf]. }
  assert (Hreach : wf_reach (wstatus (c_ws c3')) (wstatus (c_ws c'))).
  { assert (R5 : StatusReach.Rst c3' c5).
    { eapply StatusReach.Rst_trans; [eapply pres_log_unreachable; exact E4|]. cbn [forM_] in E5. inversion E5; subst. apply StatusReach.Rst_refl. }
    destruct Hend as [-> | ->]; [exact R5|]. unfold StatusReach.Rst in *. cbn [c_ws set_ws]. rewrite ws_update_rec_status. exact R5. }
  rewrite Hf3 in Hreach. apply reach_from_failed; exact Hreach.
Qed.

(* ------------------------------------------------------------------ the siblings of a queued `fail` *)

Definition flag (s : stg) : stg := s_set_run_on_fail s true.
Definition flagged (l : list stg) (k : string * nat) : Prop :=
  forall s, find (stg_matches (fst k) (snd k)) l = Some s -> s_run_on_fail s = true.

Lemma find_update_same : forall n rt l s, find (stg_matches n rt) l = Some s ->
  find (stg_matches n rt) (staged_update flag n rt l) = Some (flag s).
Proof.
  intros n rt l; induction l as [|x l IH]; intros s H; simpl in *; [discriminate|].
  destruct (stg_matches n rt x) eqn:E.
  - inversion H; subst. simpl. unfold stg_matches, flag in *. simpl. rewrite E. reflexivity.
  - simpl. rewrite E. apply IH; exact H.
Qed.
Lemma find_update_any : forall n rt n' rt' l s', find (stg_matches n' rt') (staged_update flag n rt l) = Some s' ->
  exists s, find (stg_matches n' rt') l = Some s /\ (s' = s \/ s' = flag s).
Proof.
  intros n rt n' rt' l; induction l as [|x l IH]; intros s' H; simpl in *; [discriminate|].
  destruct (stg_matches n rt x) eqn:E.
  - simpl in H. assert (M : stg_matches n' rt' (flag x) = stg_matches n' rt' x) by reflexivity. rewrite M in H.
    destruct (stg_matches n' rt' x); [inversion H; subst; exists x; split; [reflexivity|right; reflexivity]|].
    exists s'. split; [exact H|left; reflexivity].
  - simpl in H. destruct (stg_matches n' rt' x); [inversion H; subst; exists s'; split; [reflexivity|left; reflexivity]|].
    apply IH; exact H.
Qed.

Lemma flag_loop : forall (l D : list (string * nat)) c c' r,
  forM_ l (fun '(n, rt) => modws (fun w => ws_set_staged w (staged_update (fun s => s_set_run_on_fail s true) n rt (staged w)))) c = (c', r) ->
  (forall k, In k D -> flagged (staged (c_ws c)) k) ->
  r = Val tt /\ (forall k, In k (app D l) -> flagged (staged (c_ws c')) k) /\ sequence (c_ws c') = sequence (c_ws c) /\
  wstatus (c_ws c') = wstatus (c_ws c).
Proof.
  induction l as [|[n rt] l IH]; intros D c c' r H HD.
  - inversion H; subst. rewrite app_nil_r. repeat split; auto.
  - cbn [forM_] in H. unfold bind at 1, modws at 1 in H. cbv beta iota in H.
    match type of H with forM_ _ _ ?cz = _ => set (c1 := cz) in * end.
    destruct (IH (app D [(n, rt)]) c1 c' r H) as [A [B [C E]]].
    + intros k Hk. apply in_app_or in Hk. unfold c1; cbn [c_ws set_ws staged ws_set_staged].
      intros s' Hs'. change (fun s => s_set_run_on_fail s true) with flag in Hs'.
      destruct Hk as [Hk|[<-|[]]].
      * destruct (find_update_any _ _ _ _ _ _ Hs') as [s [Hs [->| ->]]]; [apply (HD k Hk); exact Hs|reflexivity].
      * cbn [fst snd] in Hs'. destruct (find_update_any _ _ _ _ _ _ Hs') as [s [Hs _]].
        rewrite (find_update_same _ _ _ _ Hs) in Hs'. inversion Hs'; reflexivity.
    + split; [exact A|]. split; [intros k Hk; apply B; rewrite <- app_assoc; exact Hk|]. split; [exact C|exact E].
Qed.

(* when `fail` is among the commands the transitions queue, every sibling the same completion staged ready (the
   second components of the transitions' results) is flagged run_on_fail when the queue is returned *)
Theorem fail_flags_siblings : forall t route idx ts o n ctx b c c' q rt,
  uts_queue ev t route idx ts o n (Some (ctx, b)) c = (c', Val q) -> In ("fail", rt) q ->
  exists c1 c2 rs,
    mapM (process_transition ev t route idx ts ctx) (g_next_transitions (c_graph c) t) c1 = (c2, Val rs) /\
    q = flat_map (fun '(x, _) => match x with Some y => [y] | None => [] end) rs /\
    forall k, In k (flat_map (fun '(_, x) => match x with Some y => [y] | None => [] end) rs) ->
      flagged (staged (c_ws c')) k.
Proof.
  intros t route idx ts o n ctx b c c' q rt H Hin. unfold uts_queue in H.
  destruct (negb (status_eqb n o)); [|inversion H; subst; destruct Hin].
  apply bind_val_inv' in H. destruct H as [c0 [cst [E0 H]]]. inversion E0; subst c0 cst; clear E0. cbv zeta in H.
  apply bind_val_inv' in H. destruct H as [c1 [u1 [_ H]]].
  apply bind_val_inv' in H. destruct H as [c2 [rs [E2 H]]].
  apply bind_val_inv' in H. destruct H as [c3 [u3 [E3 H]]].
  apply bind_val_inv' in H. destruct H as [c4 [r4 [Eg H]]]. apply get_rec_inv in Eg. destruct Eg as [-> _].
  apply bind_val_inv' in H. destruct H as [c5 [u5 [E5 H]]]. inversion H; subst c' q; clear H.
  exists c1, c2, rs. split; [exact E2|]. split; [reflexivity|].
  assert (Hex : existsb (fun '(n0, _) => String.eqb n0 "fail")
                  (flat_map (fun '(x, _) => match x with Some y => [y] | None => [] end) rs) = true).
  { apply existsb_exists. exists ("fail", rt). split; [exact Hin|reflexivity]. }
  rewrite Hex in E3.
  destruct (flag_loop _ [] _ _ _ E3) as [_ [B _]]; [intros k []|]. simpl in B.
  assert (S5 : staged (c_ws c5) = staged (c_ws c3)).
  { destruct (g_next_transitions (c_graph c) t); [inversion E5; reflexivity|].
    destruct (existsb _ (r_next r4)); [inversion E5; reflexivity|].
    unfold upd_rec, modws in E5. inversion E5; subst. cbn [c_ws set_ws]. apply staged_update_rec. }
  intros k Hk. rewrite S5. apply B; exact Hk.
Qed.

End WithEval.
