(* FrozenProofs.v -- C18, second half: a task execution record whose status is completed at an API
   boundary ("decided": the call that completed it has evaluated its outbound transitions, or was a
   retry that reopened it before doing so) keeps its status, its transition decisions (r_next), its
   published-context reference (r_out), its inbound contexts, predecessors, id, route and retry
   bookkeeping through every later API call -- only the "terminal" flag r_term may still change.

   This is FALSE without a hypothesis: a late duplicate completion report re-runs the retry decision
   on the decided record and, when the task has retries left, reopens it (witnesses at the end of
   the file; replayed on the engine).  The theorem therefore asks, per event, for one of:
   the event does not address the decided record; it addresses an engine command; it addresses
   the record as a new start of a task staged again and not flagged completed (a loop iteration: a
   NEW record is appended); or the
   record has no retry left and the event is not the engine's internal retry event. *)
From Coq Require Import String List Bool ZArith Arith Lia.
From Orq Require Import GenStatuses GenEvents GenTables GenSpecMeta Base State Machines Codec Conductor Decode Api.
From Orq Require Import F_tables Hoare ValuePost C13Proofs C05Proofs C18Proofs RetryProofs InertProofs.
Import ListNotations.
Open Scope string_scope.
Open Scope monad_scope.

(* ------------------------------------------------------------------ notions *)

Definition decided (r : trec) : Prop := ostatus_in (r_status r) COMPLETED_STATUSES = true.

(* everything but r_term *)
Definition same_decided (r r' : trec) : Prop :=
  r_id r' = r_id r /\ r_route r' = r_route r /\ r_in r' = r_in r /\ r_prev r' = r_prev r /\
  r_status r' = r_status r /\ r_next r' = r_next r /\ r_out r' = r_out r /\ r_retry r' = r_retry r.

Lemma sd_refl : forall r, same_decided r r.
Proof. intro; repeat split. Qed.
Lemma sd_trans : forall a b c, same_decided a b -> same_decided b c -> same_decided a c.
Proof. unfold same_decided; intros a b c H1 H2; intuition congruence. Qed.

(* the record still has a retry to spend *)
Definition retry_open (r : trec) : Prop :=
  exists rr, r_retry r = Some rr /\ py_is_int (rr_count rr) = true /\
             (Z.of_nat (rr_tally rr) < py_int_value (rr_count rr))%Z.

(* the engine's internal retry event (never sent by a provider) *)
Definition is_retry_event (e : event) : bool :=
  match e with EvEngine n _ => String.eqb n EV_TASK_RETRY_REQUESTED | _ => false end.

Lemma provider_event_not_retry : forall e, provider_event e = true -> is_retry_event e = false.
Proof. intros [st|st r|it st r a|n st] H; simpl in *; try reflexivity; discriminate. Qed.

(* ------------------------------------------------------------------ finite facts *)

Lemma F_active_not_completed : forall s, status_in s ACTIVE_STATUSES = true ->
  status_in s COMPLETED_STATUSES = true -> False.
Proof. intros s; destruct s; vm_compute; intros; discriminate. Qed.

Lemma F_completed_not_retrying : forall s, status_in s COMPLETED_STATUSES = true -> status_eqb s S_RETRYING = false.
Proof. intros s; destruct s; vm_compute; intros; try reflexivity; discriminate. Qed.

(* a completed status is left only by the retry event *)
Lemma F_completed_step : forall s e t, status_in s COMPLETED_STATUSES = true ->
  tbl_step task_table s e = Some t -> e = EV_TASK_RETRY_REQUESTED.
Proof.
  intros s e t Hs H. apply status_in_In in Hs.
  pose proof (F_task_completed_final _ _ _ Hs H) as Ht. subst t.
  apply F_task_retrying_only_by_retry in H. tauto.
Qed.

Lemma prefix_literal_neq : forall p x q, String.get 0 p <> String.get 0 q -> String.get 0 p <> None ->
  (p ++ x)%string <> q.
Proof.
  intros p x q Hne Hn E. apply Hne. rewrite <- E. destruct p as [|a p]; [exfalso; apply Hn; reflexivity|reflexivity].
Qed.

Lemma append_assoc : forall a b c : string, ((a ++ b) ++ c = a ++ (b ++ c))%string.
Proof. induction a as [|x a IH]; intros; simpl; [reflexivity|rewrite IH; reflexivity]. Qed.

Lemma item_event_name_not_retry : forall w t route item st n,
  item_event_name w t route item st = Val n -> n <> EV_TASK_RETRY_REQUESTED.
Proof.
  intros w t route item st n H. unfold item_event_name in H.
  assert (B : forall x, ((ACTION_EVENT_PREFIX ++ status_name st) ++ x)%string <> EV_TASK_RETRY_REQUESTED).
  { intro x. rewrite append_assoc. apply prefix_literal_neq; vm_compute; congruence. }
  assert (B0 : (ACTION_EVENT_PREFIX ++ status_name st)%string <> EV_TASK_RETRY_REQUESTED)
    by (apply prefix_literal_neq; vm_compute; congruence).
  destruct (negb (status_in st item_requirements)); [inversion H; subst; exact B0|].
  destruct (get_staged_task w t route) as [s|]; [|inversion H; subst; exact B0].
  destruct (s_items s) as [items|]; [|inversion H; subst; exact B0].
  destruct (negb (Nat.ltb item (length items))); [discriminate H|].
  cbv zeta in H.
  repeat match type of H with
         | (if ?b then _ else _) = _ => destruct b
         end; inversion H; subst; rewrite append_assoc; apply B.
Qed.

(* the task machine leaves a completed record alone unless it is handed the retry event *)
Lemma completed_step_none : forall w r evt ns, ostatus_in (r_status r) COMPLETED_STATUSES = true ->
  is_retry_event evt = false -> task_process_event w r evt = Val ns -> ns = None.
Proof.
  intros w r evt ns Hc Hn H.
  assert (Hs : status_in (rstatus r) COMPLETED_STATUSES = true).
  { unfold rstatus. destruct (r_status r); [exact Hc|discriminate]. }
  assert (G : forall n, task_table_step (rstatus r) n = Val ns -> n <> EV_TASK_RETRY_REQUESTED -> ns = None).
  { intros n Hstep Hne. apply task_table_step_val in Hstep. destruct ns as [s|]; [|reflexivity].
    exfalso. apply Hne. eapply F_completed_step; eassumption. }
  unfold task_process_event in H. destruct evt as [st|st res|item st res acc|n st].
  - destruct (negb _); [discriminate|]. eapply G; [exact H|].
    unfold task_workflow_event_name.
    assert (B : forall x, ((WORKFLOW_EVENT_PREFIX ++ status_name st) ++ x)%string <> EV_TASK_RETRY_REQUESTED).
    { intro x. rewrite append_assoc. apply prefix_literal_neq; vm_compute; congruence. }
    assert (B0 : (WORKFLOW_EVENT_PREFIX ++ status_name st)%string <> EV_TASK_RETRY_REQUESTED)
      by (apply prefix_literal_neq; vm_compute; congruence).
    destruct (status_in st (app PAUSE_STATUSES CANCEL_STATUSES)); [|exact B0].
    destruct (get_staged_task w (r_id r) (r_route r)) as [s|]; [|exact B0].
    destruct (s_items s); [|exact B0]. rewrite append_assoc. apply B.
  - destruct (negb _); [discriminate|]. eapply G; [exact H|].
    cbn [ev_name]. apply prefix_literal_neq; vm_compute; congruence.
  - destruct (negb _); [discriminate|].
    destruct (item_event_name w (r_id r) (r_route r) item st) as [n|x] eqn:En; [|discriminate].
    eapply G; [exact H|]. eapply item_event_name_not_retry; exact En.
  - destruct (negb _); [discriminate|]. eapply G; [exact H|].
    cbn [ev_name]. simpl in Hn. intro E. subst n. rewrite String.eqb_refl in Hn. discriminate.
Qed.

(* ------------------------------------------------------------------ "only these indices change" *)

Definition Rmod (J : list nat) (c c' : cstate) : Prop :=
  forall k, ~ In k J -> nth_error (sequence (c_ws c')) k = nth_error (sequence (c_ws c)) k.
Lemma Rmod_refl : forall J c, Rmod J c c.
Proof. intros J c k _; reflexivity. Qed.
Lemma Rmod_trans : forall J a b c, Rmod J a b -> Rmod J b c -> Rmod J a c.
Proof. intros J a b c H1 H2 k Hk. rewrite (H2 k Hk). apply H1; exact Hk. Qed.

Lemma Rmod_same_seq : forall J c c', sequence (c_ws c') = sequence (c_ws c) -> Rmod J c c'.
Proof. intros J c c' H k _; rewrite H; reflexivity. Qed.

Lemma Rmod_update : forall J c j f, In j J -> Rmod J c (set_ws c (ws_update_rec (c_ws c) j f)).
Proof.
  intros J c j f Hj k Hk. cbn [c_ws set_ws]. apply nth_update_rec_other. intro E; subst; contradiction.
Qed.

Lemma pmod_set_rec_status : forall J j s, In j J -> preserves (Rmod J) (set_rec_status j s).
Proof. intros J j s Hj. unfold set_rec_status. apply (preserves_modws (Rmod J)). intro c. apply Rmod_update; exact Hj. Qed.

Lemma pmod_wf_workflow_event : forall J st, preserves (Rmod J) (wf_workflow_event_M st).
Proof.
  intros J st c c' r H. unfold wf_workflow_event_M in H.
  destruct (wf_process_workflow_event (c_graph c) (c_ws c) st) as [[new unr]|e]; inversion H; subst;
    [apply Rmod_same_seq; reflexivity|apply Rmod_refl].
Qed.

Lemma pmod_log_unreachable : forall J l, preserves (Rmod J) (log_unreachable l).
Proof.
  intros J l c c' r H. destruct (log_unreachable_run l c) as [c1 [H1 W1]]. rewrite H1 in H; inversion H; subst.
  apply Rmod_same_seq. rewrite W1. reflexivity.
Qed.

(* a status request rewrites statuses of records that were active when it began, nothing else *)
Lemma pmod_request_status_core : forall st c c' r, request_status_core st c = (c', r) ->
  Rmod (map fst (ws_tasks_by_status (c_ws c) ACTIVE_STATUSES)) c c'.
Proof.
  intros st c c' r H. rewrite request_status_core_eq in H.
  remember (ws_tasks_by_status (c_ws c) ACTIVE_STATUSES) as active eqn:Ea.
  set (J := map fst active).
  assert (HJ : forall j rj, In (j, rj) active -> In j J)
    by (intros j rj Hin; apply in_map_iff; exists (j, rj); split; [reflexivity|exact Hin]).
  assert (P : preserves (Rmod J) (bind (forM_ active (push_body st))
                                       (fun _ => request_tail st (wstatus (c_ws c)) active))).
  { apply (preserves_bind _ (Rmod_trans J)).
    - apply (preserves_forM_In _ (Rmod_refl J) (Rmod_trans J)). intros [j rj] Hin. unfold push_body.
      apply (preserves_bind _ (Rmod_trans J)); [apply (preserves_getws _ (Rmod_refl J))|intro w].
      destruct (nth_error (sequence w) j); [|apply (preserves_ret _ (Rmod_refl J))].
      apply (preserves_bind _ (Rmod_trans J)); [apply (preserves_lift_res _ (Rmod_refl J))|intros [s|]].
      + apply pmod_set_rec_status. eapply HJ; exact Hin.
      + apply (preserves_ret _ (Rmod_refl J)).
    - intros _. unfold request_tail.
      apply (preserves_bind _ (Rmod_trans J)); [apply pmod_wf_workflow_event|intro unr].
      apply (preserves_bind _ (Rmod_trans J)); [apply pmod_log_unreachable|intros _].
      apply (preserves_bind _ (Rmod_trans J)); [apply (preserves_getws _ (Rmod_refl J))|intro w1]. cbv zeta.
      repeat match goal with |- preserves _ (if ?b then _ else _) => destruct b end;
        try apply (preserves_ret _ (Rmod_refl J)).
      apply (preserves_bind _ (Rmod_trans J)); [|intros _; apply (preserves_raise _ (Rmod_refl J))].
      apply (preserves_forM_In _ (Rmod_refl J) (Rmod_trans J)). intros [j rj] Hin.
      apply pmod_set_rec_status. eapply HJ; exact Hin. }
  exact (P c c' r H).
Qed.

(* ------------------------------------------------------------------ the pointer map is kept *)

Definition Rtk (c c' : cstate) : Prop := tasks (c_ws c') = tasks (c_ws c).
Lemma Rtk_refl : forall c, Rtk c c.
Proof. intro; reflexivity. Qed.
Lemma Rtk_trans : forall a b c, Rtk a b -> Rtk b c -> Rtk a c.
Proof. unfold Rtk; intros; congruence. Qed.

Section TasksKept.
Variable ev : string -> dict -> evalres.

Ltac leaftk :=
  first
    [ apply (preserves_modws Rtk); intro; unfold Rtk; simpl; first [reflexivity|apply tasks_update_rec|apply tasks_remove_staged]
    | apply (preserves_modify Rtk); intro; unfold Rtk; simpl; reflexivity
    | apply (preserves_modify Rtk); intro; unfold Rtk;
      match goal with |- context [if ?b then _ else _] => destruct b end; reflexivity
    | assumption
    | match goal with IH : forall _ _ _ _, preserves _ _ |- _ => apply IH end
    | eauto 3 with prestk ].
Ltac walktk := pw Rtk_refl Rtk_trans leaftk.

Lemma ptk_wf_workflow_event : forall st, preserves Rtk (wf_workflow_event_M st).
Proof.
  intros st c c' r H. unfold wf_workflow_event_M in H.
  destruct (wf_process_workflow_event (c_graph c) (c_ws c) st) as [[new unr]|e]; inversion H; subst; reflexivity.
Qed.
Hint Resolve ptk_wf_workflow_event : prestk.
Lemma ptk_log_entry_error : forall m t r tr res, preserves Rtk (log_entry_error m t r tr res).
Proof. intros; unfold log_entry_error; walktk. Qed.
Hint Resolve ptk_log_entry_error : prestk.
Lemma ptk_log_error : forall e t r tr, preserves Rtk (log_error e t r tr).
Proof. intros; unfold log_error; auto with prestk. Qed.
Hint Resolve ptk_log_error : prestk.
Lemma ptk_log_errors : forall es t r tr, preserves Rtk (log_errors es t r tr).
Proof. intros; unfold log_errors; walktk. Qed.
Hint Resolve ptk_log_errors : prestk.
Lemma ptk_log_unreachable : forall l, preserves Rtk (log_unreachable l).
Proof. intros; unfold log_unreachable; walktk. Qed.
Hint Resolve ptk_log_unreachable : prestk.
Lemma ptk_set_rec_status : forall j s, preserves Rtk (set_rec_status j s).
Proof. intros; unfold set_rec_status; walktk. Qed.
Hint Resolve ptk_set_rec_status : prestk.
Lemma ptk_request_status_core : forall st, preserves Rtk (request_status_core st).
Proof. intros; unfold request_status_core; walktk. Qed.
Hint Resolve ptk_request_status_core : prestk.
Lemma ptk_render_input : forall specs rt rolling errs, preserves Rtk (render_input ev specs rt rolling errs).
Proof. induction specs as [|[n d] specs IH]; intros; simpl; walktk. Qed.
Hint Resolve ptk_render_input : prestk.
Lemma ptk_render_vars : forall specs rolling rendered errs, preserves Rtk (render_vars ev specs rolling rendered errs).
Proof. induction specs as [|[n d] specs IH]; intros; simpl; walktk. Qed.
Hint Resolve ptk_render_vars : prestk.
Lemma ptk_ensure_ws : preserves Rtk (ensure_ws ev).
Proof. unfold ensure_ws; walktk. Qed.
End TasksKept.

(* ------------------------------------------------------------------ the frozen record *)

Section Frozen.
Variable i : nat.
Variable r0 : trec.
Hypothesis Hdec : decided r0.

Definition Fz (c : cstate) : Prop :=
  exists r, nth_error (sequence (c_ws c)) i = Some r /\ same_decided r0 r.
Definition Rf (c c' : cstate) : Prop := Fz c -> Fz c'.

Lemma Rf_refl : forall c, Rf c c.
Proof. intros c H; exact H. Qed.
Lemma Rf_trans : forall a b c, Rf a b -> Rf b c -> Rf a c.
Proof. unfold Rf; intros; auto. Qed.

Lemma Rf_same_seq : forall c c', sequence (c_ws c') = sequence (c_ws c) -> Rf c c'.
Proof. intros c c' H [r [Hn Hs]]. exists r; rewrite H; split; assumption. Qed.

Lemma Rf_update_other : forall c j f, j <> i -> Rf c (set_ws c (ws_update_rec (c_ws c) j f)).
Proof.
  intros c j f Hj [r [Hn Hs]]. exists r; split; [|exact Hs]. cbn [c_ws set_ws].
  rewrite nth_update_rec_other by exact Hj. exact Hn.
Qed.

Lemma Rf_update_sd : forall c j f, (forall r, same_decided r (f r)) -> Rf c (set_ws c (ws_update_rec (c_ws c) j f)).
Proof.
  intros c j f Hf [r [Hn Hs]]. destruct (Nat.eq_dec j i) as [->|Hj].
  - exists (f r); split; [|eapply sd_trans; [exact Hs|apply Hf]]. cbn [c_ws set_ws].
    apply nth_update_rec_same; exact Hn.
  - apply (Rf_update_other c j f Hj). exists r; split; assumption.
Qed.

Lemma Rf_append : forall c r tk,
  Rf c (set_ws c (ws_set_tasks (ws_set_sequence (c_ws c) (app (sequence (c_ws c)) [r])) tk)).
Proof.
  intros c r tk [r1 [Hn Hs]]. exists r1; split; [|exact Hs]. cbn [c_ws set_ws sequence ws_set_tasks ws_set_sequence].
  rewrite nth_error_app1; [exact Hn|]. apply nth_error_Some; congruence.
Qed.

Lemma Fz_status : forall c r, Fz c -> nth_error (sequence (c_ws c)) i = Some r -> same_decided r0 r.
Proof. intros c r [r1 [Hn Hs]] H. rewrite Hn in H; inversion H; subst; exact Hs. Qed.

Lemma sd_decided : forall r, same_decided r0 r -> ostatus_in (r_status r) COMPLETED_STATUSES = true.
Proof. intros r [_ [_ [_ [_ [Hs _]]]]]. rewrite Hs. exact Hdec. Qed.

Lemma sd_rstatus_completed : forall r, same_decided r0 r -> status_in (rstatus r) COMPLETED_STATUSES = true.
Proof.
  intros r H. pose proof (sd_decided r H) as D. unfold rstatus. destruct (r_status r); [exact D|discriminate].
Qed.

(* a record without status (just created) is not the frozen one *)
Lemma Fz_not_fresh : forall c j r, Fz c -> nth_error (sequence (c_ws c)) j = Some r -> r_status r = None -> j <> i.
Proof.
  intros c j r Hf Hn Hs E. subst j. pose proof (sd_decided r (Fz_status c r Hf Hn)) as D.
  rewrite Hs in D. discriminate.
Qed.

Lemma pfz_request_status_core : forall st, preserves Rf (request_status_core st).
Proof.
  intros st c c' r H [r1 [Hn Hs]]. pose proof (pmod_request_status_core st c c' r H) as Hm.
  exists r1; split; [|exact Hs]. rewrite Hm; [exact Hn|].
  intro Hin. apply in_map_iff in Hin. destruct Hin as [[j rj] [Hj Hin]]. simpl in Hj; subst j.
  apply tasks_by_status_In in Hin. destruct Hin as [Hn' Ha]. rewrite Hn in Hn'; inversion Hn'; subst rj.
  pose proof (sd_decided r1 Hs) as D. destruct (r_status r1) as [s|]; [|discriminate].
  exact (F_active_not_completed s Ha D).
Qed.

Section WithEval.
Variable ev : string -> dict -> evalres.

Ltac leaf :=
  first
    [ apply (preserves_modws Rf); intro; apply Rf_same_seq; simpl; first [reflexivity|apply seq_remove_staged]
    | apply (preserves_modws Rf); intro; apply Rf_update_sd; intro; repeat split; reflexivity
    | apply (preserves_modws Rf); intro; apply Rf_update_other; assumption
    | apply (preserves_modws Rf); intro; apply Rf_append
    | apply (preserves_modify Rf); intro; apply Rf_same_seq; reflexivity
    | apply (preserves_modify Rf); intro; apply Rf_same_seq;
      match goal with |- context [if ?b then _ else _] => destruct b end; reflexivity
    | assumption
    | match goal with IH : forall _ _ _, preserves _ _ |- _ => apply IH end
    | match goal with IH : forall _ _, preserves _ _ |- _ => apply IH end
    | match goal with IH : forall _ _ _ _, preserves _ _ |- _ => apply IH end
    | eauto 3 with presfz ].
Ltac walk := pw Rf_refl Rf_trans leaf.

Hint Resolve pfz_request_status_core : presfz.

Lemma pfz_wf_workflow_event : forall st, preserves Rf (wf_workflow_event_M st).
Proof.
  intros st c c' r H. unfold wf_workflow_event_M in H.
  destruct (wf_process_workflow_event (c_graph c) (c_ws c) st) as [[new unr]|e]; inversion H; subst;
    [apply Rf_same_seq; reflexivity|apply Rf_refl].
Qed.
Hint Resolve pfz_wf_workflow_event : presfz.
Lemma pfz_wf_task_event : forall t route st, preserves Rf (wf_task_event_M t route st).
Proof.
  intros t route st c c' r H. unfold wf_task_event_M in H.
  destruct (wf_process_task_event (c_graph c) (c_ws c) t route st) as [[new unr]|e]; inversion H; subst;
    [apply Rf_same_seq; reflexivity|apply Rf_refl].
Qed.
Hint Resolve pfz_wf_task_event : presfz.
Lemma pfz_log_entry_error : forall m t r tr res, preserves Rf (log_entry_error m t r tr res).
Proof. intros; unfold log_entry_error; walk. Qed.
Hint Resolve pfz_log_entry_error : presfz.
Lemma pfz_log_error : forall e t r tr, preserves Rf (log_error e t r tr).
Proof. intros; unfold log_error; auto with presfz. Qed.
Hint Resolve pfz_log_error : presfz.
Lemma pfz_log_errors : forall es t r tr, preserves Rf (log_errors es t r tr).
Proof. intros; unfold log_errors; walk. Qed.
Hint Resolve pfz_log_errors : presfz.
Lemma pfz_log_unreachable : forall l, preserves Rf (log_unreachable l).
Proof. intros; unfold log_unreachable; walk. Qed.
Hint Resolve pfz_log_unreachable : presfz.
Lemma pfz_render_input : forall specs rt rolling errs, preserves Rf (render_input ev specs rt rolling errs).
Proof. induction specs as [|[n d] specs IH]; intros; simpl; walk. Qed.
Hint Resolve pfz_render_input : presfz.
Lemma pfz_render_vars : forall specs rolling rendered errs, preserves Rf (render_vars ev specs rolling rendered errs).
Proof. induction specs as [|[n d] specs IH]; intros; simpl; walk. Qed.
Hint Resolve pfz_render_vars : presfz.
Lemma pfz_ensure_ws : preserves Rf (ensure_ws ev).
Proof. unfold ensure_ws; walk. Qed.
Hint Resolve pfz_ensure_ws : presfz.
Lemma pfz_request_workflow_status : forall st, preserves Rf (request_workflow_status ev st).
Proof. intros; unfold request_workflow_status; walk. Qed.
Lemma pfz_get_task_context : forall idxs, preserves Rf (get_task_context idxs).
Proof. intros; unfold get_task_context; walk. Qed.
Hint Resolve pfz_get_task_context : presfz.
Lemma pfz_render_task : forall ts ctx, preserves Rf (render_task ev ts ctx).
Proof. intros; unfold render_task; walk. Qed.
Hint Resolve pfz_render_task : presfz.
Lemma pfz_next_task_for : forall s, preserves Rf (next_task_for ev s).
Proof. intros; unfold next_task_for; walk. Qed.
Hint Resolve pfz_next_task_for : presfz.
Lemma pfz_get_next_tasks : preserves Rf (get_next_tasks ev).
Proof. unfold get_next_tasks; walk. Qed.
Lemma pfz_setup_retry : forall t idxs, preserves Rf (setup_retry ev t idxs).
Proof. intros; unfold setup_retry; walk. Qed.
Hint Resolve pfz_setup_retry : presfz.
Lemma pfz_add_task_state : forall t r ins p, preserves Rf (add_task_state ev t r ins p).
Proof. intros; unfold add_task_state; walk. Qed.
Hint Resolve pfz_add_task_state : presfz.
Lemma pfz_evaluate_route : forall e r, preserves Rf (evaluate_route e r).
Proof. intros; unfold evaluate_route; walk. Qed.
Hint Resolve pfz_evaluate_route : presfz.
Lemma pfz_evaluate_task_retry : forall r ctx, preserves Rf (evaluate_task_retry ev r ctx).
Proof. intros; unfold evaluate_task_retry; walk. Qed.
Hint Resolve pfz_evaluate_task_retry : presfz.
Lemma pfz_finalize_context : forall ts e ctx, preserves Rf (finalize_context ev ts e ctx).
Proof. intros; unfold finalize_context; walk. Qed.
Hint Resolve pfz_finalize_context : presfz.
Lemma pfz_get_rec : forall j, preserves Rf (get_rec j).
Proof. intros; unfold get_rec; walk. Qed.
Hint Resolve pfz_get_rec : presfz.
Lemma pfz_merge_term_contexts : forall l acc, preserves Rf (merge_term_contexts l acc).
Proof. induction l as [|[j r] l IH]; intros; simpl; walk. Qed.
Hint Resolve pfz_merge_term_contexts : presfz.
Lemma pfz_render_workflow_output : preserves Rf (render_workflow_output ev).
Proof. unfold render_workflow_output, get_workflow_terminal_context; walk. Qed.
Lemma pfz_request_task_rerun : forall t r b, preserves Rf (request_task_rerun ev t r b).
Proof. intros; unfold request_task_rerun, upd_rec; walk. Qed.
Hint Resolve pfz_request_task_rerun : presfz.
Lemma pfz_request_workflow_rerun : forall reqs, preserves Rf (request_workflow_rerun ev reqs).
Proof. intros; unfold request_workflow_rerun, upd_rec; walk. Qed.

(* the pieces of update_task_state that come before the task machine *)
Lemma pfz_need_staged : forall s0, preserves Rf (uts_need_staged s0).
Proof. intros; unfold uts_need_staged; walk. Qed.
Hint Resolve pfz_need_staged : presfz.
Lemma pfz_sel1 : forall t s0 e0, preserves Rf (uts_sel1 ev t s0 e0).
Proof. intros; unfold uts_sel1; walk. Qed.
Lemma pfz_sel2 : forall t evt s0 r1 j, preserves Rf (uts_sel2 ev t evt s0 r1 j).
Proof. intros; unfold uts_sel2; walk. Qed.
Lemma pfz_unstage : forall t route evt s0, preserves Rf (uts_unstage t route evt s0).
Proof. intros; unfold uts_unstage; walk. Qed.
Lemma pfz_item : forall t route evt s0, preserves Rf (uts_item t route evt s0).
Proof. intros; unfold uts_item; walk. Qed.
Lemma pfz_logfail : forall t evt, preserves Rf (uts_logfail t evt).
Proof. intros; unfold uts_logfail; walk. Qed.
(* the completion step writes no record *)
Lemma pfz_completion : forall t route evt ts idx ns o0, preserves Rf (uts_completion ev t route evt ts idx ns o0).
Proof. intros; unfold uts_completion; walk. Qed.
Hint Resolve pfz_completion : presfz.

(* the pieces that write the addressed record, when that record is another one *)
Section Other.
Variable idx : nat.
Hypothesis Hne : idx <> i.

Lemma pfz_set_rec_status_o : forall s, preserves Rf (set_rec_status idx s).
Proof. intros; unfold set_rec_status; walk. Qed.
Lemma pfz_setst_o : forall ns, preserves Rf (uts_setst idx ns).
Proof. intros [s|]; unfold uts_setst; [apply pfz_set_rec_status_o|apply (preserves_ret _ Rf_refl)]. Qed.
Lemma pfz_retrying_o : forall t route r ns, preserves Rf (uts_retrying t route idx r ns).
Proof. intros; unfold uts_retrying, upd_rec; walk. Qed.
Lemma pfz_process_transition_o : forall t route ts ctx e, preserves Rf (process_transition ev t route idx ts ctx e).
Proof. intros; unfold process_transition, upd_rec; walk. Qed.
Hint Resolve pfz_process_transition_o : presfz.
Lemma pfz_queue_o : forall t route ts o n compl, preserves Rf (uts_queue ev t route idx ts o n compl).
Proof. intros; unfold uts_queue, upd_rec; walk. Qed.
Lemma pfz_pre_machine_o : forall t route evt ts, preserves Rf (pre_machine ev t route evt ts idx).
Proof.
  intros; unfold pre_machine.
  apply (preserves_bind _ Rf_trans); [apply pfz_get_rec|intro r].
  apply (preserves_bind _ Rf_trans); [apply (preserves_getws _ Rf_refl)|intro w].
  apply (preserves_bind _ Rf_trans); [apply (preserves_lift_res _ Rf_refl)|intro ns].
  apply (preserves_bind _ Rf_trans); [apply pfz_setst_o|intros _].
  apply (preserves_bind _ Rf_trans); [apply pfz_get_rec|intro r'].
  apply (preserves_bind _ Rf_trans); [apply pfz_retrying_o|intros _].
  apply (preserves_bind _ Rf_trans); [apply pfz_completion|intro compl].
  apply (preserves_ret _ Rf_refl).
Qed.
End Other.

(* r_term may be written on any record *)
Lemma pfz_upd_term : forall j b, preserves Rf (upd_rec j (fun r => r_set_term r b)).
Proof. intros; unfold upd_rec; walk. Qed.


(* ---- sequencing with the invariant: the Exc continuation keeps Fz, the Val one goes on ---- *)
Lemma bind_fz : forall A B (m : M A) (f : A -> M B) (Post : result B -> Prop) c c' res,
  bind m f c = (c', res) -> Fz c -> preserves Rf m -> (forall e, Post (Exc e)) ->
  (forall c1 a, m c = (c1, Val a) -> Fz c1 -> f a c1 = (c', res) -> Fz c' /\ Post res) ->
  Fz c' /\ Post res.
Proof.
  intros A B m f Post c c' res H Hf Hm He Hk. apply bind_inv in H.
  destruct H as [[c1 [a [E H]]]|[e [E ->]]].
  - apply (Hk c1 a E); [eapply Hm; [exact E|exact Hf]|exact H].
  - split; [eapply Hm; [exact E|exact Hf]|apply He].
Qed.

(* what the prefix tells the tail about the record it worked on *)
Definition tail_ok (p : pre_out) : Prop :=
  po_idx p <> i \/ (po_new p = po_old p /\ forall ctx b, po_compl p = Some (ctx, b) -> b = false).
Definition PostP (res : result pre_out) : Prop := forall p, res = Val p -> tail_ok p.

Lemma PostP_exc : forall e, PostP (Exc e).
Proof. intros e p H; discriminate. Qed.

(* the task machine on the frozen record itself: a non-retry event leaves it as it is, and -- D33: the status did not
   change -- the completion step does not decide to retry, whatever retries are left *)
Lemma pre_machine_same : forall t route evt ts c c' res,
  is_retry_event evt = false ->
  pre_machine ev t route evt ts i c = (c', res) -> Fz c -> Fz c' /\ PostP res.
Proof.
  intros t route evt ts c c' res Hne H Hf. unfold pre_machine in H.
  eapply bind_fz; [exact H|exact Hf|apply pfz_get_rec|apply PostP_exc|]. clear H Hf.
  intros c1 r E Hf H. apply get_rec_inv in E; destruct E as [-> Hr].
  pose proof (Fz_status _ _ Hf Hr) as Sr.
  eapply bind_fz; [exact H|exact Hf|apply (preserves_getws _ Rf_refl)|apply PostP_exc|]. clear H.
  intros c1 w E Hf1 H. inversion E; subst c1 w; clear E Hf1.
  eapply bind_fz; [exact H|exact Hf|apply (preserves_lift_res _ Rf_refl)|apply PostP_exc|]. clear H.
  intros c1 ns E Hf1 H. apply lift_res_inv in E; destruct E as [-> Ens]. clear Hf1.
  assert (ns = None) as -> by (eapply completed_step_none; [apply sd_decided; exact Sr|exact Hne|symmetry; exact Ens]).
  cbn [uts_setst] in H.
  eapply bind_fz; [exact H|exact Hf|apply (preserves_ret _ Rf_refl)|apply PostP_exc|]. clear H.
  intros c1 u E Hf1 H. inversion E; subst c1; clear E Hf1.
  eapply bind_fz; [exact H|exact Hf|apply pfz_get_rec|apply PostP_exc|]. clear H.
  intros c1 r' E Hf1 H. apply get_rec_inv in E; destruct E as [-> Hr']. clear Hf1.
  rewrite Hr in Hr'; inversion Hr'; subst r'; clear Hr'.
  assert (Er : uts_retrying t route i r (rstatus r) = ret tt).
  { unfold uts_retrying. rewrite (F_completed_not_retrying _ (sd_rstatus_completed r Sr)). reflexivity. }
  rewrite Er in H.
  eapply bind_fz; [exact H|exact Hf|apply (preserves_ret _ Rf_refl)|apply PostP_exc|]. clear H.
  intros c1 u' E Hf1 H. inversion E; subst c1; clear E Hf1.
  eapply bind_fz; [exact H|exact Hf|apply pfz_completion|apply PostP_exc|]. clear H.
  intros c2 compl E Hf2 H. inversion H; subst c' res; clear H.
  split; [exact Hf2|]. intros p Hp; inversion Hp; subst p; clear Hp. right. cbn [po_new po_old po_compl].
  split; [reflexivity|]. intros ctx b Hc.
  destruct (completion_inv _ _ _ _ _ _ _ _ _ _ _ E) as [[_ [Hn _]]|[_ [c3 [r3 [ctx3 [b3 [_ [_ [_ [Hc3 [_ [_ Hdiff]]]]]]]]]]]].
  - rewrite Hn in Hc; discriminate.
  - rewrite Hc3 in Hc; inversion Hc; subst ctx3 b3. destruct b; [exfalso|reflexivity].
    apply (Hdiff eq_refl). reflexivity.
Qed.

(* when the event may be delivered without touching the frozen record *)
Definition sel_ok (t : string) (evt : event) (s0 : option stg) (e0 : option nat) : Prop :=
  e0 <> Some i \/ is_engine_command t = true \/
  (status_in (ev_status evt) STARTING_STATUSES = true /\ exists s, s0 = Some s /\ s_completed s = false) \/
  is_retry_event evt = false.

Lemma fresh_not_frozen : forall t rt ins prev c c' idx,
  add_task_state ev t rt ins prev c = (c', Val idx) -> Fz c' -> idx <> i.
Proof.
  intros t rt ins prev c c' idx H Hf. destruct (add_task_state_inv _ _ _ _ _ _ _ _ H) as [r [Hn [Hs _]]].
  eapply Fz_not_fresh; eassumption.
Qed.

Lemma pre_main_fz : forall t route evt ts s0 e0 c c' res,
  pre_main ev t route evt ts s0 e0 c = (c', res) -> Fz c -> sel_ok t evt s0 e0 -> Fz c' /\ PostP res.
Proof.
  intros t route evt ts s0 e0 c c' res H Hf Hok. unfold pre_main in H.
  eapply bind_fz; [exact H|exact Hf|apply pfz_sel1|apply PostP_exc|]. clear H Hf.
  intros c1 idx1 E1 Hf1 H.
  assert (A1 : idx1 <> i \/ (e0 = Some idx1 /\ is_engine_command t = false)).
  { destruct (sel1_inv _ _ _ _ _ _ _ E1) as [[He [Hc _]]|[s [_ Ha]]]; [right; split; assumption|left].
    eapply fresh_not_frozen; eassumption. }
  eapply bind_fz; [exact H|exact Hf1|apply pfz_get_rec|apply PostP_exc|]. clear H.
  intros c1' r1 E Hf1' H. apply get_rec_inv in E; destruct E as [-> Hr1]. clear Hf1'.
  eapply bind_fz; [exact H|exact Hf1|apply pfz_sel2|apply PostP_exc|]. clear H.
  intros c2 idx E2 Hf2 H.
  assert (A2 : idx <> i \/ is_retry_event evt = false).
  { unfold uts_sel2 in E2.
    destruct (ostatus_in (r_status r1) COMPLETED_STATUSES && status_in (ev_status evt) STARTING_STATUSES
              && match s0 with Some s1 => negb (s_completed s1) | None => false end) eqn:Ec.
    - left. apply bind_val_inv' in E2. destruct E2 as [c0 [s [_ Ha]]]. eapply fresh_not_frozen; eassumption.
    - inversion E2; subst idx c2; clear E2.
      destruct A1 as [A1|[He Hcmd]]; [left; exact A1|].
      destruct (Nat.eq_dec idx1 i) as [->|Hn]; [|left; exact Hn].
      destruct Hok as [Hok|[Hok|[[Hst [s1 [Hs0 Hsc]]]|Hok]]]; [congruence|congruence| |right; exact Hok].
      exfalso. rewrite (sd_decided r1 (Fz_status _ _ Hf1 Hr1)), Hst in Ec. subst s0. rewrite Hsc in Ec. discriminate. }
  eapply bind_fz; [exact H|exact Hf2|apply pfz_unstage|apply PostP_exc|]. clear H.
  intros c3 u3 _ Hf3 H.
  eapply bind_fz; [exact H|exact Hf3|apply pfz_item|apply PostP_exc|]. clear H.
  intros c4 u4 _ Hf4 H.
  eapply bind_fz; [exact H|exact Hf4|apply pfz_logfail|apply PostP_exc|]. clear H.
  intros c5 u5 _ Hf5 H.
  destruct (Nat.eq_dec idx i) as [->|Hn].
  - destruct A2 as [A2|Hne]; [congruence|]. eapply pre_machine_same; eassumption.
  - split; [eapply (pfz_pre_machine_o idx Hn); [exact H|exact Hf5]|].
    intros p Hp; subst res. left.
    destruct (pre_machine_inv _ _ _ _ _ _ _ _ _ H) as [r [ns [ca [cb Hx]]]].
    decompose [and] Hx. congruence.
Qed.

(* the same, stated on the conductor state the call starts in (D33: whatever retries the record has left) *)
Definition safe_w (c : cstate) (t : string) (route : nat) (evt : event) : Prop :=
  ws_task_idx (c_ws c) t route <> Some i \/ is_engine_command t = true \/
  (c_init c = true /\ status_in (ev_status evt) STARTING_STATUSES = true /\
   exists s, get_staged_task (c_ws c) t route = Some s /\ s_completed s = false) \/
  is_retry_event evt = false.

Lemma prefix_fz : forall t route evt c c' res,
  uts_prefix ev t route evt c = (c', res) -> Fz c -> safe_w c t route evt -> Fz c' /\ PostP res.
Proof.
  intros t route evt c c' res H Hf Hs. unfold uts_prefix in H.
  eapply bind_fz; [exact H|exact Hf|apply pfz_ensure_ws|apply PostP_exc|].
  intros c1 u E1 Hf1 H1. clear H.
  assert (Hok : sel_ok t evt (get_staged_task (c_ws c1) t route) (ws_task_idx (c_ws c1) t route)).
  { destruct Hs as [Hs|[Hs|[[Hi [Hst Hsg]]|Hs]]].
    - left. unfold ws_task_idx in *. rewrite (ptk_ensure_ws ev _ _ _ E1). exact Hs.
    - right; left; exact Hs.
    - right; right; left. rewrite (ensure_ws_inited ev c Hi) in E1. inversion E1; subst c1. split; assumption.
    - right; right; right; exact Hs. }
  eapply bind_fz; [exact H1|exact Hf1|apply (preserves_get _ Rf_refl)|apply PostP_exc|]. clear H1.
  intros c2 cst E Hf2 H. inversion E; subst c2 cst; clear E Hf2.
  destruct (negb (g_has_task (c_graph c1) t)); [inversion H; subst; split; [exact Hf1|apply PostP_exc]|].
  cbv zeta in H.
  eapply bind_fz; [exact H|exact Hf1| |apply PostP_exc|].
  { destruct (spec_get_task (c_spec c1) t); [apply (preserves_ret _ Rf_refl)|apply (preserves_raise _ Rf_refl)]. }
  clear H. intros c2 ts E Hf2 H.
  destruct (get_staged_task (c_ws c1) t route) as [s|] eqn:Es, (ws_task_idx (c_ws c1) t route) as [j|] eqn:Ee;
    try (eapply pre_main_fz; eassumption).
  inversion H; subst. split; [exact Hf2|apply PostP_exc].
Qed.

(* when the completion step decides to retry, the pointer of (t, route) names the record it read *)
Lemma prefix_pointer : forall t route evt c c' p ctx,
  uts_prefix ev t route evt c = (c', Val p) -> po_compl p = Some (ctx, true) ->
  ws_task_idx (c_ws c') t route = Some (po_idx p).
Proof.
  intros t route evt c c' p ctx H Hc.
  destruct (prefix_to_machine _ _ _ _ _ _ _ H) as [c1 [ts [idx [c3 [r [_ [Hm [_ [_ [Hp _]]]]]]]]]].
  destruct (pre_machine_inv _ _ _ _ _ _ _ _ _ Hm) as [r1 [ns [ca [cb Hx]]]].
  destruct Hx as [Hr1 [_ [_ [_ [Hta [_ [Ert [Eco [_ [Hidx [_ Hnew]]]]]]]]]]].
  rewrite Hidx.
  destruct (completion_inv _ _ _ _ _ _ _ _ _ _ _ Eco) as [[_ [Hn _]]|[Hcs [c4 [r4 [ctx4 [b4 [[_ Kt] [_ [_ [Hc4 [Hb _]]]]]]]]]]].
  - rewrite Hn in Hc; discriminate.
  - rewrite Hc4 in Hc; inversion Hc; subst ctx4 b4. destruct (Hb eq_refl) as [-> _].
    assert (cb = ca) as ->.
    { unfold uts_retrying in Ert. rewrite (F_completed_not_retrying _ Hcs) in Ert. inversion Ert; reflexivity. }
    unfold ws_task_idx in *. rewrite Kt, Hta. exact Hp.
Qed.

(* the tail, given that nested calls keep the invariant *)
Lemma tail_fz : forall rec,
  (forall t route evt c c' res, rec t route evt c = (c', res) -> Fz c -> safe_w c t route evt -> Fz c') ->
  forall t route p c c' res, tail_of ev rec t route p c = (c', res) -> Fz c -> tail_ok p ->
  (forall ctx, po_compl p = Some (ctx, true) -> ws_task_idx (c_ws c) t route = Some (po_idx p)) -> Fz c'.
Proof.
  intros rec IH t route p c c' res H Hf Hok Hptr. unfold tail_of, uts_tail in H.
  assert (Hcall : forall q, cmd_pair q -> preserves Rf (uts_call rec q)).
  { intros [n rt] Hq. unfold uts_call. destruct (engine_event n) as [e|]; [|apply (preserves_raise _ Rf_refl)].
    intros ca cb rr Hr Hfa. eapply IH; [exact Hr|exact Hfa|]. right; left; exact Hq. }
  assert (Hrest : forall q, Forall cmd_pair q ->
            preserves Rf (r <- get_rec (po_idx p) ;;
                          st <- (match r_status r with Some s => ret s | None => raise (exn_key "status") end) ;;
                          unreachable <- wf_task_event_M t route st ;;
                          log_unreachable unreachable ;;;
                          forM_ q (uts_call rec) ;;;
                          w <- getws ;;
                          if status_in (wstatus w) COMPLETED_STATUSES
                          then upd_rec (po_idx p) (fun r => r_set_term r true)
                          else ret tt)).
  { intros q Hq.
    apply (preserves_bind _ Rf_trans); [apply pfz_get_rec|intro r].
    apply (preserves_bind _ Rf_trans);
      [destruct (r_status r); [apply (preserves_ret _ Rf_refl)|apply (preserves_raise _ Rf_refl)]|intro st].
    apply (preserves_bind _ Rf_trans); [apply pfz_wf_task_event|intro unr].
    apply (preserves_bind _ Rf_trans); [apply pfz_log_unreachable|intros _].
    apply (preserves_bind _ Rf_trans).
    - apply (preserves_forM_In _ Rf_refl Rf_trans). intros a Ha. apply Hcall.
      rewrite Forall_forall in Hq. apply Hq; exact Ha.
    - intros _. apply (preserves_bind _ Rf_trans); [apply (preserves_getws _ Rf_refl)|intro w].
      destruct (status_in (wstatus w) COMPLETED_STATUSES); [apply pfz_upd_term|apply (preserves_ret _ Rf_refl)]. }
  assert (Hq : forall compl, (forall ctx, compl <> Some (ctx, true)) -> po_compl p = compl ->
            preserves Rf (uts_queue ev t route (po_idx p) (po_ts p) (po_old p) (po_new p) compl)).
  { intros compl Hnt Hc. destruct Hok as [Hn|[Hsame Hb]]; [apply pfz_queue_o; exact Hn|].
    unfold uts_queue. destruct compl as [[ctx b]|]; [|apply (preserves_ret _ Rf_refl)].
    rewrite Hsame, status_eqb_refl. apply (preserves_ret _ Rf_refl). }
  assert (Hnr : forall compl, (forall ctx, compl <> Some (ctx, true)) -> po_compl p = compl ->
            preserves Rf (queue <- uts_queue ev t route (po_idx p) (po_ts p) (po_old p) (po_new p) compl ;;
                          r <- get_rec (po_idx p) ;;
                          st <- (match r_status r with Some s => ret s | None => raise (exn_key "status") end) ;;
                          unreachable <- wf_task_event_M t route st ;;
                          log_unreachable unreachable ;;;
                          forM_ queue (uts_call rec) ;;;
                          w <- getws ;;
                          if status_in (wstatus w) COMPLETED_STATUSES
                          then upd_rec (po_idx p) (fun r => r_set_term r true)
                          else ret tt)).
  { intros compl Hnt Hc.
    eapply (preserves_bind_v _ Rf_trans); [apply queue_cmds|apply Hq; assumption|exact Hrest]. }
  destruct (po_compl p) as [[ctx b]|] eqn:Ec.
  - destruct b.
    + eapply IH; [exact H|exact Hf|]. left. rewrite (Hptr ctx eq_refl).
      destruct Hok as [Hn|[_ Hb]]; [congruence|]. specialize (Hb ctx true Ec); discriminate.
    + eapply (Hnr (Some (ctx, false))); [intros x E; inversion E|reflexivity|exact H|exact Hf].
  - eapply (Hnr None); [intros x E; inversion E|reflexivity|exact H|exact Hf].
Qed.

(* MAIN LEMMA: a call of update_task_state, to any depth, keeps the frozen record *)
Lemma uts_frozen_w : forall fuel t route evt c c' res,
  update_task_state_fuel ev fuel t route evt c = (c', res) -> Fz c -> safe_w c t route evt -> Fz c'.
Proof.
  induction fuel as [|fuel IH]; intros t route evt c c' res H Hf Hs.
  - simpl in H. inversion H; subst; exact Hf.
  - rewrite uts_unfold, body_eq in H. apply bind_inv in H.
    destruct H as [[c1 [p [E H]]]|[e [E ->]]].
    + destruct (prefix_fz _ _ _ _ _ _ E Hf Hs) as [Hf1 Hp].
      eapply tail_fz; [exact IH|exact H|exact Hf1|apply Hp; reflexivity|].
      intros ctx Hc. eapply prefix_pointer; eassumption.
    + destruct (prefix_fz _ _ _ _ _ _ E Hf Hs) as [Hf1 _]. exact Hf1.
Qed.

(* ---- every API operation ---- *)

Definition op_safe_w (c : cstate) (op : api_op) : Prop :=
  match op with
  | OpEvent t route evt => safe_w c t route evt
  | OpPersist => c_init c = true
  | _ => True
  end.

Theorem api_frozen_w : forall op c c' res, op_safe_w c op -> api_exec ev op c = (c', res) -> Fz c -> Fz c'.
Proof.
  intros op c c' res Hs H Hf.
  assert (G : forall (m : M unit), preserves Rf m -> (bind m (fun _ => ret RUnit)) c = (c', res) -> Fz c').
  { intros m Hm Hb. eapply (preserves_bind _ Rf_trans); [exact Hm|intro; apply (preserves_ret _ Rf_refl)|exact Hb|exact Hf]. }
  destruct op; cbn [api_exec] in H; cbn [op_safe_w] in Hs.
  - eapply G; [apply pfz_ensure_ws|exact H].
  - eapply G; [apply pfz_request_workflow_status|exact H].
  - eapply (preserves_bind _ Rf_trans); [apply pfz_get_next_tasks|intro; apply (preserves_ret _ Rf_refl)|exact H|exact Hf].
  - apply bind_inv in H. destruct H as [[c1 [u [E H]]]|[e0 [E _]]].
    + inversion H; subst c1. eapply uts_frozen_w; [exact E|exact Hf|exact Hs].
    + eapply uts_frozen_w; [exact E|exact Hf|exact Hs].
  - eapply G; [apply pfz_render_workflow_output|exact H].
  - eapply G; [apply pfz_request_workflow_rerun|exact H].
  - unfold bind in H. rewrite (persist_identity ev c Hs) in H. inversion H; subst; exact Hf.
Qed.

Fixpoint hist_safe_w (ops : list api_op) (c : cstate) : Prop :=
  match ops with
  | [] => True
  | op :: ops' => op_safe_w c op /\ hist_safe_w ops' (fst (api_exec ev op c))
  end.

Theorem history_frozen_w : forall ops c, hist_safe_w ops c -> Fz c -> Fz (run_ops ev ops c).
Proof.
  induction ops as [|op ops IH]; intros c Hs Hf; cbn [run_ops fold_left]; [exact Hf|].
  destruct Hs as [Ho Hs]. apply IH; [exact Hs|].
  destruct (api_exec ev op c) as [c1 r] eqn:E. cbn [fst]. eapply api_frozen_w; eassumption.
Qed.

(* the hypothesis as it was needed before the engine fix D33 (a completed record with a retry left was reopened by a
   duplicate report): it asks that the record has no retry left; kept, and implied theorems derived *)
Definition safe (c : cstate) (t : string) (route : nat) (evt : event) : Prop :=
  ws_task_idx (c_ws c) t route <> Some i \/ is_engine_command t = true \/
  (c_init c = true /\ status_in (ev_status evt) STARTING_STATUSES = true /\
   exists s, get_staged_task (c_ws c) t route = Some s /\ s_completed s = false) \/
  (is_retry_event evt = false /\ ~ retry_open r0).
Lemma safe_weaken : forall c t route evt, safe c t route evt -> safe_w c t route evt.
Proof. intros c t route evt [H|[H|[H|[H _]]]]; [left|right; left|right; right; left|right; right; right]; exact H. Qed.
Lemma uts_frozen : forall fuel t route evt c c' res,
  update_task_state_fuel ev fuel t route evt c = (c', res) -> Fz c -> safe c t route evt -> Fz c'.
Proof. intros fuel t route evt c c' res H Hf Hs. eapply uts_frozen_w; [exact H|exact Hf|apply safe_weaken; exact Hs]. Qed.
Definition op_safe (c : cstate) (op : api_op) : Prop :=
  match op with
  | OpEvent t route evt => safe c t route evt
  | OpPersist => c_init c = true
  | _ => True
  end.
Lemma op_safe_weaken : forall c op, op_safe c op -> op_safe_w c op.
Proof. intros c op H. destruct op; try exact H. apply safe_weaken; exact H. Qed.
Theorem api_frozen : forall op c c' res, op_safe c op -> api_exec ev op c = (c', res) -> Fz c -> Fz c'.
Proof. intros op c c' res Hs. apply api_frozen_w. apply op_safe_weaken; exact Hs. Qed.
Fixpoint hist_safe (ops : list api_op) (c : cstate) : Prop :=
  match ops with
  | [] => True
  | op :: ops' => op_safe c op /\ hist_safe ops' (fst (api_exec ev op c))
  end.
Lemma hist_safe_weaken : forall ops c, hist_safe ops c -> hist_safe_w ops c.
Proof.
  induction ops as [|op ops IH]; intros c H; [exact I|]. destruct H as [H1 H2].
  split; [apply op_safe_weaken; exact H1|apply IH; exact H2].
Qed.
Theorem history_frozen : forall ops c, hist_safe ops c -> Fz c -> Fz (run_ops ev ops c).
Proof. intros ops c H. apply history_frozen_w. apply hist_safe_weaken; exact H. Qed.

(* a hypothesis that does not mention intermediate states: the record has no retry left and no
   operation injects the engine's internal retry event *)
Definition op_static (op : api_op) : bool :=
  match op with
  | OpEvent _ _ e => negb (is_retry_event e)
  | OpPersist => false
  | _ => true
  end.

Lemma op_static_safe_w : forall op c, op_static op = true -> op_safe_w c op.
Proof.
  intros op c H. destruct op; cbn [op_safe_w]; try exact I; [|discriminate].
  right; right; right. simpl in H. destruct (is_retry_event e); [discriminate|reflexivity].
Qed.

(* D33: no hypothesis on the retries left *)
Theorem history_frozen_static_w : forall ops c, forallb op_static ops = true -> Fz c -> Fz (run_ops ev ops c).
Proof.
  intros ops c H Hf. apply history_frozen_w; [|exact Hf]. clear Hf. revert c.
  induction ops as [|op ops IH]; intro c; cbn [hist_safe_w]; [exact I|].
  simpl in H. apply andb_prop in H. destruct H as [H1 H2].
  split; [apply op_static_safe_w; assumption|apply IH; exact H2].
Qed.

Lemma op_static_safe : forall op c, ~ retry_open r0 -> op_static op = true -> op_safe c op.
Proof.
  intros op c Hno H. destruct op; cbn [op_safe]; try exact I; [|discriminate].
  right; right; right. split; [|exact Hno]. simpl in H. destruct (is_retry_event e); [discriminate|reflexivity].
Qed.

Theorem history_frozen_static : forall ops c, ~ retry_open r0 -> forallb op_static ops = true ->
  Fz c -> Fz (run_ops ev ops c).
Proof. intros ops c _. apply history_frozen_static_w. Qed.
End WithEval.
End Frozen.

(* ------------------------------------------------------------------ the theorems, closed *)

Section Statements.
Variable ev : string -> dict -> evalres.

(* one API call: the decided record at index i keeps every field but r_term *)
Theorem decided_record_frozen_step : forall op c c' res i r,
  nth_error (sequence (c_ws c)) i = Some r -> decided r ->
  op_safe i r c op -> api_exec ev op c = (c', res) ->
  exists r', nth_error (sequence (c_ws c')) i = Some r' /\ same_decided r r'.
Proof.
  intros op c c' res i r Hn Hd Hs H.
  apply (api_frozen i r Hd ev op c c' res Hs H). exists r; split; [exact Hn|apply sd_refl].
Qed.

Theorem decided_record_frozen_history : forall ops c i r,
  nth_error (sequence (c_ws c)) i = Some r -> decided r -> hist_safe i r ev ops c ->
  exists r', nth_error (sequence (c_ws (run_ops ev ops c))) i = Some r' /\ same_decided r r'.
Proof.
  intros ops c i r Hn Hd Hs. apply (history_frozen i r Hd ev ops c Hs). exists r; split; [exact Hn|apply sd_refl].
Qed.

(* D33: the general forms need no hypothesis on the retries left (safe_w / op_safe_w / hist_safe_w ask, of an event
   that addresses the record, only that it is not the internal retry event) *)
Theorem decided_record_frozen_step_w : forall op c c' res i r,
  nth_error (sequence (c_ws c)) i = Some r -> decided r ->
  op_safe_w i c op -> api_exec ev op c = (c', res) ->
  exists r', nth_error (sequence (c_ws c')) i = Some r' /\ same_decided r r'.
Proof.
  intros op c c' res i r Hn Hd Hs H.
  apply (api_frozen_w i r Hd ev op c c' res Hs H). exists r; split; [exact Hn|apply sd_refl].
Qed.

Theorem decided_record_frozen_always : forall ops c i r,
  nth_error (sequence (c_ws c)) i = Some r -> decided r -> forallb op_static ops = true ->
  exists r', nth_error (sequence (c_ws (run_ops ev ops c))) i = Some r' /\ same_decided r r'.
Proof.
  intros ops c i r Hn Hd H. apply (history_frozen_static_w i r Hd ev ops c H).
  exists r; split; [exact Hn|apply sd_refl].
Qed.

Theorem decided_record_frozen : forall ops c i r,
  nth_error (sequence (c_ws c)) i = Some r -> decided r -> ~ retry_open r ->
  forallb op_static ops = true ->
  exists r', nth_error (sequence (c_ws (run_ops ev ops c))) i = Some r' /\ same_decided r r'.
Proof.
  intros ops c i r Hn Hd Hno H. apply (history_frozen_static i r Hd ev ops c Hno H).
  exists r; split; [exact Hn|apply sd_refl].
Qed.

End Statements.

(* ------------------------------------------------------------------ a retried attempt is reopened
   before any transition is decided *)

(* no record's decisions or published-context reference change (records may be appended) *)
Definition Rnx (c c' : cstate) : Prop :=
  forall j r, nth_error (sequence (c_ws c)) j = Some r ->
    exists r', nth_error (sequence (c_ws c')) j = Some r' /\ r_next r' = r_next r /\ r_out r' = r_out r.
(* ... and, once the workflow state exists, no context snapshot is appended *)
Definition Rno (c c' : cstate) : Prop :=
  (c_init c = true -> c_init c' = true /\ contexts (c_ws c') = contexts (c_ws c)) /\ Rnx c c'.

Lemma Rnx_refl : forall c, Rnx c c.
Proof. intros c j r H; exists r; repeat split; exact H. Qed.
Lemma Rnx_trans : forall a b c, Rnx a b -> Rnx b c -> Rnx a c.
Proof.
  intros a b c H1 H2 j r H. destruct (H1 j r H) as [r1 [Hr1 [N1 O1]]]. destruct (H2 j r1 Hr1) as [r2 [Hr2 [N2 O2]]].
  exists r2; repeat split; congruence.
Qed.
Lemma Rno_refl : forall c, Rno c c.
Proof. intro c; split; [intro H; split; [exact H|reflexivity]|apply Rnx_refl]. Qed.
Lemma Rno_trans : forall a b c, Rno a b -> Rno b c -> Rno a c.
Proof.
  intros a b c [I1 X1] [I2 X2]; split; [|eapply Rnx_trans; eassumption].
  intro Hi. destruct (I1 Hi) as [Hb C1]. destruct (I2 Hb) as [Hc C2]. split; [exact Hc|congruence].
Qed.

Lemma Rnx_same_seq : forall c c', sequence (c_ws c') = sequence (c_ws c) -> Rnx c c'.
Proof. intros c c' H j r Hj; exists r; rewrite H; repeat split; exact Hj. Qed.

Lemma Rnx_update : forall c j f, (forall r, r_next (f r) = r_next r /\ r_out (f r) = r_out r) ->
  Rnx c (set_ws c (ws_update_rec (c_ws c) j f)).
Proof.
  intros c j f Hf k r Hk. cbn [c_ws set_ws]. destruct (Nat.eq_dec j k) as [->|Hn].
  - exists (f r); split; [apply nth_update_rec_same; exact Hk|apply Hf].
  - exists r; split; [rewrite nth_update_rec_other by exact Hn; exact Hk|split; reflexivity].
Qed.

Lemma Rnx_append : forall c r tk,
  Rnx c (set_ws c (ws_set_tasks (ws_set_sequence (c_ws c) (app (sequence (c_ws c)) [r])) tk)).
Proof.
  intros c r tk k r1 Hk. exists r1; split; [|split; reflexivity].
  cbn [c_ws set_ws sequence ws_set_tasks ws_set_sequence].
  rewrite nth_error_app1; [exact Hk|]. apply nth_error_Some; congruence.
Qed.

Lemma Rno_of : forall c c', c_init c' = c_init c -> contexts (c_ws c') = contexts (c_ws c) -> Rnx c c' -> Rno c c'.
Proof. intros c c' Hi Hc Hx; split; [intro H; split; [congruence|exact Hc]|exact Hx]. Qed.

Lemma ctx_update_rec : forall w j f, contexts (ws_update_rec w j f) = contexts w.
Proof. intros; unfold ws_update_rec; destruct (nth_error (sequence w) j); reflexivity. Qed.
Lemma ctx_remove_staged : forall w t r, contexts (ws_remove_staged_task w t r) = contexts w.
Proof.
  intros; unfold ws_remove_staged_task. destruct (get_staged_task w t r); [|reflexivity].
  destruct (items_any_active s); reflexivity.
Qed.

Section Reopened.
Variable ev : string -> dict -> evalres.

Ltac nx_side := intro; split; reflexivity.

Ltac leafx :=
  first
    [ apply (preserves_modws Rnx); intro; apply Rnx_same_seq; simpl; first [reflexivity|apply seq_remove_staged]
    | apply (preserves_modws Rnx); intro; apply Rnx_update; nx_side
    | apply (preserves_modws Rnx); intro; apply Rnx_append
    | apply (preserves_modify Rnx); intro; apply Rnx_same_seq; reflexivity
    | apply (preserves_modify Rnx); intro; apply Rnx_same_seq;
      match goal with |- context [if ?b then _ else _] => destruct b end; reflexivity
    | assumption
    | match goal with IH : forall _ _ _ _, preserves _ _ |- _ => apply IH end
    | eauto 3 with presnx ].
Ltac walkx := pw Rnx_refl Rnx_trans leafx.

Lemma pnx_wf_workflow_event : forall st, preserves Rnx (wf_workflow_event_M st).
Proof.
  intros st c c' r H. unfold wf_workflow_event_M in H.
  destruct (wf_process_workflow_event (c_graph c) (c_ws c) st) as [[new unr]|e]; inversion H; subst;
    [apply Rnx_same_seq; reflexivity|apply Rnx_refl].
Qed.
Hint Resolve pnx_wf_workflow_event : presnx.
Lemma pnx_log_entry_error : forall m t r tr res, preserves Rnx (log_entry_error m t r tr res).
Proof. intros; unfold log_entry_error; walkx. Qed.
Hint Resolve pnx_log_entry_error : presnx.
Lemma pnx_log_error : forall e t r tr, preserves Rnx (log_error e t r tr).
Proof. intros; unfold log_error; auto with presnx. Qed.
Hint Resolve pnx_log_error : presnx.
Lemma pnx_log_errors : forall es t r tr, preserves Rnx (log_errors es t r tr).
Proof. intros; unfold log_errors; walkx. Qed.
Hint Resolve pnx_log_errors : presnx.
Lemma pnx_log_unreachable : forall l, preserves Rnx (log_unreachable l).
Proof. intros; unfold log_unreachable; walkx. Qed.
Hint Resolve pnx_log_unreachable : presnx.
Lemma pnx_set_rec_status : forall j s, preserves Rnx (set_rec_status j s).
Proof. intros; unfold set_rec_status; walkx. Qed.
Hint Resolve pnx_set_rec_status : presnx.
Lemma pnx_request_status_core : forall st, preserves Rnx (request_status_core st).
Proof. intros; unfold request_status_core; walkx. Qed.
Hint Resolve pnx_request_status_core : presnx.
Lemma pnx_render_input : forall specs rt rolling errs, preserves Rnx (render_input ev specs rt rolling errs).
Proof. induction specs as [|[n d] specs IH]; intros; simpl; walkx. Qed.
Hint Resolve pnx_render_input : presnx.
Lemma pnx_render_vars : forall specs rolling rendered errs, preserves Rnx (render_vars ev specs rolling rendered errs).
Proof. induction specs as [|[n d] specs IH]; intros; simpl; walkx. Qed.
Hint Resolve pnx_render_vars : presnx.
Lemma pnx_ensure_ws : preserves Rnx (ensure_ws ev).
Proof. unfold ensure_ws; walkx. Qed.

Lemma pno_ensure_ws : preserves Rno (ensure_ws ev).
Proof.
  intros c c' r H. destruct (c_init c) eqn:Hi.
  - rewrite (ensure_ws_inited ev c Hi) in H. inversion H; subst. apply Rno_refl.
  - split; [intro Ht; congruence|eapply pnx_ensure_ws; exact H].
Qed.

Ltac leafo :=
  first
    [ apply (preserves_modws Rno); intro; apply Rno_of;
      [reflexivity
      |cbn [c_ws set_ws]; first [reflexivity|apply ctx_update_rec|apply ctx_remove_staged]
      |first [ apply Rnx_same_seq; simpl; first [reflexivity|apply seq_remove_staged]
             | apply Rnx_update; nx_side
             | apply Rnx_append ]]
    | apply (preserves_modify Rno); intro; apply Rno_of; [reflexivity|reflexivity|apply Rnx_same_seq; reflexivity]
    | apply (preserves_modify Rno); intro;
      match goal with |- context [if ?b then _ else _] => destruct b end;
      (apply Rno_of; [reflexivity|reflexivity|apply Rnx_same_seq; reflexivity])
    | assumption
    | eauto 3 with presno ].
Ltac walko := pw Rno_refl Rno_trans leafo.

Hint Resolve pno_ensure_ws : presno.
Lemma pno_wf_workflow_event : forall st, preserves Rno (wf_workflow_event_M st).
Proof.
  intros st c c' r H. unfold wf_workflow_event_M in H.
  destruct (wf_process_workflow_event (c_graph c) (c_ws c) st) as [[new unr]|e]; inversion H; subst;
    [apply Rno_of; [reflexivity|reflexivity|apply Rnx_same_seq; reflexivity]|apply Rno_refl].
Qed.
Hint Resolve pno_wf_workflow_event : presno.
Lemma pno_wf_task_event : forall t route st, preserves Rno (wf_task_event_M t route st).
Proof.
  intros t route st c c' r H. unfold wf_task_event_M in H.
  destruct (wf_process_task_event (c_graph c) (c_ws c) t route st) as [[new unr]|e]; inversion H; subst;
    [apply Rno_of; [reflexivity|reflexivity|apply Rnx_same_seq; reflexivity]|apply Rno_refl].
Qed.
Hint Resolve pno_wf_task_event : presno.
Lemma pno_log_entry_error : forall m t r tr res, preserves Rno (log_entry_error m t r tr res).
Proof. intros; unfold log_entry_error; walko. Qed.
Hint Resolve pno_log_entry_error : presno.
Lemma pno_log_error : forall e t r tr, preserves Rno (log_error e t r tr).
Proof. intros; unfold log_error; auto with presno. Qed.
Hint Resolve pno_log_error : presno.
Lemma pno_log_unreachable : forall l, preserves Rno (log_unreachable l).
Proof. intros; unfold log_unreachable; walko. Qed.
Hint Resolve pno_log_unreachable : presno.
Lemma pno_set_rec_status : forall j s, preserves Rno (set_rec_status j s).
Proof. intros; unfold set_rec_status; walko. Qed.
Hint Resolve pno_set_rec_status : presno.
Lemma pno_request_status_core : forall st, preserves Rno (request_status_core st).
Proof. intros; unfold request_status_core; walko. Qed.
Hint Resolve pno_request_status_core : presno.
Lemma pno_get_task_context : forall idxs, preserves Rno (get_task_context idxs).
Proof. intros; unfold get_task_context; walko. Qed.
Hint Resolve pno_get_task_context : presno.
Lemma pno_setup_retry : forall t idxs, preserves Rno (setup_retry ev t idxs).
Proof. intros; unfold setup_retry; walko. Qed.
Hint Resolve pno_setup_retry : presno.
Lemma pno_add_task_state : forall t r ins p, preserves Rno (add_task_state ev t r ins p).
Proof. intros; unfold add_task_state; walko. Qed.
Hint Resolve pno_add_task_state : presno.
Lemma pno_evaluate_task_retry : forall r ctx, preserves Rno (evaluate_task_retry ev r ctx).
Proof. intros; unfold evaluate_task_retry; walko. Qed.
Hint Resolve pno_evaluate_task_retry : presno.
Lemma pno_get_rec : forall j, preserves Rno (get_rec j).
Proof. intros; unfold get_rec; walko. Qed.
Hint Resolve pno_get_rec : presno.

(* everything update_task_state does before its tail -- selection of the record, the task machine,
   the retry bookkeeping, the completion step -- decides no transition, for every event *)
Lemma pno_prefix : forall t route evt, preserves Rno (uts_prefix ev t route evt).
Proof.
  intros; unfold uts_prefix, pre_main, pre_machine, uts_sel1, uts_sel2, uts_need_staged, uts_unstage, uts_item,
    uts_logfail, uts_setst, uts_retrying, uts_completion, upd_rec.
  walko.
Qed.

(* the tail, when it makes no call: it evaluates no transition either *)
Lemma pno_rest_nil : forall (rec : string -> nat -> event -> M unit) t route idx,
  preserves Rno (r <- get_rec idx ;;
                 st <- (match r_status r with Some s => ret s | None => raise (exn_key "status") end) ;;
                 unreachable <- wf_task_event_M t route st ;;
                 log_unreachable unreachable ;;;
                 forM_ [] (uts_call rec) ;;;
                 w <- getws ;;
                 if status_in (wstatus w) COMPLETED_STATUSES
                 then upd_rec idx (fun r => r_set_term r true)
                 else ret tt).
Proof. intros; cbn [forM_]; unfold upd_rec; walko. Qed.

Lemma queue_norec_rno : forall t route idx ts old new compl c c' r,
  (compl = None \/ exists ctx, compl = Some (ctx, false) /\ (new = old \/ g_next_transitions (c_graph c) t = [])) ->
  uts_queue ev t route idx ts old new compl c = (c', r) -> Rno c c'.
Proof.
  intros t route idx ts old new compl c c' r Hc H. unfold uts_queue in H.
  destruct Hc as [->|[ctx [-> Hc]]]; [inversion H; subst; apply Rno_refl|].
  destruct (negb (status_eqb new old)) eqn:En; [|inversion H; subst; apply Rno_refl].
  destruct Hc as [Hc|Hc]; [subst; rewrite status_eqb_refl in En; discriminate|].
  unfold bind at 1, get in H. cbv beta iota zeta in H. rewrite Hc in H.
  match type of H with ?m c = _ => assert (P : preserves Rno m) end.
  { cbn [mapM]. unfold upd_rec. walko. }
  eapply P; exact H.
Qed.

Lemma tail_norec_rno : forall rec t route p c c' res, norec_cond c t p ->
  tail_of ev rec t route p c = (c', res) -> Rno c c'.
Proof.
  intros rec t route p c c' res Hn H. unfold tail_of, uts_tail in H.
  assert (G : forall compl, po_compl p = compl -> (forall ctx, compl <> Some (ctx, true)) ->
            (queue <- uts_queue ev t route (po_idx p) (po_ts p) (po_old p) (po_new p) compl ;;
             r <- get_rec (po_idx p) ;;
             st <- (match r_status r with Some s => ret s | None => raise (exn_key "status") end) ;;
             unreachable <- wf_task_event_M t route st ;;
             log_unreachable unreachable ;;;
             forM_ queue (uts_call rec) ;;;
             w <- getws ;;
             if status_in (wstatus w) COMPLETED_STATUSES
             then upd_rec (po_idx p) (fun r => r_set_term r true)
             else ret tt) c = (c', res) -> Rno c c').
  { intros compl Ec Hnt Hb. unfold norec_cond in Hn. rewrite Ec in Hn.
    apply bind_inv in Hb. destruct Hb as [[c1 [q [E Hb]]]|[e [E _]]].
    - pose proof (queue_norec_rno _ _ _ _ _ _ _ _ _ _ Hn E) as R1.
      assert (q = []) as ->.
      { destruct Hn as [->|[ctx [-> Hc]]]; [inversion E; reflexivity|].
        eapply queue_nil; [exact E|exact Hc]. }
      eapply Rno_trans; [exact R1|]. eapply pno_rest_nil; exact Hb.
    - eapply queue_norec_rno; [exact Hn|exact E]. }
  destruct (po_compl p) as [[ctx b]|] eqn:Ec.
  - destruct b.
    + exfalso. destruct Hn as [Hn|[x [Hn _]]]; rewrite Ec in Hn; discriminate.
    + eapply (G (Some (ctx, false))); [reflexivity|intros x E; inversion E|exact H].
  - eapply (G None); [reflexivity|intros x E; inversion E|exact H].
Qed.

(* (a) the call that delivers the retry event -- the one that takes a record to "retrying" --
   changes no record's decisions or published-context reference and appends no context snapshot *)
Theorem retry_call_decides_nothing : forall fuel t route c c' res,
  update_task_state_fuel ev fuel t route retry_event c = (c', res) -> Rno c c'.
Proof.
  intros [|fuel] t route c c' res H; [simpl in H; inversion H; subst; apply Rno_refl|].
  rewrite uts_unfold, body_eq in H. apply bind_inv in H.
  destruct H as [[c1 [p [E H]]]|[e [E _]]].
  - eapply Rno_trans; [eapply pno_prefix; exact E|].
    eapply tail_norec_rno; [eapply prefix_retry_event; exact E|exact H].
  - eapply pno_prefix; exact E.
Qed.

(* (b) a call whose completion step decides to retry does nothing after that decision but make
   the retry call: the whole call decides nothing *)
Theorem retry_branch_decides_nothing : forall fuel t route evt c c1 p ctx c' res,
  uts_prefix ev t route evt c = (c1, Val p) -> po_compl p = Some (ctx, true) ->
  update_task_state_fuel ev (S fuel) t route evt c = (c', res) -> Rno c c'.
Proof.
  intros fuel t route evt c c1 p ctx c' res E Hc H.
  rewrite uts_unfold, body_eq in H. rewrite (bind_step _ _ _ _ _ _ _ E) in H.
  unfold tail_of, uts_tail in H. rewrite Hc in H.
  eapply Rno_trans; [eapply pno_prefix; exact E|eapply retry_call_decides_nothing; exact H].
Qed.

End Reopened.

(* (c) and those are the only ways into "retrying": the task machine moves a record there only
   when it is handed the retry event *)
Theorem enters_retrying_only_by_retry_event : forall w r evt,
  task_process_event w r evt = Val (Some S_RETRYING) -> is_retry_event evt = true.
Proof.
  intros w r evt H. destruct (is_retry_event evt) eqn:E; [reflexivity|exfalso].
  assert (G : forall n, task_table_step (rstatus r) n = Val (Some S_RETRYING) -> n = EV_TASK_RETRY_REQUESTED).
  { intros n Hs. apply task_table_step_val in Hs. apply F_task_retrying_only_by_retry in Hs. tauto. }
  unfold task_process_event in H. destruct evt as [st|st res|item st res acc|n st].
  - destruct (negb _); [discriminate|]. apply G in H. revert H. unfold task_workflow_event_name.
    assert (B : forall x, ((WORKFLOW_EVENT_PREFIX ++ status_name st) ++ x)%string <> EV_TASK_RETRY_REQUESTED).
    { intro x. rewrite append_assoc. apply prefix_literal_neq; vm_compute; congruence. }
    assert (B0 : (WORKFLOW_EVENT_PREFIX ++ status_name st)%string <> EV_TASK_RETRY_REQUESTED)
      by (apply prefix_literal_neq; vm_compute; congruence).
    destruct (status_in st (app PAUSE_STATUSES CANCEL_STATUSES)); [|exact B0].
    destruct (get_staged_task w (r_id r) (r_route r)) as [s|]; [|exact B0].
    destruct (s_items s); [|exact B0]. rewrite append_assoc. apply B.
  - destruct (negb _); [discriminate|]. apply G in H. revert H.
    cbn [ev_name]. apply prefix_literal_neq; vm_compute; congruence.
  - destruct (negb _); [discriminate|].
    destruct (item_event_name w (r_id r) (r_route r) item st) as [n|x] eqn:En; [|discriminate].
    apply G in H. exact (item_event_name_not_retry _ _ _ _ _ _ En H).
  - destruct (negb _); [discriminate|]. apply G in H. cbn [ev_name] in H. subst n.
    unfold is_retry_event in E. rewrite String.eqb_refl in E. discriminate.
Qed.


(* ------------------------------------------------------------------ witnesses *)

(* t1 --(when "ok", publish seen)--> t2; t1 has the retry policy {when: "again", count: 3}.
   The evaluator answers "again" with (result = 1) and "ok" with (result <> 5). *)
Definition cur_result (ctx : dict) : json :=
  match dget "__current_task" ctx with
  | Some (JDict d) => match dget "result" d with Some v => v | None => JNull end
  | _ => JNull
  end.
Definition ev_w (s : string) (ctx : dict) : evalres :=
  if String.eqb s "again" then EvOk (JBool (json_eqb (cur_result ctx) (JInt 1)))
  else if String.eqb s "ok" then EvOk (JBool (negb (json_eqb (cur_result ctx) (JInt 5))))
  else EvOk JNull.
Definition w_spec : wf_spec :=
  {| wf_input := []; wf_vars := []; wf_output := [];
     wf_tasks := [("t1", {| ts_action := JNull; ts_input := JNull; ts_with := None; ts_delay := JNull; ts_join := JNull;
                            ts_next := [{| tr_when := JStr "ok"; tr_publish := [("seen", JStr "val")]; tr_do := ["t2"] |}] |});
                  ("t2", empty_task_spec)] |}.
Definition w_graph (retry : json) : graph :=
  {| g_nodes := [{| n_id := "t1"; n_barrier := JNull; n_splits := None; n_retry := retry |};
                 {| n_id := "t2"; n_barrier := JNull; n_splits := None; n_retry := JNull |}];
     g_edges := [{| e_src := "t1"; e_dst := "t2"; e_key := 0; e_ref := 0; e_criteria := [JStr "ok"] |}] |}.
Definition w_retry : json := JDict [("when", JStr "again"); ("count", JInt 3)].
Definition w_init (retry : json) : cstate :=
  {| c_spec := w_spec; c_graph := w_graph retry; c_inputs := []; c_parent := []; c_init := false;
     c_ws := empty_ws; c_errors := []; c_log := []; c_output := None |}.
(* run t1 once: it succeeds with result 0, is not retried, its transition to t2 is decided *)
Definition w_ops1 : list api_op :=
  [OpRequest S_RUNNING; OpGetNext; OpEvent "t1" 0 (EvAction S_RUNNING JNull);
   OpEvent "t1" 0 (EvAction S_SUCCEEDED (JInt 0))].
Definition w_decided (retry : json) : cstate := run_ops ev_w w_ops1 (w_init retry).
(* a duplicate completion report of the same execution, carrying another result *)
Definition w_late : api_op := OpEvent "t1" 0 (EvAction S_SUCCEEDED (JInt 1)).
(* the provider then serves the retry it is offered *)
Definition w_ops3 : list api_op :=
  [OpGetNext; OpEvent "t1" 0 (EvAction S_RUNNING JNull); OpEvent "t1" 0 (EvAction S_FAILED (JInt 5))].
Definition w_obs (c : cstate) :=
  (map (fun r => (r_status r, r_next r, r_out r, r_term r)) (sequence (c_ws c)),
   wstatus (c_ws c), map s_id (staged (c_ws c)), length (contexts (c_ws c))).

Example w_decided_state :
  w_obs (w_decided w_retry)
  = ([(Some S_SUCCEEDED, [(("t2", 0), true)], Some (("t2", 0), 1), false)], S_RUNNING, ["t2"], 2).
Proof. vm_compute. reflexivity. Qed.

(* D33 (engine fix mirrored in the model): the retry of a completed task is evaluated only when the report changed
   its status.  Before the fix the duplicate report reopened the decided record (retrying, t1 staged again) and the
   next attempt rewrote its status (failed) and its decision (false); that was the refutation recorded here
   (decided_record_not_frozen_with_retries_left).  Now the duplicate report is absorbed ... *)
Example w_late_report_absorbed :
  w_obs (run_ops ev_w [w_late] (w_decided w_retry))
  = ([(Some S_SUCCEEDED, [(("t2", 0), true)], Some (("t2", 0), 1), false)], S_RUNNING, ["t2"], 2).
Proof. vm_compute. reflexivity. Qed.

(* ... and so are the reports of the attempt that is never offered *)
Example w_decision_kept :
  w_obs (run_ops ev_w (w_late :: w_ops3) (w_decided w_retry))
  = ([(Some S_SUCCEEDED, [(("t2", 0), true)], Some (("t2", 0), 1), false)], S_RUNNING, ["t2"], 2).
Proof. vm_compute. reflexivity. Qed.

(* the former witness against dropping the retry hypothesis, with retries left: every operation is a provider event
   or a poll, the record is decided, and its status and its decision stay *)
Theorem decided_record_kept_with_retries_left : exists r r',
  nth_error (sequence (c_ws (w_decided w_retry))) 0 = Some r /\ decided r /\ retry_open r /\
  forallb op_static (w_late :: w_ops3) = true /\
  nth_error (sequence (c_ws (run_ops ev_w (w_late :: w_ops3) (w_decided w_retry)))) 0 = Some r' /\
  r_status r = Some S_SUCCEEDED /\ r_status r' = Some S_SUCCEEDED /\
  r_next r = [(("t2", 0), true)] /\ r_next r' = [(("t2", 0), true)].
Proof.
  eexists; eexists. split; [vm_compute; reflexivity|].
  split; [vm_compute; reflexivity|].
  split; [eexists; split; [reflexivity|split; vm_compute; reflexivity]|].
  split; [reflexivity|]. split; [vm_compute; reflexivity|]. repeat split.
Qed.

(* the same definition without the retry policy: the theorem applies, the duplicate report (and
   everything after it) leaves the decided record alone *)
Example w_no_policy_frozen : exists r r',
  nth_error (sequence (c_ws (w_decided JNull))) 0 = Some r /\
  nth_error (sequence (c_ws (run_ops ev_w (w_late :: w_late :: w_ops3) (w_decided JNull)))) 0 = Some r' /\
  same_decided r r'.
Proof.
  assert (H0 : exists r, nth_error (sequence (c_ws (w_decided JNull))) 0 = Some r /\ decided r /\ r_retry r = None).
  { eexists. split; [vm_compute; reflexivity|]. split; [vm_compute; reflexivity|reflexivity]. }
  destruct H0 as [r [Hn [Hd Hr]]].
  destruct (decided_record_frozen ev_w (w_late :: w_late :: w_ops3) (w_decided JNull) 0 r Hn Hd) as [r' [Hn' Hs]].
  - intros [rr [Hrr _]]. rewrite Hr in Hrr. discriminate.
  - reflexivity.
  - exists r, r'. repeat split; try assumption; apply Hs.
Qed.

(* the engine's internal retry event, injected from outside, reopens a decided record even when
   the task has no retry policy (and then raises KeyError('retry')) *)
Example w_injected_retry_event_reopens :
  (let p := api_exec ev_w (OpEvent "t1" 0 (EvEngine EV_TASK_RETRY_REQUESTED S_RETRYING)) (w_decided JNull) in
   (map r_status (sequence (c_ws (fst p))), match snd p with Exc e => x_cls e | Val _ => "" end))
  = ([Some S_RETRYING], "KeyError").
Proof. vm_compute. reflexivity. Qed.

(* a rerun keeps the decided record but resets its terminal flag and appends a new record:
   r_term is the one field that is not frozen *)
Definition w_ops4 : list api_op :=
  [OpGetNext; OpEvent "t2" 0 (EvAction S_RUNNING JNull); OpEvent "t2" 0 (EvAction S_FAILED JNull)].
Example w_t2_failed :
  w_obs (run_ops ev_w w_ops4 (w_decided w_retry))
  = ([(Some S_SUCCEEDED, [(("t2", 0), true)], Some (("t2", 0), 1), false); (Some S_FAILED, [], None, true)],
     S_FAILED, [], 2).
Proof. vm_compute. reflexivity. Qed.
Example w_rerun_resets_term_only :
  w_obs (run_ops ev_w [OpRerun []] (run_ops ev_w w_ops4 (w_decided w_retry)))
  = ([(Some S_SUCCEEDED, [(("t2", 0), true)], Some (("t2", 0), 1), false); (Some S_FAILED, [], None, false);
      (None, [], None, false)],
     S_RESUMING, ["t2"], 2).
Proof. vm_compute. reflexivity. Qed.

(* with retries left the record is still protected from everything that does not address it:
   here the events of the other task (first disjunct of [safe]) *)
Example w_other_task_events_frozen : exists r r',
  nth_error (sequence (c_ws (w_decided w_retry))) 0 = Some r /\ retry_open r /\
  nth_error (sequence (c_ws (run_ops ev_w [OpGetNext; OpEvent "t2" 0 (EvAction S_RUNNING JNull);
                                            OpEvent "t2" 0 (EvAction S_SUCCEEDED JNull); OpRender]
                                     (w_decided w_retry)))) 0 = Some r' /\
  same_decided r r'.
Proof.
  assert (H0 : exists r, nth_error (sequence (c_ws (w_decided w_retry))) 0 = Some r /\ decided r /\ retry_open r).
  { eexists. split; [vm_compute; reflexivity|]. split; [vm_compute; reflexivity|].
    eexists; split; [reflexivity|split; vm_compute; reflexivity]. }
  destruct H0 as [r [Hn [Hd Ho]]].
  destruct (decided_record_frozen_history ev_w
              [OpGetNext; OpEvent "t2" 0 (EvAction S_RUNNING JNull); OpEvent "t2" 0 (EvAction S_SUCCEEDED JNull); OpRender]
              (w_decided w_retry) 0 r Hn Hd) as [r' [Hn' Hs]].
  - cbn [hist_safe op_safe]. split; [exact I|]. split; [left; vm_compute; discriminate|].
    split; [left; vm_compute; discriminate|]. split; exact I.
  - exists r, r'. repeat split; try assumption; apply Hs.
Qed.

(* the per-event hypothesis, spelled out *)
Lemma safe_unfold : forall i r0 c t route evt,
  safe i r0 c t route evt <->
  (ws_task_idx (c_ws c) t route <> Some i \/ is_engine_command t = true \/
   (c_init c = true /\ status_in (ev_status evt) STARTING_STATUSES = true /\
   exists s, get_staged_task (c_ws c) t route = Some s /\ s_completed s = false) \/
   (is_retry_event evt = false /\ ~ retry_open r0)).
Proof. intros; split; intro H; exact H. Qed.

Lemma safe_w_unfold : forall i c t route evt,
  safe_w i c t route evt <->
  (ws_task_idx (c_ws c) t route <> Some i \/ is_engine_command t = true \/
   (c_init c = true /\ status_in (ev_status evt) STARTING_STATUSES = true /\
   exists s, get_staged_task (c_ws c) t route = Some s /\ s_completed s = false) \/
   is_retry_event evt = false).
Proof. intros; split; intro H; exact H. Qed.

Lemma op_safe_w_unfold : forall i c op,
  op_safe_w i c op <->
  match op with
  | OpEvent t route evt => safe_w i c t route evt
  | OpPersist => c_init c = true
  | _ => True
  end.
Proof. intros; split; intro H; exact H. Qed.

Lemma op_safe_w_spelled : forall i c op,
  op_safe_w i c op <->
  match op with
  | OpEvent t route evt =>
      ws_task_idx (c_ws c) t route <> Some i \/ is_engine_command t = true \/
      (c_init c = true /\ status_in (ev_status evt) STARTING_STATUSES = true /\
       exists s, get_staged_task (c_ws c) t route = Some s /\ s_completed s = false) \/
      is_retry_event evt = false
  | OpPersist => c_init c = true
  | _ => True
  end.
Proof. intros i c op; destruct op; split; intro H; exact H. Qed.

Lemma op_safe_unfold : forall i r0 c op,
  op_safe i r0 c op <->
  match op with
  | OpEvent t route evt => safe i r0 c t route evt
  | OpPersist => c_init c = true
  | _ => True
  end.
Proof. intros; split; intro H; exact H. Qed.
