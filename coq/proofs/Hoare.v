(* Hoare.v -- reasoning principles for the state+exception monad: relational frame rules
   ("every run of m relates the initial and final state by a preorder R, whether it returns or
   raises") and the tactic that walks a monadic term.  Used by all invariant proofs. *)
From Coq Require Import String List Bool ZArith Arith Lia.
From Orq Require Import GenStatuses GenEvents GenTables GenSpecMeta Base State Machines Codec Conductor.
Import ListNotations.
Open Scope monad_scope.

(* ---- induction principle for the nested json type ---- *)
Section JsonInd.
  Variable P : json -> Prop.
  Hypothesis Hnull : P JNull.
  Hypothesis Hbool : forall b, P (JBool b).
  Hypothesis Hint : forall z, P (JInt z).
  Hypothesis Hfloat : forall h, P (JFloat h).
  Hypothesis Hstr : forall s, P (JStr s).
  Hypothesis Hlist : forall l, Forall P l -> P (JList l).
  Hypothesis Hdict : forall kv, Forall (fun p => P (snd p)) kv -> P (JDict kv).
  Fixpoint json_ind' (j : json) : P j :=
    match j with
    | JNull => Hnull | JBool b => Hbool b | JInt z => Hint z | JFloat h => Hfloat h | JStr s => Hstr s
    | JList l => Hlist l ((fix go (l : list json) : Forall P l :=
                             match l with [] => Forall_nil _ | x :: l' => Forall_cons _ (json_ind' x) (go l') end) l)
    | JDict kv => Hdict kv ((fix go (kv : list (string * json)) : Forall (fun p => P (snd p)) kv :=
                               match kv with [] => Forall_nil _
                               | p :: kv' => Forall_cons _ (json_ind' (snd p)) (go kv') end) kv)
    end.
End JsonInd.

(* ---- relational frame rule ---- *)
Section Preserves.
  Variable R : cstate -> cstate -> Prop.
  Hypothesis R_refl : forall c, R c c.
  Hypothesis R_trans : forall a b c, R a b -> R b c -> R a c.

  Definition preserves {A} (m : M A) : Prop := forall c c' r, m c = (c', r) -> R c c'.

  Lemma preserves_ret : forall A (a : A), preserves (ret a).
  Proof. intros A a c c' r H; inversion H; subst; apply R_refl. Qed.

  Lemma preserves_raise : forall A e, preserves (@raise A e).
  Proof. intros A e c c' r H; inversion H; subst; apply R_refl. Qed.

  Lemma preserves_get : preserves get.
  Proof. intros c c' r H; inversion H; subst; apply R_refl. Qed.

  Lemma preserves_getws : preserves getws.
  Proof. intros c c' r H; inversion H; subst; apply R_refl. Qed.

  Lemma preserves_bind : forall A B (m : M A) (f : A -> M B),
    preserves m -> (forall a, preserves (f a)) -> preserves (bind m f).
  Proof.
    intros A B m f Hm Hf c c' r H. unfold bind in H.
    destruct (m c) as [c1 [a|e]] eqn:E.
    - eapply R_trans; [eapply Hm; exact E | eapply Hf; exact H].
    - inversion H; subst. eapply Hm; exact E.
  Qed.

  Lemma preserves_try_catch : forall A (m : M A) h,
    preserves m -> (forall e, preserves (h e)) -> preserves (try_catch m h).
  Proof.
    intros A m h Hm Hh c c' r H. unfold try_catch in H.
    destruct (m c) as [c1 [a|e]] eqn:E.
    - inversion H; subst. eapply Hm; exact E.
    - eapply R_trans; [eapply Hm; exact E | eapply Hh; exact H].
  Qed.

  Lemma preserves_try_catch_expr : forall A (m : M A) h,
    preserves m -> (forall e, preserves (h e)) -> preserves (try_catch_expr m h).
  Proof.
    intros A m h Hm Hh c c' r H. unfold try_catch_expr in H.
    destruct (m c) as [c1 [a|e]] eqn:E.
    - inversion H; subst. eapply Hm; exact E.
    - destruct (x_expr e).
      + eapply R_trans; [eapply Hm; exact E | eapply Hh; exact H].
      + inversion H; subst. eapply Hm; exact E.
  Qed.

  Lemma preserves_mapM : forall A B (f : A -> M B) l,
    (forall a, preserves (f a)) -> preserves (mapM f l).
  Proof.
    intros A B f l Hf; induction l as [|x l IH]; simpl.
    - apply preserves_ret.
    - apply preserves_bind; [apply Hf|intro y].
      apply preserves_bind; [exact IH|intro ys]. apply preserves_ret.
  Qed.

  Lemma preserves_forM : forall A (l : list A) f,
    (forall a, preserves (f a)) -> preserves (forM_ l f).
  Proof.
    intros A l f Hf; induction l as [|x l IH]; simpl.
    - apply preserves_ret.
    - apply preserves_bind; [apply Hf|intro]. exact IH.
  Qed.

  Lemma preserves_lift_res : forall A (r : result A), preserves (lift_res r).
  Proof. intros A r; destruct r; [apply preserves_ret|apply preserves_raise]. Qed.

  Lemma preserves_lift_eval : forall r, preserves (lift_eval r).
  Proof. intros r; destruct r; [apply preserves_ret|apply preserves_raise]. Qed.

  Lemma preserves_modify : forall f, (forall c, R c (f c)) -> preserves (modify f).
  Proof. intros f Hf c c' r H; inversion H; subst; apply Hf. Qed.

  Lemma preserves_modws : forall f, (forall c, R c (set_ws c (f (c_ws c)))) -> preserves (modws f).
  Proof. intros f Hf c c' r H; inversion H; subst; apply Hf. Qed.

  Lemma preserves_put_from_get : forall A (k : cstate -> M A),
    (forall c, preserves (k c)) -> preserves (bind get k).
  Proof. intros A k Hk; apply preserves_bind; [apply preserves_get|exact Hk]. Qed.

  Lemma preserves_when : forall b m, preserves m -> preserves (when_ b m).
  Proof. intros b m Hm; destruct b; [exact Hm|apply preserves_ret]. Qed.
End Preserves.

(* expression evaluation never touches the conductor state *)
Section EvalPure.
  Variable ev : string -> dict -> evalres.

  Definition state_pure {A} (m : M A) : Prop := forall c, fst (m c) = c.

  Lemma state_pure_preserves : forall (R : cstate -> cstate -> Prop) (Rr : forall c, R c c) A (m : M A),
    state_pure m -> preserves R m.
  Proof. intros R Rr A m H c c' r E. specialize (H c). rewrite E in H; simpl in H; subst; apply Rr. Qed.

  Lemma state_pure_ret : forall A (a : A), state_pure (ret a).
  Proof. intros A a c; reflexivity. Qed.
  Lemma state_pure_raise : forall A e, state_pure (@raise A e).
  Proof. intros A e c; reflexivity. Qed.
  Lemma state_pure_bind : forall A B (m : M A) (f : A -> M B),
    state_pure m -> (forall a, state_pure (f a)) -> state_pure (bind m f).
  Proof.
    intros A B m f Hm Hf c. unfold bind. specialize (Hm c).
    destruct (m c) as [c1 [a|e]]; simpl in *; subst; [apply Hf|reflexivity].
  Qed.
  Lemma state_pure_lift_eval : forall r, state_pure (lift_eval r).
  Proof. intros [v|e] c; reflexivity. Qed.

  Lemma evaluate_pure : forall stmt ctx, state_pure (evaluate ev stmt ctx).
  Proof.
    intro stmt; induction stmt as [| | | |s|l IH|kv IH] using json_ind'; intro ctx;
      try (simpl; apply state_pure_ret).
    - simpl; apply state_pure_lift_eval.
    - simpl. apply state_pure_bind; [|intro; apply state_pure_ret].
      induction IH as [|x l Hx Hl IHl]; [apply state_pure_ret|].
      apply state_pure_bind; [apply Hx|intro y].
      apply state_pure_bind; [exact IHl|intro; apply state_pure_ret].
    - simpl. apply state_pure_bind; [|intro; apply state_pure_ret].
      generalize (@nil (string * json)) as acc.
      induction IH as [|[k v] kv' Hx Hl IHl]; intro acc; [apply state_pure_ret|].
      apply state_pure_bind; [apply state_pure_lift_eval|intro k'].
      apply state_pure_bind; [destruct k'; first [apply state_pure_raise|apply state_pure_ret]|intros _].
      apply state_pure_bind; [apply Hx|intro v'].
      destruct k'; try apply state_pure_raise. apply IHl.
  Qed.
End EvalPure.

(* ---- the walk: decompose a monadic term, calling [leaf] at the primitives ---- *)
Ltac head_of t := lazymatch t with ?f _ => head_of f | _ => t end.

Ltac pw Rr Rt leaf :=
  lazymatch goal with
  | |- preserves _ (ret _) => apply (preserves_ret _ Rr)
  | |- preserves _ (raise _) => apply (preserves_raise _ Rr)
  | |- preserves _ get => apply (preserves_get _ Rr)
  | |- preserves _ getws => apply (preserves_getws _ Rr)
  | |- preserves _ (bind _ _) => apply (preserves_bind _ Rt); [ pw Rr Rt leaf | intro; pw Rr Rt leaf ]
  | |- preserves _ (try_catch _ _) =>
      apply (preserves_try_catch _ Rt); [ pw Rr Rt leaf | intro; pw Rr Rt leaf ]
  | |- preserves _ (try_catch_expr _ _) =>
      apply (preserves_try_catch_expr _ Rt); [ pw Rr Rt leaf | intro; pw Rr Rt leaf ]
  | |- preserves _ (mapM _ _) => apply (preserves_mapM _ Rr Rt); intro; pw Rr Rt leaf
  | |- preserves _ (forM_ _ _) => apply (preserves_forM _ Rr Rt); intro; pw Rr Rt leaf
  | |- preserves _ (when_ _ _) => apply (preserves_when _ Rr); pw Rr Rt leaf
  | |- preserves _ (lift_res _) => apply (preserves_lift_res _ Rr)
  | |- preserves _ (lift_eval _) => apply (preserves_lift_eval _ Rr)
  | |- preserves _ (evaluate _ _ _) => apply (state_pure_preserves _ Rr); apply evaluate_pure
  | |- preserves _ (match ?x with _ => _ end) => destruct x; pw Rr Rt leaf
  | |- preserves _ ?m =>
      first [ solve [leaf]
            | let h := head_of m in progress (unfold h); pw Rr Rt leaf
            | progress (cbv beta); pw Rr Rt leaf
            | idtac ]
  end.
