(* InertProofs.v -- C04, the clause "status requests that the lifecycle forbids are rejected with an
   error and have no effect on the persisted state".

   request_workflow_status pushes the workflow event to every active pointed record (each may get a
   new status), steps the workflow table, and -- when the request changed nothing -- writes the saved
   record statuses back and raises InvalidWorkflowStatusTransition.  The theorem: whenever the call
   raises (any exception), the whole conductor state is exactly the state before the call, provided
   the workflow status is one that has a row in the workflow table (every status the table can reach
   has one; [lifecycle_invariant]).  Without that proviso the statement is false on the model
   ([rejected_request_not_inert_outside_lifecycle], at the end of this file). *)
From Coq Require Import String List Bool ZArith Arith Lia.
From Orq Require Import GenStatuses GenEvents GenTables GenSpecMeta Base State Machines Codec Conductor Decode Api.
From Orq Require Import F_tables Hoare StatusReach C04Proofs.
Import ListNotations.
Open Scope string_scope.
Open Scope monad_scope.

(* ------------------------------------------------------------------ lists *)

Lemma nth_error_set_nth_eq : forall A (l : list A) i x a,
  nth_error l i = Some a -> nth_error (list_set_nth i x l) i = Some x.
Proof.
  induction l as [|h t IH]; intros [|i] x a H; simpl in *; try discriminate; [reflexivity|].
  eapply IH; exact H.
Qed.

Lemma nth_error_set_nth_neq : forall A (l : list A) i j x,
  i <> j -> nth_error (list_set_nth i x l) j = nth_error l j.
Proof.
  induction l as [|h t IH]; intros [|i] [|j] x H; simpl; try reflexivity; [congruence|].
  apply IH; congruence.
Qed.

Lemma nth_error_ext_eq : forall A (l l' : list A), (forall j, nth_error l j = nth_error l' j) -> l = l'.
Proof.
  induction l as [|a l IH]; intros [|b l'] H; [reflexivity| | |].
  - specialize (H 0); discriminate.
  - specialize (H 0); discriminate.
  - f_equal; [specialize (H 0); simpl in H; congruence|].
    apply IH; intro j; exact (H (S j)).
Qed.

(* enumerate pairs every element with its own index *)
Lemma In_enumerate_from : forall A (l : list A) n i x,
  In (i, x) (enumerate_from n l) -> n <= i /\ nth_error l (i - n) = Some x.
Proof.
  induction l as [|a l IH]; intros n i x H; simpl in H; [destruct H|].
  destruct H as [H|H].
  - inversion H; subst. split; [lia|]. rewrite Nat.sub_diag. reflexivity.
  - apply IH in H. destruct H as [Hle Hn]. split; [lia|].
    replace (i - n) with (S (i - S n)) by lia. exact Hn.
Qed.

Lemma In_enumerate : forall A (l : list A) i x, In (i, x) (enumerate l) -> nth_error l i = Some x.
Proof.
  intros A l i x H. unfold enumerate in H. apply In_enumerate_from in H.
  destruct H as [_ H]. rewrite Nat.sub_0_r in H. exact H.
Qed.

Lemma map_fst_enumerate_from : forall A (l : list A) n, map fst (enumerate_from n l) = seq n (length l).
Proof. induction l as [|a l IH]; intro n; simpl; [reflexivity|]. f_equal. apply IH. Qed.

Lemma NoDup_map_fst_filter : forall A B (f : A * B -> bool) l,
  NoDup (map fst l) -> NoDup (map fst (filter f l)).
Proof.
  induction l as [|a l IH]; simpl; intro H; [constructor|].
  inversion H as [|x xs Hn Hd]; subst.
  destruct (f a); simpl; [|apply IH; exact Hd].
  constructor; [|apply IH; exact Hd].
  intro Hin. apply Hn. apply in_map_iff in Hin. destruct Hin as [y [Hy Hin]].
  apply filter_In in Hin. destruct Hin as [Hin _].
  apply in_map_iff. exists y; split; assumption.
Qed.

(* get_tasks_by_status: every pair is (index, the record at that index), the record has one of the
   statuses asked for, and no index occurs twice *)
Lemma tasks_by_status_In : forall w l i r, In (i, r) (ws_tasks_by_status w l) ->
  nth_error (sequence w) i = Some r /\ ostatus_in (r_status r) l = true.
Proof.
  intros w l i r H. unfold ws_tasks_by_status in H. apply filter_In in H. destruct H as [Hin Hf].
  cbv beta iota in Hf. apply andb_prop in Hf. destruct Hf as [Hs _].
  split; [apply In_enumerate; exact Hin|exact Hs].
Qed.

Lemma tasks_by_status_NoDup : forall w l, NoDup (map fst (ws_tasks_by_status w l)).
Proof.
  intros w l. unfold ws_tasks_by_status. apply NoDup_map_fst_filter.
  unfold enumerate. rewrite map_fst_enumerate_from. apply seq_NoDup.
Qed.

(* ------------------------------------------------------------ finite facts *)

(* every active status has a row in the task table: the task machine never raises
   InvalidTaskStatusTransition for an active record *)
Lemma F_active_task_rows : forall s, status_in s ACTIVE_STATUSES = true ->
  exists row, tbl_row task_table s = Some row.
Proof.
  intros s H.
  assert (T : forallb (fun s => negb (status_in s ACTIVE_STATUSES)
                                || match tbl_row task_table s with Some _ => true | None => false end)
                      all_statuses = true) by (vm_compute; reflexivity).
  rewrite forallb_forall in T. specialize (T s (all_statuses_complete s)).
  rewrite H in T. cbn [negb orb] in T.
  destruct (tbl_row task_table s) as [row|]; [exists row; reflexivity|discriminate].
Qed.

Lemma active_record_has_row : forall r, ostatus_in (r_status r) ACTIVE_STATUSES = true ->
  exists row, tbl_row task_table (rstatus r) = Some row.
Proof.
  intros r H. unfold rstatus. destruct (r_status r) as [s|]; [|discriminate].
  apply F_active_task_rows. exact H.
Qed.

(* when the plain name "workflow_<status>" is in the vocabulary, so is every contextualised form
   the workflow machine can build from it (all 16 statuses x all contexts) *)
Lemma F_wf_event_name_vocab : forall w st,
  string_in (WORKFLOW_EVENT_PREFIX ++ status_name st) WORKFLOW_EXECUTION_EVENTS = true ->
  string_in (wf_workflow_event_name w st) WORKFLOW_EXECUTION_EVENTS = true.
Proof.
  intros w st. unfold wf_workflow_event_name.
  generalize (has_active_tasks w) (has_staged_tasks w) (has_paused_tasks w) (status_eqb (wstatus w) S_PAUSED).
  intros b1 b2 b3 b4. destruct st, b1, b2, b3, b4; vm_compute; intro H; exact H.
Qed.

(* ---------------------------------------------------- the task machine on a workflow event *)

Definition wev_in_vocab (st : status) : bool :=
  string_in (WORKFLOW_EVENT_PREFIX ++ status_name st) WORKFLOW_EXECUTION_EVENTS.

Lemma tpe_workflow_val : forall w r st row, wev_in_vocab st = true ->
  tbl_row task_table (rstatus r) = Some row ->
  exists ns, task_process_event w r (EvWorkflow st) = Val ns.
Proof.
  intros w r st row Hv Hrow. unfold task_process_event. cbn [ev_name].
  unfold wev_in_vocab in Hv. rewrite Hv. cbn [negb]. unfold task_table_step. rewrite Hrow.
  eexists; reflexivity.
Qed.

(* the vocabulary test does not look at the record: if the name is unknown, the machine raises
   InvalidEvent for every record, in particular for the first one *)
Lemma tpe_workflow_invalid : forall w r st, wev_in_vocab st = false ->
  task_process_event w r (EvWorkflow st) = Exc (exn_invalid_event (WORKFLOW_EVENT_PREFIX ++ status_name st)).
Proof.
  intros w r st Hv. unfold task_process_event. cbn [ev_name].
  unfold wev_in_vocab in Hv. rewrite Hv. reflexivity.
Qed.

(* -------------------------------------------------------------- state algebra *)

Definition with_seq (c : cstate) (s : list trec) : cstate := set_ws c (ws_set_sequence (c_ws c) s).

Lemma with_seq_same : forall c, with_seq c (sequence (c_ws c)) = c.
Proof. intros [sp g inp par ini w er lg out]; destruct w; reflexivity. Qed.

Lemma with_seq_twice : forall c s s', with_seq (with_seq c s) s' = with_seq c s'.
Proof. reflexivity. Qed.

Lemma set_status_same : forall c, set_ws c (ws_set_status (c_ws c) (wstatus (c_ws c))) = c.
Proof. intros [sp g inp par ini w er lg out]; destruct w; reflexivity. Qed.

Lemma r_set_status_twice : forall r x y, r_set_status (r_set_status r x) y = r_set_status r y.
Proof. reflexivity. Qed.

Lemma r_set_status_same : forall r, r_set_status r (r_status r) = r.
Proof. intros []; reflexivity. Qed.

(* writing a status into record i of a sequence *)
Definition seq_upd (i : nat) (x : option status) (s : list trec) : list trec :=
  match nth_error s i with Some r => list_set_nth i (r_set_status r x) s | None => s end.

Lemma nth_error_seq_upd_eq : forall i x s r, nth_error s i = Some r ->
  nth_error (seq_upd i x s) i = Some (r_set_status r x).
Proof. intros i x s r H. unfold seq_upd. rewrite H. eapply nth_error_set_nth_eq; exact H. Qed.

Lemma nth_error_seq_upd_neq : forall i j x s, i <> j -> nth_error (seq_upd i x s) j = nth_error s j.
Proof.
  intros i j x s H. unfold seq_upd. destruct (nth_error s i); [|reflexivity].
  apply nth_error_set_nth_neq; exact H.
Qed.

Lemma set_rec_status_run : forall i x c,
  set_rec_status i x c = (with_seq c (seq_upd i x (sequence (c_ws c))), Val tt).
Proof.
  intros i x c. unfold set_rec_status, modws, ws_update_rec, with_seq, seq_upd.
  destruct (nth_error (sequence (c_ws c)) i); [reflexivity|].
  destruct c as [sp g inp par ini w er lg out]; destruct w; reflexivity.
Qed.

(* [moved L s0 s]: s is s0 except that records listed in L may carry another status *)
Definition moved (L : list (nat * trec)) (s0 s : list trec) : Prop :=
  forall j, nth_error s j = nth_error s0 j \/
            exists a x, In (j, a) L /\ nth_error s0 j = Some a /\ nth_error s j = Some (r_set_status a x).

Lemma moved_refl : forall L s, moved L s s.
Proof. intros L s j; left; reflexivity. Qed.

Lemma moved_step : forall L s0 s i r x, moved L s0 s -> In (i, r) L -> nth_error s0 i = Some r ->
  nth_error s i = Some r -> moved L s0 (seq_upd i x s).
Proof.
  intros L s0 s i r x Hm Hin H0 Hs j. destruct (Nat.eq_dec i j) as [E|N].
  - subst j. right. exists r, x. split; [exact Hin|]. split; [exact H0|].
    apply nth_error_seq_upd_eq; exact Hs.
  - rewrite nth_error_seq_upd_neq by exact N. apply Hm.
Qed.

(* ------------------------------------------------------------ the two loops *)

(* the body of the loop that pushes the workflow event to the active records *)
Definition push_body (st : status) : nat * trec -> M unit :=
  fun '(i, _) =>
    w <- getws ;;
    match nth_error (sequence w) i with
    | None => ret tt
    | Some r =>
        ns <- lift_res (task_process_event w r (EvWorkflow st)) ;;
        match ns with Some s => set_rec_status i (Some s) | None => ret tt end
    end.

(* what follows the loop *)
Definition request_tail (st current : status) (active : list (nat * trec)) : M unit :=
  unreachable <- wf_workflow_event_M st ;;
  log_unreachable unreachable ;;;
  w1 <- getws ;;
  let updated := wstatus w1 in
  if status_eqb st S_PAUSED && status_eqb current S_PAUSING && status_eqb updated S_PAUSING then ret tt
  else if status_eqb st S_CANCELED && status_eqb current S_CANCELING && status_eqb updated S_CANCELING
  then ret tt
  else if negb (status_eqb st current) && status_eqb current updated then
    forM_ active (fun '(i, r) => set_rec_status i (r_status r)) ;;;
    raise (exn_invalid_wf_transition current (WORKFLOW_EVENT_PREFIX ++ status_name st))
  else ret tt.

Lemma request_status_core_eq : forall st c,
  request_status_core st c =
  bind (forM_ (ws_tasks_by_status (c_ws c) ACTIVE_STATUSES) (push_body st))
       (fun _ => request_tail st (wstatus (c_ws c)) (ws_tasks_by_status (c_ws c) ACTIVE_STATUSES)) c.
Proof. reflexivity. Qed.

Lemma push_body_run : forall st i r0 c r ns, nth_error (sequence (c_ws c)) i = Some r ->
  task_process_event (c_ws c) r (EvWorkflow st) = Val ns ->
  push_body st (i, r0) c =
  (with_seq c (match ns with Some s => seq_upd i (Some s) (sequence (c_ws c)) | None => sequence (c_ws c) end),
   Val tt).
Proof.
  intros st i r0 c r ns Hn Ht. unfold push_body, bind, getws. cbv beta iota.
  rewrite Hn. cbv beta iota. unfold lift_res. rewrite Ht. unfold ret. cbv beta iota.
  destruct ns as [s|]; [apply set_rec_status_run|rewrite with_seq_same; reflexivity].
Qed.

Lemma push_body_raises : forall st i r0 c r, nth_error (sequence (c_ws c)) i = Some r ->
  wev_in_vocab st = false ->
  push_body st (i, r0) c = (c, Exc (exn_invalid_event (WORKFLOW_EVENT_PREFIX ++ status_name st))).
Proof.
  intros st i r0 c r Hn Hv. unfold push_body, bind, getws. cbv beta iota.
  rewrite Hn. cbv beta iota. unfold lift_res. rewrite (tpe_workflow_invalid _ _ _ Hv). reflexivity.
Qed.

(* the forward loop, name in the vocabulary: it returns, and only statuses of listed records moved *)
Lemma push_loop_run : forall st L s0, wev_in_vocab st = true ->
  (forall i r, In (i, r) L -> nth_error s0 i = Some r /\ ostatus_in (r_status r) ACTIVE_STATUSES = true) ->
  forall l c, incl l L -> NoDup (map fst l) ->
    (forall i r, In (i, r) l -> nth_error (sequence (c_ws c)) i = Some r) ->
    moved L s0 (sequence (c_ws c)) ->
    exists s2, forM_ l (push_body st) c = (with_seq c s2, Val tt) /\ moved L s0 s2.
Proof.
  intros st L s0 Hv HL. induction l as [|[i r] l IH]; intros c Hincl Hnd Hun Hm.
  - exists (sequence (c_ws c)). cbn [forM_]. rewrite with_seq_same. split; [reflexivity|exact Hm].
  - assert (Hir : In (i, r) L) by (apply Hincl; left; reflexivity).
    destruct (HL i r Hir) as [H0 Hact].
    assert (Hcur : nth_error (sequence (c_ws c)) i = Some r) by (apply Hun; left; reflexivity).
    destruct (active_record_has_row r Hact) as [row Hrow].
    destruct (tpe_workflow_val (c_ws c) r st row Hv Hrow) as [ns Hns].
    pose proof (push_body_run st i r c r ns Hcur Hns) as Hb.
    remember (match ns with Some s => seq_upd i (Some s) (sequence (c_ws c)) | None => sequence (c_ws c) end) as s1 eqn:Es1.
    cbn [map fst] in Hnd. inversion Hnd as [|x xs Hnotin Hnd']; subst x xs.
    assert (Hs1 : forall j, j <> i -> nth_error s1 j = nth_error (sequence (c_ws c)) j).
    { intros j Hj. rewrite Es1. destruct ns; [|reflexivity]. apply nth_error_seq_upd_neq. congruence. }
    assert (Hm1 : moved L s0 s1).
    { rewrite Es1. destruct ns; [|exact Hm]. eapply moved_step; eassumption. }
    destruct (IH (with_seq c s1)) as [s2 [Hrun Hm2]].
    + intros p Hp; apply Hincl; right; exact Hp.
    + exact Hnd'.
    + intros j r' Hin. change (sequence (c_ws (with_seq c s1))) with s1.
      rewrite Hs1; [apply Hun; right; exact Hin|].
      intro E; subst j. apply Hnotin. apply in_map_iff. exists (i, r'); split; [reflexivity|exact Hin].
    + exact Hm1.
    + exists s2. split; [|exact Hm2]. cbn [forM_]. unfold bind. rewrite Hb. rewrite Hrun.
      rewrite with_seq_twice. reflexivity.
Qed.

(* the restore loop *)
Definition restore (l : list (nat * trec)) (s : list trec) : list trec :=
  fold_left (fun s '(i, r) => seq_upd i (r_status r) s) l s.

Lemma restore_loop_run : forall l c,
  forM_ l (fun '(i, r) => set_rec_status i (r_status r)) c =
  (with_seq c (restore l (sequence (c_ws c))), Val tt).
Proof.
  induction l as [|[i r] l IH]; intro c; cbn [forM_ restore fold_left].
  - unfold ret. rewrite with_seq_same. reflexivity.
  - unfold bind. rewrite set_rec_status_run. rewrite IH. rewrite with_seq_twice. reflexivity.
Qed.

(* writing the saved statuses back undoes whatever the forward loop wrote *)
Lemma restore_moved : forall l s0 s, (forall i r, In (i, r) l -> nth_error s0 i = Some r) ->
  moved l s0 s -> restore l s = s0.
Proof.
  induction l as [|[i r] l IH]; intros s0 s HL Hm; cbn [restore fold_left].
  - apply nth_error_ext_eq. intro j. destruct (Hm j) as [H|[a [x [[] _]]]]. exact H.
  - apply IH; [intros j a Hin; apply HL; right; exact Hin|].
    assert (H0 : nth_error s0 i = Some r) by (apply HL; left; reflexivity).
    assert (Hi : nth_error (seq_upd i (r_status r) s) i = Some r).
    { destruct (Hm i) as [H|[a [x [_ [Ha Hs]]]]].
      - rewrite H0 in H. rewrite (nth_error_seq_upd_eq _ _ _ _ H). rewrite r_set_status_same. reflexivity.
      - rewrite H0 in Ha; inversion Ha; subst a.
        rewrite (nth_error_seq_upd_eq _ _ _ _ Hs). rewrite r_set_status_twice, r_set_status_same. reflexivity. }
    intro j. destruct (Nat.eq_dec i j) as [E|N].
    + subst j. left. rewrite Hi, H0. reflexivity.
    + rewrite nth_error_seq_upd_neq by exact N.
      destruct (Hm j) as [H|[a [x [Hin [Ha Hs]]]]]; [left; exact H|].
      destruct Hin as [Hin|Hin]; [inversion Hin; congruence|].
      right. exists a, x. split; [exact Hin|]. split; assumption.
Qed.

(* ------------------------------------------------------ the workflow machine step and the log *)

Lemma log_error_run : forall e t r tr c, exists c', log_error e t r tr c = (c', Val tt) /\ c_ws c' = c_ws c.
Proof.
  intros e t r tr c. unfold log_error, log_entry_error, modify.
  eexists; split; [reflexivity|]. destruct (existsb _ _); reflexivity.
Qed.

Lemma log_unreachable_run : forall l c, exists c', log_unreachable l c = (c', Val tt) /\ c_ws c' = c_ws c.
Proof.
  unfold log_unreachable. induction l as [|s l IH]; intro c; cbn [forM_].
  - exists c; split; reflexivity.
  - unfold bind.
    destruct (log_error_run (mkexn "UnreachableJoinError"
                 ("The join task|route """ ++ s_id s ++ "|" ++ nat_to_string (s_route s)
                  ++ """ is partially satisfied but unreachable."))
              (Some (s_id s)) (Some (s_route s)) None c) as [c1 [H1 W1]].
    rewrite H1. destruct (IH c1) as [c2 [H2 W2]]. exists c2. split; [exact H2|congruence].
Qed.

(* the workflow machine reports unreachable joins only together with a status change *)
Lemma wpwe_same_status_no_log : forall g w st unr,
  wf_process_workflow_event g w st = Val (wstatus w, unr) -> unr = [].
Proof.
  intros g w st unr E. unfold wf_process_workflow_event in E.
  destruct (negb (string_in (wf_workflow_event_name w st) WORKFLOW_EXECUTION_EVENTS)); [discriminate|].
  destruct (tbl_row wf_table (wstatus w)) as [row|] eqn:Er; [|discriminate].
  destruct (aget String.eqb (wf_workflow_event_name w st) row) as [n|] eqn:Ea; [|inversion E; reflexivity].
  destruct (negb (status_eqb n (wstatus w)) && status_eqb n S_SUCCEEDED) eqn:Eb; [|inversion E; reflexivity].
  unfold fail_on_unreachable in E.
  destruct (get_unreachable_barriers g (ws_set_status w n)) as [|b bs]; [inversion E; reflexivity|].
  exfalso. inversion E as [[Hs Hu]].
  assert (St : tbl_step wf_table S_FAILED (wf_workflow_event_name w st) = Some n)
    by (unfold tbl_step; rewrite Hs, Er; exact Ea).
  rewrite F_wf_failed_final in St. discriminate.
Qed.

Definition workflow_status_has_row (c : cstate) : Prop :=
  exists row, tbl_row wf_table (wstatus (c_ws c)) = Some row.

(* name in the vocabulary and a status with a row: the workflow machine does not raise *)
Lemma wpwe_val : forall g w st row, wev_in_vocab st = true -> tbl_row wf_table (wstatus w) = Some row ->
  exists p, wf_process_workflow_event g w st = Val p.
Proof.
  intros g w st row Hv Hr. unfold wf_process_workflow_event.
  rewrite (F_wf_event_name_vocab w st Hv). cbn [negb]. rewrite Hr.
  destruct (aget String.eqb (wf_workflow_event_name w st) row) as [n|]; [|eexists; reflexivity].
  destruct (negb (status_eqb n (wstatus w)) && status_eqb n S_SUCCEEDED); eexists; reflexivity.
Qed.

(* ------------------------------------------------------------------ the theorem *)

Section WithEval.
Variable ev : string -> dict -> evalres.

(* the forward loop either raises on the first record with nothing changed, or returns with only
   statuses of active records moved -- and if anything at all may have moved, the event name is
   in the vocabulary *)
Lemma push_loop_outcome : forall st c,
  let active := ws_tasks_by_status (c_ws c) ACTIVE_STATUSES in
  (exists e, forM_ active (push_body st) c = (c, Exc e)) \/
  (exists s2, forM_ active (push_body st) c = (with_seq c s2, Val tt) /\
              moved active (sequence (c_ws c)) s2 /\
              (s2 = sequence (c_ws c) \/ wev_in_vocab st = true)).
Proof.
  intros st c active.
  assert (HL : forall i r, In (i, r) active ->
                 nth_error (sequence (c_ws c)) i = Some r /\ ostatus_in (r_status r) ACTIVE_STATUSES = true)
    by (intros i r H; apply tasks_by_status_In; exact H).
  destruct (wev_in_vocab st) eqn:Hv.
  - right.
    destruct (push_loop_run st active (sequence (c_ws c)) Hv HL active c) as [s2 [Hrun Hm]].
    + apply incl_refl.
    + apply tasks_by_status_NoDup.
    + intros i r H; apply HL; exact H.
    + apply moved_refl.
    + exists s2. split; [exact Hrun|]. split; [exact Hm|right; reflexivity].
  - destruct active as [|[i r] l] eqn:Ea.
    + right. exists (sequence (c_ws c)). cbn [forM_]. rewrite with_seq_same.
      split; [reflexivity|]. split; [apply moved_refl|left; reflexivity].
    + left. eexists. cbn [forM_]. unfold bind.
      rewrite (push_body_raises st i r c r); [reflexivity| |exact Hv].
      apply HL; left; reflexivity.
Qed.

Lemma rejected_core_is_inert : forall st c c' e, workflow_status_has_row c ->
  request_status_core st c = (c', Exc e) -> c' = c.
Proof.
  intros st c c' e [row Hrow] H. rewrite request_status_core_eq in H.
  pose proof (push_loop_outcome st c) as Ho. cbv zeta in Ho.
  assert (HL : forall i r, In (i, r) (ws_tasks_by_status (c_ws c) ACTIVE_STATUSES) ->
                 nth_error (sequence (c_ws c)) i = Some r)
    by (intros i r Hin; apply tasks_by_status_In in Hin; tauto).
  remember (ws_tasks_by_status (c_ws c) ACTIVE_STATUSES) as active eqn:Eact.
  unfold bind at 1 in H.
  destruct Ho as [[e0 Hl]|[s2 [Hl [Hm Hv]]]]; rewrite Hl in H.
  - inversion H; reflexivity.
  - unfold request_tail, bind at 1 in H.
    unfold wf_workflow_event_M in H.
    change (c_graph (with_seq c s2)) with (c_graph c) in H.
    change (c_ws (with_seq c s2)) with (ws_set_sequence (c_ws c) s2) in H.
    destruct (wf_process_workflow_event (c_graph c) (ws_set_sequence (c_ws c) s2) st) as [[new unr]|e1] eqn:E.
    + (* the workflow machine stepped *)
      unfold bind at 1 in H.
      destruct (log_unreachable_run unr (set_ws (with_seq c s2) (ws_set_status (ws_set_sequence (c_ws c) s2) new)))
        as [c4 [Hlog W4]].
      rewrite Hlog in H. unfold bind at 1, getws in H. cbv beta iota in H. rewrite W4 in H.
      cbn [c_ws set_ws wstatus ws_set_status] in H.
      destruct (status_eqb st S_PAUSED && status_eqb (wstatus (c_ws c)) S_PAUSING && status_eqb new S_PAUSING);
        [inversion H|].
      destruct (status_eqb st S_CANCELED && status_eqb (wstatus (c_ws c)) S_CANCELING && status_eqb new S_CANCELING);
        [inversion H|].
      destruct (negb (status_eqb st (wstatus (c_ws c))) && status_eqb (wstatus (c_ws c)) new) eqn:Eb;
        [|inversion H].
      apply andb_prop in Eb. destruct Eb as [_ En]. apply status_eqb_eq in En. subst new.
      assert (Hu : unr = []) by (eapply (wpwe_same_status_no_log (c_graph c) (ws_set_sequence (c_ws c) s2)); exact E).
      subst unr. cbn [log_unreachable forM_] in Hlog. unfold log_unreachable in Hlog. cbn [forM_] in Hlog.
      inversion Hlog; subst c4.
      unfold bind in H. rewrite restore_loop_run in H. inversion H. subst c'.
      cbn [c_ws set_ws sequence ws_set_status ws_set_sequence].
      rewrite (restore_moved active (sequence (c_ws c)) s2 HL Hm).
      destruct c as [sp g inp par ini w er lg out]; destruct w; reflexivity.
    + (* the workflow machine raised *)
      inversion H; subst c' e1.
      destruct Hv as [Hs|Hv]; [rewrite Hs; apply with_seq_same|].
      exfalso. destruct (wpwe_val (c_graph c) (ws_set_sequence (c_ws c) s2) st row Hv Hrow) as [p Hp].
      rewrite Hp in E; discriminate.
Qed.

(* MAIN: a status request that raises -- whatever it raises -- leaves the whole persisted state
   exactly as it was *)
Theorem rejected_status_request_is_inert : forall st c c' e, c_init c = true ->
  workflow_status_has_row c ->
  request_workflow_status ev st c = (c', Exc e) -> c' = c.
Proof.
  intros st c c' e Hi Hr H. unfold request_workflow_status, bind in H.
  rewrite (ensure_ws_inited ev c Hi) in H. eapply rejected_core_is_inert; eassumption.
Qed.

(* ---- the proviso holds of every state the API can reach ---- *)

Lemma lifecycle_status_has_row : forall c, In (wstatus (c_ws c)) wf_statuses -> workflow_status_has_row c.
Proof. intros c H. apply F_wf_rows_exist. exact H. Qed.

Lemma reach_keeps_lifecycle : forall a b, wf_reach a b -> In a wf_statuses -> In b wf_statuses.
Proof.
  intros a b H. induction H as [s|s e t u Hs Hr IH|s u Hc Hn Hr IH]; intro Ha; [exact Ha| |].
  - apply IH. eapply F_wf_closed; exact Hs.
  - apply IH. vm_compute; tauto.
Qed.

Definition Rlc (c c' : cstate) : Prop :=
  In (wstatus (c_ws c)) wf_statuses -> In (wstatus (c_ws c')) wf_statuses.
Lemma Rlc_refl : forall c, Rlc c c.
Proof. intros c H; exact H. Qed.
Lemma Rlc_trans : forall a b c, Rlc a b -> Rlc b c -> Rlc a c.
Proof. unfold Rlc; intros a b c H1 H2 H; auto. Qed.

Lemma Rst_Rlc : forall A (m : M A), preserves Rst m -> preserves Rlc m.
Proof. intros A m H c c' r E Hin. eapply reach_keeps_lifecycle; [eapply H; exact E|exact Hin]. Qed.

Ltac leaf_lc :=
  first
    [ apply Rst_Rlc; first [apply pres_ensure_ws | apply pres_add_task_state | apply pres_request_status_core]
    | apply (preserves_modws Rlc); intro; unfold Rlc; cbn [c_ws set_ws]; rewrite ?ws_update_rec_status;
      cbn [wstatus ws_set_staged ws_set_reruns ws_set_status ws_add_staged];
      first [ (let Hlc := fresh in intro Hlc; exact Hlc) | intros _; vm_compute; tauto ]
    | apply (preserves_modify Rlc); intro; unfold Rlc; cbn [c_ws set_errors set_output]; (let Hlc := fresh in intro Hlc; exact Hlc) ].

Lemma plc_request_workflow_rerun : forall reqs, preserves Rlc (request_workflow_rerun ev reqs).
Proof. intros reqs; unfold request_workflow_rerun. pw Rlc_refl Rlc_trans leaf_lc. Qed.

Lemma api_exec_lifecycle : forall op, preserves Rlc (api_exec ev op).
Proof.
  intro op. destruct (is_rerun op) eqn:Er.
  - destruct op; simpl in Er; try discriminate. cbn [api_exec].
    apply (preserves_bind _ Rlc_trans); [apply plc_request_workflow_rerun|intro; apply (preserves_ret _ Rlc_refl)].
  - apply Rst_Rlc. apply api_exec_reach. exact Er.
Qed.

(* every history of API calls -- reruns included -- keeps the workflow status among the statuses
   that have a row; the status of a fresh conductor (unset) is one of them *)
Theorem lifecycle_invariant : forall ops c,
  In (wstatus (c_ws c)) wf_statuses -> In (wstatus (c_ws (run_ops ev ops c))) wf_statuses.
Proof.
  induction ops as [|op ops IH]; intros c Hs; cbn [run_ops fold_left]; [exact Hs|].
  apply IH. destruct (api_exec ev op c) as [c1 r] eqn:E. cbn [fst].
  exact (api_exec_lifecycle op c c1 r E Hs).
Qed.

Lemma fresh_status_in_lifecycle : In (wstatus empty_ws) wf_statuses.
Proof. vm_compute; tauto. Qed.

Corollary rejected_status_request_is_inert_lifecycle : forall st c c' e, c_init c = true ->
  In (wstatus (c_ws c)) wf_statuses ->
  request_workflow_status ev st c = (c', Exc e) -> c' = c.
Proof.
  intros st c c' e Hi Hs H. eapply rejected_status_request_is_inert; [exact Hi| |exact H].
  apply lifecycle_status_has_row; exact Hs.
Qed.

(* ---- which exceptions a status request can raise ---- *)

Definition raises_only (P : exn -> Prop) {A} (m : M A) : Prop := forall c c' e, m c = (c', Exc e) -> P e.

Section RaisesOnly.
  Variable P : exn -> Prop.
  Lemma ro_ret : forall A (a : A), raises_only P (ret a).
  Proof. intros A a c c' e H; inversion H. Qed.
  Lemma ro_raise : forall A e, P e -> raises_only P (@raise A e).
  Proof. intros A e Hp c c' e' H; inversion H; subst; exact Hp. Qed.
  Lemma ro_getws : raises_only P getws.
  Proof. intros c c' e H; inversion H. Qed.
  Lemma ro_modws : forall f, raises_only P (modws f).
  Proof. intros f c c' e H; inversion H. Qed.
  Lemma ro_bind : forall A B (m : M A) (f : A -> M B),
    raises_only P m -> (forall a, raises_only P (f a)) -> raises_only P (bind m f).
  Proof.
    intros A B m f Hm Hf c c' e H. unfold bind in H. destruct (m c) as [c1 [a|e1]] eqn:E.
    - eapply Hf; exact H.
    - inversion H; subst. eapply Hm; exact E.
  Qed.
  Lemma ro_forM : forall A (l : list A) f, (forall a, raises_only P (f a)) -> raises_only P (forM_ l f).
  Proof.
    intros A l f Hf; induction l as [|x l IH]; cbn [forM_]; [apply ro_ret|].
    apply ro_bind; [apply Hf|intro; exact IH].
  Qed.
  Lemma ro_lift_res : forall A (r : result A), (forall e, r = Exc e -> P e) -> raises_only P (lift_res r).
  Proof. intros A [a|e0] Hr c c' e H; inversion H; subst. apply Hr; reflexivity. Qed.
End RaisesOnly.

Definition request_exn (e : exn) : Prop :=
  In (x_cls e) ["InvalidEvent"; "InvalidTaskStatusTransition"; "InvalidWorkflowStatusTransition"].

Lemma tpe_workflow_exn : forall w r st e, task_process_event w r (EvWorkflow st) = Exc e -> request_exn e.
Proof.
  intros w r st e H. unfold task_process_event in H.
  destruct (negb (string_in (ev_name (EvWorkflow st)) WORKFLOW_EXECUTION_EVENTS)).
  - inversion H; subst. unfold request_exn; simpl; tauto.
  - unfold task_table_step in H. destruct (tbl_row task_table (rstatus r)); inversion H; subst.
    unfold request_exn; simpl; tauto.
Qed.

Lemma wf_workflow_event_exn : forall st, raises_only request_exn (wf_workflow_event_M st).
Proof.
  intros st c c' e H. unfold wf_workflow_event_M in H.
  destruct (wf_process_workflow_event (c_graph c) (c_ws c) st) as [[new unr]|e1] eqn:E; [inversion H|].
  assert (Ee : e1 = e) by (inversion H; reflexivity). subst e1. clear H.
  unfold wf_process_workflow_event in E.
  destruct (negb (string_in (wf_workflow_event_name (c_ws c) st) WORKFLOW_EXECUTION_EVENTS)).
  - inversion E; subst. unfold request_exn; simpl; tauto.
  - destruct (tbl_row wf_table (wstatus (c_ws c))) as [row|].
    + destruct (aget String.eqb (wf_workflow_event_name (c_ws c) st) row) as [n|]; [|discriminate].
      destruct (negb (status_eqb n (wstatus (c_ws c))) && status_eqb n S_SUCCEEDED); discriminate.
    + inversion E; subst. unfold request_exn; simpl; tauto.
Qed.

Lemma log_unreachable_total : forall l, raises_only request_exn (log_unreachable l).
Proof. intros l c c' e H. destruct (log_unreachable_run l c) as [c1 [H1 _]]. rewrite H1 in H. inversion H. Qed.

Lemma set_rec_status_total : forall i x, raises_only request_exn (set_rec_status i x).
Proof. intros i x; unfold set_rec_status; apply ro_modws. Qed.

Lemma push_loop_exn : forall st l, raises_only request_exn (forM_ l (push_body st)).
Proof.
  intros st l. apply ro_forM. intros [i r0]. unfold push_body.
  apply ro_bind; [apply ro_getws|intro w].
  destruct (nth_error (sequence w) i) as [r|]; [|apply ro_ret].
  apply ro_bind; [apply ro_lift_res; intros e; apply tpe_workflow_exn|intros [s|]].
  - apply set_rec_status_total.
  - apply ro_ret.
Qed.

Lemma request_tail_exn : forall st cur act, raises_only request_exn (request_tail st cur act).
Proof.
  intros st cur act. unfold request_tail.
  apply ro_bind; [apply wf_workflow_event_exn|intro unr].
  apply ro_bind; [apply log_unreachable_total|intros _].
  apply ro_bind; [apply ro_getws|intro w1]. cbv zeta.
  destruct (status_eqb st S_PAUSED && status_eqb cur S_PAUSING && status_eqb (wstatus w1) S_PAUSING);
    [apply ro_ret|].
  destruct (status_eqb st S_CANCELED && status_eqb cur S_CANCELING && status_eqb (wstatus w1) S_CANCELING);
    [apply ro_ret|].
  destruct (negb (status_eqb st cur) && status_eqb cur (wstatus w1)); [|apply ro_ret].
  apply ro_bind; [apply ro_forM; intros [i r]; apply set_rec_status_total|intros _].
  apply ro_raise. unfold request_exn; simpl; tauto.
Qed.

Lemma request_status_core_exn : forall st, raises_only request_exn (request_status_core st).
Proof.
  intros st c c' e H. rewrite request_status_core_eq in H.
  refine (ro_bind request_exn _ _ _ _ (push_loop_exn st _) _ c c' e H).
  intros u. apply request_tail_exn.
Qed.

Theorem status_request_exceptions : forall st c c' e, c_init c = true ->
  request_workflow_status ev st c = (c', Exc e) ->
  In (x_cls e) ["InvalidEvent"; "InvalidTaskStatusTransition"; "InvalidWorkflowStatusTransition"].
Proof.
  intros st c c' e Hi H. unfold request_workflow_status, bind in H.
  rewrite (ensure_ws_inited ev c Hi) in H. eapply request_status_core_exn; exact H.
Qed.

End WithEval.

(* ------------------------------------------------------------------ witnesses *)

(* two running tasks; t1 is a with-items task with one item in flight, so a pause/cancel-class
   workflow event moves its record (running -> pausing / canceling) *)
Definition ex_rec (t : string) (s : status) : trec :=
  {| r_id := t; r_route := 0; r_in := [0]; r_out := None; r_prev := []; r_next := [];
     r_status := Some s; r_term := false; r_retry := None |}.
Definition ex_state (ws : status) : cstate :=
  {| c_spec := {| wf_input := []; wf_vars := []; wf_output := []; wf_tasks := [] |};
     c_graph := {| g_nodes := []; g_edges := [] |};
     c_inputs := []; c_parent := []; c_init := true;
     c_ws := {| contexts := [[]]; routes := [[]];
                sequence := [ex_rec "t1" S_RUNNING; ex_rec "t2" S_RUNNING];
                staged := [ {| s_id := "t1"; s_route := 0; s_in := [0]; s_prev := []; s_ready := true;
                               s_retry := None; s_items := Some [S_RUNNING; S_UNSET]; s_completed := false;
                               s_run_on_fail := false |} ];
                wstatus := ws; tasks := [(("t1", 0), 0); (("t2", 0), 1)]; reruns := [] |};
     c_errors := []; c_log := []; c_output := None |}.
Definition ex_statuses (c : cstate) : list (option status) * status :=
  (map r_status (sequence (c_ws c)), wstatus (c_ws c)).

(* the forward loop of a pause request does move the with-items record of the failed workflow ... *)
Example ex_push_moves_record :
  ex_statuses (fst (forM_ (ws_tasks_by_status (c_ws (ex_state S_FAILED)) ACTIVE_STATUSES)
                          (push_body S_PAUSING) (ex_state S_FAILED)))
  = ([Some S_PAUSING; Some S_RUNNING], S_FAILED).
Proof. vm_compute. reflexivity. Qed.

(* ... and the rejected request hands back exactly the state it was given *)
Example ex_rejected_pause_is_inert : forall ev,
  request_workflow_status ev S_PAUSING (ex_state S_FAILED)
  = (ex_state S_FAILED, Exc (exn_invalid_wf_transition S_FAILED "workflow_pausing")).
Proof. intro ev. vm_compute. reflexivity. Qed.

Example ex_rejected_cancel_is_inert : forall ev,
  request_workflow_status ev S_CANCELED (ex_state S_SUCCEEDED)
  = (ex_state S_SUCCEEDED, Exc (exn_invalid_wf_transition S_SUCCEEDED "workflow_canceled")).
Proof. intro ev. vm_compute. reflexivity. Qed.

(* a status whose event name is outside the vocabulary is refused at the first active record *)
Example ex_unknown_event_is_inert : forall ev,
  request_workflow_status ev S_EXPIRED (ex_state S_RUNNING)
  = (ex_state S_RUNNING, Exc (exn_invalid_event "workflow_timeout")).
Proof. intro ev. vm_compute. reflexivity. Qed.

(* the same request on the running workflow is accepted and changes statuses *)
Example ex_accepted_pause_moves : forall ev,
  (let p := request_workflow_status ev S_PAUSING (ex_state S_RUNNING) in (ex_statuses (fst p), snd p))
  = (([Some S_PAUSING; Some S_RUNNING], S_PAUSING), Val tt).
Proof. intro ev. vm_compute. reflexivity. Qed.

Example ex_state_has_row : workflow_status_has_row (ex_state S_FAILED).
Proof. apply lifecycle_status_has_row. vm_compute. tauto. Qed.

(* the proviso cannot be dropped: with a workflow status that has no row in the workflow table
   (here "pending", which no history of API calls produces -- lifecycle_invariant) the workflow
   machine raises after the loop has moved a record, and nothing restores it *)
Theorem rejected_request_not_inert_outside_lifecycle : forall ev, exists st c c' e,
  c_init c = true /\ request_workflow_status ev st c = (c', Exc e) /\ c' <> c.
Proof.
  intro ev. exists S_PAUSING, (ex_state S_PENDING).
  destruct (request_workflow_status ev S_PAUSING (ex_state S_PENDING)) as [c' [u|e]] eqn:E.
  - exfalso. vm_compute in E. discriminate.
  - exists c', e. split; [reflexivity|]. split; [reflexivity|].
    intro H. apply (f_equal ex_statuses) in H.
    assert (E1 : ex_statuses c' = ex_statuses (fst (request_workflow_status ev S_PAUSING (ex_state S_PENDING))))
      by (rewrite E; reflexivity).
    rewrite E1 in H. vm_compute in H. discriminate.
Qed.
