(* JoinReadyProofs.v -- C07, the clause "the ready flag of a staged (join) entry equals the barrier
   status computed at the last arrival".

   (1) Whenever a satisfied transition stages or updates the entry of its target, the last thing
       process_transition does is to set that entry's s_ready to
         (get_inbound_criteria_status graph state target route = satisfied)
       computed on the state of that very moment (all arrivals recorded so far, this one included)
       ([ready_flag_is_barrier_status], [ready_flag_read_back]).
   (2) Nothing else rewrites the flag: every other API operation, and every part of
       update_task_state outside process_transition, deletes staged entries, rewrites them keeping
       (task, route, ready), or appends entries that are ready (roots at creation, the retried task,
       the rerun task) ([Rrd]; [ready_kept_outside_events], [ready_kept_by_prefix],
       [ready_kept_by_quiet_tail]). *)
From Coq Require Import String List Bool ZArith Arith Lia.
From Orq Require Import GenStatuses GenEvents GenTables GenSpecMeta Base State Machines Codec Conductor Decode Api.
From Orq Require Import F_tables Hoare ValuePost C05Proofs RetryProofs FrozenProofs JustifiedProofs.
Import ListNotations.
Open Scope string_scope.
Open Scope monad_scope.

(* ------------------------------------------------------------------ (1) the flag is the barrier status *)

Lemma find_staged_update : forall f t r l, (forall s, stg_matches t r (f s) = stg_matches t r s) ->
  find (stg_matches t r) (staged_update f t r l) = option_map f (find (stg_matches t r) l).
Proof.
  intros f t r l Hf; induction l as [|s l IH]; simpl; [reflexivity|].
  destruct (stg_matches t r s) eqn:E; simpl.
  - rewrite Hf, E. reflexivity.
  - rewrite E. exact IH.
Qed.

Lemma find_staged_update_some : forall f t r l, (forall s, stg_matches t r (f s) = stg_matches t r s) ->
  find (stg_matches t r) l <> None -> find (stg_matches t r) (staged_update f t r l) <> None.
Proof.
  intros f t r l Hf H. rewrite (find_staged_update f t r l Hf). destruct (find (stg_matches t r) l); [discriminate|congruence].
Qed.

Lemma find_app_some : forall A (p : A -> bool) l x, p x = true -> find p (app l [x]) <> None.
Proof.
  intros A p l x Hx; induction l as [|a l IH]; simpl; [rewrite Hx; discriminate|].
  destruct (p a); [discriminate|exact IH].
Qed.

Section Ready.
Variable ev : string -> dict -> evalres.

Definition ready_of (c : cstate) (nt : string) (route : nat) : bool :=
  inbound_eqb (get_inbound_criteria_status (c_graph c) (c_ws c) nt route) InbSatisfied.

(* a satisfied transition, when it returns: either its publish failed (nothing is staged, the
   workflow is failed), or the target's entry exists and the call ended by writing its ready flag
   from the barrier status of the state [c2] reached after the arrival was recorded *)
Theorem ready_flag_is_barrier_status : forall t route idx ts ctx e c c' res,
  pt_cont ev t route idx ts ctx e (Some true) c = (c', Val res) ->
  (exists cf new_ctx x errs, finalize_context ev ts e ctx c = (cf, Val (new_ctx, x :: errs))) \/
  (exists c2 nr, get_staged_task (c_ws c2) (e_dst e) nr <> None /\
     c' = set_ws c2 (ws_set_staged (c_ws c2)
                       (staged_update (fun s => s_set_ready s (ready_of c2 (e_dst e) route))
                                      (e_dst e) nr (staged (c_ws c2))))).
Proof.
  intros t route idx ts ctx e c c' res H. unfold pt_cont in H. cbv zeta in H.
  apply bind_val_inv' in H. destruct H as [c1 [[new_ctx errors] [E1 H]]].
  destruct errors as [|x errs]; [|left; exists c1, new_ctx, x, errs; exact E1]. right.
  apply bind_val_inv' in H. destruct H as [c2 [r [_ H]]].
  apply bind_val_inv' in H. destruct H as [c3 [w [_ H]]].
  apply bind_val_inv' in H. destruct H as [c4 [out_idxs [_ H]]].
  apply bind_val_inv' in H. destruct H as [c5 [nr [_ H]]].
  apply bind_val_inv' in H. destruct H as [c6 [w6 [E6 H]]]. inversion E6; subst c6 w6; clear E6.
  apply bind_val_inv' in H. destruct H as [c7 [u7 [E7 H]]].
  assert (Hex : get_staged_task (c_ws c7) (e_dst e) nr <> None).
  { destruct (get_staged_task (c_ws c5) (e_dst e) nr) as [s0|] eqn:Eg.
    - destruct (nat_remove_first 0 out_idxs); [|inversion E7].
      unfold modws in E7. inversion E7; subst c7. unfold get_staged_task. cbn [c_ws set_ws staged ws_set_staged].
      apply find_staged_update_some; [intro s; reflexivity|]. unfold get_staged_task in Eg. rewrite Eg. discriminate.
    - unfold modws in E7. inversion E7; subst c7. unfold get_staged_task.
      cbn [c_ws set_ws staged ws_set_staged ws_add_staged].
      apply find_app_some. unfold stg_matches, mk_staged; cbn [s_id s_route].
      rewrite String.eqb_refl, Nat.eqb_refl. reflexivity. }
  unfold bind at 1, get in H. cbv beta iota zeta in H.
  apply bind_val_inv' in H. destruct H as [c8 [u8 [E8 H]]].
  unfold modws in E8. inversion E8; subst c8; clear E8.
  assert (c' = set_ws c7 (ws_set_staged (c_ws c7)
                   (staged_update (fun s => s_set_ready s (ready_of c7 (e_dst e) route)) (e_dst e) nr (staged (c_ws c7))))) as ->.
  { destruct (is_engine_command (e_dst e)); [inversion H; reflexivity|].
    match type of H with (if ?b then _ else _) _ = _ => destruct b eqn:Eb end; inversion H; unfold ready_of; rewrite Eb; reflexivity. }
  exists c7, nr. split; [exact Hex|reflexivity].
Qed.

(* read back: in the state the transition leaves, the entry get_staged_task finds for the target
   carries exactly that barrier status as its ready flag *)
Theorem ready_flag_read_back : forall c2 nt nr route,
  get_staged_task (c_ws c2) nt nr <> None ->
  exists s', get_staged_task
               (c_ws (set_ws c2 (ws_set_staged (c_ws c2)
                        (staged_update (fun s => s_set_ready s (ready_of c2 nt route)) nt nr (staged (c_ws c2))))))
               nt nr = Some s' /\
             s_ready s' = ready_of c2 nt route.
Proof.
  intros c2 nt nr route H. unfold get_staged_task in *. cbn [c_ws set_ws staged ws_set_staged].
  rewrite find_staged_update by (intro s; reflexivity).
  destruct (find (stg_matches nt nr) (staged (c_ws c2))) as [s|]; [|congruence].
  eexists; split; reflexivity.
Qed.

End Ready.

(* ------------------------------------------------------------------ (2) nothing else rewrites the flag *)

Definition kr (s : stg) : string * nat * bool := (s_id s, s_route s, s_ready s).

(* l' is l with entries deleted and entries rewritten that keep (task, route, ready) *)
Inductive subkr : list stg -> list stg -> Prop :=
  | sk_nil : subkr [] []
  | sk_skip : forall s l l', subkr l l' -> subkr (s :: l) l'
  | sk_keep : forall s s' l l', kr s' = kr s -> subkr l l' -> subkr (s :: l) (s' :: l').

Lemma subkr_refl : forall l, subkr l l.
Proof. induction l as [|s l IH]; [constructor|apply sk_keep; [reflexivity|exact IH]]. Qed.

Lemma subkr_trans : forall a b c, subkr a b -> subkr b c -> subkr a c.
Proof.
  intros a b c H; revert c; induction H as [|s l l' H IH|s s' l l' E H IH]; intros c Hc.
  - exact Hc.
  - apply sk_skip. apply IH. exact Hc.
  - inversion Hc as [|x y z Hz|x x' y z E' Hz]; subst.
    + apply sk_skip. apply IH. exact Hz.
    + apply sk_keep; [congruence|apply IH; exact Hz].
Qed.

Lemma subkr_app : forall a la b lb, subkr a la -> subkr b lb -> subkr (app a b) (app la lb).
Proof. intros a la b lb H; induction H; intro Hb; simpl; [exact Hb|apply sk_skip; auto|apply sk_keep; auto]. Qed.

Lemma subkr_app_inv : forall a b l, subkr (app a b) l ->
  exists la lb, l = app la lb /\ subkr a la /\ subkr b lb.
Proof.
  induction a as [|s a IH]; intros b l H; simpl in H.
  - exists [], l. split; [reflexivity|]. split; [constructor|exact H].
  - inversion H as [|x y z Hz|x x' y z E Hz]; subst.
    + destruct (IH _ _ Hz) as [la [lb [-> [Ha Hb]]]]. exists la, lb. split; [reflexivity|]. split; [apply sk_skip; exact Ha|exact Hb].
    + destruct (IH _ _ Hz) as [la [lb [-> [Ha Hb]]]]. exists (x' :: la), lb. split; [reflexivity|].
      split; [apply sk_keep; assumption|exact Hb].
Qed.

Lemma subkr_ready : forall b lb, subkr b lb -> Forall (fun s => s_ready s = true) b -> Forall (fun s => s_ready s = true) lb.
Proof.
  intros b lb H; induction H as [|s l l' H IH|s s' l l' E H IH]; intro F; [constructor| |].
  - inversion F; subst. apply IH; assumption.
  - inversion F; subst. constructor; [|apply IH; assumption]. unfold kr in E. inversion E. congruence.
Qed.

Definition Rrd (c c' : cstate) : Prop :=
  exists l1 new, staged (c_ws c') = app l1 new /\ subkr (staged (c_ws c)) l1 /\
                 Forall (fun s => s_ready s = true) new.

Lemma Rrd_refl : forall c, Rrd c c.
Proof. intro c. exists (staged (c_ws c)), []. rewrite app_nil_r. split; [reflexivity|]. split; [apply subkr_refl|constructor]. Qed.

Lemma Rrd_trans : forall a b c, Rrd a b -> Rrd b c -> Rrd a c.
Proof.
  intros a b c [l1 [n1 [E1 [S1 F1]]]] [l2 [n2 [E2 [S2 F2]]]]. rewrite E1 in S2.
  destruct (subkr_app_inv _ _ _ S2) as [la [lb [-> [Sa Sb]]]].
  exists la, (app lb n2). split; [rewrite E2, app_assoc; reflexivity|].
  split; [eapply subkr_trans; eassumption|]. apply Forall_app. split; [eapply subkr_ready; eassumption|exact F2].
Qed.

Lemma Rrd_sub : forall c c', subkr (staged (c_ws c)) (staged (c_ws c')) -> Rrd c c'.
Proof. intros c c' H. exists (staged (c_ws c')), []. rewrite app_nil_r. split; [reflexivity|]. split; [exact H|constructor]. Qed.

Lemma Rrd_same : forall c c', staged (c_ws c') = staged (c_ws c) -> Rrd c c'.
Proof. intros c c' H. apply Rrd_sub. rewrite H. apply subkr_refl. Qed.

Lemma subkr_staged_update : forall f t r l, (forall s, kr (f s) = kr s) -> subkr l (staged_update f t r l).
Proof.
  intros f t r l Hf; induction l as [|s l IH]; simpl; [constructor|].
  destruct (stg_matches t r s); apply sk_keep; [apply Hf|apply subkr_refl|reflexivity|exact IH].
Qed.

Lemma subkr_remove_first : forall t r l, subkr l (staged_remove_first t r l).
Proof.
  intros t r l; induction l as [|s l IH]; simpl; [constructor|].
  destruct (stg_matches t r s); [apply sk_skip; apply subkr_refl|apply sk_keep; [reflexivity|exact IH]].
Qed.

Lemma Rrd_update : forall c f t r, (forall s, kr (f s) = kr s) ->
  Rrd c (set_ws c (ws_set_staged (c_ws c) (staged_update f t r (staged (c_ws c))))).
Proof. intros; apply Rrd_sub; cbn [c_ws set_ws staged ws_set_staged]; apply subkr_staged_update; assumption. Qed.

Lemma Rrd_remove : forall c t r, Rrd c (set_ws c (ws_remove_staged_task (c_ws c) t r)).
Proof.
  intros c t r. apply Rrd_sub. cbn [c_ws set_ws]. unfold ws_remove_staged_task.
  destruct (get_staged_task (c_ws c) t r) as [s|]; [|apply subkr_refl].
  destruct (items_any_active s); [apply subkr_refl|]. cbn [staged ws_set_staged]. apply subkr_remove_first.
Qed.

Lemma Rrd_add_ready : forall c s, s_ready s = true -> Rrd c (set_ws c (ws_add_staged (c_ws c) s)).
Proof.
  intros c s H. exists (staged (c_ws c)), [s]. split; [reflexivity|]. split; [apply subkr_refl|].
  constructor; [exact H|constructor].
Qed.

Lemma staged_update_rec : forall w j f, staged (ws_update_rec w j f) = staged w.
Proof. intros; unfold ws_update_rec; destruct (nth_error (sequence w) j); reflexivity. Qed.

Section ReadyKept.
Variable ev : string -> dict -> evalres.

Ltac leafr :=
  first
    [ apply (preserves_modws Rrd); intro; apply Rrd_same; cbn [c_ws set_ws]; first [reflexivity|apply staged_update_rec]
    | apply (preserves_modws Rrd); intro; apply Rrd_update; intro; reflexivity
    | apply (preserves_modws Rrd); intro; apply Rrd_remove
    | apply (preserves_modws Rrd); intro; apply Rrd_add_ready; reflexivity
    | apply (preserves_modify Rrd); intro; apply Rrd_same; reflexivity
    | apply (preserves_modify Rrd); intro; apply Rrd_same;
      match goal with |- context [if ?b then _ else _] => destruct b end; reflexivity
    | assumption
    | match goal with IH : forall _ _ _ _, preserves _ _ |- _ => apply IH end
    | eauto 3 with presrd ].
Ltac walkr := pw Rrd_refl Rrd_trans leafr.

Lemma prd_wf_workflow_event : forall st, preserves Rrd (wf_workflow_event_M st).
Proof.
  intros st c c' r H. unfold wf_workflow_event_M in H.
  destruct (wf_process_workflow_event (c_graph c) (c_ws c) st) as [[new unr]|e]; inversion H; subst;
    [apply Rrd_same; reflexivity|apply Rrd_refl].
Qed.
Hint Resolve prd_wf_workflow_event : presrd.
Lemma prd_wf_task_event : forall t route st, preserves Rrd (wf_task_event_M t route st).
Proof.
  intros t route st c c' r H. unfold wf_task_event_M in H.
  destruct (wf_process_task_event (c_graph c) (c_ws c) t route st) as [[new unr]|e]; inversion H; subst;
    [apply Rrd_same; reflexivity|apply Rrd_refl].
Qed.
Hint Resolve prd_wf_task_event : presrd.
Lemma prd_log_entry_error : forall m t r tr res, preserves Rrd (log_entry_error m t r tr res).
Proof. intros; unfold log_entry_error; walkr. Qed.
Hint Resolve prd_log_entry_error : presrd.
Lemma prd_log_error : forall e t r tr, preserves Rrd (log_error e t r tr).
Proof. intros; unfold log_error; auto with presrd. Qed.
Hint Resolve prd_log_error : presrd.
Lemma prd_log_errors : forall es t r tr, preserves Rrd (log_errors es t r tr).
Proof. intros; unfold log_errors; walkr. Qed.
Hint Resolve prd_log_errors : presrd.
Lemma prd_log_unreachable : forall l, preserves Rrd (log_unreachable l).
Proof. intros; unfold log_unreachable; walkr. Qed.
Hint Resolve prd_log_unreachable : presrd.
Lemma prd_set_rec_status : forall j s, preserves Rrd (set_rec_status j s).
Proof. intros; unfold set_rec_status; walkr. Qed.
Hint Resolve prd_set_rec_status : presrd.
Lemma prd_request_status_core : forall st, preserves Rrd (request_status_core st).
Proof. intros; unfold request_status_core; walkr. Qed.
Hint Resolve prd_request_status_core : presrd.
Lemma prd_render_input : forall specs rt rolling errs, preserves Rrd (render_input ev specs rt rolling errs).
Proof. induction specs as [|[n d] specs IH]; intros; simpl; walkr. Qed.
Hint Resolve prd_render_input : presrd.
Lemma prd_render_vars : forall specs rolling rendered errs, preserves Rrd (render_vars ev specs rolling rendered errs).
Proof. induction specs as [|[n d] specs IH]; intros; simpl; walkr. Qed.
Hint Resolve prd_render_vars : presrd.
Lemma prd_ensure_ws : preserves Rrd (ensure_ws ev).
Proof. unfold ensure_ws; walkr. Qed.
Hint Resolve prd_ensure_ws : presrd.
Lemma prd_get_task_context : forall idxs, preserves Rrd (get_task_context idxs).
Proof. intros; unfold get_task_context; walkr. Qed.
Hint Resolve prd_get_task_context : presrd.
Lemma prd_render_task : forall ts ctx, preserves Rrd (render_task ev ts ctx).
Proof. intros; unfold render_task; walkr. Qed.
Hint Resolve prd_render_task : presrd.
Lemma prd_next_task_for : forall s, preserves Rrd (next_task_for ev s).
Proof. intros; unfold next_task_for; walkr. Qed.
Hint Resolve prd_next_task_for : presrd.
Lemma prd_setup_retry : forall t idxs, preserves Rrd (setup_retry ev t idxs).
Proof. intros; unfold setup_retry; walkr. Qed.
Hint Resolve prd_setup_retry : presrd.
Lemma prd_add_task_state : forall t r ins p, preserves Rrd (add_task_state ev t r ins p).
Proof. intros; unfold add_task_state; walkr. Qed.
Hint Resolve prd_add_task_state : presrd.
Lemma prd_evaluate_task_retry : forall r ctx, preserves Rrd (evaluate_task_retry ev r ctx).
Proof. intros; unfold evaluate_task_retry; walkr. Qed.
Hint Resolve prd_evaluate_task_retry : presrd.
Lemma prd_get_rec : forall j, preserves Rrd (get_rec j).
Proof. intros; unfold get_rec; walkr. Qed.
Hint Resolve prd_get_rec : presrd.
Lemma prd_merge_term_contexts : forall l acc, preserves Rrd (merge_term_contexts l acc).
Proof. induction l as [|[j r] l IH]; intros; simpl; walkr. Qed.
Hint Resolve prd_merge_term_contexts : presrd.
Lemma prd_request_task_rerun : forall t r b, preserves Rrd (request_task_rerun ev t r b).
Proof. intros; unfold request_task_rerun, upd_rec; walkr. Qed.
Hint Resolve prd_request_task_rerun : presrd.

(* every API operation other than update_task_state: staged entries are deleted, rewritten keeping
   (task, route, ready), or appended ready *)
Theorem ready_kept_outside_events : forall op,
  match op with OpEvent _ _ _ => False | _ => True end -> preserves Rrd (api_exec ev op).
Proof.
  intros op Hop. destruct op; try contradiction; cbn [api_exec];
    (apply (preserves_bind _ Rrd_trans); [|intro; apply (preserves_ret _ Rrd_refl)]).
  - apply prd_ensure_ws.
  - unfold request_workflow_status; walkr.
  - unfold get_next_tasks; walkr.
  - unfold render_workflow_output, get_workflow_terminal_context; walkr.
  - unfold request_workflow_rerun, upd_rec; walkr.
  - intros c c' res H. unfold persist in H. apply bind_inv in H.
    destruct H as [[c1 [u [E H]]]|[x [E _]]]; [|eapply prd_ensure_ws; eauto].
    rewrite (dec_cstate_enc c1 (ensure_ws_init_after ev _ _ _ E)) in H. inversion H; subst.
    eapply prd_ensure_ws; eauto.
Qed.

(* inside update_task_state: everything before the transitions (record selection, unstaging, item
   bookkeeping, task machine, the retry staging -- ready --, the completion step) ... *)
Theorem ready_kept_by_prefix : forall t route evt, preserves Rrd (uts_prefix ev t route evt).
Proof.
  intros; unfold uts_prefix, pre_main, pre_machine, uts_sel1, uts_sel2, uts_need_staged, uts_unstage, uts_item,
    uts_logfail, uts_setst, uts_retrying, uts_completion, upd_rec.
  walkr.
Qed.

(* ... the evaluation of a transition's criteria with the recording of the decision ... *)
Theorem ready_kept_by_decision : forall t route idx ctx e, preserves Rrd (pt_step1 ev t route idx ctx e).
Proof. intros; unfold pt_step1, upd_rec; walkr. Qed.

(* ... and the rest of the tail when it makes no call (the workflow-machine step, the terminal flag) *)
Theorem ready_kept_by_quiet_tail : forall (rec : string -> nat -> event -> M unit) t route idx,
  preserves Rrd (r <- get_rec idx ;;
                 st <- (match r_status r with Some s => ret s | None => raise (exn_key "status") end) ;;
                 unreachable <- wf_task_event_M t route st ;;
                 log_unreachable unreachable ;;;
                 forM_ [] (uts_call rec) ;;;
                 w <- getws ;;
                 if status_in (wstatus w) COMPLETED_STATUSES
                 then upd_rec idx (fun r => r_set_term r true)
                 else ret tt).
Proof. intros; cbn [forM_]; unfold upd_rec; walkr. Qed.

End ReadyKept.

(* Rrd does constrain: it rejects flipping the flag of an existing entry *)
Example Rrd_rejects_flip : forall s, s_ready s = false -> ~ subkr [s] [s_set_ready s true].
Proof.
  intros s Hs H. inversion H as [|x y z Hz|x x' y z E Hz]; subst.
  - inversion Hz.
  - unfold kr in E. cbn [s_set_ready s_id s_route s_ready] in E. inversion E. congruence.
Qed.

Lemma ready_of_unfold : forall c nt route,
  ready_of c nt route = inbound_eqb (get_inbound_criteria_status (c_graph c) (c_ws c) nt route) InbSatisfied.
Proof. reflexivity. Qed.

Lemma Rrd_unfold : forall c c',
  Rrd c c' <-> exists l1 new, staged (c_ws c') = app l1 new /\ subkr (staged (c_ws c)) l1 /\
                              Forall (fun s => s_ready s = true) new.
Proof. intros; split; intro H; exact H. Qed.
