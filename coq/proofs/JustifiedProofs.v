(* JustifiedProofs.v -- C01, first half: every staged entry and every execution record is justified.

   [Justified g c]: every staged entry s and every record r of c carries a predecessor list in which
   every reference ((src, k), j) points to a record j of task src that is completed and has recorded
   the transition (s_id s, k) as satisfied (true), for an edge src -> s_id s with key k of the graph;
   an empty list occurs only for a start task (no inbound edge).  The invariant also fixes the
   graph, says that the pointer map names records of the right task, and that a record that is not
   completed has decided no transition yet.

   Proved: the fresh state is justified, every API call preserves it (every evaluator, reruns and
   persists included) provided events are delivered "in protocol" ([call_ok], [op_in_protocol]: an event that
   addresses a completed record which has decided transitions is a new start of a staged task, or
   finds the record without a retry left and is not the engine's internal retry event) and the
   graph's outgoing transitions of a task have distinct ids (true of composed graphs).  Without the
   first proviso the invariant is false (the duplicate-report witness of FrozenProofs).  Also: the
   value recorded for a transition is the conjunction of the truthiness of its criteria evaluated
   on the context of the completed task, and a staged reference is created exactly when it is true. *)
From Coq Require Import String List Bool ZArith Arith Lia.
From Orq Require Import GenStatuses GenEvents GenTables GenSpecMeta Base State Machines Codec Conductor Decode Api.
From Orq Require Import F_tables Hoare ValuePost StatusReach C04Proofs C09C10Proofs C13Proofs C05Proofs C18Proofs RetryProofs InertProofs FrozenProofs OffersProofs.
Import ListNotations.
Open Scope string_scope.
Open Scope monad_scope.

(* ------------------------------------------------------------------ small facts *)

Lemma trid_eqb_eq : forall a b : trid, trid_eqb a b = true <-> a = b.
Proof.
  intros [a1 a2] [b1 b2]; unfold trid_eqb; simpl; split.
  - intro H. apply andb_prop in H. destruct H as [H1 H2].
    apply String.eqb_eq in H1. apply Nat.eqb_eq in H2. subst; reflexivity.
  - intro H; inversion H; subst. rewrite String.eqb_refl, Nat.eqb_refl. reflexivity.
Qed.
Lemma tkey_eqb_eq : forall a b : tkey, tkey_eqb a b = true <-> a = b.
Proof. exact trid_eqb_eq. Qed.

Section AssocFacts.
  Context {K V : Type} (keqb : K -> K -> bool).
  Hypothesis keqb_eq : forall a b, keqb a b = true <-> a = b.

  Lemma aget_aset_eq : forall k (v : V) d, aget keqb k (aset keqb k v d) = Some v.
  Proof. intros; apply aget_aset_same. apply keqb_eq; reflexivity. Qed.

  Lemma aget_aset_neq : forall k k' (v : V) d, k <> k' -> aget keqb k' (aset keqb k v d) = aget keqb k' d.
  Proof.
    intros k k' v d Hn; induction d as [|[k1 v1] d IH]; simpl.
    - destruct (keqb k' k) eqn:E; [apply keqb_eq in E; congruence|reflexivity].
    - destruct (keqb k k1) eqn:E1; simpl.
      + apply keqb_eq in E1; subst k1. destruct (keqb k' k) eqn:E; [apply keqb_eq in E; congruence|reflexivity].
      + destruct (keqb k' k1); [reflexivity|exact IH].
  Qed.

  Lemma In_aset : forall k (v : V) d p, In p (aset keqb k v d) -> p = (k, v) \/ In p d.
  Proof.
    intros k v d p; induction d as [|[k1 v1] d IH]; simpl; intro H.
    - destruct H as [H|[]]; left; symmetry; exact H.
    - destruct (keqb k k1) eqn:E.
      + apply keqb_eq in E; subst k1. destruct H as [H|H]; [left; symmetry; exact H|right; right; exact H].
      + destruct H as [H|H]; [right; left; exact H|]. destruct (IH H); [left|right; right]; assumption.
  Qed.

  Lemma aset_not_nil : forall k (v : V) d, aset keqb k v d <> [].
  Proof. intros k v [|[k1 v1] d]; simpl; [discriminate|destruct (keqb k k1); discriminate]. Qed.
End AssocFacts.

Lemma In_staged_update : forall f t r l s', In s' (staged_update f t r l) ->
  In s' l \/ exists s, In s l /\ stg_matches t r s = true /\ s' = f s.
Proof.
  intros f t r l s'; induction l as [|s l IH]; simpl; [tauto|].
  destruct (stg_matches t r s) eqn:E; simpl; intros [H|H].
  - right; exists s; split; [left; reflexivity|split; [exact E|symmetry; exact H]].
  - left; right; exact H.
  - left; left; exact H.
  - destruct (IH H) as [H1|[s1 [H1 H2]]]; [left; right; exact H1|right; exists s1; split; [right; exact H1|exact H2]].
Qed.

Lemma In_staged_remove_first : forall t r l s', In s' (staged_remove_first t r l) -> In s' l.
Proof.
  intros t r l s'; induction l as [|s l IH]; simpl; [tauto|].
  destruct (stg_matches t r s); simpl; intro H; [right; exact H|].
  destruct H as [H|H]; [left; exact H|right; apply IH; exact H].
Qed.

Lemma stg_matches_id : forall t r s, stg_matches t r s = true -> s_id s = t /\ s_route s = r.
Proof.
  intros t r s H; unfold stg_matches in H. apply andb_prop in H; destruct H as [H1 H2].
  apply String.eqb_eq in H1; apply Nat.eqb_eq in H2; split; assumption.
Qed.

(* ------------------------------------------------------------------ the invariant *)

Definition trid_of (e : gedge) : trid := (e_dst e, e_key e).

(* a start task: no edge of the graph leads to it *)
Definition is_start (g : graph) (t : string) : Prop := forall e, In e (g_edges g) -> e_dst e <> t.

(* the reference ((src, k), j) justifies running task dst *)
Definition witness (g : graph) (sq : list trec) (dst : string) (p : trid * nat) : Prop :=
  exists r', nth_error sq (snd p) = Some r' /\ r_id r' = fst (fst p) /\ decided r' /\
             aget trid_eqb (dst, snd (fst p)) (r_next r') = Some true /\
             exists e, In e (g_edges g) /\ e_src e = fst (fst p) /\ e_dst e = dst /\ e_key e = snd (fst p).

Definition jprev (g : graph) (sq : list trec) (dst : string) (prev : list (trid * nat)) : Prop :=
  (prev = [] -> is_start g dst) /\ forall p, In p prev -> witness g sq dst p.

Definition ptr_ok (w : wstate) : Prop :=
  forall t route j, ws_task_idx w t route = Some j -> exists r, nth_error (sequence w) j = Some r /\ r_id r = t.

Definition open_ok (sq : list trec) : Prop :=
  forall j r, nth_error sq j = Some r -> ~ decided r -> r_next r = [].

Definition Justified (g : graph) (c : cstate) : Prop :=
  c_graph c = g /\ ptr_ok (c_ws c) /\ open_ok (sequence (c_ws c)) /\
  (forall s, In s (staged (c_ws c)) -> jprev g (sequence (c_ws c)) (s_id s) (s_prev s)) /\
  (forall j r, nth_error (sequence (c_ws c)) j = Some r -> jprev g (sequence (c_ws c)) (r_id r) (r_prev r)).

(* what a witness needs of a record survives *)
Definition has_true (r : trec) : Prop := exists tid, aget trid_eqb tid (r_next r) = Some true.

Definition seq_keeps (sq sq' : list trec) : Prop :=
  forall j r, nth_error sq j = Some r ->
    exists r', nth_error sq' j = Some r' /\ r_id r' = r_id r /\ r_prev r' = r_prev r /\
      (decided r -> has_true r ->
       r_status r' = r_status r /\
       forall tid, aget trid_eqb tid (r_next r) = Some true -> aget trid_eqb tid (r_next r') = Some true).

Lemma seq_keeps_refl : forall sq, seq_keeps sq sq.
Proof. intros sq j r H; exists r; repeat split; auto. Qed.
Lemma seq_keeps_trans : forall a b c, seq_keeps a b -> seq_keeps b c -> seq_keeps a c.
Proof.
  intros a b c H1 H2 j r H. destruct (H1 j r H) as [r1 [Hr1 [I1 [P1 K1]]]].
  destruct (H2 j r1 Hr1) as [r2 [Hr2 [I2 [P2 K2]]]].
  exists r2; split; [exact Hr2|]. split; [congruence|]. split; [congruence|].
  intros Hd [tid Ht]. destruct (K1 Hd (ex_intro _ tid Ht)) as [S1 T1].
  assert (Hd1 : decided r1) by (unfold decided in *; rewrite S1; exact Hd).
  destruct (K2 Hd1 (ex_intro _ tid (T1 tid Ht))) as [S2 T2].
  split; [congruence|]. intros tid' Ht'. apply T2, T1, Ht'.
Qed.

Lemma witness_keeps : forall g sq sq' dst p, seq_keeps sq sq' -> witness g sq dst p -> witness g sq' dst p.
Proof.
  intros g sq sq' dst p Hk [r [Hn [Hi [Hd [Ht He]]]]].
  destruct (Hk _ _ Hn) as [r' [Hn' [Hi' [_ K]]]].
  destruct (K Hd (ex_intro _ _ Ht)) as [Hs Htt].
  exists r'; split; [exact Hn'|]. split; [congruence|]. split; [unfold decided in *; rewrite Hs; exact Hd|].
  split; [apply Htt; exact Ht|exact He].
Qed.

Lemma jprev_keeps : forall g sq sq' dst prev, seq_keeps sq sq' -> jprev g sq dst prev -> jprev g sq' dst prev.
Proof. intros g sq sq' dst prev Hk [H0 H1]; split; [exact H0|intros p Hp; eapply witness_keeps; eauto]. Qed.

(* the general step: graph kept, witnesses kept, every holder of the new state is an old holder
   (same task, same predecessor list) or is justified in the new state *)
Lemma Justified_shape : forall g c c', Justified g c -> c_graph c' = g ->
  seq_keeps (sequence (c_ws c)) (sequence (c_ws c')) -> ptr_ok (c_ws c') -> open_ok (sequence (c_ws c')) ->
  (forall s', In s' (staged (c_ws c')) ->
     (exists s, In s (staged (c_ws c)) /\ s_id s' = s_id s /\ s_prev s' = s_prev s) \/
     jprev g (sequence (c_ws c')) (s_id s') (s_prev s')) ->
  (forall j r', nth_error (sequence (c_ws c')) j = Some r' ->
     (exists r, nth_error (sequence (c_ws c)) j = Some r /\ r_id r' = r_id r /\ r_prev r' = r_prev r) \/
     jprev g (sequence (c_ws c')) (r_id r') (r_prev r')) ->
  Justified g c'.
Proof.
  intros g c c' [Hg [Hp [Ho [Hs Hr]]]] Hg' Hk Hp' Ho' Hs' Hr'.
  split; [exact Hg'|]. split; [exact Hp'|]. split; [exact Ho'|]. split.
  - intros s' Hin. destruct (Hs' s' Hin) as [[s [Hi [E1 E2]]]|H]; [|exact H].
    rewrite E1, E2. eapply jprev_keeps; [exact Hk|apply Hs; exact Hi].
  - intros j r' Hn. destruct (Hr' j r' Hn) as [[r [Hi [E1 E2]]]|H]; [|exact H].
    rewrite E1, E2. eapply jprev_keeps; [exact Hk|eapply Hr; exact Hi].
Qed.

Lemma Justified_eq : forall g c c', Justified g c -> c_graph c' = c_graph c ->
  sequence (c_ws c') = sequence (c_ws c) -> staged (c_ws c') = staged (c_ws c) ->
  tasks (c_ws c') = tasks (c_ws c) -> Justified g c'.
Proof.
  intros g c c' [Hg [Hp [Ho [Hs Hr]]]] E1 E2 E3 E4. unfold Justified.
  split; [congruence|]. split; [|split; [|split]].
  - intros t route j Hj. unfold ws_task_idx in Hj. rewrite E4 in Hj. rewrite E2. exact (Hp t route j Hj).
  - rewrite E2. exact Ho.
  - rewrite E2, E3. exact Hs.
  - rewrite E2. exact Hr.
Qed.

(* staged entries removed or changed in fields other than task and predecessors *)
Lemma Justified_staged : forall g c l, Justified g c ->
  (forall s', In s' l -> exists s, In s (staged (c_ws c)) /\ s_id s' = s_id s /\ s_prev s' = s_prev s) ->
  Justified g (set_ws c (ws_set_staged (c_ws c) l)).
Proof.
  intros g c l H Hl. pose proof H as [Hg [Hp [Ho _]]].
  apply (Justified_shape g c); [exact H|exact Hg|apply seq_keeps_refl|exact Hp|exact Ho| |].
  - intros s' Hin. left. apply Hl. exact Hin.
  - intros j r' Hn. left. exists r'; repeat split; exact Hn.
Qed.

Lemma Justified_staged_update : forall g c f t r, Justified g c ->
  (forall s, s_id (f s) = s_id s /\ s_prev (f s) = s_prev s) ->
  Justified g (set_ws c (ws_set_staged (c_ws c) (staged_update f t r (staged (c_ws c))))).
Proof.
  intros g c f t r H Hf. apply Justified_staged; [exact H|]. intros s' Hin.
  apply In_staged_update in Hin. destruct Hin as [Hin|[s [Hin [_ ->]]]].
  - exists s'; repeat split; exact Hin.
  - exists s; split; [exact Hin|apply Hf].
Qed.

Lemma Justified_remove_staged : forall g c t r, Justified g c ->
  Justified g (set_ws c (ws_remove_staged_task (c_ws c) t r)).
Proof.
  intros g c t r H. unfold ws_remove_staged_task.
  destruct (get_staged_task (c_ws c) t r) as [s|]; [|eapply Justified_eq; [exact H|reflexivity..]].
  destruct (items_any_active s); [eapply Justified_eq; [exact H|reflexivity..]|].
  apply Justified_staged; [exact H|]. intros s' Hin. apply In_staged_remove_first in Hin.
  exists s'; repeat split; exact Hin.
Qed.

(* a record rewritten in place *)
Lemma ptr_ok_update : forall w j f, (forall r, r_id (f r) = r_id r) -> ptr_ok w -> ptr_ok (ws_update_rec w j f).
Proof.
  intros w j f Hf Hp t route k Hk. unfold ws_task_idx in Hk. rewrite tasks_update_rec in Hk.
  destruct (Hp t route k Hk) as [r [Hn Hi]]. destruct (Nat.eq_dec j k) as [->|Hne].
  - exists (f r); split; [apply nth_update_rec_same; exact Hn|rewrite Hf; exact Hi].
  - exists r; split; [rewrite nth_update_rec_other by exact Hne; exact Hn|exact Hi].
Qed.

Lemma Justified_update : forall g c j f, Justified g c ->
  (forall r, nth_error (sequence (c_ws c)) j = Some r ->
     r_id (f r) = r_id r /\ r_prev (f r) = r_prev r /\
     (decided r -> has_true r ->
      r_status (f r) = r_status r /\
      forall tid, aget trid_eqb tid (r_next r) = Some true -> aget trid_eqb tid (r_next (f r)) = Some true) /\
     (~ decided (f r) -> r_next (f r) = [])) ->
  Justified g (set_ws c (ws_update_rec (c_ws c) j f)).
Proof.
  intros g c j f H Hf. pose proof H as [Hg [Hp [Ho _]]].
  destruct (nth_error (sequence (c_ws c)) j) as [rj|] eqn:Ej.
  2: { eapply Justified_eq; [exact H|..]; unfold ws_update_rec; cbn [c_ws set_ws c_graph]; try rewrite Ej; reflexivity. }
  destruct (Hf rj eq_refl) as [F1 [F2 [F3 F4]]].
  assert (Hk : seq_keeps (sequence (c_ws c)) (sequence (ws_update_rec (c_ws c) j f))).
  { intros k r Hn. destruct (Nat.eq_dec j k) as [<-|Hne].
    - rewrite Ej in Hn; inversion Hn; subst r. exists (f rj). split; [apply nth_update_rec_same; exact Ej|].
      split; [exact F1|]. split; [exact F2|exact F3].
    - exists r. split; [rewrite nth_update_rec_other by exact Hne; exact Hn|]. repeat split; auto. }
  apply (Justified_shape g c); [exact H|exact Hg|exact Hk| | | |]; cbn [c_ws set_ws].
  - unfold ptr_ok, ws_task_idx. intros t route k Hkk. rewrite tasks_update_rec in Hkk.
    destruct (Hp t route k Hkk) as [r [Hn Hi]]. destruct (Hk k r Hn) as [r' [Hn' [Hi' _]]].
    exists r'; split; [exact Hn'|congruence].
  - intros k r' Hn Hnd. destruct (Nat.eq_dec j k) as [<-|Hne].
    + rewrite (nth_update_rec_same _ _ _ _ Ej) in Hn; inversion Hn; subst r'. apply F4; exact Hnd.
    + rewrite nth_update_rec_other in Hn by exact Hne. eapply Ho; eassumption.
  - intros s' Hin. left. exists s'. split; [|split; reflexivity].
    unfold ws_update_rec in Hin. rewrite Ej in Hin. exact Hin.
  - intros k r' Hn. left. destruct (Nat.eq_dec j k) as [<-|Hne].
    + rewrite (nth_update_rec_same _ _ _ _ Ej) in Hn; inversion Hn; subst r'. exists rj; repeat split; assumption.
    + rewrite nth_update_rec_other in Hn by exact Hne. exists r'; repeat split; exact Hn.
Qed.

(* ... in fields that no justification reads *)
Lemma Justified_update_keep : forall g c j f, Justified g c ->
  (forall r, r_id (f r) = r_id r /\ r_prev (f r) = r_prev r /\ r_status (f r) = r_status r /\ r_next (f r) = r_next r) ->
  Justified g (set_ws c (ws_update_rec (c_ws c) j f)).
Proof.
  intros g c j f H Hf. apply Justified_update; [exact H|]. intros r Hn.
  destruct (Hf r) as [F1 [F2 [F3 F4]]]. split; [exact F1|]. split; [exact F2|]. split.
  - intros _ _. split; [exact F3|]. intros tid Ht. rewrite F4. exact Ht.
  - intro Hnd. rewrite F4. destruct H as [_ [_ [Ho _]]]. eapply Ho; [exact Hn|].
    unfold decided in *. rewrite <- F3. exact Hnd.
Qed.

(* ... in its status, when no justification can be reading it *)
Lemma Justified_set_status : forall g c j s r, Justified g c ->
  nth_error (sequence (c_ws c)) j = Some r -> (~ decided r \/ r_next r = []) ->
  Justified g (set_ws c (ws_update_rec (c_ws c) j (fun r => r_set_status r s))).
Proof.
  intros g c j s r H Hn Hc. assert (Hnil : r_next r = []).
  { destruct Hc as [Hc|Hc]; [|exact Hc]. destruct H as [_ [_ [Ho _]]]. eapply Ho; eassumption. }
  apply Justified_update; [exact H|]. intros r1 Hn1. rewrite Hn in Hn1; inversion Hn1; subst r1.
  split; [reflexivity|]. split; [reflexivity|]. split.
  - intros _ [tid Ht]. rewrite Hnil in Ht. discriminate.
  - intros _. exact Hnil.
Qed.

(* ... by recording the decision of a transition not decided before, on a completed record *)
Lemma Justified_set_next : forall g c j r tid b, Justified g c ->
  nth_error (sequence (c_ws c)) j = Some r -> decided r -> aget trid_eqb tid (r_next r) = None ->
  Justified g (set_ws c (ws_update_rec (c_ws c) j (fun r => r_set_next r (aset trid_eqb tid b (r_next r))))).
Proof.
  intros g c j r tid b H Hn Hd Ha. apply Justified_update; [exact H|].
  intros r1 Hn1. rewrite Hn in Hn1; inversion Hn1; subst r1.
  split; [reflexivity|]. split; [reflexivity|]. split.
  - intros _ _. split; [reflexivity|]. intros tid' Ht. cbn [r_next r_set_next].
    rewrite (aget_aset_neq trid_eqb trid_eqb_eq); [exact Ht|]. intro E; subst tid'. congruence.
  - intro Hnd. exfalso. apply Hnd. exact Hd.
Qed.

(* a new record *)
Lemma Justified_append : forall g c r route, Justified g c ->
  r_status r = None -> r_next r = [] -> jprev g (sequence (c_ws c)) (r_id r) (r_prev r) ->
  Justified g (set_ws c (ws_set_tasks (ws_set_sequence (c_ws c) (app (sequence (c_ws c)) [r]))
                                      (aset tkey_eqb (r_id r, route) (length (sequence (c_ws c))) (tasks (c_ws c))))).
Proof.
  intros g c r route H Hs Hx Hj. pose proof H as [Hg [Hp [Ho _]]].
  assert (Hk : seq_keeps (sequence (c_ws c)) (app (sequence (c_ws c)) [r])).
  { intros k rk Hn. exists rk. split; [rewrite nth_error_app1; [exact Hn|apply nth_error_Some; congruence]|].
    repeat split; auto. }
  apply (Justified_shape g c); [exact H|exact Hg|exact Hk| | | |]; cbn [c_ws set_ws sequence staged ws_set_tasks ws_set_sequence].
  - unfold ptr_ok. cbn [sequence ws_set_tasks ws_set_sequence].
    intros t rt k Hkk. unfold ws_task_idx in Hkk. cbn [tasks ws_set_tasks ws_set_sequence] in Hkk.
    destruct (tkey_eqb (t, rt) (r_id r, route)) eqn:E.
    + apply tkey_eqb_eq in E. inversion E; subst t rt.
      rewrite (aget_aset_eq tkey_eqb tkey_eqb_eq) in Hkk. inversion Hkk; subst k.
      exists r. split; [|reflexivity]. rewrite nth_error_app2 by apply Nat.le_refl. rewrite Nat.sub_diag. reflexivity.
    + rewrite (aget_aset_neq tkey_eqb tkey_eqb_eq) in Hkk.
      2: { intro E'. rewrite <- E' in E. rewrite (proj2 (tkey_eqb_eq _ _) eq_refl) in E. discriminate. }
      destruct (Hp t rt k Hkk) as [rk [Hn Hi]]. exists rk. split; [|exact Hi].
      rewrite nth_error_app1; [exact Hn|apply nth_error_Some; congruence].
  - intros k rk Hn Hnd. destruct (Nat.lt_ge_cases k (length (sequence (c_ws c)))) as [Hlt|Hge].
    + rewrite nth_error_app1 in Hn by exact Hlt. eapply Ho; eassumption.
    + rewrite nth_error_app2 in Hn by exact Hge. destruct (k - length (sequence (c_ws c))) as [|m]; simpl in Hn.
      * inversion Hn; subst rk. exact Hx.
      * destruct m; discriminate.
  - intros s' Hin. left. exists s'; repeat split; exact Hin.
  - intros k rk Hn. destruct (Nat.lt_ge_cases k (length (sequence (c_ws c)))) as [Hlt|Hge].
    + rewrite nth_error_app1 in Hn by exact Hlt. left. exists rk; repeat split; exact Hn.
    + rewrite nth_error_app2 in Hn by exact Hge. destruct (k - length (sequence (c_ws c))) as [|m]; simpl in Hn.
      * inversion Hn; subst rk. right. eapply jprev_keeps; [exact Hk|exact Hj].
      * destruct m; discriminate.
Qed.

(* a new staged entry *)
Lemma Justified_add_staged : forall g c s, Justified g c ->
  jprev g (sequence (c_ws c)) (s_id s) (s_prev s) -> Justified g (set_ws c (ws_add_staged (c_ws c) s)).
Proof.
  intros g c s H Hj. pose proof H as [Hg [Hp [Ho _]]].
  apply (Justified_shape g c); [exact H|exact Hg|apply seq_keeps_refl|exact Hp|exact Ho| |];
    cbn [c_ws set_ws sequence staged ws_add_staged ws_set_staged].
  - intros s' Hin. apply in_app_or in Hin. destruct Hin as [Hin|[<-|[]]].
    + left. exists s'; repeat split; exact Hin.
    + right. exact Hj.
  - intros k rk Hn. left. exists rk; repeat split; exact Hn.
Qed.

(* a staged entry that gains one justified reference *)
Lemma Justified_staged_gain : forall g c f t r key j, Justified g c ->
  (forall s, s_id (f s) = s_id s /\ s_prev (f s) = aset trid_eqb key j (s_prev s)) ->
  witness g (sequence (c_ws c)) t (key, j) ->
  Justified g (set_ws c (ws_set_staged (c_ws c) (staged_update f t r (staged (c_ws c))))).
Proof.
  intros g c f t r key j H Hf Hw. pose proof H as [Hg [Hp [Ho [Hs _]]]].
  apply (Justified_shape g c); [exact H|exact Hg|apply seq_keeps_refl|exact Hp|exact Ho| |];
    cbn [c_ws set_ws sequence staged ws_set_staged].
  - intros s' Hin. apply In_staged_update in Hin. destruct Hin as [Hin|[s [Hin [Hm ->]]]].
    + left. exists s'; repeat split; exact Hin.
    + right. destruct (Hf s) as [F1 F2]. rewrite F1, F2. apply stg_matches_id in Hm. destruct Hm as [Hid _].
      split; [intro E; exfalso; eapply (aset_not_nil trid_eqb); exact E|].
      intros p Hpin. apply (In_aset trid_eqb trid_eqb_eq) in Hpin. destruct Hpin as [->|Hpin].
      * rewrite Hid. exact Hw.
      * apply (Hs s Hin). exact Hpin.
  - intros k rk Hn. left. exists rk; repeat split; exact Hn.
Qed.

Lemma Forall2_nth_l : forall A B (R : A -> B -> Prop) l l' j a, Forall2 R l l' -> nth_error l j = Some a ->
  exists b, nth_error l' j = Some b /\ R a b.
Proof.
  intros A B R l l' j a H; revert j; induction H as [|x y l l' Hxy Hl IH]; intros [|j] Hn; simpl in *; try discriminate.
  - inversion Hn; subst. exists y; split; [reflexivity|exact Hxy].
  - apply IH; exact Hn.
Qed.
Lemma Forall2_nth_r : forall A B (R : A -> B -> Prop) l l' j b, Forall2 R l l' -> nth_error l' j = Some b ->
  exists a, nth_error l j = Some a /\ R a b.
Proof.
  intros A B R l l' j b H; revert j; induction H as [|x y l l' Hxy Hl IH]; intros [|j] Hn; simpl in *; try discriminate.
  - inversion Hn; subst. exists x; split; [reflexivity|exact Hxy].
  - apply IH; exact Hn.
Qed.

(* ------------------------------------------------------------------ two frame relations *)

(* (1) witnesses persist *)
Definition Rkp (c c' : cstate) : Prop := seq_keeps (sequence (c_ws c)) (sequence (c_ws c')).
Lemma Rkp_refl : forall c, Rkp c c.
Proof. intro; apply seq_keeps_refl. Qed.
Lemma Rkp_trans : forall a b c, Rkp a b -> Rkp b c -> Rkp a c.
Proof. unfold Rkp; intros; eapply seq_keeps_trans; eauto. Qed.

Lemma Rkp_same_seq : forall c c', sequence (c_ws c') = sequence (c_ws c) -> Rkp c c'.
Proof. intros c c' H; unfold Rkp; rewrite H; apply seq_keeps_refl. Qed.

Lemma Rkp_update_keep : forall c j f,
  (forall r, r_id (f r) = r_id r /\ r_prev (f r) = r_prev r /\ r_status (f r) = r_status r /\ r_next (f r) = r_next r) ->
  Rkp c (set_ws c (ws_update_rec (c_ws c) j f)).
Proof.
  intros c j f Hf k r Hn. cbn [c_ws set_ws]. destruct (Nat.eq_dec j k) as [<-|Hne].
  - exists (f r). split; [apply nth_update_rec_same; exact Hn|]. destruct (Hf r) as [F1 [F2 [F3 F4]]].
    split; [exact F1|]. split; [exact F2|]. intros _ _. split; [exact F3|]. intros tid Ht; rewrite F4; exact Ht.
  - exists r. split; [rewrite nth_update_rec_other by exact Hne; exact Hn|]. repeat split; auto.
Qed.

Lemma Rkp_append : forall c r tk,
  Rkp c (set_ws c (ws_set_tasks (ws_set_sequence (c_ws c) (app (sequence (c_ws c)) [r])) tk)).
Proof.
  intros c r tk k rk Hn. exists rk. cbn [c_ws set_ws sequence ws_set_tasks ws_set_sequence].
  split; [rewrite nth_error_app1; [exact Hn|apply nth_error_Some; congruence]|]. repeat split; auto.
Qed.

Lemma keeps_request_status_core : forall st, preserves Rkp (request_status_core st).
Proof.
  intros st c c' res H.
  pose proof (pmod_request_status_core st c c' res H) as Hm.
  pose proof (pctl_request_status_core st c c' res H) as [_ [_ [_ [_ [_ [_ Hf2]]]]]].
  set (J := map fst (ws_tasks_by_status (c_ws c) ACTIVE_STATUSES)) in *.
  intros j r Hn. destruct (Forall2_nth_l _ _ _ _ _ _ _ Hf2 Hn) as [r' [Hn' [I1 [_ [_ [_ [I5 _]]]]]]].
  exists r'. split; [exact Hn'|]. split; [exact I1|]. split; [exact I5|].
  intros Hd _. destruct (in_dec Nat.eq_dec j J) as [Hin|Hnin].
  - exfalso. apply in_map_iff in Hin. destruct Hin as [[j' rj] [Ej Hin]]. simpl in Ej; subst j'.
    apply tasks_by_status_In in Hin. destruct Hin as [Hn2 Ha]. rewrite Hn in Hn2; inversion Hn2; subst rj.
    unfold decided in Hd. destruct (r_status r) as [s|]; [|discriminate]. exact (F_active_not_completed s Ha Hd).
  - rewrite (Hm j Hnin), Hn in Hn'. inversion Hn'; subst r'. split; [reflexivity|auto].
Qed.

(* (2) one completed record keeps its task, status and decisions *)
Section KeptRecord.
Variable idx : nat.
Variable rid : string.
Variable rst : option status.
Variable rnx : list (trid * bool).
Hypothesis Hcompl : ostatus_in rst COMPLETED_STATUSES = true.

Definition Kz (c : cstate) : Prop :=
  exists r, nth_error (sequence (c_ws c)) idx = Some r /\ r_id r = rid /\ r_status r = rst /\ r_next r = rnx.
Definition RK (c c' : cstate) : Prop := Kz c -> Kz c'.
Lemma RK_refl : forall c, RK c c.
Proof. intros c H; exact H. Qed.
Lemma RK_trans : forall a b c, RK a b -> RK b c -> RK a c.
Proof. unfold RK; intros; auto. Qed.

Lemma RK_same_seq : forall c c', sequence (c_ws c') = sequence (c_ws c) -> RK c c'.
Proof. intros c c' H [r Hr]; exists r; rewrite H; exact Hr. Qed.

Lemma RK_update_keep : forall c j f,
  (forall r, r_id (f r) = r_id r /\ r_status (f r) = r_status r /\ r_next (f r) = r_next r) ->
  RK c (set_ws c (ws_update_rec (c_ws c) j f)).
Proof.
  intros c j f Hf [r [Hn [H1 [H2 H3]]]]. unfold Kz. cbn [c_ws set_ws]. destruct (Nat.eq_dec j idx) as [->|Hne].
  - exists (f r). split; [apply nth_update_rec_same; exact Hn|]. destruct (Hf r) as [F1 [F2 F3]].
    repeat split; congruence.
  - exists r. split; [rewrite nth_update_rec_other by exact Hne; exact Hn|]. repeat split; assumption.
Qed.

Lemma RK_append : forall c r tk,
  RK c (set_ws c (ws_set_tasks (ws_set_sequence (c_ws c) (app (sequence (c_ws c)) [r])) tk)).
Proof.
  intros c r tk [r1 [Hn Hr]]. exists r1. split; [|exact Hr]. cbn [c_ws set_ws sequence ws_set_tasks ws_set_sequence].
  rewrite nth_error_app1; [exact Hn|apply nth_error_Some; congruence].
Qed.

Lemma pk_request_status_core : forall st, preserves RK (request_status_core st).
Proof.
  intros st c c' res H [r [Hn Hr]]. pose proof (pmod_request_status_core st c c' res H) as Hm.
  exists r. split; [|exact Hr]. rewrite Hm; [exact Hn|].
  intro Hin. apply in_map_iff in Hin. destruct Hin as [[j rj] [Ej Hin]]. simpl in Ej; subst j.
  apply tasks_by_status_In in Hin. destruct Hin as [Hn' Ha]. rewrite Hn in Hn'; inversion Hn'; subst rj.
  destruct Hr as [_ [Hs _]]. rewrite Hs in Ha. destruct rst as [s|]; [|discriminate].
  exact (F_active_not_completed s Ha Hcompl).
Qed.
End KeptRecord.

(* ------------------------------------------------------------------ preservation, piece by piece *)

Section Pres.
Variable g : graph.

Definition RI (c c' : cstate) : Prop := Justified g c -> Justified g c'.
Lemma RI_refl : forall c, RI c c.
Proof. intros c H; exact H. Qed.
Lemma RI_trans : forall a b c, RI a b -> RI b c -> RI a c.
Proof. unfold RI; intros; auto. Qed.

(* a status request touches statuses of records that were active (hence not completed) when it began *)
Lemma pj_request_status_core : forall st, preserves RI (request_status_core st).
Proof.
  intros st c c' res H Hj. pose proof Hj as [Hg [Hp [Ho [Hs Hr]]]].
  pose proof (pmod_request_status_core st c c' res H) as Hm.
  pose proof (pctl_request_status_core st c c' res H) as [_ [_ [Est [Etk [_ [_ Hf2]]]]]].
  pose proof (pg_request_status_core st c c' res H) as Eg. unfold Rg in Eg.
  set (J := map fst (ws_tasks_by_status (c_ws c) ACTIVE_STATUSES)) in *.
  assert (HJ : forall j r, In j J -> nth_error (sequence (c_ws c)) j = Some r -> ~ decided r).
  { intros j r Hin Hn Hd. apply in_map_iff in Hin. destruct Hin as [[j' rj] [Ej Hin]]. simpl in Ej; subst j'.
    apply tasks_by_status_In in Hin. destruct Hin as [Hn' Ha]. rewrite Hn in Hn'; inversion Hn'; subst rj.
    unfold decided in Hd. destruct (r_status r) as [s|]; [|discriminate]. exact (F_active_not_completed s Ha Hd). }
  assert (Hk : seq_keeps (sequence (c_ws c)) (sequence (c_ws c'))).
  { intros j r Hn. destruct (Forall2_nth_l _ _ _ _ _ _ _ Hf2 Hn) as [r' [Hn' [I1 [_ [_ [_ [I5 _]]]]]]].
    exists r'. split; [exact Hn'|]. split; [exact I1|]. split; [exact I5|].
    intros Hd _. destruct (in_dec Nat.eq_dec j J) as [Hin|Hnin]; [exfalso; eapply HJ; eassumption|].
    rewrite (Hm j Hnin), Hn in Hn'. inversion Hn'; subst r'. split; [reflexivity|auto]. }
  apply (Justified_shape g c); [exact Hj|congruence|exact Hk| | | |].
  - intros t route k Hkk. unfold ws_task_idx in Hkk. rewrite Etk in Hkk.
    destruct (Hp t route k Hkk) as [r [Hn Hi]]. destruct (Hk k r Hn) as [r' [Hn' [Hi' _]]].
    exists r'; split; [exact Hn'|congruence].
  - intros j r' Hn' Hnd. destruct (Forall2_nth_r _ _ _ _ _ _ _ Hf2 Hn') as [r [Hn [_ [_ [_ [_ [_ [I6 _]]]]]]]].
    rewrite I6. destruct (in_dec Nat.eq_dec j J) as [Hin|Hnin].
    + eapply Ho; [exact Hn|eapply HJ; eassumption].
    + rewrite (Hm j Hnin), Hn in Hn'. inversion Hn'; subst r'. eapply Ho; eassumption.
  - intros s' Hin. left. rewrite Est in Hin. exists s'; repeat split; exact Hin.
  - intros j r' Hn'. left. destruct (Forall2_nth_r _ _ _ _ _ _ _ Hf2 Hn') as [r [Hn [I1 [_ [_ [_ [I5 _]]]]]]].
    exists r; repeat split; assumption.
Qed.

Section WithEval.
Variable ev : string -> dict -> evalres.

Ltac leafj :=
  first
    [ apply (preserves_modws RI); intros ? ?H; eapply Justified_eq; [eassumption|reflexivity..]
    | apply (preserves_modws RI); intros ? ?H; apply Justified_remove_staged; assumption
    | apply (preserves_modws RI); intros ? ?H; apply Justified_staged_update; [assumption|intro; split; reflexivity]
    | apply (preserves_modws RI); intros ? ?H; apply Justified_update_keep; [assumption|intro; repeat split; reflexivity]
    | apply (preserves_modify RI); intros ? ?H; eapply Justified_eq; [eassumption|reflexivity..]
    | apply (preserves_modify RI); intros ? ?H;
      match goal with |- context [if ?b then _ else _] => destruct b end;
      (eapply Justified_eq; [eassumption|reflexivity..])
    | assumption
    | match goal with IH : forall _ _ _ _, preserves _ _ |- _ => apply IH end
    | eauto 3 with presj ].
Ltac walkj := pw RI_refl RI_trans leafj.

Hint Resolve pj_request_status_core : presj.

Lemma pj_wf_workflow_event : forall st, preserves RI (wf_workflow_event_M st).
Proof.
  intros st c c' r H Hj. unfold wf_workflow_event_M in H.
  destruct (wf_process_workflow_event (c_graph c) (c_ws c) st) as [[new unr]|e]; inversion H; subst; [|exact Hj].
  eapply Justified_eq; [exact Hj|reflexivity..].
Qed.
Hint Resolve pj_wf_workflow_event : presj.
Lemma pj_wf_task_event : forall t route st, preserves RI (wf_task_event_M t route st).
Proof.
  intros t route st c c' r H Hj. unfold wf_task_event_M in H.
  destruct (wf_process_task_event (c_graph c) (c_ws c) t route st) as [[new unr]|e]; inversion H; subst; [|exact Hj].
  eapply Justified_eq; [exact Hj|reflexivity..].
Qed.
Hint Resolve pj_wf_task_event : presj.
Lemma pj_log_entry_error : forall m t r tr res, preserves RI (log_entry_error m t r tr res).
Proof. intros; unfold log_entry_error; walkj. Qed.
Hint Resolve pj_log_entry_error : presj.
Lemma pj_log_error : forall e t r tr, preserves RI (log_error e t r tr).
Proof. intros; unfold log_error; auto with presj. Qed.
Hint Resolve pj_log_error : presj.
Lemma pj_log_errors : forall es t r tr, preserves RI (log_errors es t r tr).
Proof. intros; unfold log_errors; walkj. Qed.
Hint Resolve pj_log_errors : presj.
Lemma pj_log_unreachable : forall l, preserves RI (log_unreachable l).
Proof. intros; unfold log_unreachable; walkj. Qed.
Hint Resolve pj_log_unreachable : presj.
Lemma pj_render_input : forall specs rt rolling errs, preserves RI (render_input ev specs rt rolling errs).
Proof. induction specs as [|[n d] specs IH]; intros; simpl; walkj. Qed.
Hint Resolve pj_render_input : presj.
Lemma pj_render_vars : forall specs rolling rendered errs, preserves RI (render_vars ev specs rolling rendered errs).
Proof. induction specs as [|[n d] specs IH]; intros; simpl; walkj. Qed.
Hint Resolve pj_render_vars : presj.
Lemma pj_get_task_context : forall idxs, preserves RI (get_task_context idxs).
Proof. intros; unfold get_task_context; walkj. Qed.
Hint Resolve pj_get_task_context : presj.
Lemma pj_get_rec : forall j, preserves RI (get_rec j).
Proof. intros; unfold get_rec; walkj. Qed.
Hint Resolve pj_get_rec : presj.
Lemma pj_upd_term : forall j b, preserves RI (upd_rec j (fun r => r_set_term r b)).
Proof. intros; unfold upd_rec; walkj. Qed.
Hint Resolve pj_upd_term : presj.
Lemma pj_render_task : forall ts ctx, preserves RI (render_task ev ts ctx).
Proof. intros; unfold render_task; walkj. Qed.
Hint Resolve pj_render_task : presj.
Lemma pj_next_task_for : forall s, preserves RI (next_task_for ev s).
Proof. intros; unfold next_task_for; walkj. Qed.
Hint Resolve pj_next_task_for : presj.
Lemma pj_setup_retry : forall t idxs, preserves RI (setup_retry ev t idxs).
Proof. intros; unfold setup_retry; walkj. Qed.
Hint Resolve pj_setup_retry : presj.
Lemma pj_evaluate_route : forall e r, preserves RI (evaluate_route e r).
Proof. intros; unfold evaluate_route; walkj. Qed.
Hint Resolve pj_evaluate_route : presj.
Lemma pj_evaluate_task_retry : forall r ctx, preserves RI (evaluate_task_retry ev r ctx).
Proof. intros; unfold evaluate_task_retry; walkj. Qed.
Hint Resolve pj_evaluate_task_retry : presj.
Lemma pj_finalize_context : forall ts e ctx, preserves RI (finalize_context ev ts e ctx).
Proof. intros; unfold finalize_context; walkj. Qed.
Hint Resolve pj_finalize_context : presj.
Lemma pj_merge_term_contexts : forall l acc, preserves RI (merge_term_contexts l acc).
Proof. induction l as [|[j r] l IH]; intros; simpl; walkj. Qed.
Hint Resolve pj_merge_term_contexts : presj.

(* the lazy creation of the workflow state: the only staging without predecessors, of the roots *)
Lemma root_is_start : forall t, In t (g_roots g) -> is_start g t.
Proof.
  intros t H e He Ed. unfold g_roots in H. apply In_sort_by in H. apply in_map_iff in H.
  destruct H as [n [Hn Hin]]. apply filter_In in Hin. destruct Hin as [_ Hf].
  apply negb_true_iff in Hf. assert (X : existsb (fun e0 => String.eqb (e_dst e0) (n_id n)) (g_edges g) = true).
  { apply existsb_exists. exists e; split; [exact He|]. rewrite Hn, Ed. apply String.eqb_refl. }
  congruence.
Qed.

Definition stage_roots : M unit :=
  forM_ (g_roots g) (fun t => modws (fun w => ws_add_staged w (mk_staged t 0 [0] [] true None))).
Lemma pj_stage_roots : preserves RI stage_roots.
Proof.
  unfold stage_roots. apply (preserves_forM_In _ RI_refl RI_trans). intros t Hin.
  apply (preserves_modws RI). intros c H. apply Justified_add_staged; [exact H|].
  cbn [mk_staged s_id s_prev]. split; [intros _; apply root_is_start; exact Hin|intros p []].
Qed.
Hint Resolve pj_stage_roots : presj.

Lemma pj_ensure_ws : preserves RI (ensure_ws ev).
Proof.
  intros c c' res H Hj. destruct (c_init c) eqn:Hi.
  - rewrite (ensure_ws_inited ev c Hi) in H. inversion H; subst; exact Hj.
  - unfold ensure_ws, bind at 1, get in H. cbv beta iota in H. rewrite Hi in H.
    assert (Hg : c_graph c = g) by (destruct Hj; assumption). rewrite Hg in H. fold stage_roots in H.
    match type of H with ?m c = _ => assert (P : preserves RI m) by walkj end.
    exact (P c c' res H Hj).
Qed.
Hint Resolve pj_ensure_ws : presj.

Lemma pj_request_workflow_status : forall st, preserves RI (request_workflow_status ev st).
Proof. intros; unfold request_workflow_status; walkj. Qed.
Lemma pj_get_next_tasks : preserves RI (get_next_tasks ev).
Proof. unfold get_next_tasks; walkj. Qed.
Lemma pj_render_workflow_output : preserves RI (render_workflow_output ev).
Proof. unfold render_workflow_output, get_workflow_terminal_context; walkj. Qed.


(* ---- sequencing with an invariant ---- *)
Lemma bind_I : forall (I : cstate -> Prop) A B (m : M A) (f : A -> M B) (Q : cstate -> result B -> Prop) c c' res,
  bind m f c = (c', res) -> I c -> preserves (fun a b => I a -> I b) m ->
  (forall c1 e, I c1 -> Q c1 (Exc e)) ->
  (forall c1 a, m c = (c1, Val a) -> I c1 -> f a c1 = (c', res) -> Q c' res) -> Q c' res.
Proof.
  intros I A B m f Q c c' res H Hi Hm He Hk. apply bind_inv in H.
  destruct H as [[c1 [a [E H]]]|[e [E ->]]].
  - apply (Hk c1 a E); [eapply Hm; [exact E|exact Hi]|exact H].
  - apply He. eapply Hm; [exact E|exact Hi].
Qed.

Lemma pres_and : forall (I1 I2 : cstate -> Prop) A (m : M A),
  preserves (fun a b => I1 a -> I1 b) m -> preserves (fun a b => I2 a -> I2 b) m ->
  preserves (fun a b => I1 a /\ I2 a -> I1 b /\ I2 b) m.
Proof. intros I1 I2 A m H1 H2 c c' r E [A1 A2]. split; [eapply H1; eauto|eapply H2; eauto]. Qed.

(* ---- witnesses persist through the pieces that run between a fact and its use ---- *)
Ltac leafp :=
  first
    [ apply (preserves_modws Rkp); intro; apply Rkp_same_seq; simpl; first [reflexivity|apply seq_remove_staged]
    | apply (preserves_modws Rkp); intro; apply Rkp_update_keep; intro; repeat split; reflexivity
    | apply (preserves_modws Rkp); intro; apply Rkp_append
    | apply (preserves_modify Rkp); intro; apply Rkp_same_seq; reflexivity
    | apply (preserves_modify Rkp); intro; apply Rkp_same_seq;
      match goal with |- context [if ?b then _ else _] => destruct b end; reflexivity
    | assumption
    | eauto 3 with preskp ].
Ltac walkp := pw Rkp_refl Rkp_trans leafp.

Hint Resolve keeps_request_status_core : preskp.
Lemma pkp_log_entry_error : forall m t r tr res, preserves Rkp (log_entry_error m t r tr res).
Proof. intros; unfold log_entry_error; walkp. Qed.
Hint Resolve pkp_log_entry_error : preskp.
Lemma pkp_log_error : forall e t r tr, preserves Rkp (log_error e t r tr).
Proof. intros; unfold log_error; auto with preskp. Qed.
Hint Resolve pkp_log_error : preskp.
Lemma pkp_get_task_context : forall idxs, preserves Rkp (get_task_context idxs).
Proof. intros; unfold get_task_context; walkp. Qed.
Hint Resolve pkp_get_task_context : preskp.
Lemma pkp_setup_retry : forall t idxs, preserves Rkp (setup_retry ev t idxs).
Proof. intros; unfold setup_retry; walkp. Qed.
Hint Resolve pkp_setup_retry : preskp.

(* ---- a new record, with a justified predecessor list ---- *)
Lemma add_task_state_J : forall t rt ins prev c c' res,
  add_task_state ev t rt ins prev c = (c', res) -> Justified g c -> jprev g (sequence (c_ws c)) t prev ->
  Justified g c' /\ Rkp c c'.
Proof.
  intros t rt ins prev c c' res H Hj Hp. unfold add_task_state in H.
  unfold bind at 1, get in H. cbv beta iota in H.
  destruct (negb (g_has_task (c_graph c) t)); [inversion H; subst; split; [exact Hj|apply Rkp_refl]|].
  cbv zeta in H. apply bind_inv in H.
  match type of H with (exists c1 a, ?m c = _ /\ _) \/ _ =>
    assert (P1 : preserves RI m) by walkj; assert (P2 : preserves Rkp m) by walkp end.
  destruct H as [[c1 [retry [E H]]]|[e [E _]]].
  2: { split; [eapply P1; eauto|eapply P2; eauto]. }
  pose proof (P1 _ _ _ E Hj) as Hj1. pose proof (P2 _ _ _ E) as Hk1.
  unfold bind at 1, getws in H. cbv beta iota in H.
  unfold bind, modws, ret in H. inversion H; subst c' res; clear H.
  split.
  - match goal with |- Justified g (set_ws c1 (ws_set_tasks (ws_set_sequence _ (app _ [?r])) _)) =>
      apply (Justified_append g c1 r rt Hj1 eq_refl eq_refl) end.
    cbn [r_id r_prev]. eapply jprev_keeps; [exact Hk1|exact Hp].
  - eapply Rkp_trans; [exact Hk1|apply Rkp_append].
Qed.

(* ---- the retry bookkeeping: the task is staged again with the record's own predecessors ---- *)
Lemma retrying_J : forall t route idx r ns c c' res,
  uts_retrying t route idx r ns c = (c', res) -> Justified g c ->
  nth_error (sequence (c_ws c)) idx = Some r -> r_id r = t -> Justified g c'.
Proof.
  intros t route idx r ns c c' res H Hj Hn Hid. unfold uts_retrying in H.
  destruct (status_eqb ns S_RETRYING); [|inversion H; subst; exact Hj].
  destruct (r_retry r) as [rr|]; [|inversion H; subst; exact Hj].
  cbv zeta in H. unfold upd_rec, bind, modws in H. inversion H; subst c' res; clear H.
  match goal with |- Justified g (set_ws ?c2 (ws_add_staged _ ?s)) =>
    assert (Hj2 : Justified g c2) end.
  { apply Justified_remove_staged. apply Justified_update_keep; [exact Hj|intro; repeat split; reflexivity]. }
  apply (Justified_add_staged g _ _ Hj2). cbn [mk_staged s_id s_prev].
  destruct Hj2 as [_ [_ [_ [_ Hr]]]].
  match goal with |- jprev g ?sq t (r_prev r) =>
    assert (Hn2 : exists r2, nth_error sq idx = Some r2 /\ r_id r2 = t /\ r_prev r2 = r_prev r) end.
  { cbn [c_ws set_ws]. rewrite seq_remove_staged. eexists. split; [apply nth_update_rec_same; exact Hn|].
    split; [exact Hid|reflexivity]. }
  destruct Hn2 as [r2 [Hn2 [Hi2 Hp2]]]. pose proof (Hr idx r2 Hn2) as Hx. rewrite Hi2, Hp2 in Hx. exact Hx.
Qed.

(* ---- the task machine's status update, on a record nothing can be referring to ---- *)
Lemma setst_J : forall idx ns r c c' res, uts_setst idx ns c = (c', res) -> Justified g c ->
  nth_error (sequence (c_ws c)) idx = Some r -> (~ decided r \/ r_next r = []) -> Justified g c'.
Proof.
  intros idx ns r c c' res H Hj Hn Hc. unfold uts_setst in H. destruct ns as [s|]; [|inversion H; subst; exact Hj].
  unfold set_rec_status, modws in H. inversion H; subst c' res. eapply Justified_set_status; eassumption.
Qed.

(* ------------------------------------------------------------------ one transition *)

Lemma mapM_evaluate_pure : forall ctx l, state_pure (mapM (fun cr => evaluate ev cr ctx) l).
Proof.
  intros ctx l; induction l as [|x l IH]; simpl; [apply state_pure_ret|].
  apply state_pure_bind; [apply evaluate_pure|intro y].
  apply state_pure_bind; [exact IH|intro ys; apply state_pure_ret].
Qed.

Section Transition.
Variable t : string.
Variables route idx : nat.
Variable ts : task_spec.
Variable ctx : dict.

(* process_transition, in two parts: the evaluation of the criteria with the recording of the
   decision, and what is done with the decision *)
Definition pt_step1 (e : gedge) : M (option bool) :=
  try_catch
    (vs <- mapM (fun cr => evaluate ev cr ctx) (e_criteria e) ;;
     let b := forallb truthy vs in
     upd_rec idx (fun r => r_set_next r (aset trid_eqb (e_dst e, e_key e) b (r_next r))) ;;;
     ret (Some b))
    (fun x => log_error x (Some t) (Some route) (Some (e_dst e, e_key e)) ;;;
              request_status_core S_FAILED ;;; ret None).

Definition pt_cont (e : gedge) (ok : option bool) : M (option (string * nat) * option (string * nat)) :=
  let tid := (e_dst e, e_key e) in
  match ok with
  | Some true =>
      fc <- finalize_context ev ts e ctx ;;
      let '(new_ctx, errors) := fc in
      match errors with
      | _ :: _ =>
          log_errors errors (Some t) (Some route) (Some tid) ;;;
          request_status_core S_FAILED ;;; ret (None, None)
      | [] =>
          r <- get_rec idx ;;
          w <- getws ;;
          out_idxs <- (match new_ctx with
                       | [] => ret (r_in r)
                       | _ =>
                           let ci := length (contexts w) in
                           modws (fun w => ws_set_contexts w (app (contexts w) [new_ctx])) ;;;
                           upd_rec idx (fun r => r_set_out r (Some (tid, ci))) ;;;
                           ret (app (r_in r) [ci])
                       end) ;;
          next_route <- evaluate_route e route ;;
          let nt := e_dst e in
          let backref := (t, e_key e) in
          w <- getws ;;
          (match get_staged_task w nt next_route with
           | Some _ =>
               match nat_remove_first 0 out_idxs with
               | None => raise (mkexn "ValueError" "list.remove(x): x not in list")
               | Some out' =>
                   modws (fun w => ws_set_staged w
                            (staged_update
                               (fun s => s_set_completed
                                           (s_set_items (s_set_in_prev s (app (s_in s) out')
                                                                       (aset trid_eqb backref idx (s_prev s)))
                                                        None) false)
                               nt next_route (staged w)))
               end
           | None =>
               modws (fun w => ws_add_staged w (mk_staged nt next_route out_idxs [(backref, idx)] false None))
           end) ;;;
          c <- get ;;
          let ready := inbound_eqb (get_inbound_criteria_status (c_graph c) (c_ws c) nt route) InbSatisfied in
          modws (fun w => ws_set_staged w (staged_update (fun s => s_set_ready s ready) nt next_route (staged w))) ;;;
          if is_engine_command nt then ret (Some (nt, next_route), None)
          else if ready then ret (None, Some (nt, next_route))
          else ret (None, None)
      end
  | _ => ret (None, None)
  end.

Lemma pt_eq : forall e, process_transition ev t route idx ts ctx e = bind (pt_step1 e) (pt_cont e).
Proof. intros; reflexivity. Qed.

(* the record the transitions are evaluated on: completed, of task t, and not yet decided for l *)
Definition Gq (c : cstate) (l : list gedge) : Prop :=
  exists r, nth_error (sequence (c_ws c)) idx = Some r /\ decided r /\ r_id r = t /\
            forall e', In e' l -> aget trid_eqb (trid_of e') (r_next r) = None.

Lemma step1_J : forall e l c c1 rok, pt_step1 e c = (c1, rok) -> Justified g c -> Gq c (e :: l) ->
  ~ In (trid_of e) (map trid_of l) ->
  Justified g c1 /\ Gq c1 l /\
  (rok = Val (Some true) ->
   exists r1, nth_error (sequence (c_ws c1)) idx = Some r1 /\ aget trid_eqb (trid_of e) (r_next r1) = Some true).
Proof.
  intros e l c c1 rok H Hj [r [Hn [Hd [Hid Hnone]]]] Hnin. unfold pt_step1, try_catch in H.
  unfold bind at 1 in H. pose proof (mapM_evaluate_pure ctx (e_criteria e) c) as Hp.
  destruct (mapM (fun cr => evaluate ev cr ctx) (e_criteria e) c) as [cm [vs|xm]] eqn:Em; simpl in Hp; subst cm.
  - cbv zeta in H. unfold upd_rec, bind, modws, ret in H. inversion H; subst c1 rok; clear H.
    assert (Hnone_e : aget trid_eqb (trid_of e) (r_next r) = None) by (apply Hnone; left; reflexivity).
    split; [eapply Justified_set_next; eassumption|]. split.
    + exists (r_set_next r (aset trid_eqb (e_dst e, e_key e) (forallb truthy vs) (r_next r))).
      split; [exact (nth_update_rec_same (c_ws c) idx (fun r0 => r_set_next r0 (aset trid_eqb (e_dst e, e_key e) (forallb truthy vs) (r_next r0))) r Hn)|].
      split; [exact Hd|]. split; [exact Hid|].
      intros e' He'. cbn [r_next r_set_next]. rewrite (aget_aset_neq trid_eqb trid_eqb_eq).
      * apply Hnone; right; exact He'.
      * intro E. apply Hnin. apply in_map_iff. exists e'; split; [symmetry; exact E|exact He'].
    + intro E. inversion E as [Eb]. exists (r_set_next r (aset trid_eqb (e_dst e, e_key e) (forallb truthy vs) (r_next r))).
      split; [exact (nth_update_rec_same (c_ws c) idx (fun r0 => r_set_next r0 (aset trid_eqb (e_dst e, e_key e) (forallb truthy vs) (r_next r0))) r Hn)|].
      cbn [r_next r_set_next]. unfold trid_of. rewrite (aget_aset_eq trid_eqb trid_eqb_eq). rewrite Eb. reflexivity.
  - (* an evaluation error: logged, the workflow fails, nothing is recorded *)
    assert (Hc : ostatus_in (r_status r) COMPLETED_STATUSES = true) by exact Hd.
    match type of H with ?m c = _ =>
      assert (P1 : preserves RI m) by walkj;
      assert (P2 : preserves (RK idx (r_id r) (r_status r) (r_next r)) m) end.
    { apply (preserves_bind _ (RK_trans idx _ _ _)); [|intros _].
      - unfold log_error, log_entry_error. apply (preserves_modify (RK idx _ _ _)). intro c0. apply RK_same_seq.
        destruct (existsb _ _); reflexivity.
      - apply (preserves_bind _ (RK_trans idx _ _ _)); [apply pk_request_status_core; exact Hc|intros _].
        apply (preserves_ret _ (RK_refl idx _ _ _)). }
    split; [eapply P1; eauto|]. split.
    + destruct (P2 _ _ _ H) as [r1 [Hn1 [I1 [I2 I3]]]]; [exists r; repeat split; exact Hn|].
      exists r1. split; [exact Hn1|]. split; [unfold decided; rewrite I2; exact Hd|]. split; [congruence|].
      intros e' He'. rewrite I3. apply Hnone; right; exact He'.
    + intro E. exfalso. subst rok.
      apply bind_val_inv' in H. destruct H as [ca [ua [_ H]]].
      apply bind_val_inv' in H. destruct H as [cb [ub [_ H]]]. inversion H.
Qed.

(* ---- what is done with a decision that is true: the record is as step 1 left it ---- *)
Section Cont.
Variable rst : option status.
Variable rnx : list (trid * bool).
Variable e : gedge.
Hypothesis Hcompl : ostatus_in rst COMPLETED_STATUSES = true.
Hypothesis Htrue : aget trid_eqb (e_dst e, e_key e) rnx = Some true.
Hypothesis Hedge : In e (g_edges g).
Hypothesis Hsrc : e_src e = t.

Definition I2 (c : cstate) : Prop := Justified g c /\ Kz idx t rst rnx c.
Definition RI2 (c c' : cstate) : Prop := I2 c -> I2 c'.
Lemma RI2_refl : forall c, RI2 c c.
Proof. intros c H; exact H. Qed.
Lemma RI2_trans : forall a b c, RI2 a b -> RI2 b c -> RI2 a c.
Proof. unfold RI2; intros; auto. Qed.

Lemma pres_both : forall A (m : M A), preserves RI m -> preserves (RK idx t rst rnx) m -> preserves RI2 m.
Proof. intros A m H1 H2 c c' r E [A1 A2]. split; [eapply H1; eauto|eapply H2; eauto]. Qed.

Ltac leafk :=
  first
    [ apply (preserves_modws (RK idx t rst rnx)); intro; apply RK_same_seq; simpl; first [reflexivity|apply seq_remove_staged]
    | apply (preserves_modws (RK idx t rst rnx)); intro; apply RK_update_keep; intro; repeat split; reflexivity
    | apply (preserves_modws (RK idx t rst rnx)); intro; apply RK_append
    | apply (preserves_modify (RK idx t rst rnx)); intro; apply RK_same_seq; reflexivity
    | apply (preserves_modify (RK idx t rst rnx)); intro; apply RK_same_seq;
      match goal with |- context [if ?b then _ else _] => destruct b end; reflexivity
    | assumption
    | match goal with IH : forall _ _ _ _, preserves _ _ |- _ => apply IH end
    | eauto 3 with presk ].
Ltac walkk := pw (RK_refl idx t rst rnx) (RK_trans idx t rst rnx) leafk.

Lemma pk_rsc : forall st, preserves (RK idx t rst rnx) (request_status_core st).
Proof. intro; apply pk_request_status_core; exact Hcompl. Qed.
Hint Resolve pk_rsc : presk.
Lemma pk_log_entry_error : forall m a r tr res, preserves (RK idx t rst rnx) (log_entry_error m a r tr res).
Proof. intros; unfold log_entry_error; walkk. Qed.
Hint Resolve pk_log_entry_error : presk.
Lemma pk_log_error : forall x a r tr, preserves (RK idx t rst rnx) (log_error x a r tr).
Proof. intros; unfold log_error; auto with presk. Qed.
Hint Resolve pk_log_error : presk.
Lemma pk_log_errors : forall es a r tr, preserves (RK idx t rst rnx) (log_errors es a r tr).
Proof. intros; unfold log_errors; walkk. Qed.
Hint Resolve pk_log_errors : presk.
Lemma pk_render_vars : forall specs rolling rendered errs, preserves (RK idx t rst rnx) (render_vars ev specs rolling rendered errs).
Proof. induction specs as [|[n d] specs IH]; intros; simpl; walkk. Qed.
Hint Resolve pk_render_vars : presk.
Lemma pk_finalize_context : forall e0 c0, preserves (RK idx t rst rnx) (finalize_context ev ts e0 c0).
Proof. intros; unfold finalize_context; walkk. Qed.
Hint Resolve pk_finalize_context : presk.
Lemma pk_get_rec : forall j, preserves (RK idx t rst rnx) (get_rec j).
Proof. intros; unfold get_rec; walkk. Qed.
Hint Resolve pk_get_rec : presk.
Lemma pk_evaluate_route : forall e0 r, preserves (RK idx t rst rnx) (evaluate_route e0 r).
Proof. intros; unfold evaluate_route; walkk. Qed.
Hint Resolve pk_evaluate_route : presk.

Lemma pk_get_task_context : forall idxs, preserves (RK idx t rst rnx) (get_task_context idxs).
Proof. intros; unfold get_task_context; walkk. Qed.
Hint Resolve pk_get_task_context : presk.
Lemma pk_evaluate_task_retry : forall r c0, preserves (RK idx t rst rnx) (evaluate_task_retry ev r c0).
Proof. intros; unfold evaluate_task_retry; walkk. Qed.
Hint Resolve pk_evaluate_task_retry : presk.
Lemma pk_completion : forall t' route' evt ts' idx' new o0,
  preserves (RK idx t rst rnx) (uts_completion ev t' route' evt ts' idx' new o0).
Proof. intros; unfold uts_completion; walkk. Qed.

Lemma witness_here : forall c, I2 c -> witness g (sequence (c_ws c)) (e_dst e) ((t, e_key e), idx).
Proof.
  intros c [_ [r [Hn [Hi [Hs Hx]]]]]. exists r. cbn [fst snd].
  split; [exact Hn|]. split; [exact Hi|]. split; [unfold decided; rewrite Hs; exact Hcompl|].
  split; [rewrite Hx; exact Htrue|]. exists e. repeat split; assumption.
Qed.

Lemma stage_add_2 : forall nr out,
  preserves RI2 (modws (fun w => ws_add_staged w (mk_staged (e_dst e) nr out [((t, e_key e), idx)] false None))).
Proof.
  intros nr out. apply (preserves_modws RI2). intros c Hi. pose proof (witness_here c Hi) as Hw.
  destruct Hi as [Hj Hk]. split.
  - apply Justified_add_staged; [exact Hj|]. cbn [mk_staged s_id s_prev].
    split; [discriminate|]. intros p [<-|[]]. exact Hw.
  - eapply RK_same_seq; [|exact Hk]. reflexivity.
Qed.
Hint Resolve stage_add_2 : pres2.

Lemma stage_gain_2 : forall nr out',
  preserves RI2 (modws (fun w => ws_set_staged w
     (staged_update (fun s => s_set_completed
                                (s_set_items (s_set_in_prev s (app (s_in s) out')
                                                            (aset trid_eqb (t, e_key e) idx (s_prev s)))
                                             None) false)
                    (e_dst e) nr (staged w)))).
Proof.
  intros nr out'. apply (preserves_modws RI2). intros c Hi. pose proof (witness_here c Hi) as Hw.
  destruct Hi as [Hj Hk]. split.
  - eapply Justified_staged_gain; [exact Hj|intro; split; reflexivity|exact Hw].
  - eapply RK_same_seq; [|exact Hk]. reflexivity.
Qed.
Hint Resolve stage_gain_2 : pres2.

Ltac leaf2 :=
  first [ apply pres_both; [solve [leafj]|solve [leafk]] | solve [eauto 3 with pres2] ].

Lemma cont_J : forall ok, preserves RI2 (pt_cont e ok).
Proof. intro ok. unfold pt_cont. cbv zeta. unfold upd_rec. pw RI2_refl RI2_trans leaf2. Qed.
End Cont.

Lemma Gq_weaken : forall c l l', (forall e', In e' l' -> In e' l) -> Gq c l -> Gq c l'.
Proof. intros c l l' Hl [r [Hn [Hd [Hi Hx]]]]. exists r. repeat split; auto. Qed.

Lemma process_transition_J : forall e l c c' res,
  In e (g_edges g) -> e_src e = t -> ~ In (trid_of e) (map trid_of l) ->
  Justified g c -> Gq c (e :: l) ->
  process_transition ev t route idx ts ctx e c = (c', res) -> Justified g c' /\ Gq c' l.
Proof.
  intros e l c c' res Hedge Hsrc Hnin Hj Hq H. rewrite pt_eq in H. apply bind_inv in H.
  destruct H as [[c1 [ok [E1 H]]]|[x [E1 _]]].
  - destruct (step1_J _ _ _ _ _ E1 Hj Hq Hnin) as [Hj1 [Hq1 Ht]].
    destruct ok as [[|]|]; try (unfold pt_cont in H; inversion H; subst; split; assumption).
    destruct (Ht eq_refl) as [r1 [Hn1 Ha1]]. destruct Hq1 as [r1' [Hn1' [Hd1 [Hi1 Hx1]]]].
    rewrite Hn1 in Hn1'; inversion Hn1'; subst r1'; clear Hn1'.
    destruct (cont_J (r_status r1) (r_next r1) e Hd1 Ha1 Hedge Hsrc (Some true) c1 c' res H) as [Hj' [r' [Hn' [Hi' [Hs' Hx']]]]].
    { split; [exact Hj1|]. exists r1. repeat split; assumption. }
    split; [exact Hj'|]. exists r'. split; [exact Hn'|]. split; [unfold decided; rewrite Hs'; exact Hd1|].
    split; [exact Hi'|]. intros e' He'. rewrite Hx'. apply Hx1; exact He'.
  - destruct (step1_J _ _ _ _ _ E1 Hj Hq Hnin) as [Hj1 [Hq1 _]]. split; assumption.
Qed.

Lemma transitions_J : forall l c c' res,
  (forall e, In e l -> In e (g_edges g) /\ e_src e = t) -> NoDup (map trid_of l) ->
  Justified g c -> Gq c l ->
  mapM (process_transition ev t route idx ts ctx) l c = (c', res) -> Justified g c' /\ Gq c' [].
Proof.
  induction l as [|e l IH]; intros c c' res Hl Hnd Hj Hq H; cbn [mapM] in H.
  - inversion H; subst; split; assumption.
  - cbn [map] in Hnd. inversion Hnd as [|x xs Hnin Hnd']; subst x xs.
    destruct (Hl e (or_introl eq_refl)) as [Hedge Hsrc].
    apply bind_inv in H. destruct H as [[c1 [y [E1 H]]]|[x [E1 _]]].
    + destruct (process_transition_J _ _ _ _ _ Hedge Hsrc Hnin Hj Hq E1) as [Hj1 Hq1].
      apply bind_inv in H. destruct H as [[c2 [ys [E2 H]]]|[x [E2 _]]].
      * inversion H; subst. eapply IH; [intros e' He'; apply Hl; right; exact He'|exact Hnd'|exact Hj1|exact Hq1|exact E2].
      * eapply IH; [intros e' He'; apply Hl; right; exact He'|exact Hnd'|exact Hj1|exact Hq1|exact E2].
    + destruct (process_transition_J _ _ _ _ _ Hedge Hsrc Hnin Hj Hq E1) as [Hj1 Hq1].
      split; [exact Hj1|]. eapply Gq_weaken; [|exact Hq1]. intros e' [].
Qed.
End Transition.

(* ------------------------------------------------------------------ all transitions of a completed task *)

Definition out_tids_unique : Prop := forall t, NoDup (map trid_of (g_next_transitions g t)).

Lemma next_transitions_edges : forall t e, In e (g_next_transitions g t) -> In e (g_edges g) /\ e_src e = t.
Proof.
  intros t e H. unfold g_next_transitions in H. apply In_sort_by in H. apply filter_In in H.
  destruct H as [H1 H2]. apply String.eqb_eq in H2. split; assumption.
Qed.

Lemma queue_J : forall t route idx ts old new compl c c' res, out_tids_unique ->
  uts_queue ev t route idx ts old new compl c = (c', res) -> Justified g c ->
  (new <> old -> compl <> None ->
   exists r, nth_error (sequence (c_ws c)) idx = Some r /\ decided r /\ r_id r = t /\ r_next r = []) ->
  Justified g c'.
Proof.
  intros t route idx ts old new compl c c' res Hnd H Hj Hpre. unfold uts_queue in H.
  destruct compl as [[cctx b]|]; [|inversion H; subst; exact Hj].
  destruct (negb (status_eqb new old)) eqn:En; [|inversion H; subst; exact Hj].
  destruct Hpre as [r [Hn [Hd [Hi Hx]]]].
  { intro E; subst. rewrite status_eqb_refl in En. discriminate. } { discriminate. }
  unfold bind at 1, get in H. cbv beta iota zeta in H.
  assert (Hg : c_graph c = g) by (destruct Hj; assumption). rewrite Hg in H.
  apply bind_inv in H. destruct H as [[c1 [u1 [E1 H]]]|[x [E1 _]]].
  2: { match type of E1 with ?m c = _ => assert (P : preserves RI m) by (unfold upd_rec; walkj) end. eapply P; eauto. }
  assert (Hj1 : Justified g c1).
  { match type of E1 with ?m c = _ => assert (P : preserves RI m) by (unfold upd_rec; walkj) end. eapply P; eauto. }
  assert (Hq1 : Gq t idx c1 (g_next_transitions g t)).
  { match type of E1 with ?m c = _ =>
      assert (P : preserves (RK idx (r_id r) (r_status r) (r_next r)) m) end.
    { destruct (g_next_transitions g t); [|apply (preserves_ret _ (RK_refl idx _ _ _))].
      unfold upd_rec. apply (preserves_modws (RK idx _ _ _)). intro c0. apply RK_update_keep. intro; repeat split; reflexivity. }
    destruct (P _ _ _ E1) as [r1 [Hn1 [I1 [I2 I3]]]]; [exists r; repeat split; exact Hn|].
    exists r1. split; [exact Hn1|]. split; [unfold decided; rewrite I2; exact Hd|]. split; [congruence|].
    intros e' _. rewrite I3, Hx. reflexivity. }
  apply bind_inv in H. destruct H as [[c2 [rs [E2 H]]]|[x [E2 _]]].
  2: { eapply transitions_J; [intros e He; apply next_transitions_edges; exact He|apply Hnd|exact Hj1|exact Hq1|exact E2]. }
  assert (Hj2 : Justified g c2).
  { eapply transitions_J; [intros e He; apply next_transitions_edges; exact He|apply Hnd|exact Hj1|exact Hq1|exact E2]. }
  match type of H with ?m c2 = _ => assert (P : preserves RI m) by (unfold upd_rec; walkj) end.
  eapply P; eauto.
Qed.

(* ------------------------------------------------------------------ the task machine on the addressed record *)

Lemma pj_completion : forall t route evt ts idx new o0, preserves RI (uts_completion ev t route evt ts idx new o0).
Proof. intros; unfold uts_completion; walkj. Qed.

Lemma retrying_rec : forall t route idx r ns c c' res r1, uts_retrying t route idx r ns c = (c', res) ->
  nth_error (sequence (c_ws c)) idx = Some r1 ->
  exists r2, nth_error (sequence (c_ws c')) idx = Some r2 /\ r_id r2 = r_id r1 /\ r_status r2 = r_status r1 /\
             r_next r2 = r_next r1.
Proof.
  intros t route idx r ns c c' res r1 H Hn. unfold uts_retrying in H.
  destruct (status_eqb ns S_RETRYING); [|inversion H; subst; exists r1; repeat split; exact Hn].
  destruct (r_retry r) as [rr|]; [|inversion H; subst; exists r1; repeat split; exact Hn].
  cbv zeta in H. unfold upd_rec, bind, modws in H. inversion H; subst c' res; clear H.
  eexists. split.
  { cbn [c_ws set_ws sequence ws_add_staged ws_set_staged]. rewrite seq_remove_staged.
    exact (nth_update_rec_same (c_ws c) idx _ r1 Hn). }
  repeat split.
Qed.

(* what the tail may rely on *)
Definition tail_pre (t : string) (c : cstate) (p : pre_out) : Prop :=
  po_compl p <> None ->
  (exists r, nth_error (sequence (c_ws c)) (po_idx p) = Some r /\ decided r /\ r_id r = t /\ r_next r = []) \/
  (po_new p = po_old p /\ forall ctx b, po_compl p = Some (ctx, b) -> b = false).

Definition PostJ (t : string) (c : cstate) (res : result pre_out) : Prop :=
  Justified g c /\ forall p, res = Val p -> tail_pre t c p.

Lemma PostJ_exc : forall t c e, Justified g c -> PostJ t c (Exc e).
Proof. intros t c e H; split; [exact H|intros p E; discriminate]. Qed.

Lemma pre_machine_J : forall t route evt ts idx c c' res r,
  pre_machine ev t route evt ts idx c = (c', res) -> Justified g c ->
  nth_error (sequence (c_ws c)) idx = Some r -> r_id r = t ->
  (~ decided r \/ r_next r = [] \/ is_retry_event evt = false) ->
  PostJ t c' res.
Proof.
  intros t route evt ts idx c c' res r H Hj Hn Hid Hm. unfold pre_machine in H.
  (* r <- get_rec idx *)
  apply (bind_I (Justified g) _ _ _ _ (PostJ t) _ _ _ H Hj); [apply pj_get_rec|intros; apply PostJ_exc; assumption|]. clear H.
  intros c1 r' E _ H. apply get_rec_inv in E; destruct E as [-> Hr']. rewrite Hn in Hr'; inversion Hr'; subst r'; clear Hr'.
  unfold bind at 1, getws in H. cbv beta iota in H.
  apply bind_inv in H. destruct H as [[c1 [ns [E H]]]|[x [E ->]]];
    apply lift_res_inv in E; destruct E as [-> Ens]; [|apply PostJ_exc; exact Hj].
  assert (Hcases : (~ decided r \/ r_next r = []) \/
                   (decided r /\ is_retry_event evt = false)).
  { destruct Hm as [Hm|[Hm|Hm]]; [left; left; exact Hm|left; right; exact Hm|].
    destruct (ostatus_in (r_status r) COMPLETED_STATUSES) eqn:Ed; [right; split; [exact Ed|exact Hm]|].
    left; left. unfold decided. rewrite Ed. discriminate. }
  destruct Hcases as [Hfree|[Hd Hne]].
  - (* nothing can be referring to the record *)
    assert (Hnil : r_next r = []).
    { destruct Hfree as [Hf|Hf]; [|exact Hf]. destruct Hj as [_ [_ [Ho _]]]. eapply Ho; eassumption. }
    apply bind_inv in H. destruct H as [[c1 [u1 [E1 H]]]|[x [E1 ->]]].
    2: { apply PostJ_exc. eapply setst_J; eassumption. }
    pose proof (setst_J _ _ _ _ _ _ E1 Hj Hn Hfree) as Hj1.
    destruct (setst_inv _ _ _ _ _ _ E1 Hn) as [_ [_ [_ Hn1]]]. fold (stepped r ns) in Hn1.
    apply bind_inv in H. destruct H as [[c1' [r1 [E H]]]|[x [E ->]]];
      [|apply get_rec_state in E; subst; apply PostJ_exc; exact Hj1].
    apply get_rec_inv in E; destruct E as [-> Hr1]. rewrite Hn1 in Hr1; inversion Hr1; subst r1; clear Hr1.
    assert (Hid1 : r_id (stepped r ns) = t) by (destruct ns; exact Hid).
    assert (Hnx1 : r_next (stepped r ns) = []) by (destruct ns; exact Hnil).
    apply bind_inv in H. destruct H as [[c2 [u2 [E2 H]]]|[x [E2 ->]]].
    2: { apply PostJ_exc. eapply retrying_J; eassumption. }
    pose proof (retrying_J _ _ _ _ _ _ _ _ E2 Hj1 Hn1 Hid1) as Hj2.
    destruct (retrying_rec _ _ _ _ _ _ _ _ _ E2 Hn1) as [r2 [Hn2 [I2 [S2 X2]]]].
    apply bind_inv in H. destruct H as [[c3 [compl [E3 H]]]|[x [E3 ->]]].
    2: { apply PostJ_exc. eapply pj_completion; eassumption. }
    inversion H; subst c' res; clear H.
    split; [eapply pj_completion; eassumption|]. intros p Hp; inversion Hp; subst p; clear Hp.
    unfold tail_pre. cbn [po_compl po_idx po_new po_old]. intro Hc. left.
    destruct (completion_inv _ _ _ _ _ _ _ _ _ _ _ E3) as [[_ [Hnone _]]|[Hcs _]]; [congruence|].
    assert (Hc2 : ostatus_in (r_status r2) COMPLETED_STATUSES = true).
    { rewrite S2. unfold rstatus in Hcs. destruct (r_status (stepped r ns)); [exact Hcs|discriminate]. }
    destruct (pk_completion t idx (r_status r2) (r_next r2) Hc2 t route evt ts idx (rstatus (stepped r ns)) _ _ _ _ E3)
      as [r3 [Hn3 [I3 [S3 X3]]]].
    { exists r2. repeat split; [exact Hn2|congruence]. }
    exists r3. split; [exact Hn3|]. split; [unfold decided; rewrite S3; exact Hc2|]. split; [exact I3|congruence].
  - (* a completed record that may be referred to: the event leaves it alone and -- D33: its status did not change --
       it is not retried, whatever retries it has left *)
    assert (ns = None) as -> by (eapply completed_step_none; [exact Hd|exact Hne|symmetry; exact Ens]).
    cbn [uts_setst] in H. unfold bind at 1, ret in H. cbv beta iota in H.
    apply bind_inv in H. destruct H as [[c1' [r1 [E H]]]|[x [E ->]]];
      [|apply get_rec_state in E; subst; apply PostJ_exc; exact Hj].
    apply get_rec_inv in E; destruct E as [-> Hr1]. rewrite Hn in Hr1; inversion Hr1; subst r1; clear Hr1.
    assert (Hcs : status_in (rstatus r) COMPLETED_STATUSES = true).
    { unfold decided in Hd. unfold rstatus. destruct (r_status r); [exact Hd|discriminate]. }
    assert (Er : uts_retrying t route idx r (rstatus r) = ret tt).
    { unfold uts_retrying. rewrite (F_completed_not_retrying _ Hcs). reflexivity. }
    rewrite Er in H. unfold bind at 1, ret in H. cbv beta iota in H.
    apply bind_inv in H. destruct H as [[c3 [compl [E3 H]]]|[x [E3 ->]]].
    2: { apply PostJ_exc. eapply pj_completion; eassumption. }
    inversion H; subst c' res; clear H.
    split; [eapply pj_completion; eassumption|]. intros p Hp; inversion Hp; subst p; clear Hp.
    unfold tail_pre. cbn [po_compl po_idx po_new po_old]. intros _. right. split; [reflexivity|].
    intros cctx b Hc.
    destruct (completion_inv _ _ _ _ _ _ _ _ _ _ _ E3) as [[_ [Hn0 _]]|[_ [c4 [r4 [ctx4 [b4 [_ [_ [_ [Hc4 [_ [_ Hdiff]]]]]]]]]]]].
    + rewrite Hn0 in Hc; discriminate.
    + rewrite Hc4 in Hc; inversion Hc; subst ctx4 b4. destruct b; [exfalso|reflexivity].
      apply (Hdiff eq_refl). reflexivity.
Qed.

(* ------------------------------------------------------------------ selecting the record *)

Lemma pj_unstage : forall t route evt s0, preserves RI (uts_unstage t route evt s0).
Proof. intros; unfold uts_unstage; walkj. Qed.
Lemma pj_item : forall t route evt s0, preserves RI (uts_item t route evt s0).
Proof. intros; unfold uts_item; walkj. Qed.
Lemma pj_logfail : forall t evt, preserves RI (uts_logfail t evt).
Proof. intros; unfold uts_logfail; walkj. Qed.

Definition fresh_rec (t : string) (route : nat) (c : cstate) (idx : nat) : Prop :=
  exists r, nth_error (sequence (c_ws c)) idx = Some r /\ r_status r = None /\ r_id r = t /\
            ws_task_idx (c_ws c) t route = Some idx.

Lemma add_from_staged_J : forall t route s0 c c' res,
  (s <- uts_need_staged s0 ;; add_task_state ev t (s_route s) (s_in s) (s_prev s)) c = (c', res) ->
  Justified g c ->
  (forall s, s0 = Some s -> jprev g (sequence (c_ws c)) t (s_prev s) /\ s_route s = route) ->
  Justified g c' /\ Rkp c c' /\ forall idx, res = Val idx -> fresh_rec t route c' idx.
Proof.
  intros t route s0 c c' res H Hj Hs. destruct s0 as [s|]; cbn [uts_need_staged] in H.
  - unfold bind at 1, ret in H. cbv beta iota in H. destruct (Hs s eq_refl) as [Hp Hr].
    destruct (add_task_state_J _ _ _ _ _ _ _ H Hj Hp) as [Hj' Hk]. split; [exact Hj'|]. split; [exact Hk|].
    intros idx E; subst res. destruct (add_task_state_inv _ _ _ _ _ _ _ _ H) as [r [Hn [Hst [_ [_ Hptr]]]]].
    rewrite Hr in Hptr. exists r. split; [exact Hn|]. split; [exact Hst|]. split; [|exact Hptr].
    destruct Hj' as [_ [Hpt _]]. destruct (Hpt _ _ _ Hptr) as [r' [Hn' Hi']]. congruence.
  - unfold bind, raise in H. inversion H; subst. split; [exact Hj|]. split; [apply Rkp_refl|]. intros idx E; discriminate.
Qed.

Definition sel_hyp (t : string) (evt : event) (s0 : option stg) (e0 : option nat) (c : cstate) : Prop :=
  is_engine_command t = true \/
  (forall i r, e0 = Some i -> nth_error (sequence (c_ws c)) i = Some r -> r_next r = []) \/
  (forall i r, e0 = Some i -> nth_error (sequence (c_ws c)) i = Some r -> decided r -> r_next r <> [] ->
     (status_in (ev_status evt) STARTING_STATUSES = true /\ exists s, s0 = Some s /\ s_completed s = false) \/
     is_retry_event evt = false).

Lemma pre_main_J : forall t route evt ts s0 e0 c c' res,
  pre_main ev t route evt ts s0 e0 c = (c', res) -> Justified g c ->
  (forall s, s0 = Some s -> jprev g (sequence (c_ws c)) t (s_prev s) /\ s_route s = route) ->
  e0 = ws_task_idx (c_ws c) t route -> sel_hyp t evt s0 e0 c ->
  PostJ t c' res.
Proof.
  intros t route evt ts s0 e0 c c' res H Hj Hs He0 Hsel. unfold pre_main in H.
  (* first selection *)
  apply bind_inv in H.
  assert (S1 : forall c2 r1, uts_sel1 ev t s0 e0 c = (c2, r1) ->
            Justified g c2 /\ Rkp c c2 /\
            forall idx1, r1 = Val idx1 ->
              fresh_rec t route c2 idx1 \/ (e0 = Some idx1 /\ is_engine_command t = false /\ c2 = c)).
  { intros c2 r1 E. unfold uts_sel1 in E. destruct e0 as [i0|].
    - destruct (is_engine_command t) eqn:Ec.
      + destruct (add_from_staged_J _ _ _ _ _ _ E Hj Hs) as [A [B C]]. split; [exact A|]. split; [exact B|].
        intros idx1 Er; left; apply C; exact Er.
      + inversion E; subst. split; [exact Hj|]. split; [apply Rkp_refl|]. intros idx1 Er; inversion Er; subst.
        right; repeat split.
    - destruct (add_from_staged_J _ _ _ _ _ _ E Hj Hs) as [A [B C]]. split; [exact A|]. split; [exact B|].
      intros idx1 Er; left; apply C; exact Er. }
  destruct H as [[c2 [idx1 [E1 H]]]|[x [E1 ->]]]; [|apply PostJ_exc; apply (S1 _ _ E1)].
  destruct (S1 _ _ E1) as [Hj2 [Hk2 D1]]. specialize (D1 idx1 eq_refl).
  apply bind_inv in H. destruct H as [[c2' [r1 [E H]]]|[x [E ->]]];
    [|apply get_rec_state in E; subst; apply PostJ_exc; exact Hj2].
  apply get_rec_inv in E; destruct E as [-> Hr1].
  (* second selection *)
  apply bind_inv in H.
  assert (Hs2 : forall s, s0 = Some s -> jprev g (sequence (c_ws c2)) t (s_prev s) /\ s_route s = route).
  { intros s E. destruct (Hs s E) as [A B]. split; [eapply jprev_keeps; [exact Hk2|exact A]|exact B]. }
  assert (S2 : forall c3 r2, uts_sel2 ev t evt s0 r1 idx1 c2 = (c3, r2) ->
            Justified g c3 /\
            forall idx, r2 = Val idx ->
              fresh_rec t route c3 idx \/
              (idx = idx1 /\ c3 = c2 /\
               ostatus_in (r_status r1) COMPLETED_STATUSES && status_in (ev_status evt) STARTING_STATUSES
               && match s0 with Some s1 => negb (s_completed s1) | None => false end = false)).
  { intros c3 r2 E. unfold uts_sel2 in E.
    destruct (ostatus_in (r_status r1) COMPLETED_STATUSES && status_in (ev_status evt) STARTING_STATUSES
              && match s0 with Some s1 => negb (s_completed s1) | None => false end) eqn:Ec.
    - destruct (add_from_staged_J _ _ _ _ _ _ E Hj2 Hs2) as [A [_ C]]. split; [exact A|].
      intros idx Er; left; apply C; exact Er.
    - inversion E; subst. split; [exact Hj2|]. intros idx Er; inversion Er; subst. right; repeat split. }
  destruct H as [[c3 [idx [E2 H]]]|[x [E2 ->]]]; [|apply PostJ_exc; apply (S2 _ _ E2)].
  destruct (S2 _ _ E2) as [Hj3 D2]. specialize (D2 idx eq_refl).
  (* the record the machine will work on *)
  assert (Hrec : exists r, nth_error (sequence (c_ws c3)) idx = Some r /\ r_id r = t /\
                   (~ decided r \/ r_next r = [] \/ is_retry_event evt = false)).
  { assert (Hfresh : forall cc k, fresh_rec t route cc k ->
              exists r, nth_error (sequence (c_ws cc)) k = Some r /\ r_id r = t /\
                (~ decided r \/ r_next r = [] \/ is_retry_event evt = false)).
    { intros cc k [r [Hn [Hst [Hi _]]]]. exists r. split; [exact Hn|]. split; [exact Hi|].
      left. unfold decided. rewrite Hst. discriminate. }
    destruct D2 as [D2|[-> [-> Ec]]]; [apply Hfresh; exact D2|].
    destruct D1 as [D1|[He [Hcmd ->]]]; [apply Hfresh; exact D1|].
    exists r1. split; [exact Hr1|]. split.
    { destruct Hj as [_ [Hpt _]]. rewrite He0 in He. destruct (Hpt _ _ _ He) as [r' [Hn' Hi']]. congruence. }
    destruct Hsel as [Hsel|[Hsel|Hsel]]; [congruence|right; left; eapply Hsel; eassumption|].
    destruct (ostatus_in (r_status r1) COMPLETED_STATUSES) eqn:Ed; [|left; unfold decided; rewrite Ed; discriminate].
    destruct (r_next r1) as [|x xs] eqn:En; [right; left; reflexivity|].
    destruct (Hsel idx1 r1 He Hr1 Ed) as [[Hst [s1 [Es Hsc]]]|Hok]; [rewrite En; discriminate| |right; right; exact Hok].
    exfalso. rewrite Hst, Es, Hsc in Ec. discriminate. }
  destruct Hrec as [r [Hn [Hid Hm]]].
  apply bind_inv in H. destruct H as [[c4 [u4 [E4 H]]]|[x [E4 ->]]]; [|apply PostJ_exc; eapply pj_unstage; eassumption].
  pose proof (pj_unstage _ _ _ _ _ _ _ E4 Hj3) as Hj4. destruct (pk_unstage _ _ _ _ _ _ _ E4) as [Q4 _].
  apply bind_inv in H. destruct H as [[c5 [u5 [E5 H]]]|[x [E5 ->]]]; [|apply PostJ_exc; eapply pj_item; eassumption].
  pose proof (pj_item _ _ _ _ _ _ _ E5 Hj4) as Hj5. destruct (pk_item _ _ _ _ _ _ _ E5) as [Q5 _].
  apply bind_inv in H. destruct H as [[c6 [u6 [E6 H]]]|[x [E6 ->]]]; [|apply PostJ_exc; eapply pj_logfail; eassumption].
  pose proof (pj_logfail _ _ _ _ _ E6 Hj5) as Hj6. destruct (pk_logfail _ _ _ _ _ E6) as [Q6 _].
  eapply pre_machine_J; [exact H|exact Hj6| |exact Hid|exact Hm].
  rewrite Q6, Q5, Q4. exact Hn.
Qed.

(* ------------------------------------------------------------------ update_task_state *)

(* when a call of update_task_state may be made: the task is an engine command (it gets a record of
   its own); or the record its (task, route) points to has decided nothing; or -- the protocol
   clause -- if that record is completed and has decided transitions, the event either starts the
   task anew (it is staged again, not flagged completed) or is not the internal retry event and
   finds no retry left *)
Definition call_ok_w (c : cstate) (t : string) (route : nat) (evt : event) : Prop :=
  is_engine_command t = true \/
  (forall c1 u i r, ensure_ws ev c = (c1, u) -> ws_task_idx (c_ws c1) t route = Some i ->
     nth_error (sequence (c_ws c1)) i = Some r -> r_next r = []) \/
  (c_init c = true /\
   forall i r, ws_task_idx (c_ws c) t route = Some i -> nth_error (sequence (c_ws c)) i = Some r ->
     decided r -> r_next r <> [] ->
     (status_in (ev_status evt) STARTING_STATUSES = true /\
      exists s, get_staged_task (c_ws c) t route = Some s /\ s_completed s = false) \/
     is_retry_event evt = false).

Lemma prefix_J : forall t route evt c c' res,
  uts_prefix ev t route evt c = (c', res) -> Justified g c -> call_ok_w c t route evt -> PostJ t c' res.
Proof.
  intros t route evt c c' res H Hj Hok. unfold uts_prefix in H.
  apply (bind_I (Justified g) _ _ _ _ (PostJ t) _ _ _ H Hj); [apply pj_ensure_ws|intros; apply PostJ_exc; assumption|].
  intros c1 u E1 Hj1 H1. clear H.
  unfold bind at 1, get in H1. cbv beta iota in H1.
  destruct (negb (g_has_task (c_graph c1) t)); [inversion H1; subst; apply PostJ_exc; exact Hj1|].
  cbv zeta in H1. apply bind_inv in H1.
  assert (Ets : forall c2 r2, (match spec_get_task (c_spec c1) t with Some ts => ret ts | None => raise (exn_key t) end) c1 = (c2, r2) -> c2 = c1)
    by (intros c2 r2 E; destruct (spec_get_task (c_spec c1) t); inversion E; reflexivity).
  destruct H1 as [[c2 [ts [E2 H]]]|[x [E2 ->]]]; apply Ets in E2; [subst c2|subst c'; apply PostJ_exc; exact Hj1].
  assert (Hsel : sel_hyp t evt (get_staged_task (c_ws c1) t route) (ws_task_idx (c_ws c1) t route) c1).
  { destruct Hok as [Hok|[Hok|[Hi Hok]]].
    - left; exact Hok.
    - right; left. intros i r He Hn. eapply Hok; eassumption.
    - right; right. rewrite (ensure_ws_inited ev c Hi) in E1. inversion E1; subst c1. exact Hok. }
  assert (Hs : forall s, get_staged_task (c_ws c1) t route = Some s ->
                 jprev g (sequence (c_ws c1)) t (s_prev s) /\ s_route s = route).
  { intros s Es. pose proof (get_staged_matches _ _ _ _ Es) as [Hid Hrt]. split; [|exact Hrt].
    unfold get_staged_task in Es. apply find_some in Es. destruct Es as [Hin _].
    destruct Hj1 as [_ [_ [_ [Hst _]]]]. rewrite <- Hid. apply Hst; exact Hin. }
  destruct (get_staged_task (c_ws c1) t route) as [s|] eqn:Es, (ws_task_idx (c_ws c1) t route) as [j|] eqn:Ee;
    try (eapply pre_main_J; [exact H|exact Hj1|exact Hs|symmetry; exact Ee|exact Hsel]).
  inversion H; subst. apply PostJ_exc; exact Hj1.
Qed.

Lemma tail_J : out_tids_unique -> forall rec,
  (forall t route evt c c' res, rec t route evt c = (c', res) -> Justified g c -> call_ok_w c t route evt -> Justified g c') ->
  forall t route p c c' res, tail_of ev rec t route p c = (c', res) -> Justified g c -> tail_pre t c p ->
  (forall cctx, po_compl p = Some (cctx, true) -> ws_task_idx (c_ws c) t route = Some (po_idx p)) ->
  Justified g c'.
Proof.
  intros Hnd rec IH t route p c c' res H Hj Hpre Hptr. unfold tail_of, uts_tail in H.
  assert (Hcall : forall q, cmd_pair q -> preserves RI (uts_call rec q)).
  { intros [n rt] Hq. unfold uts_call. destruct (engine_event n) as [e|]; [|apply (preserves_raise _ RI_refl)].
    intros ca cb rr Hr Hja. eapply IH; [exact Hr|exact Hja|]. left; exact Hq. }
  assert (Hrest : forall q, Forall cmd_pair q ->
            preserves RI (r <- get_rec (po_idx p) ;;
                          st <- (match r_status r with Some s => ret s | None => raise (exn_key "status") end) ;;
                          unreachable <- wf_task_event_M t route st ;;
                          log_unreachable unreachable ;;;
                          forM_ q (uts_call rec) ;;;
                          w <- getws ;;
                          if status_in (wstatus w) COMPLETED_STATUSES
                          then upd_rec (po_idx p) (fun r => r_set_term r true)
                          else ret tt)).
  { intros q Hq.
    apply (preserves_bind _ RI_trans); [apply pj_get_rec|intro r].
    apply (preserves_bind _ RI_trans);
      [destruct (r_status r); [apply (preserves_ret _ RI_refl)|apply (preserves_raise _ RI_refl)]|intro st].
    apply (preserves_bind _ RI_trans); [apply pj_wf_task_event|intro unr].
    apply (preserves_bind _ RI_trans); [apply pj_log_unreachable|intros _].
    apply (preserves_bind _ RI_trans).
    - apply (preserves_forM_In _ RI_refl RI_trans). intros a Ha. apply Hcall.
      rewrite Forall_forall in Hq. apply Hq; exact Ha.
    - intros _. apply (preserves_bind _ RI_trans); [apply (preserves_getws _ RI_refl)|intro w].
      destruct (status_in (wstatus w) COMPLETED_STATUSES); [apply pj_upd_term|apply (preserves_ret _ RI_refl)]. }
  assert (Hnr : forall compl, po_compl p = compl -> (forall x, compl <> Some (x, true)) ->
            (queue <- uts_queue ev t route (po_idx p) (po_ts p) (po_old p) (po_new p) compl ;;
             r <- get_rec (po_idx p) ;;
             st <- (match r_status r with Some s => ret s | None => raise (exn_key "status") end) ;;
             unreachable <- wf_task_event_M t route st ;;
             log_unreachable unreachable ;;;
             forM_ queue (uts_call rec) ;;;
             w <- getws ;;
             if status_in (wstatus w) COMPLETED_STATUSES
             then upd_rec (po_idx p) (fun r => r_set_term r true)
             else ret tt) c = (c', res) -> Justified g c').
  { intros compl Ec Hnt Hb. apply bind_inv in Hb.
    assert (Hqj : forall c1 rq, uts_queue ev t route (po_idx p) (po_ts p) (po_old p) (po_new p) compl c = (c1, rq) ->
                    Justified g c1).
    { intros c1 rq E. eapply queue_J; [exact Hnd|exact E|exact Hj|]. intros Hne Hcn.
      destruct Hpre as [Hl|[Hsame _]]; [rewrite Ec; exact Hcn|exact Hl|congruence]. }
    destruct Hb as [[c1 [q [E Hb]]]|[x [E _]]]; [|eapply Hqj; exact E].
    eapply (Hrest q); [eapply queue_cmds; exact E|exact Hb|eapply Hqj; exact E]. }
  destruct (po_compl p) as [[cctx b]|] eqn:Ec.
  - destruct b.
    + eapply IH; [exact H|exact Hj|]. right; left.
      destruct Hpre as [[r [Hn [_ [_ Hx]]]]|[_ Hb]]; [congruence| |specialize (Hb cctx true Ec); discriminate].
      intros c1 u i r1 E1 Hp1 Hn1.
      assert (Hi : i = po_idx p).
      { unfold ws_task_idx in Hp1. rewrite (ptk_ensure_ws ev _ _ _ E1) in Hp1.
        specialize (Hptr cctx eq_refl). unfold ws_task_idx in Hptr. congruence. }
      subst i. destruct (pnx_ensure_ws ev _ _ _ E1 _ _ Hn) as [r' [Hn' [Hx' _]]]. congruence.
    + eapply (Hnr (Some (cctx, false))); [reflexivity|intros x E; inversion E|exact H].
  - eapply (Hnr None); [reflexivity|intros x E; inversion E|exact H].
Qed.

Lemma uts_J_w : out_tids_unique -> forall fuel t route evt c c' res,
  update_task_state_fuel ev fuel t route evt c = (c', res) -> Justified g c -> call_ok_w c t route evt ->
  Justified g c'.
Proof.
  intro Hnd. induction fuel as [|fuel IH]; intros t route evt c c' res H Hj Hok.
  - simpl in H. inversion H; subst; exact Hj.
  - rewrite uts_unfold, body_eq in H. apply bind_inv in H.
    destruct H as [[c1 [p [E H]]]|[e [E ->]]].
    + destruct (prefix_J _ _ _ _ _ _ E Hj Hok) as [Hj1 Hp].
      eapply tail_J; [exact Hnd|exact IH|exact H|exact Hj1|apply Hp; reflexivity|].
      intros cctx Hc. eapply prefix_pointer; eassumption.
    + destruct (prefix_J _ _ _ _ _ _ E Hj Hok) as [Hj1 _]. exact Hj1.
Qed.

(* ------------------------------------------------------------------ rerun: the task is staged again (and,
   unless its items are kept, gets a new record) with the predecessors of the record being rerun *)
Lemma request_task_rerun_J : forall t route b, preserves RI (request_task_rerun ev t route b).
Proof.
  intros t route b c c' res H Hj. unfold request_task_rerun in H.
  unfold bind at 1, get in H. cbv beta iota in H.
  destruct (ws_task_idx (c_ws c) t route) as [idx|] eqn:Ep;
    [|unfold bind, raise in H; inversion H; subst; exact Hj].
  unfold bind at 1, ret in H. cbv beta iota in H.
  apply bind_inv in H. destruct H as [[c0 [r [E H]]]|[x [E ->]]];
    [|apply get_rec_state in E; subst; exact Hj].
  apply get_rec_inv in E; destruct E as [-> Hn].
  assert (Hid : r_id r = t).
  { destruct Hj as [_ [Hpt _]]. destruct (Hpt _ _ _ Ep) as [r' [Hn' Hi']]. congruence. }
  assert (Hp : jprev g (sequence (c_ws c)) t (r_prev r)).
  { destruct Hj as [_ [_ [_ [_ Hr]]]]. rewrite <- Hid. eapply Hr; exact Hn. }
  apply bind_inv in H.
  assert (Ets : forall c2 r2, (match spec_get_task (c_spec c) t with Some ts => ret ts | None => raise (exn_key t) end) c = (c2, r2) -> c2 = c)
    by (intros c2 r2 E; destruct (spec_get_task (c_spec c) t); inversion E; reflexivity).
  destruct H as [[c2 [ts [E2 H]]]|[x [E2 ->]]]; apply Ets in E2; [subst c2|subst c'; exact Hj].
  (* three steps that touch no justification *)
  apply bind_inv in H. destruct H as [[c3 [u3 [E3 H]]]|[x [E3 ->]]].
  2: { unfold upd_rec, modws in E3. inversion E3. }
  assert (Hj3 : Justified g c3 /\ Rkp c c3).
  { unfold upd_rec, modws in E3. inversion E3; subst c3. split.
    - apply Justified_update_keep; [exact Hj|intro; repeat split; reflexivity].
    - apply Rkp_update_keep. intro; repeat split; reflexivity. }
  destruct Hj3 as [Hj3 Hk3].
  apply bind_inv in H. destruct H as [[c4 [u4 [E4 H]]]|[x [E4 ->]]]; [|unfold modws in E4; inversion E4].
  assert (Hj4 : Justified g c4 /\ Rkp c3 c4).
  { unfold modws in E4. inversion E4; subst c4. split.
    - apply Justified_staged_update; [exact Hj3|intro; split; reflexivity].
    - apply Rkp_same_seq. reflexivity. }
  destruct Hj4 as [Hj4 Hk4].
  apply bind_inv in H. destruct H as [[c5 [u5 [E5 H]]]|[x [E5 ->]]]; [|unfold modify in E5; inversion E5].
  assert (Hj5 : Justified g c5 /\ Rkp c4 c5).
  { unfold modify in E5. inversion E5; subst c5. split.
    - eapply Justified_eq; [exact Hj4|reflexivity..].
    - apply Rkp_same_seq. reflexivity. }
  destruct Hj5 as [Hj5 Hk5].
  assert (Hp5 : jprev g (sequence (c_ws c5)) t (r_prev r)).
  { eapply jprev_keeps; [|exact Hp]. eapply seq_keeps_trans; [exact Hk3|]. eapply seq_keeps_trans; [exact Hk4|exact Hk5]. }
  unfold bind at 1 in H. unfold getws at 1 in H. cbv beta iota in H.
  apply bind_inv in H.
  assert (Hmid : forall c6 r6,
            (if task_has_items ts && match get_staged_task (c_ws c5) t route with Some _ => true | None => false end
             then modws (fun w => ws_set_staged w
                    (staged_update
                       (fun s => s_set_items s
                                   (match s_items s with
                                    | Some l => Some (map (fun st => if b || status_in st ABENDED_STATUSES then S_UNSET else st) l)
                                    | None => None end))
                       t route (staged w)))
             else add_task_state ev t route (r_in r) (r_prev r) ;;;
                  modws (fun w => ws_add_staged w (mk_staged t route (r_in r) (r_prev r) true None))) c5 = (c6, r6) ->
            Justified g c6).
  { intros c6 r6 E6.
    destruct (task_has_items ts && match get_staged_task (c_ws c5) t route with Some _ => true | None => false end).
    - unfold modws in E6. inversion E6; subst. apply Justified_staged_update; [exact Hj5|intro; split; reflexivity].
    - apply bind_inv in E6. destruct E6 as [[c7 [i7 [E7 E6]]]|[x [E7 _]]].
      + destruct (add_task_state_J _ _ _ _ _ _ _ E7 Hj5 Hp5) as [Hj7 Hk7].
        unfold modws in E6. inversion E6; subst. apply Justified_add_staged; [exact Hj7|].
        cbn [mk_staged s_id s_prev]. eapply jprev_keeps; [exact Hk7|exact Hp5].
      + destruct (add_task_state_J _ _ _ _ _ _ _ E7 Hj5 Hp5) as [Hj7 _]. exact Hj7. }
  destruct H as [[c6 [u6 [E6 H]]]|[x [E6 _]]]; [|eapply Hmid; exact E6].
  pose proof (Hmid _ _ E6) as Hj6.
  match type of H with ?m c6 = _ => assert (P : preserves RI m) by (unfold upd_rec; walkj) end.
  eapply P; eauto.
Qed.
Hint Resolve request_task_rerun_J : presj.

Lemma pj_request_workflow_rerun : forall reqs, preserves RI (request_workflow_rerun ev reqs).
Proof. intros; unfold request_workflow_rerun, upd_rec; walkj. Qed.

Lemma pj_persist : preserves RI (persist ev).
Proof.
  intros c c' res H Hj. unfold persist in H. apply bind_inv in H.
  destruct H as [[c1 [u [E H]]]|[x [E _]]]; [|eapply pj_ensure_ws; eauto].
  rewrite (dec_cstate_enc c1 (ensure_ws_init_after ev _ _ _ E)) in H. inversion H; subst.
  eapply pj_ensure_ws; eauto.
Qed.

(* ---- every API operation ---- *)
Definition op_in_protocol_w (c : cstate) (op : api_op) : Prop :=
  match op with OpEvent t route evt => call_ok_w c t route evt | _ => True end.

Theorem api_justified_w : out_tids_unique -> forall op c c' res, op_in_protocol_w c op ->
  api_exec ev op c = (c', res) -> Justified g c -> Justified g c'.
Proof.
  intros Hnd op c c' res Hs H Hj.
  assert (G : forall (m : M unit), preserves RI m -> (bind m (fun _ => ret RUnit)) c = (c', res) -> Justified g c').
  { intros m Hm Hb. eapply (preserves_bind _ RI_trans); [exact Hm|intro; apply (preserves_ret _ RI_refl)|exact Hb|exact Hj]. }
  destruct op; cbn [api_exec] in H; cbn [op_in_protocol_w] in Hs.
  - eapply G; [apply pj_ensure_ws|exact H].
  - eapply G; [apply pj_request_workflow_status|exact H].
  - eapply (preserves_bind _ RI_trans); [apply pj_get_next_tasks|intro; apply (preserves_ret _ RI_refl)|exact H|exact Hj].
  - apply bind_inv in H. destruct H as [[c1 [u [E H]]]|[e0 [E _]]].
    + inversion H; subst c1. eapply uts_J_w; [exact Hnd|exact E|exact Hj|exact Hs].
    + eapply uts_J_w; [exact Hnd|exact E|exact Hj|exact Hs].
  - eapply G; [apply pj_render_workflow_output|exact H].
  - eapply G; [apply pj_request_workflow_rerun|exact H].
  - eapply G; [apply pj_persist|exact H].
Qed.

Fixpoint hist_in_protocol_w (ops : list api_op) (c : cstate) : Prop :=
  match ops with
  | [] => True
  | op :: ops' => op_in_protocol_w c op /\ hist_in_protocol_w ops' (fst (api_exec ev op c))
  end.

Theorem history_justified_w : out_tids_unique -> forall ops c, hist_in_protocol_w ops c ->
  Justified g c -> Justified g (run_ops ev ops c).
Proof.
  intro Hnd. induction ops as [|op ops IH]; intros c Hs Hj; cbn [run_ops fold_left]; [exact Hj|].
  destruct Hs as [Ho Hs]. apply IH; [exact Hs|].
  destruct (api_exec ev op c) as [c1 r] eqn:E. cbn [fst]. eapply api_justified_w; eassumption.
Qed.

(* the protocol clause as it was needed before the engine fix D33 (a completed record with a retry left was reopened
   by a duplicate report): it asks that the record has no retry left; kept, and the theorems for it derived *)
Definition call_ok (c : cstate) (t : string) (route : nat) (evt : event) : Prop :=
  is_engine_command t = true \/
  (forall c1 u i r, ensure_ws ev c = (c1, u) -> ws_task_idx (c_ws c1) t route = Some i ->
     nth_error (sequence (c_ws c1)) i = Some r -> r_next r = []) \/
  (c_init c = true /\
   forall i r, ws_task_idx (c_ws c) t route = Some i -> nth_error (sequence (c_ws c)) i = Some r ->
     decided r -> r_next r <> [] ->
     (status_in (ev_status evt) STARTING_STATUSES = true /\
      exists s, get_staged_task (c_ws c) t route = Some s /\ s_completed s = false) \/
     (is_retry_event evt = false /\ ~ retry_open r)).
Lemma call_ok_weaken : forall c t route evt, call_ok c t route evt -> call_ok_w c t route evt.
Proof.
  intros c t route evt [H|[H|[Hi H]]]; [left; exact H|right; left; exact H|right; right]. split; [exact Hi|].
  intros i r Hp Hn Hd Hx. destruct (H i r Hp Hn Hd Hx) as [A|[A _]]; [left; exact A|right; exact A].
Qed.
Definition op_in_protocol (c : cstate) (op : api_op) : Prop :=
  match op with OpEvent t route evt => call_ok c t route evt | _ => True end.
Lemma op_in_protocol_weaken : forall c op, op_in_protocol c op -> op_in_protocol_w c op.
Proof. intros c op H; destruct op; try exact H. apply call_ok_weaken; exact H. Qed.
Theorem api_justified : out_tids_unique -> forall op c c' res, op_in_protocol c op ->
  api_exec ev op c = (c', res) -> Justified g c -> Justified g c'.
Proof. intros Hnd op c c' res Hs. apply (api_justified_w Hnd). apply op_in_protocol_weaken; exact Hs. Qed.
Fixpoint hist_in_protocol (ops : list api_op) (c : cstate) : Prop :=
  match ops with
  | [] => True
  | op :: ops' => op_in_protocol c op /\ hist_in_protocol ops' (fst (api_exec ev op c))
  end.
Lemma hist_in_protocol_weaken : forall ops c, hist_in_protocol ops c -> hist_in_protocol_w ops c.
Proof.
  induction ops as [|op ops IH]; intros c H; [exact I|]. destruct H as [H1 H2].
  split; [apply op_in_protocol_weaken; exact H1|apply IH; exact H2].
Qed.
Theorem history_justified : out_tids_unique -> forall ops c, hist_in_protocol ops c ->
  Justified g c -> Justified g (run_ops ev ops c).
Proof. intros Hnd ops c H. apply (history_justified_w Hnd). apply hist_in_protocol_weaken; exact H. Qed.

(* D33: a history in which nobody injects the internal retry event is in the protocol, from any state that is
   initialised or has no record yet *)
Definition op_no_retry (op : api_op) : bool :=
  match op with OpEvent _ _ e => negb (is_retry_event e) | _ => true end.
Lemma call_ok_w_not_retry : forall c t route evt, c_init c = true -> is_retry_event evt = false -> call_ok_w c t route evt.
Proof. intros c t route evt Hi He. right; right. split; [exact Hi|]. intros; right; exact He. Qed.
Lemma call_ok_w_no_record : forall c t route evt, tasks (c_ws c) = [] -> call_ok_w c t route evt.
Proof.
  intros c t route evt Ht. right; left. intros c1 u i r E Hp _. exfalso.
  unfold ws_task_idx in Hp. rewrite (ptk_ensure_ws ev _ _ _ E), Ht in Hp. discriminate.
Qed.
Lemma hist_no_retry_in_protocol : forall ops c, (c_init c = true \/ tasks (c_ws c) = []) ->
  forallb op_no_retry ops = true -> hist_in_protocol_w ops c.
Proof.
  induction ops as [|op ops IH]; intros c Hc H; [exact I|]. simpl in H. apply andb_prop in H. destruct H as [H1 H2].
  split; [|apply IH; [left; apply api_exec_inits|exact H2]].
  destruct op; try exact I. cbn [op_in_protocol_w]. simpl in H1. apply negb_true_iff in H1.
  destruct Hc as [Hc|Hc]; [apply call_ok_w_not_retry; assumption|apply call_ok_w_no_record; exact Hc].
Qed.

(* ---- the corollary about offers: whatever get_next_tasks offers is a staged entry, hence justified ---- *)
Theorem offers_are_justified : forall c c' l, c_init c = true -> Justified g c ->
  get_next_tasks ev c = (c', Val l) ->
  forall o, In o l -> exists s, In s (staged (c_ws c)) /\ o_id o = s_id s /\ o_route o = s_route s /\
                                s_ready s = true /\ s_completed s = false /\
                                jprev g (sequence (c_ws c)) (o_id o) (s_prev s).
Proof.
  intros c c' l Hi Hj H o Ho. destruct (offers_are_staged ev c c' l Hi H o Ho) as [s [Hin [Hr [Hc [E1 E2]]]]].
  exists s. split; [exact Hin|]. split; [exact E1|]. split; [exact E2|]. split; [exact Hr|]. split; [exact Hc|].
  rewrite E1. destruct Hj as [_ [_ [_ [Hs _]]]]. apply Hs; exact Hin.
Qed.

(* ---- "recorded satisfied" means "the criteria evaluated true" ---- *)

(* the decision written for a transition is the conjunction of the truthiness of its criteria,
   evaluated (without error) on the context handed to process_transition, in the state of the call *)
Theorem decision_recorded_is_criteria : forall t route idx ctx e c c1 b,
  pt_step1 t route idx ctx e c = (c1, Val (Some b)) ->
  exists vs, mapM (fun cr => evaluate ev cr ctx) (e_criteria e) c = (c, Val vs) /\ b = forallb truthy vs /\
    forall r, nth_error (sequence (c_ws c)) idx = Some r ->
      nth_error (sequence (c_ws c1)) idx = Some (r_set_next r (aset trid_eqb (e_dst e, e_key e) b (r_next r))).
Proof.
  intros t route idx ctx e c c1 b H. unfold pt_step1, try_catch in H. unfold bind at 1 in H.
  pose proof (mapM_evaluate_pure ctx (e_criteria e) c) as Hp.
  destruct (mapM (fun cr => evaluate ev cr ctx) (e_criteria e) c) as [cm [vs|xm]] eqn:Em; simpl in Hp; subst cm.
  - cbv zeta in H. unfold upd_rec, bind, modws, ret in H. inversion H; subst. exists vs. split; [reflexivity|].
    split; [reflexivity|]. intros r Hn.
    exact (nth_update_rec_same (c_ws c) idx (fun r0 => r_set_next r0 (aset trid_eqb (e_dst e, e_key e) (forallb truthy vs) (r_next r0))) r Hn).
  - exfalso. apply bind_val_inv' in H. destruct H as [ca [ua [_ H]]].
    apply bind_val_inv' in H. destruct H as [cb [ub [_ H]]]. inversion H.
Qed.

(* nothing is staged for a transition unless that decision is true *)
Theorem no_reference_unless_true : forall t route idx ts ctx e ok, ok <> Some true ->
  pt_cont t route idx ts ctx e ok = ret (None, None).
Proof. intros t route idx ts ctx e [[|]|] H; try reflexivity. congruence. Qed.

(* the context the criteria are evaluated on: the inbound context of the completed record, with
   __current_task = {id, route, result of the reported event} and __state = the serialized workflow
   state of that moment (which holds the record's actual status) *)
Theorem completion_ctx_shape : forall t route evt ts idx new old c c' cx b,
  uts_completion ev t route evt ts idx new old c = (c', Val (Some (cx, b))) ->
  exists c1 r in_ctx result,
    nth_error (sequence (c_ws c1)) idx = Some r /\
    get_task_context (r_in r) c1 = (c1, Val in_ctx) /\
    result = (if negb (task_has_items ts) then ev_result evt
              else match evt with
                   | EvItem _ _ _ acc => if truthy acc then acc else JList []
                   | _ => if truthy (ev_result evt) then ev_result evt else JList []
                   end) /\
    cx = merge_dicts (dset "__current_task" (current_task_json (r_id r) (r_route r) (Some result)) in_ctx)
                     (state_ctx (c_ws c1)).
Proof.
  intros t route evt ts idx new old c c' cx b H. unfold uts_completion in H.
  destruct (status_in new COMPLETED_STATUSES); [|inversion H].
  apply bind_val_inv' in H. destruct H as [c1 [u [_ H]]]. cbv zeta in H.
  apply bind_val_inv' in H. destruct H as [c2 [r [E2 H]]]. apply get_rec_inv in E2; destruct E2 as [-> Hr].
  apply bind_val_inv' in H. destruct H as [c3 [in_ctx [E3 H]]].
  assert (c3 = c1) as ->.
  { unfold get_task_context, bind, getws in E3. apply lift_res_inv in E3; destruct E3; assumption. }
  apply bind_val_inv' in H. destruct H as [c4 [w [E4 H]]]. inversion E4; subst c4 w; clear E4.
  apply bind_val_inv' in H. destruct H as [c5 [b5 [_ H]]]. inversion H; subst.
  exists c1, r, in_ctx. eexists. split; [exact Hr|]. split; [exact E3|]. split; reflexivity.
Qed.
End WithEval.
End Pres.

(* ------------------------------------------------------------------ statements from a fresh conductor *)

Definition fresh_state (sp : wf_spec) (g : graph) (inputs parent : dict) : cstate :=
  {| c_spec := sp; c_graph := g; c_inputs := inputs; c_parent := parent; c_init := false;
     c_ws := empty_ws; c_errors := []; c_log := []; c_output := None |}.

Lemma fresh_justified : forall sp g inputs parent, Justified g (fresh_state sp g inputs parent).
Proof.
  intros. split; [reflexivity|]. split; [intros t route j H; discriminate|].
  split; [intros j r H; destruct j; discriminate|]. split; [intros s []|intros j r H; destruct j; discriminate].
Qed.

Theorem reachable_justified : forall ev sp g inputs parent ops, out_tids_unique g ->
  hist_in_protocol ev ops (fresh_state sp g inputs parent) ->
  Justified g (run_ops ev ops (fresh_state sp g inputs parent)).
Proof. intros ev sp g inputs parent ops Hnd Hs. apply history_justified; [exact Hnd|exact Hs|apply fresh_justified]. Qed.

(* D33: no protocol hypothesis beyond "nobody injects the engine's internal retry event" *)
Theorem reachable_justified_always : forall ev sp g inputs parent ops, out_tids_unique g ->
  forallb op_no_retry ops = true -> Justified g (run_ops ev ops (fresh_state sp g inputs parent)).
Proof.
  intros ev sp g inputs parent ops Hnd H. apply history_justified_w; [exact Hnd| |apply fresh_justified].
  apply hist_no_retry_in_protocol; [right; reflexivity|exact H].
Qed.

Theorem reachable_offers_justified : forall ev sp g inputs parent ops c' l, out_tids_unique g ->
  hist_in_protocol ev ops (fresh_state sp g inputs parent) ->
  c_init (run_ops ev ops (fresh_state sp g inputs parent)) = true ->
  get_next_tasks ev (run_ops ev ops (fresh_state sp g inputs parent)) = (c', Val l) ->
  forall o, In o l ->
    exists s, In s (staged (c_ws (run_ops ev ops (fresh_state sp g inputs parent)))) /\
              o_id o = s_id s /\ o_route o = s_route s /\ s_ready s = true /\ s_completed s = false /\
              jprev g (sequence (c_ws (run_ops ev ops (fresh_state sp g inputs parent)))) (o_id o) (s_prev s).
Proof.
  intros ev sp g inputs parent ops c' l Hnd Hs Hi H. eapply offers_are_justified; [exact Hi| |exact H].
  apply reachable_justified; assumption.
Qed.

(* ------------------------------------------------------------------ decisions are written nowhere else *)

Section NextUntouched.
Variable ev : string -> dict -> evalres.

Ltac leafx :=
  first
    [ apply (preserves_modws Rnx); intro; apply Rnx_same_seq; simpl; first [reflexivity|apply seq_remove_staged]
    | apply (preserves_modws Rnx); intro; apply Rnx_update; intro; split; reflexivity
    | apply (preserves_modws Rnx); intro; apply Rnx_append
    | apply (preserves_modify Rnx); intro; apply Rnx_same_seq; reflexivity
    | apply (preserves_modify Rnx); intro; apply Rnx_same_seq;
      match goal with |- context [if ?b then _ else _] => destruct b end; reflexivity
    | assumption
    | match goal with IH : forall _ _ _ _, preserves _ _ |- _ => apply IH end
    | apply pnx_request_status_core | apply pnx_log_error | apply pnx_log_errors | apply pnx_log_entry_error
    | apply pnx_render_vars | apply pnx_render_input | apply pnx_ensure_ws | apply pnx_set_rec_status
    | eauto 3 with presnx2 ].
Ltac walkx := pw Rnx_refl Rnx_trans leafx.

Lemma pnx_get_task_context : forall idxs, preserves Rnx (get_task_context idxs).
Proof. intros; unfold get_task_context; walkx. Qed.
Hint Resolve pnx_get_task_context : presnx2.
Lemma pnx_render_task : forall ts ctx, preserves Rnx (render_task ev ts ctx).
Proof. intros; unfold render_task; walkx. Qed.
Hint Resolve pnx_render_task : presnx2.
Lemma pnx_next_task_for : forall s, preserves Rnx (next_task_for ev s).
Proof. intros; unfold next_task_for; walkx. Qed.
Hint Resolve pnx_next_task_for : presnx2.
Lemma pnx_setup_retry : forall t idxs, preserves Rnx (setup_retry ev t idxs).
Proof. intros; unfold setup_retry; walkx. Qed.
Hint Resolve pnx_setup_retry : presnx2.
Lemma pnx_add_task_state : forall t r ins p, preserves Rnx (add_task_state ev t r ins p).
Proof. intros; unfold add_task_state; walkx. Qed.
Hint Resolve pnx_add_task_state : presnx2.
Lemma pnx_get_rec : forall j, preserves Rnx (get_rec j).
Proof. intros; unfold get_rec; walkx. Qed.
Hint Resolve pnx_get_rec : presnx2.
Lemma pnx_merge_term_contexts : forall l acc, preserves Rnx (merge_term_contexts l acc).
Proof. induction l as [|[j r] l IH]; intros; simpl; walkx. Qed.
Hint Resolve pnx_merge_term_contexts : presnx2.
Lemma pnx_request_task_rerun : forall t r b, preserves Rnx (request_task_rerun ev t r b).
Proof. intros; unfold request_task_rerun, upd_rec; walkx. Qed.
Hint Resolve pnx_request_task_rerun : presnx2.

(* every API operation other than update_task_state leaves the recorded decisions (r_next) and
   the published-context references (r_out) of every record as they are *)
Theorem next_untouched_outside_update_task_state : forall op,
  match op with OpEvent _ _ _ => False | _ => True end -> preserves Rnx (api_exec ev op).
Proof.
  intros op Hop. destruct op; try contradiction; cbn [api_exec];
    (apply (preserves_bind _ Rnx_trans); [|intro; apply (preserves_ret _ Rnx_refl)]).
  - apply pnx_ensure_ws.
  - unfold request_workflow_status; walkx.
  - unfold get_next_tasks; walkx.
  - unfold render_workflow_output, get_workflow_terminal_context; walkx.
  - unfold request_workflow_rerun, upd_rec; walkx.
  - intros c c' res H. unfold persist in H. apply bind_inv in H.
    destruct H as [[c1 [u [E H]]]|[x [E _]]]; [|eapply pnx_ensure_ws; eauto].
    rewrite (dec_cstate_enc c1 (ensure_ws_init_after ev _ _ _ E)) in H. inversion H; subst.
    eapply pnx_ensure_ws; eauto.
Qed.
End NextUntouched.

(* ------------------------------------------------------------------ witnesses *)

Lemma w_graph_tids_unique : out_tids_unique (w_graph w_retry).
Proof.
  intro t. unfold g_next_transitions, w_graph, g_edges. cbn [filter e_src].
  destruct (String.eqb "t1" t); vm_compute; [apply NoDup_cons; [intros []|apply NoDup_nil]|apply NoDup_nil].
Qed.

(* a history inside the protocol from the fresh conductor: the invariant holds, and what is then
   offered (t2) is justified by t1's record, whose transition to t2 is recorded true *)
Example w_protocol_history_justified :
  Justified (w_graph w_retry) (run_ops ev_w w_ops1 (fresh_state w_spec (w_graph w_retry) [] [])).
Proof.
  apply reachable_justified; [apply w_graph_tids_unique|].
  cbn [hist_in_protocol w_ops1 op_in_protocol]. split; [exact I|]. split; [exact I|].
  split.
  { right; left. intros c1 u i r E Hp Hn. vm_compute in E. inversion E; subst c1.
    vm_compute in Hp; inversion Hp; subst i; vm_compute in Hn; inversion Hn; subst r; reflexivity. }
  split; [|exact I].
  right; left. intros c1 u i r E Hp Hn. vm_compute in E. inversion E; subst c1.
  vm_compute in Hp; inversion Hp; subst i; vm_compute in Hn; inversion Hn; subst r; reflexivity.
Qed.

(* The former refutation of dropping the protocol clause is gone with the engine fix D33 (the retry of a completed
   task is evaluated only when the report changed its status).  Before the fix the duplicate completion report of
   FrozenProofs reopened the decided record with retries left and its decision was rewritten, which left t2 staged
   with a reference to a transition recorded false.  Now the same history -- outside the protocol clause (call_ok) --
   leaves the workflow state as it was, and the invariant holds of it *)
Theorem justified_kept_by_duplicate_report :
  Justified (w_graph w_retry)
      (run_ops ev_w (w_ops1 ++ w_late :: w_ops3) (fresh_state w_spec (w_graph w_retry) [] [])).
Proof.
  pose proof w_protocol_history_justified as H.
  assert (Ew : c_ws (run_ops ev_w (w_ops1 ++ w_late :: w_ops3) (fresh_state w_spec (w_graph w_retry) [] []))
               = c_ws (run_ops ev_w w_ops1 (fresh_state w_spec (w_graph w_retry) [] []))) by (vm_compute; reflexivity).
  assert (Eg : c_graph (run_ops ev_w (w_ops1 ++ w_late :: w_ops3) (fresh_state w_spec (w_graph w_retry) [] []))
               = c_graph (run_ops ev_w w_ops1 (fresh_state w_spec (w_graph w_retry) [] []))) by (vm_compute; reflexivity).
  unfold Justified in *. rewrite Ew, Eg. exact H.
Qed.

Example w_protocol_history_offers_t2 :
  match get_next_tasks ev_w (run_ops ev_w w_ops1 (fresh_state w_spec (w_graph w_retry) [] [])) with
  | (_, Val l) => map o_id l
  | _ => []
  end = ["t2"].
Proof. vm_compute. reflexivity. Qed.

(* the graph hypothesis cannot be dropped either: with two parallel edges t1 -> t2 carrying the SAME
   key (never produced by the composer), the second decision (false) overwrites the first (true)
   after t2 was staged on the first *)
Definition w_graph_dup : graph :=
  {| g_nodes := g_nodes (w_graph JNull);
     g_edges := [{| e_src := "t1"; e_dst := "t2"; e_key := 0; e_ref := 0; e_criteria := [JStr "ok"] |};
                 {| e_src := "t1"; e_dst := "t2"; e_key := 0; e_ref := 0; e_criteria := [JStr "again"] |}] |}.

Example justified_needs_unique_transition_ids :
  ~ Justified w_graph_dup (run_ops ev_w w_ops1 (fresh_state w_spec w_graph_dup [] [])).
Proof.
  intros [_ [_ [_ [Hs _]]]].
  destruct (staged (c_ws (run_ops ev_w w_ops1 (fresh_state w_spec w_graph_dup [] [])))) as [|s l] eqn:Es;
    [vm_compute in Es; discriminate|].
  specialize (Hs s (or_introl eq_refl)). vm_compute in Es. inversion Es; subst s l. clear Es.
  destruct Hs as [_ Hw]. destruct (Hw ((("t1", 0), 0)) (or_introl eq_refl)) as [r' [Hn [_ [_ [Ht _]]]]].
  vm_compute in Hn. inversion Hn; subst r'. vm_compute in Ht. discriminate.
Qed.

(* the definitions, spelled out *)
Lemma justified_unfold : forall g c,
  Justified g c <->
  (c_graph c = g /\ ptr_ok (c_ws c) /\ open_ok (sequence (c_ws c)) /\
   (forall s, In s (staged (c_ws c)) -> jprev g (sequence (c_ws c)) (s_id s) (s_prev s)) /\
   (forall j r, nth_error (sequence (c_ws c)) j = Some r -> jprev g (sequence (c_ws c)) (r_id r) (r_prev r))).
Proof. intros; split; intro H; exact H. Qed.

Lemma witness_unfold : forall g sq dst p,
  witness g sq dst p <->
  exists r', nth_error sq (snd p) = Some r' /\ r_id r' = fst (fst p) /\ decided r' /\
             aget trid_eqb (dst, snd (fst p)) (r_next r') = Some true /\
             exists e, In e (g_edges g) /\ e_src e = fst (fst p) /\ e_dst e = dst /\ e_key e = snd (fst p).
Proof. intros; split; intro H; exact H. Qed.

Lemma call_ok_w_unfold : forall ev c t route evt,
  call_ok_w ev c t route evt <->
  (is_engine_command t = true \/
   (forall c1 u i r, ensure_ws ev c = (c1, u) -> ws_task_idx (c_ws c1) t route = Some i ->
      nth_error (sequence (c_ws c1)) i = Some r -> r_next r = []) \/
   (c_init c = true /\
    forall i r, ws_task_idx (c_ws c) t route = Some i -> nth_error (sequence (c_ws c)) i = Some r ->
      decided r -> r_next r <> [] ->
      (status_in (ev_status evt) STARTING_STATUSES = true /\
       exists s, get_staged_task (c_ws c) t route = Some s /\ s_completed s = false) \/
      is_retry_event evt = false)).
Proof. intros; split; intro H; exact H. Qed.

Lemma call_ok_unfold : forall ev c t route evt,
  call_ok ev c t route evt <->
  (is_engine_command t = true \/
   (forall c1 u i r, ensure_ws ev c = (c1, u) -> ws_task_idx (c_ws c1) t route = Some i ->
      nth_error (sequence (c_ws c1)) i = Some r -> r_next r = []) \/
   (c_init c = true /\
    forall i r, ws_task_idx (c_ws c) t route = Some i -> nth_error (sequence (c_ws c)) i = Some r ->
      decided r -> r_next r <> [] ->
      (status_in (ev_status evt) STARTING_STATUSES = true /\
       exists s, get_staged_task (c_ws c) t route = Some s /\ s_completed s = false) \/
      (is_retry_event evt = false /\ ~ retry_open r))).
Proof. intros; split; intro H; exact H. Qed.

(* the usual case: the event addresses a record that is not completed (or no record at all) *)
Lemma call_ok_open_target : forall ev g c t route evt, c_init c = true -> Justified g c ->
  (forall i r, ws_task_idx (c_ws c) t route = Some i -> nth_error (sequence (c_ws c)) i = Some r -> ~ decided r) ->
  call_ok ev c t route evt.
Proof.
  intros ev g c t route evt Hi [_ [_ [Ho _]]] Hnd. right; left. intros c1 u i r E Hp Hn.
  rewrite (ensure_ws_inited ev c Hi) in E. inversion E; subst c1. eapply Ho; [exact Hn|eapply Hnd; eassumption].
Qed.
